(* Loader.v — the computation of OrthoXMLParser (pyham/parsers.py) together with the Ham helpers
   it calls (_add_missing_taxon, _get_*_genome_*, DuplicationNode.set_MRCA), written as
   structural recursion over the well-nested element tree: hog_stack is the recursion stack,
   the open group's children are the frame, paralog_stack is the `pg` argument.
   Behaviour modelled is that of /repo with findings F1, F2 and F9 repaired.
   Model only: no proofs in this file. *)
From Coq Require Import List Arith Bool String.
From PyHam Require Import Tax Ortho.
Import ListNotations.

(* ---------- state threaded through the parse ---------- *)
Record dupinfo := {
  di_og : option string;          (* DuplicationNode.id *)
  di_mrca : option taxon;         (* DuplicationNode.MRCA (as the taxon of that genome) *)
  di_parent : option nat          (* DuplicationNode.parent (oid of the HOG) *)
}.

Record lstate := {
  s_oid : nat;                              (* fresh HOG object ids *)
  s_dup : nat;                              (* fresh DuplicationNode ids *)
  s_genomes : list taxon;                   (* nodes that carry a genome object, creation order *)
  s_regs : list (taxon * ref);              (* Genome.add_gene calls, in order *)
  s_dups : list (nat * dupinfo);            (* newest first *)
  s_lofts : list (string * string)          (* Gene.set_LOFT calls *)
}.

Definition M (A : Type) := lstate -> result (A * lstate).
Definition ret {A} (a : A) : M A := fun s => Ok (a, s).
Definition fail {A} (e : err) : M A := fun _ => Err e.
Definition bind {A B} (m : M A) (f : A -> M B) : M B :=
  fun s => match m s with
           | Ok (a, s') => f a s'
           | Err e => Err e
           end.
Notation "x <- m ;; k" := (bind m (fun x => k)) (at level 61, m at next level, right associativity).
Notation "m ;;; k" := (bind m (fun _ => k)) (at level 61, right associativity).

Fixpoint mapM {A B} (f : A -> M B) (l : list A) : M (list B) :=
  match l with
  | [] => ret []
  | x :: r => y <- f x ;; ys <- mapM f r ;; ret (y :: ys)
  end.

Fixpoint foldM {A B} (f : B -> A -> M B) (l : list A) (b : B) : M B :=
  match l with
  | [] => ret b
  | x :: r => b' <- f b x ;; foldM f r b'
  end.

Definition mem_tax (p : taxon) (l : list taxon) : bool := existsb (taxon_eqb p) l.

(* Ham._get_ancestral_genome_by_taxon / _get_extant_genome_by_name: create on demand *)
Definition ensure_genome (p : taxon) : M unit := fun s =>
  if mem_tax p (s_genomes s) then Ok (tt, s)
  else Ok (tt, {| s_oid := s_oid s; s_dup := s_dup s; s_genomes := s_genomes s ++ [p];
                  s_regs := s_regs s; s_dups := s_dups s; s_lofts := s_lofts s |}).

Definition register (p : taxon) (r : ref) : M unit := fun s =>
  Ok (tt, {| s_oid := s_oid s; s_dup := s_dup s; s_genomes := s_genomes s;
             s_regs := s_regs s ++ [(p, r)]; s_dups := s_dups s; s_lofts := s_lofts s |}).

Definition fresh_oid : M nat := fun s =>
  Ok (s_oid s, {| s_oid := S (s_oid s); s_dup := s_dup s; s_genomes := s_genomes s;
                  s_regs := s_regs s; s_dups := s_dups s; s_lofts := s_lofts s |}).

Definition fresh_dup (og : option string) : M nat := fun s =>
  Ok (s_dup s, {| s_oid := s_oid s; s_dup := S (s_dup s); s_genomes := s_genomes s;
                  s_regs := s_regs s;
                  s_dups := (s_dup s, {| di_og := og; di_mrca := None; di_parent := None |}) :: s_dups s;
                  s_lofts := s_lofts s |}).

Fixpoint dup_lookup (k : nat) (l : list (nat * dupinfo)) : option dupinfo :=
  match l with
  | [] => None
  | (k', d) :: r => if Nat.eqb k k' then Some d else dup_lookup k r
  end.

Definition dup_update (k : nat) (f : dupinfo -> dupinfo) : M unit := fun s =>
  match dup_lookup k (s_dups s) with
  | Some d => Ok (tt, {| s_oid := s_oid s; s_dup := s_dup s; s_genomes := s_genomes s;
                         s_regs := s_regs s; s_dups := (k, f d) :: s_dups s; s_lofts := s_lofts s |})
  | None => Err Unmodelled
  end.

Definition dup_mrca (k : nat) : M (option taxon) := fun s =>
  Ok (match dup_lookup k (s_dups s) with Some d => di_mrca d | None => None end, s).

Fixpoint assoc (k : string) (l : list (string * string)) : option string :=
  match l with
  | [] => None
  | (k', v) :: r => if String.eqb k k' then Some v else assoc k r
  end.
(* dict semantics for a list of writes: the last write wins *)
Definition assoc_last (k : string) (l : list (string * string)) : option string := assoc k (rev l).

Definition set_loft (g l : string) : M unit := fun s =>
  match assoc g (s_lofts s) with
  | Some _ => Err ValueError                  (* Gene.set_LOFT: already assigned *)
  | None => Ok (tt, {| s_oid := s_oid s; s_dup := s_dup s; s_genomes := s_genomes s;
                       s_regs := s_regs s; s_dups := s_dups s; s_lofts := (g, l) :: s_lofts s |})
  end.
Definition get_loft (g : string) : M (option string) := fun s => Ok (assoc g (s_lofts s), s).

(* ---------- helpers on children ---------- *)
Fixpoint dedup_tax (l : list taxon) : list taxon :=
  match l with
  | [] => []
  | p :: r => if mem_tax p r then dedup_tax r else p :: dedup_tax r
  end.

Definition up_or_fail (p : taxon) : M taxon :=
  match up p with Some q => ret q | None => fail AttributeError end.

Definition hog_id_of (m : hmeta) : option string :=
  match m_id m with Some i => Some i | None => m_og m end.

Definition synth_meta (hid : option string) : hmeta :=
  {| m_id := hid; m_og := None; m_props := []; m_scores := []; m_synth := true |}.

(* hasattr(child,'hog_id') ? child.hog_id : oldest.hog_id   (Ham._add_missing_taxon) *)
Definition chain_id (c : hog) (oldest_id : option string) : M (option string) :=
  match c with
  | HHog _ _ m _ => ret (hog_id_of m)
  | HGene g _ => l <- get_loft g ;; ret (match l with Some x => Some x | None => oldest_id end)
  end.

(* Ham._add_missing_taxon: one single-child HOG per missing level, youngest first.
   fl is the flag on the edge into c. *)
Fixpoint chain (hid : option string) (path : list taxon) (fl : option nat) (c : hog) : M hog :=
  match path with
  | [] => ret c
  | tx :: r =>
      ensure_genome tx ;;;
      o <- fresh_oid ;;
      register tx (RHog o) ;;;
      chain hid r None (HHog o tx (synth_meta hid) [(fl, c)])
  end.

(* DuplicationNode.set_MRCA over the node's current children *)
Definition set_mrca (k : nat) (members : list hog) : M unit :=
  match dedup_tax (map htax members) with
  | [] => fail IndexError
  | [x] =>
      u <- up_or_fail x ;; ensure_genome u ;;;
      dup_update k (fun d => {| di_og := di_og d; di_mrca := Some u; di_parent := di_parent d |})
  | x :: r =>
      let m := fold_left lcs r x in
      ensure_genome m ;;;
      u <- up_or_fail m ;; ensure_genome u ;;;
      dup_update k (fun d => {| di_og := di_og d; di_mrca := Some u; di_parent := di_parent d |})
  end.

(* ---------- the open-group frame ---------- *)
Record frame := {
  f_kids : list kid;
  f_props : list (string * string);
  f_scores : list (string * string)
}.
Definition empty_frame : frame := {| f_kids := []; f_props := []; f_scores := [] |}.
Definition add_kids (fr : frame) (ks : list kid) : frame :=
  {| f_kids := f_kids fr ++ ks; f_props := f_props fr; f_scores := f_scores fr |}.

Inductive closed := Collapsed (ks : list kid) | Node (h : hog).

Definition members_of (k : nat) (ks : list kid) : list hog :=
  map snd (filter (fun kd => match fst kd with Some k' => Nat.eqb k k' | None => false end) ks).
Definition not_member (k : nat) (kd : kid) : bool :=
  match fst kd with Some k' => negb (Nat.eqb k k') | None => true end.

(* duplication nodes among the children, in order of first appearance (child_by_duplication) *)
Fixpoint dup_keys (ks : list kid) (seen : list nat) : list nat :=
  match ks with
  | [] => []
  | (Some k, _) :: r => if existsb (Nat.eqb k) seen then dup_keys r seen else k :: dup_keys r (k :: seen)
  | (None, _) :: r => dup_keys r seen
  end.

(* finding F1 repaired: the group is never placed below the level of a duplication it contains *)
Fixpoint lift_level (ks : list kid) (lvl : taxon) : M taxon :=
  match ks with
  | [] => ret lvl
  | (Some k, _) :: r =>
      m <- dup_mrca k ;;
      match m with
      | Some a => lift_level r (if Nat.ltb (depth a) (depth lvl) then a else lvl)
      | None => lift_level r lvl
      end
  | (None, _) :: r => lift_level r lvl
  end.

(* one copy of a duplication, lifted to just below `target` (Ham._add_missing_taxon) *)
Definition lift_member (hid : option string) (target : taxon) (k : nat) (c : hog) : M kid :=
  cid <- chain_id c hid ;;
  top <- chain cid (path_up (htax c) target) None c ;;
  ret (Some k, top).

(* re-homing of one duplication's copies (parsers.py, "For each duplication") *)
Definition rehome (hid : option string) (hoid : nat) (lvl : taxon) (ks : list kid) (k : nat) : M (list kid) :=
  m <- dup_mrca k ;;
  let members := members_of k ks in
  let rest := filter (not_member k) ks in
  match m with
  | None => fail Unmodelled        (* a flagged child whose paralogGroup never closed: cannot happen *)
  | Some a =>
      if negb (taxon_eqb a lvl) then
        (* intermediate HOG at the duplication's level *)
        ensure_genome a ;;;
        mo <- fresh_oid ;;
        register a (RHog mo) ;;;
        lifted <- mapM (lift_member hid a k) members ;;
        dup_update k (fun d => {| di_og := di_og d; di_mrca := di_mrca d; di_parent := Some mo |}) ;;;
        ret (rest ++ [(None, HHog mo a (synth_meta hid) lifted)])
      else
        dup_update k (fun d => {| di_og := di_og d; di_mrca := di_mrca d; di_parent := Some hoid |}) ;;;
        lifted <- mapM (lift_member hid lvl k) members ;;
        ret (rest ++ lifted)
  end.

(* generic missing-level pass, one child *)
Definition lift_generic (hid : option string) (lvl : taxon) (kd : kid) : M kid :=
  cid <- chain_id (snd kd) hid ;;
  match path_up (htax (snd kd)) lvl with
  | [] => ret kd
  | path => top <- chain cid path (fst kd) (snd kd) ;; ret (None, top)
  end.

Definition adjacent (lvl : taxon) (kd : kid) : bool := Nat.eqb (S (depth lvl)) (depth (htax (snd kd))).

Definition generic_pass (hid : option string) (lvl : taxon) (ks : list kid) : M (list kid) :=
  lifted <- mapM (lift_generic hid lvl) (filter (fun kd => negb (adjacent lvl kd)) ks) ;;
  ret (filter (adjacent lvl) ks ++ lifted).

(* OrthoXMLParser.end for orthologGroup (not in skip mode) *)
Definition close_og (t : stree) (top : bool) (id og : option string) (fr : frame) : M closed :=
  let ks := f_kids fr in
  match dedup_tax (map (fun kd => htax (snd kd)) ks) with
  | [] => fail ValueError
  | x :: more =>
      let collapse :=
        match more, assoc_last "TaxRange" (f_props fr), name_of t x with
        | [], Some v, Some n => String.eqb v n
        | _, _, _ => false
        end in
      if collapse then (if top then fail AttributeError else ret (Collapsed ks))
      else
        lvl0 <- match more with
                | [] => up_or_fail x
                | _ => ret (fold_left lcs more x)
                end ;;
        lvl <- lift_level ks lvl0 ;;
        ensure_genome lvl ;;;
        o <- fresh_oid ;;
        register lvl (RHog o) ;;;
        let meta := {| m_id := match id with Some i => Some i | None => og end; m_og := og;
                       m_props := f_props fr; m_scores := f_scores fr; m_synth := false |} in
        let hid := hog_id_of meta in
        ks1 <- foldM (rehome hid o lvl) (dup_keys ks []) ks ;;
        ks2 <- generic_pass hid lvl ks1 ;;
        ret (Node (HHog o lvl meta ks2))
  end.

(* one element inside an open orthologGroup; pg = the DuplicationNode of the enclosing
   paralogGroup nest, if the element is directly inside one *)
Fixpoint eval_item (t : stree) (genes : list (string * taxon)) (it : item) (pg : option nat) (fr : frame)
  {struct it} : M frame :=
  match it with
  | IGene g loft =>
      match (fix find (l : list (string * taxon)) : option taxon :=
               match l with
               | [] => None
               | (g', p) :: r => if String.eqb g g' then Some p else find r
               end) genes with
      | None => fail KeyError
      | Some p =>
          match loft with Some l => set_loft g l | None => ret tt end ;;;
          ret (add_kids fr [(pg, HGene g p)])
      end
  | IOG id og body =>
      inner <- (fix go (l : list item) (acc : frame) : M frame :=
                  match l with
                  | [] => ret acc
                  | x :: r => acc' <- eval_item t genes x None acc ;; go r acc'
                  end) body empty_frame ;;
      c <- close_og t false id og inner ;;
      match c with
      | Node h => ret (add_kids fr [(pg, h)])
      | Collapsed ks =>
          ret (add_kids fr (match pg with
                            | Some _ => map (fun kd => (pg, snd kd)) ks
                            | None => ks
                            end))
      end
  | IPG og body =>
      k <- match pg with Some k => ret k | None => fresh_dup og end ;;
      fr' <- (fix go (l : list item) (acc : frame) : M frame :=
                match l with
                | [] => ret acc
                | x :: r => acc' <- eval_item t genes x (Some k) acc ;; go r acc'
                end) body fr ;;
      (* finding F9 repaired: the element must have added at least one copy to its duplication *)
      (if Nat.eqb (List.length (members_of k (f_kids fr'))) (List.length (members_of k (f_kids fr)))
       then fail ValueError else ret tt) ;;;
      set_mrca k (members_of k (f_kids fr')) ;;;
      ret fr'
  | IProp n v =>
      ret {| f_kids := f_kids fr; f_props := f_props fr ++ [(n, v)]; f_scores := f_scores fr |}
  | IScore n v =>
      ret {| f_kids := f_kids fr; f_props := f_props fr; f_scores := f_scores fr ++ [(n, v)] |}
  end.

Definition eval_body (t : stree) (genes : list (string * taxon)) (body : list item) (pg : option nat) (fr : frame)
  : M frame :=
  (fix go (l : list item) (acc : frame) : M frame :=
     match l with
     | [] => ret acc
     | x :: r => acc' <- eval_item t genes x pg acc ;; go r acc'
     end) body fr.

(* a top-level <orthologGroup> *)
Definition eval_top (t : stree) (genes : list (string * taxon)) (it : item) : M (option string * hog) :=
  match it with
  | IOG id og body =>
      inner <- eval_body t genes body None empty_frame ;;
      c <- close_og t true id og inner ;;
      match c with
      | Node h => ret (match id with Some i => Some i | None => og end, h)
      | Collapsed _ => fail AttributeError
      end
  | _ => fail Unmodelled
  end.

(* ---------- the species section ---------- *)
Definition load_species (t : stree) (sp : species) (genes : list (string * taxon)) : M (list (string * taxon)) :=
  match search t (sp_name sp) with
  | [p] =>
      if negb (is_leaf t p) then fail TypeError
      else
        ensure_genome p ;;;
        foldM (fun acc g =>
                 if existsb (fun x => String.eqb (gd_id g) (fst x)) acc then fail Unmodelled
                 else register p (RGene (gd_id g)) ;;; ret (acc ++ [(gd_id g, p)]))
              (sp_genes sp) genes
  | _ => fail KeyError
  end.

Record loaded := {
  l_genes : list (string * taxon);              (* extant_gene_map: id -> species *)
  l_tops : list (option string * hog);          (* toplevel_hogs writes, in order (dict: last wins) *)
  l_state : lstate
}.

Definition init_state : lstate :=
  {| s_oid := 0; s_dup := 0; s_genomes := []; s_regs := []; s_dups := []; s_lofts := [] |}.

Definition load (t : stree) (d : doc) : result loaded :=
  let m :=
    genes <- foldM (fun acc sp => load_species t sp acc) (d_species d) [] ;;
    tops <- mapM (eval_top t genes) (d_groups d) ;;
    ret (genes, tops) in
  match m init_state with
  | Ok ((genes, tops), s) => Ok {| l_genes := genes; l_tops := tops; l_state := s |}
  | Err e => Err e
  end.

(* the forest the analysis layers work on: top-level HOGs, and the declared genes no group references *)
Definition singles_of (l : loaded) : list hog :=
  let used := flat_map (fun top => genes_of (snd top)) (l_tops l) in
  map (fun gp => HGene (fst gp) (snd gp))
      (filter (fun gp => negb (existsb (String.eqb (fst gp)) used)) (l_genes l)).
