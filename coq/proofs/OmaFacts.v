(* OmaFacts.v — species_resolve_mode="OMA": the load is the plain load of the renamed document, and
   a species block that names an internal node is accepted only through the unique code-named leaf child. *)
From Coq Require Import List Arith Bool String Lia.
From PyHam Require Import Tax Ortho Loader Oma.
From PyHam.proofs Require Import LoaderFacts NamingFacts.
Import ListNotations.

Lemma load_species_body t sp genes :
  load_species t sp genes =
  match search t (sp_name sp) with
  | [p] => if negb (is_leaf t p) then fail TypeError else species_body p sp genes
  | _ => fail KeyError
  end.
Proof. reflexivity. Qed.

(* the names of the nodes the species blocks end up on identify those nodes *)
Definition oma_names_ok (t : stree) (sp : species) : Prop :=
  forall p, search t (sp_name sp) = [p] ->
  exists n, name_of t (oma_target t p) = Some n /\ search t n = [oma_target t p].

Lemma load_species_oma_plain t sp genes :
  oma_names_ok t sp -> load_species_oma t sp genes = load_species t (oma_species t sp) genes.
Proof.
  intros Hok. rewrite load_species_body. unfold load_species_oma, oma_species.
  destruct (search t (sp_name sp)) as [|p [|q r]] eqn:Es.
  - rewrite Es. reflexivity.
  - destruct (Hok p Es) as (n & Hn & Hs). rewrite Hn. cbn [sp_name]. rewrite Hs. reflexivity.
  - rewrite Es. reflexivity.
Qed.

Lemma foldM_ext_in {A B} (f g : B -> A -> M B) l :
  (forall x, In x l -> forall b s, f b x s = g b x s) -> forall b s, foldM f l b s = foldM g l b s.
Proof.
  induction l as [|x r IH]; intros H b s; [reflexivity|]. cbn [foldM]. unfold bind.
  rewrite (H x (or_introl eq_refl) b s). destruct (g b x s) as [[b' s']|e]; [|reflexivity].
  apply IH. intros y Hy. apply H. right. exact Hy.
Qed.

Lemma foldM_map {A A' B} (f : B -> A' -> M B) (h : A -> A') l : forall b s,
  foldM f (map h l) b s = foldM (fun b x => f b (h x)) l b s.
Proof.
  induction l as [|x r IH]; intros b s; [reflexivity|]. cbn [map foldM]. unfold bind.
  destruct (f b (h x) s) as [[b' s']|e]; [apply IH|reflexivity].
Qed.

Theorem load_oma_plain t d :
  Forall (oma_names_ok t) (d_species d) -> load_oma t d = load t (oma_doc t d).
Proof.
  intros Hok.
  assert (E : forall s, foldM (fun acc sp => load_species_oma t sp acc) (d_species d) [] s =
                        foldM (fun acc sp => load_species t sp acc) (map (oma_species t) (d_species d)) [] s).
  { intros s. rewrite foldM_map. apply foldM_ext_in. intros sp Hsp b s0. rewrite Forall_forall in Hok.
    rewrite load_species_oma_plain by (apply Hok; exact Hsp). reflexivity. }
  unfold load_oma, load, oma_doc. cbn [d_species d_groups]. unfold bind. rewrite E. reflexivity.
Qed.

(* when every species block names a leaf, OMA mode changes nothing *)
Lemma oma_species_leaf t sp :
  (forall p, search t (sp_name sp) = [p] -> is_leaf t p = true) ->
  forall genes, load_species_oma t sp genes = load_species t sp genes.
Proof.
  intros Hl genes. rewrite load_species_body. unfold load_species_oma.
  destruct (search t (sp_name sp)) as [|p [|q r]] eqn:Es; try reflexivity.
  unfold oma_target. rewrite !(Hl p eq_refl). reflexivity.
Qed.

Theorem load_oma_leaves t d :
  (forall sp, In sp (d_species d) -> forall p, search t (sp_name sp) = [p] -> is_leaf t p = true) ->
  load_oma t d = load t d.
Proof.
  intros Hl.
  assert (E : forall s, foldM (fun acc sp => load_species_oma t sp acc) (d_species d) [] s =
                        foldM (fun acc sp => load_species t sp acc) (d_species d) [] s).
  { intros s. apply foldM_ext_in. intros sp Hsp b s0. rewrite oma_species_leaf by (apply Hl; exact Hsp). reflexivity. }
  unfold load_oma, load. unfold bind. rewrite E. reflexivity.
Qed.

(* ---------- what a successful OMA-mode load says about the species section ---------- *)
Definition oma_resolves (t : stree) (sp : species) (q : taxon) : Prop :=
  exists p, search t (sp_name sp) = [p] /\ q = oma_target t p /\ is_leaf t q = true.

Lemma species_body_ok q sp genes s genes' s' :
  species_body q sp genes s = Ok (genes', s') -> True.
Proof. trivial. Qed.

Lemma oma_fold_resolves t sps : forall acc s acc' s',
  foldM (fun acc sp => load_species_oma t sp acc) sps acc s = Ok (acc', s') ->
  forall sp, In sp sps -> exists q, oma_resolves t sp q.
Proof.
  induction sps as [|sp r IH]; intros acc s acc' s' H sp' Hin; [contradiction|].
  cbn [foldM] in H. inv_bind_as H acc1 t1 E1 K1. destruct Hin as [<-|Hin]; [|eapply IH; eauto].
  unfold load_species_oma in E1. destruct (search t (sp_name sp)) as [|p [|q r']] eqn:Es; try discriminate.
  destruct (is_leaf t (oma_target t p)) eqn:El; [|discriminate].
  exists (oma_target t p), p. auto.
Qed.

Theorem oma_success_means_sound t d l :
  load_oma t d = Ok l -> forall sp, In sp (d_species d) -> exists q, oma_resolves t sp q.
Proof.
  unfold load_oma. intros H.
  match type of H with context [match ?m init_state with _ => _ end] => destruct (m init_state) as [[[genes tops] s]|e] eqn:Em end; [|discriminate].
  inv_bind_as Em genes0 t1 E1 K1. eapply oma_fold_resolves; eauto.
Qed.

(* an internal node is accepted only through its unique code-named child, which must be a leaf *)
Lemma oma_internal t p :
  is_leaf t p = false -> is_leaf t (oma_target t p) = true ->
  exists s k, sub t p = Some s /\ code_kids 0 (skids s) = [k] /\ oma_target t p = k :: p.
Proof.
  intros Hi Hl. unfold oma_target in *. rewrite Hi in *. unfold oma_resolve in *.
  destruct (sub t p) as [s|] eqn:Es; [|congruence].
  destruct (code_kids 0 (skids s)) as [|k [|k' r]] eqn:Ec; try congruence.
  exists s, k. auto.
Qed.

Theorem oma_internal_rejected t d sp p :
  In sp (d_species d) -> search t (sp_name sp) = [p] -> is_leaf t p = false ->
  (forall s k, sub t p = Some s -> code_kids 0 (skids s) = [k] -> is_leaf t (k :: p) = false) ->
  exists e, load_oma t d = Err e.
Proof.
  intros Hin Hs Hi Hno. destruct (load_oma t d) as [l|e] eqn:E; [|eauto]. exfalso.
  destruct (oma_success_means_sound t d l E sp Hin) as (q & p' & Hs' & -> & Hl).
  rewrite Hs in Hs'. inversion Hs'; subst p'.
  destruct (oma_internal t p Hi Hl) as (s & k & Hsub & Hc & Ht). rewrite Ht in Hl.
  rewrite (Hno s k Hsub Hc) in Hl. discriminate.
Qed.
