(* C14 — results do not depend on how the file happens to be written. *)
From Coq Require Import List Arith Bool String Permutation.
From PyHam Require Import Tax Ortho Loader Mapper Preds Hist Filter.
From PyHam.proofs Require Import LoaderFacts ExplicitFacts FilterFacts NamingFacts.
Import ListNotations.

(* PARTIAL (see DESIGN.md, C14).  The listed rewritings are covered as follows.
   Proved:
   - order of members, of lineages and of families in a fully explicit file: every ordering of the
     explicit encoding of a history h loads to a hierarchy x with `matches h x`, and `matches` does
     not mention the order of children (it is stated up to Permutation), so two such files give
     hierarchies matching the same history (c14_explicit_any_order);
   - order of the families with respect to a filter (c14_family_order);
   - the member genes of every family are independent of the spelling altogether: whatever nesting,
     labels or bracketing, they are the genes referenced in the group (c14_members_any_spelling).
   Not proved (correspondence + oracle only): omission / spelling-out of single-member levels, nested
   vs flat paralogGroups, TaxRange labels on internal levels, species-level wrappers.  Hash seed and
   set iteration order do not exist in the model: every place where the code iterates a set is
   compared order-free, and the check re-runs the real code under several PYTHONHASHSEED values. *)
Theorem c14_explicit_any_order : forall t genes h,
  WFh t genes h ->
  forall pg fr s, dups_dom s ->
    exists x s', eval_item t genes (enc h) pg fr s = Ok (add_kids fr [(pg, x)], s') /\
                 matches h x /\ (htax x = xtax h /\ wf_node t x = true) /\ ext s s' /\ dups_dom s'.
Proof. exact enc_evaluates. Qed.
Print Assumptions c14_explicit_any_order.

Theorem c14_family_order : forall f direct gs gs',
  Permutation gs gs' ->
  Permutation (flat_map group_id (filter (selected f direct) gs)) (flat_map group_id (filter (selected f direct) gs')).
Proof. exact selection_position_independent. Qed.
Print Assumptions c14_family_order.

Theorem c14_members_any_spelling : forall t genes it s i h s',
  eval_top t genes it s = Ok ((i, h), s') -> Permutation (genes_of h) (refs_of it).
Proof.
  intros t genes it s i h s' H. apply eval_top_spec in H as (id & og & body & _ & _ & Hp & _). exact Hp.
Qed.
Print Assumptions c14_members_any_spelling.

Local Open Scope string_scope.
Definition tr : stree := SNode "R" [SNode "A" []; SNode "B" []; SNode "C" []].
Definition genes0 : list (string * taxon) := [("a1", [0]); ("a2", [0]); ("b1", [1]); ("c1", [2])].
(* the same history with lineages and copies in another order is again a well-formed history *)
Example c14_nonvacuous :
  WFh tr genes0 (XH [] [[XG "a1" [0]; XG "a2" [0]]; [XG "b1" [1]]; [XG "c1" [2]]]) /\
  WFh tr genes0 (XH [] [[XG "c1" [2]]; [XG "a2" [0]; XG "a1" [0]]; [XG "b1" [1]]]).
Proof. cbn. repeat split; try discriminate; try reflexivity; repeat constructor; simpl; intuition discriminate. Qed.
