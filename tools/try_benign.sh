#!/bin/bash
# try_benign.sh <abs patch> : apply a behaviour-preserving change to /repo, run ALL quick checks, revert; prints any alarm
cd /verif
git -C /repo apply "$1" || exit 9
for i in 01 02 03 04 05 06 07 08 09 10 11 12 13 14 15 16 17 18 19 20; do
  out=$(./check C$i --no-build 2>&1)
  n=$(echo "$out" | grep -c "^VIOLATION")
  if ! echo "$out" | grep -q "^C$i quick:"; then echo "C$i: DID NOT COMPLETE"; echo "$out" | tail -3;
  elif [ "$n" != "0" ]; then echo "C$i: $n ALARM(S)"; echo "$out" | grep "^#" | sort | uniq -c | head -3; fi
done
git -C /repo checkout -- .
git -C /repo status --short | grep -v egg-info
echo BENIGN-DONE
