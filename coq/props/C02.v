(* C02 — the HOG hierarchy is a forest aligned level-by-level with the species tree. *)
From Coq Require Import List Arith Bool String Permutation.
From PyHam Require Import Tax Ortho Loader Mapper Preds Filter Hist Spell Whole.
From PyHam.proofs Require Import LoaderFacts ExplicitFacts SpellFacts OidFacts WholeFacts.
Import ListNotations.

(* The alignment theorem, for every consistent input: every species tree, every well-formed history
   (Hist.WFh: any arity, depth, number of families and duplications - no bound) and every permitted
   spelling of it (Spell.spells_top: single-lineage levels left out in any combination, a HOG that consists
   of one duplication spelt as that duplication's paralogGroup nest, copies several levels below their
   group, paralogGroups nested in any bracketing, species-level wrapper groups, any ids, annotations
   anywhere, TaxRange labels), in every order of members (histories are ordered lists and every order is
   quantified over); geneRefs may carry LOFT attributes, every gene being referenced at most once.
   Statement: the document loads, every top-level HOG represents its history (matches) and satisfies
   wf_node: every HOG has a child; each child lives at a direct child taxon of its parent's taxon; genes at
   leaves, HOGs at internal nodes; two children at one taxon are copies of one duplication; every
   duplication groups at least two children of the HOG it is attached to, all at one taxon; a child is
   flagged exactly when it belongs to such an event. *)
Theorem c02_aligned : forall t d hs,
  Forall (species_sane t) (d_species d) -> NoDup (declared d) -> NoDup (flat_map refs_of (d_groups d)) ->
  Forall2 (spells_top t) hs (d_groups d) ->
  (forall genes, map fst genes = declared d ->
     (forall g p, In (g, p) genes -> exists sp, In sp (d_species d) /\ In g (map gd_id (sp_genes sp)) /\ species_resolves t sp p) ->
     Forall (WFh t genes) hs) ->
  exists l, load t d = Ok l /\
    Forall2 (fun h top => matches h (snd top) /\ htax (snd top) = xtax h /\ wf_node t (snd top) = true) hs (l_tops l).
Proof. exact spelt_load. Qed.
Print Assumptions c02_aligned.

(* the whole forest: for every consistent input (WholeFacts.consistent: species blocks name leaves, genes
   declared once and referenced at most once, groups are permitted spellings of well-formed histories) the
   forest handed to the analysis layers - top-level HOGs and singletons - satisfies wfbc: every root aligned
   (wf_node), top-level HOGs are HOGs, singletons are genes at leaves, all HOG objects pairwise different
   (each is created once and registered once: OidFacts), every gene id occurs once (a gene has one parent and
   is reachable from exactly one top-level HOG, or is a singleton).  wfbc is the hypothesis of the theorems
   of C05-C10 and C16, which therefore hold for every consistent input. *)
Theorem c02_consistent_forest : forall t d hs,
  consistent t d hs ->
  exists l, load t d = Ok l /\ wfbc t (forest_of l) = true /\
    Forall2 (fun h top => matches h (snd top) /\ htax (snd top) = xtax h /\ wf_node t (snd top) = true) hs (l_tops l).
Proof. exact consistent_forest. Qed.
Print Assumptions c02_consistent_forest.

(* the fully explicit encoding is one of the spellings, so this is an instance: *)
Theorem c02_aligned_explicit : forall t d hs,
  Forall (species_sane t) (d_species d) -> NoDup (declared d) -> d_groups d = map enc hs ->
  (forall genes, map fst genes = declared d ->
     (forall g p, In (g, p) genes -> exists sp, In sp (d_species d) /\ In g (map gd_id (sp_genes sp)) /\ species_resolves t sp p) ->
     Forall (fun h => WFh t genes h /\ is_group h) hs) ->
  exists l, load t d = Ok l /\
    Forall2 (fun h top => matches h (snd top) /\ htax (snd top) = xtax h /\ wf_node t (snd top) = true) hs (l_tops l).
Proof. exact explicit_load. Qed.
Print Assumptions c02_aligned_explicit.

(* unconditional part (any document that loads): every group that closes has at least one child and
   its member genes are exactly the genes referenced inside it - no node is orphaned or shared *)
Theorem c02_no_empty_hog : forall t d l, load t d = Ok l -> Forall item_ok (d_groups d).
Proof. exact groups_ok. Qed.
Print Assumptions c02_no_empty_hog.

Local Open Scope string_scope.
Definition tr : stree :=
  SNode "R" [SNode "X" []; SNode "M" [SNode "E" [SNode "H" []; SNode "P" []]; SNode "C" []]].
Definition genes0 : list (string * taxon) := [("h1", [0; 0; 1]); ("h2", [0; 0; 1]); ("p1", [1; 0; 1]); ("c1", [1; 1]); ("x1", [0])].
(* a family with a duplication on the branch M -> E: the history is well formed, its encoding loads aligned *)
Definition h0 : hist :=
  XH [] [[XG "x1" [0]];
         [XH [1] [[XH [0; 1] [[XG "h1" [0; 0; 1]]; [XG "p1" [1; 0; 1]]]; XH [0; 1] [[XG "h2" [0; 0; 1]]]];
                  [XG "c1" [1; 1]]]]].
Example c02_nonvacuous : WFh tr genes0 h0.
Proof.
  cbn. repeat split; try discriminate; try reflexivity; repeat constructor; simpl; intuition discriminate.
Qed.
