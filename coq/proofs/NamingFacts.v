(* NamingFacts.v — the loader uses node names only to resolve species and in the TaxRange collapse
   test; two namings of one tree that agree there give the same load (C13, naming part). *)
From Coq Require Import List Arith Bool String Lia Permutation.
From PyHam Require Import Tax Ortho Loader.
From PyHam.proofs Require Import TaxFacts MapperFacts ForestFacts LoaderFacts AnnotFacts.
Import ListNotations.


(* a TaxRange value that compares the same way with the names of both trees at every node *)
Definition label_agrees (t1 t2 : stree) (v : string) : Prop :=
  forall x, (match name_of t1 x with Some n => String.eqb v n | None => false end) =
            (match name_of t2 x with Some n => String.eqb v n | None => false end).

Definition props_agree (t1 t2 : stree) (ps : list (string * string)) : Prop :=
  forall v, assoc_last "TaxRange" ps = Some v -> label_agrees t1 t2 v.

Fixpoint labels_agree (t1 t2 : stree) (it : item) : Prop :=
  match it with
  | IProp n v => n = "TaxRange"%string -> label_agrees t1 t2 v
  | IOG _ _ body => (fix all (l : list item) : Prop := match l with [] => True | x :: r => labels_agree t1 t2 x /\ all r end) body
  | IPG _ body => (fix all (l : list item) : Prop := match l with [] => True | x :: r => labels_agree t1 t2 x /\ all r end) body
  | _ => True
  end.

Lemma labels_all t1 t2 l :
  (fix all (l : list item) : Prop := match l with [] => True | x :: r => labels_agree t1 t2 x /\ all r end) l
  <-> Forall (labels_agree t1 t2) l.
Proof.
  induction l as [|x r IH].
  - split; intros; [constructor|exact I].
  - split.
    + intros [H1 H2]. constructor; [exact H1|apply IH; exact H2].
    + intros H. inversion H; subst. split; [assumption|apply IH; assumption].
Qed.

Lemma assoc_last_app_single k ps n v :
  assoc_last k (ps ++ [(n, v)]) = if String.eqb k n then Some v else assoc_last k ps.
Proof. unfold assoc_last. rewrite rev_app_distr. simpl. reflexivity. Qed.

(* own TaxRange labels of an element keep a frame's labels agreeing *)
Lemma own_props_agree t1 t2 it : labels_agree t1 t2 it -> forall ps, props_agree t1 t2 ps -> props_agree t1 t2 (ps ++ own_props it).
Proof.
  induction it as [g l|id og body IH|og body IH|n v|n v] using item_ind'; intros Hl ps Hp; cbn [own_props]; try (rewrite app_nil_r; exact Hp).
  - cbn [labels_agree] in Hl. apply (labels_all t1 t2) in Hl.
    revert ps Hp. induction IH as [|x r Hx Hr IHr]; intros ps Hp; simpl; [rewrite app_nil_r; exact Hp|].
    inversion Hl; subst. rewrite app_assoc. apply IHr; auto.
  - cbn [labels_agree] in Hl. intros w Hw. rewrite assoc_last_app_single in Hw.
    destruct (String.eqb "TaxRange" n) eqn:E; [|apply Hp; exact Hw].
    inversion Hw; subst. apply Hl. apply String.eqb_eq in E. now subst.
Qed.

Lemma flat_own_props_agree t1 t2 l : Forall (labels_agree t1 t2) l ->
  forall ps, props_agree t1 t2 ps -> props_agree t1 t2 (ps ++ flat_map own_props l).
Proof.
  induction 1 as [|x r Hx Hr IH]; intros ps Hp; simpl; [rewrite app_nil_r; exact Hp|].
  rewrite app_assoc. apply IH. apply own_props_agree; auto.
Qed.

(* the group-closing handler does not see the difference *)
Lemma close_og_same t1 t2 top id og fr : props_agree t1 t2 (f_props fr) -> forall s, close_og t1 top id og fr s = close_og t2 top id og fr s.
Proof.
  intros Hp s. unfold close_og. destruct (dedup_tax (map (fun kd => htax (snd kd)) (f_kids fr))) as [|x more]; [reflexivity|].
  assert (E : (match more, assoc_last "TaxRange" (f_props fr), name_of t1 x with
               | [], Some v, Some n => String.eqb v n | _, _, _ => false end) =
              (match more, assoc_last "TaxRange" (f_props fr), name_of t2 x with
               | [], Some v, Some n => String.eqb v n | _, _, _ => false end)).
  { destruct more; [|reflexivity]. destruct (assoc_last "TaxRange" (f_props fr)) as [v|] eqn:Ea.
    - exact (Hp v Ea x).
    - destruct (name_of t1 x), (name_of t2 x); reflexivity. }
  rewrite E. reflexivity.
Qed.

Definition item_same (t1 t2 : stree) (genes : list (string * taxon)) (it : item) : Prop :=
  labels_agree t1 t2 it -> forall pg fr s, props_agree t1 t2 (f_props fr) -> eval_item t1 genes it pg fr s = eval_item t2 genes it pg fr s.

Lemma body_same t1 t2 genes pg l : Forall (item_same t1 t2 genes) l -> Forall (labels_agree t1 t2) l ->
  forall acc s, props_agree t1 t2 (f_props acc) ->
  (fix go (l : list item) (acc : frame) : M frame :=
     match l with [] => ret acc | x :: r => bind (eval_item t1 genes x pg acc) (fun acc' => go r acc') end) l acc s =
  (fix go (l : list item) (acc : frame) : M frame :=
     match l with [] => ret acc | x :: r => bind (eval_item t2 genes x pg acc) (fun acc' => go r acc') end) l acc s.
Proof.
  induction 1 as [|x r Hx Hr IH]; intros Hl acc s Hp; [reflexivity|]. inversion Hl as [|? ? Hlx Hlr]; subst.
  unfold bind. rewrite <- (Hx Hlx pg acc s Hp).
  destruct (eval_item t1 genes x pg acc s) as [[acc' s']|e] eqn:E; [|reflexivity].
  apply IH; auto. destruct (eval_item_annots t1 genes x pg acc s acc' s' E) as [Pp _]. rewrite Pp.
  apply own_props_agree; auto.
Qed.

Lemma bind_cong {A B} (m1 m2 : M A) (f1 f2 : A -> M B) s :
  m1 s = m2 s -> (forall a s', m1 s = Ok (a, s') -> f1 a s' = f2 a s') -> bind m1 f1 s = bind m2 f2 s.
Proof.
  intros Hm Hf. unfold bind. rewrite <- Hm. destruct (m1 s) as [[a s']|e]; [apply Hf; reflexivity|reflexivity].
Qed.

Lemma eval_item_same t1 t2 genes it : item_same t1 t2 genes it.
Proof.
  induction it as [g l|id og body IH|og body IH|n v|n v] using item_ind'; intros Hl pg fr s Hp; try reflexivity.
  - cbn [eval_item]. cbn [labels_agree] in Hl. apply (labels_all t1 t2) in Hl.
    assert (Hp0 : props_agree t1 t2 (f_props empty_frame)) by (intros v H; discriminate).
    apply bind_cong; [apply (body_same t1 t2 genes None body IH Hl empty_frame s Hp0)|].
    intros inner s1 E.
    assert (Hpi : props_agree t1 t2 (f_props inner)).
    { assert (IH1 : Forall (item_annots t1 genes) body) by (apply Forall_forall; intros x _; apply eval_item_annots).
      destruct (body_annots t1 genes None body empty_frame s inner s1 IH1 E) as [Pp _]. simpl in Pp. rewrite Pp.
      apply (flat_own_props_agree t1 t2 body Hl []). intros v H; discriminate. }
    apply bind_cong; [apply (close_og_same t1 t2 false id og inner Hpi s1)|]. intros; reflexivity.
  - cbn [eval_item]. cbn [labels_agree] in Hl. apply (labels_all t1 t2) in Hl.
    apply bind_cong; [reflexivity|]. intros k s1 _.
    apply bind_cong; [apply (body_same t1 t2 genes (Some k) body IH Hl fr s1 Hp)|]. intros; reflexivity.
Qed.

(* whole documents: species resolution must agree as well *)
Definition species_agree (t1 t2 : stree) (d : doc) : Prop :=
  (forall p, is_leaf t1 p = is_leaf t2 p) /\ (forall sp, In sp (d_species d) -> search t1 (sp_name sp) = search t2 (sp_name sp)).

Lemma load_species_same t1 t2 sp genes s :
  (forall p, is_leaf t1 p = is_leaf t2 p) -> search t1 (sp_name sp) = search t2 (sp_name sp) ->
  load_species t1 sp genes s = load_species t2 sp genes s.
Proof. intros Hl Hs. unfold load_species. rewrite Hs. destruct (search t2 (sp_name sp)) as [|p [|q r]]; try reflexivity. now rewrite Hl. Qed.

Theorem names_irrelevant t1 t2 d :
  species_agree t1 t2 d -> Forall (labels_agree t1 t2) (d_groups d) -> load t1 d = load t2 d.
Proof.
  intros [Hl Hs] Hlab. unfold load.
  assert (E : forall s,
    bind (foldM (fun acc sp => load_species t1 sp acc) (d_species d) [])
         (fun genes => bind (mapM (eval_top t1 genes) (d_groups d)) (fun tops => ret (genes, tops))) s =
    bind (foldM (fun acc sp => load_species t2 sp acc) (d_species d) [])
         (fun genes => bind (mapM (eval_top t2 genes) (d_groups d)) (fun tops => ret (genes, tops))) s).
  { intros s. apply bind_cong.
    - generalize (@nil (string * taxon)) as acc. revert s. induction (d_species d) as [|sp r IH]; intros s acc; [reflexivity|].
      cbn [foldM]. apply bind_cong; [apply load_species_same; [exact Hl|apply Hs; left; reflexivity]|].
      intros acc' s' _. apply IH. intros sp' H. apply Hs. right. exact H.
    - intros genes s' _. apply bind_cong; [|intros; reflexivity].
      clear - Hlab. revert s'. induction Hlab as [|x r Hx Hr IH]; intros s'; [reflexivity|].
      cbn [mapM]. apply bind_cong.
      + destruct x as [g l|id og body|og body|n v|n v]; try reflexivity.
        cbn [eval_top]. unfold eval_body. cbn [labels_agree] in Hx. apply (labels_all t1 t2) in Hx.
        assert (Hp0 : props_agree t1 t2 (f_props empty_frame)) by (intros v H; discriminate).
        assert (IHb : Forall (item_same t1 t2 genes) body) by (apply Forall_forall; intros y _; apply eval_item_same).
        apply bind_cong; [apply (body_same t1 t2 genes None body IHb Hx empty_frame s' Hp0)|].
        intros inner s1 E.
        assert (Hpi : props_agree t1 t2 (f_props inner)).
        { assert (IH1 : Forall (item_annots t1 genes) body) by (apply Forall_forall; intros y _; apply eval_item_annots).
          destruct (body_annots t1 genes None body empty_frame s' inner s1 IH1 E) as [Pp _]. simpl in Pp. rewrite Pp.
          apply (flat_own_props_agree t1 t2 body Hx []). intros v H; discriminate. }
        apply bind_cong; [apply (close_og_same t1 t2 true id og inner Hpi s1)|]. intros; reflexivity.
      + intros top s1 _. apply bind_cong; [apply IH|intros; reflexivity]. }
  rewrite (E init_state). reflexivity.
Qed.
