(* ExplicitFacts.v — loading the fully explicit encoding of a well-formed history succeeds, gives
   back the history (levels, duplication grouping) and an aligned hierarchy (C02/C03, explicit case). *)
From Coq Require Import List Arith Bool String Lia Permutation.
From PyHam Require Import Tax Ortho Loader Mapper Preds Hist.
From PyHam.proofs Require Import TaxFacts MapperFacts ForestFacts LoaderFacts.
Import ListNotations.

(* ---------- taxon arithmetic ---------- *)
Lemma path_up_child a p : path_up (a :: p) p = [].
Proof. simpl. now rewrite taxon_eqb_refl. Qed.

Lemma lcs_child_l a p : lcs (a :: p) p = p.
Proof. rewrite lcs_comm. apply (lcs_suffix p [a]). Qed.

Lemma lcp_snoc_diff r a b : a <> b -> lcp (r ++ [a]) (r ++ [b]) = r.
Proof.
  intros Hab. induction r as [|x r IH]; simpl.
  - destruct (Nat.eqb a b) eqn:E; [apply Nat.eqb_eq in E; contradiction|reflexivity].
  - rewrite Nat.eqb_refl. now rewrite IH.
Qed.

Lemma lcs_siblings a b p : a <> b -> lcs (a :: p) (b :: p) = p.
Proof.
  intros Hab. unfold lcs. simpl. rewrite lcp_snoc_diff by exact Hab. apply rev_involutive.
Qed.

Lemma lcs_children a b p : lcs (a :: p) (b :: p) = if Nat.eqb a b then a :: p else p.
Proof.
  destruct (Nat.eqb a b) eqn:E.
  - apply Nat.eqb_eq in E. subst. apply lcs_refl.
  - apply lcs_siblings. intros ->. rewrite Nat.eqb_refl in E. discriminate.
Qed.

(* the MRCA of a list of children of p: one of them when all equal, p otherwise *)
Definition is_child_of (p : taxon) (q : taxon) : Prop := exists a, q = a :: p.

Lemma fold_lcs_p p l : Forall (is_child_of p) l -> fold_left lcs l p = p.
Proof.
  induction 1 as [|q l [a ->] Hl IH]; simpl; [reflexivity|]. rewrite lcs_comm, lcs_child_l. exact IH.
Qed.

Lemma fold_lcs_children p x l :
  is_child_of p x -> Forall (is_child_of p) l ->
  fold_left lcs l x = x /\ Forall (fun q => q = x) l \/ fold_left lcs l x = p.
Proof.
  intros [a ->] Hl. revert a. induction Hl as [|q l [b ->] Hl IH]; intros a; simpl.
  - left. split; [reflexivity|constructor].
  - rewrite lcs_children. destruct (Nat.eqb a b) eqn:E.
    + apply Nat.eqb_eq in E. subst b. destruct (IH a) as [[H1 H2]|H]; [left|right; exact H].
      split; [exact H1|constructor; auto].
    + right. apply fold_lcs_p. exact Hl.
Qed.

Lemma dedup_tax_in l x : In x (dedup_tax l) <-> In x l.
Proof.
  induction l as [|p r IH]; simpl; [tauto|].
  destruct (mem_tax p r) eqn:E.
  - rewrite IH. split; [auto|]. intros [<-|H]; auto.
    unfold mem_tax in E. apply existsb_exists in E as (y & Hy & Ey). apply taxon_eqb_eq in Ey. now subst.
  - simpl. rewrite IH. tauto.
Qed.

Lemma dedup_tax_nodup l : NoDup (dedup_tax l).
Proof.
  induction l as [|p r IH]; simpl; [constructor|].
  destruct (mem_tax p r) eqn:E; [exact IH|]. constructor; [|exact IH].
  intros H. apply (proj1 (dedup_tax_in r p)) in H.
  assert (mem_tax p r = true); [|congruence].
  unfold mem_tax. apply existsb_exists. exists p. split; [exact H|apply taxon_eqb_refl].
Qed.

Lemma dedup_tax_single l x : l <> [] -> Forall (fun q => q = x) l -> dedup_tax l = [x].
Proof.
  intros Hne Hall. pose proof (dedup_tax_nodup l) as Hn.
  assert (Hin : forall y, In y (dedup_tax l) -> y = x).
  { intros y Hy. apply (proj1 (dedup_tax_in l y)) in Hy. rewrite Forall_forall in Hall. auto. }
  assert (Hx : In x (dedup_tax l)).
  { apply dedup_tax_in. destruct l as [|q r]; [contradiction|]. inversion Hall; subst. left. reflexivity. }
  destruct (dedup_tax l) as [|y [|z r]]; [contradiction| |].
  - f_equal. apply Hin. left. reflexivity.
  - exfalso. assert (y = x) by (apply Hin; left; reflexivity). assert (z = x) by (apply Hin; right; left; reflexivity).
    subst. apply NoDup_cons_iff in Hn as [Hnin _]. apply Hnin. left. reflexivity.
Qed.

(* the level inferred for a group whose children all sit at child taxa of p *)
Lemma level_of_children p l :
  l <> [] -> Forall (is_child_of p) l ->
  match dedup_tax l with
  | [] => False
  | x :: more => match more with [] => up x = Some p | _ => fold_left lcs more x = p end
  end.
Proof.
  intros Hne Hall.
  assert (Hd : Forall (is_child_of p) (dedup_tax l)).
  { rewrite Forall_forall in *. intros y Hy. apply (proj1 (dedup_tax_in l y)) in Hy. auto. }
  pose proof (dedup_tax_nodup l) as Hn.
  destruct (dedup_tax l) as [|x more] eqn:E.
  - destruct l as [|q r]; [contradiction|]. assert (In q (dedup_tax (q :: r))) by (apply dedup_tax_in; left; reflexivity).
    rewrite E in H. contradiction.
  - inversion Hd as [|? ? Hx Hm]; subst. destruct more as [|y more'].
    + destruct Hx as [a ->]. reflexivity.
    + destruct (fold_lcs_children p x (y :: more') Hx Hm) as [[_ Hall']|H]; [|exact H].
      exfalso. inversion Hall' as [|? ? Hyx Hrest]; subst. apply NoDup_cons_iff in Hn as [Hnin _]. apply Hnin. left. reflexivity.
Qed.

(* ---------- siblings_ok, order-free ---------- *)
Definition sibR (a b : kid) : Prop :=
  htax (snd a) = htax (snd b) -> flagged (fst a) = true /\ fst a = fst b.

Lemma opt_nat_eqb_eq a b : opt_nat_eqb a b = true <-> a = b.
Proof.
  destruct a as [x|], b as [y|]; simpl; split; intros H; try discriminate; try reflexivity.
  - apply Nat.eqb_eq in H. now subst.
  - inversion H. apply Nat.eqb_refl.
Qed.

Lemma sibR_sym a b : sibR a b -> sibR b a.
Proof.
  unfold sibR. intros H E. symmetry in E. destruct (H E) as [Hf He]. rewrite <- He. auto.
Qed.

Lemma siblings_ok_iff ks : siblings_ok ks = true <-> ForallOrdPairs sibR ks.
Proof.
  induction ks as [|[f c] r IH]; simpl.
  - split; [constructor|reflexivity].
  - rewrite andb_true_iff, IH, forallb_forall. split.
    + intros [H1 H2]. constructor; [|exact H2]. apply Forall_forall. intros k' Hk' E.
      specialize (H1 k' Hk'). simpl in E. rewrite <- E, taxon_eqb_refl in H1.
      apply andb_true_iff in H1 as [Hf He]. apply opt_nat_eqb_eq in He. auto.
    + intros H. inversion H as [|? ? Hx Hr]; subst. split; [|exact Hr].
      intros k' Hk'. destruct (taxon_eqb (htax (snd k')) (htax c)) eqn:E; [|reflexivity].
      apply taxon_eqb_eq in E. rewrite Forall_forall in Hx. destruct (Hx k' Hk') as [Hf He]; [simpl; auto|].
      simpl in *. rewrite Hf. apply opt_nat_eqb_eq in He. rewrite He. reflexivity.
Qed.

Lemma FOP_perm {X} (R : X -> X -> Prop) (l l' : list X) :
  (forall a b, R a b -> R b a) -> Permutation l l' -> ForallOrdPairs R l -> ForallOrdPairs R l'.
Proof.
  intros Hsym Hp. induction Hp as [| x l l' Hp IH | x y l | l l' l'' H1 IH1 H2 IH2]; intros H.
  - exact H.
  - inversion H as [|? ? Hx Hr]; subst. constructor; [|apply IH; exact Hr].
    eapply Permutation_Forall; eauto.
  - inversion H as [|? ? Hy Hr]; subst. inversion Hr as [|? ? Hx Hr']; subst. inversion Hy as [|? ? Hyx Hyl]; subst.
    constructor; [constructor; [apply Hsym; exact Hyx|exact Hx]|]. constructor; [exact Hyl|exact Hr'].
  - auto.
Qed.

Lemma siblings_ok_perm ks ks' : Permutation ks ks' -> siblings_ok ks = true -> siblings_ok ks' = true.
Proof.
  intros Hp H. apply siblings_ok_iff. apply siblings_ok_iff in H. eapply FOP_perm; eauto. apply sibR_sym.
Qed.

Lemma forallb_perm {X} (f : X -> bool) l l' : Permutation l l' -> forallb f l = true -> forallb f l' = true.
Proof.
  intros Hp H. rewrite forallb_forall in *. intros x Hx. apply H. eapply Permutation_in; [apply Permutation_sym|]; eauto.
Qed.

Lemma filter_perm {X} (f : X -> bool) l l' : Permutation l l' -> Permutation (filter f l) (filter f l').
Proof.
  induction 1 as [| x l l' H IH | x y l | l l' l'' H1 IH1 H2 IH2]; simpl.
  - constructor.
  - destruct (f x); [constructor|]; exact IH.
  - destruct (f x), (f y); try apply Permutation_refl. apply perm_swap.
  - eapply Permutation_trans; eauto.
Qed.

Lemma dup_ok_perm ks ks' k : Permutation ks ks' -> dup_ok ks k = true -> dup_ok ks' k = true.
Proof.
  intros Hp. unfold dup_ok. destruct (fst k) as [d|]; [|auto].
  pose proof (filter_perm (fun k' => opt_nat_eqb (Some d) (fst k')) _ _ Hp) as Hf.
  rewrite !andb_true_iff. intros [H1 H2]. split.
  - rewrite <- (Permutation_length Hf). exact H1.
  - eapply forallb_perm; eauto.
Qed.

(* ---------- induction principle and inversion for histories ---------- *)
Fixpoint hist_ind' (P : hist -> Prop)
  (Hg : forall g p, P (XG g p))
  (Hh : forall p lins, Forall (Forall P) lins -> P (XH p lins))
  (h : hist) : P h :=
  match h with
  | XG g p => Hg g p
  | XH p lins =>
      Hh p lins ((fix go (ls : list (list hist)) : Forall (Forall P) ls :=
                    match ls with
                    | [] => Forall_nil _
                    | l :: r =>
                        Forall_cons l ((fix gom (ms : list hist) : Forall P ms :=
                                          match ms with
                                          | [] => Forall_nil _
                                          | m :: mr => Forall_cons m (hist_ind' P Hg Hh m) (gom mr)
                                          end) l) (go r)
                    end) lins)
  end.

Definition member_ok (t : stree) (genes : list (string * taxon)) (p : taxon) (l : list hist) (c : hist) : Prop :=
  WFh t genes c /\ xtax c <> [] /\ tl (xtax c) = p /\ xtax c = lin_tax l.

Lemma allP_Forall {X} (P : X -> Prop) l : allP P l <-> Forall P l.
Proof.
  induction l as [|x r IH]; simpl.
  - split; intros; [constructor|exact I].
  - rewrite IH. split; [intros [H1 H2]; constructor; auto|intros H; inversion H; auto].
Qed.

Lemma WFh_inv t genes p lins :
  WFh t genes (XH p lins) ->
  valid t p = true /\ is_leaf t p = false /\ lins <> [] /\ NoDup (map lin_tax lins) /\
  Forall (fun l => l <> [] /\ Forall (member_ok t genes p l) l) lins.
Proof.
  cbn [WFh]. intros (Hv & Hl & Hne & Hnd & Hall). repeat split; auto.
  apply allP_Forall in Hall. eapply Forall_impl; [|exact Hall].
  intros l [Hl1 Hl2]. split; [exact Hl1|]. apply allP_Forall in Hl2. exact Hl2.
Qed.

(* ---------- state bookkeeping ---------- *)
Definition dups_dom (s : lstate) : Prop := forall k, dup_lookup k (s_dups s) <> None <-> k < s_dup s.

(* everything that existed in s is untouched in s' *)
Definition ext (s s' : lstate) : Prop :=
  s_oid s <= s_oid s' /\ s_dup s <= s_dup s' /\
  (forall k, k < s_dup s -> dup_lookup k (s_dups s') = dup_lookup k (s_dups s)).

Definition mrca_is (s : lstate) (k : nat) (a : taxon) : Prop :=
  exists d, dup_lookup k (s_dups s) = Some d /\ di_mrca d = Some a.

Lemma ext_refl s : ext s s.
Proof. repeat split; auto. Qed.

Lemma ext_trans s1 s2 s3 : ext s1 s2 -> ext s2 s3 -> ext s1 s3.
Proof.
  intros (A1 & B1 & C1) (A2 & B2 & C2). repeat split; try lia.
  intros k Hk. rewrite C2 by lia. apply C1. exact Hk.
Qed.

Lemma mrca_is_ext s s' k a : ext s s' -> k < s_dup s -> mrca_is s k a -> mrca_is s' k a.
Proof. intros (_ & _ & C) Hk (d & Hd & Hm). exists d. rewrite C by exact Hk. auto. Qed.

Lemma ensure_spec p s : exists s', ensure_genome p s = Ok (tt, s') /\ s_oid s' = s_oid s /\ s_dup s' = s_dup s /\ s_dups s' = s_dups s.
Proof. unfold ensure_genome. destruct (mem_tax p (s_genomes s)); eexists; repeat split. Qed.

Lemma register_spec p r s : exists s', register p r s = Ok (tt, s') /\ s_oid s' = s_oid s /\ s_dup s' = s_dup s /\ s_dups s' = s_dups s.
Proof. unfold register. eexists; repeat split. Qed.

Lemma fresh_oid_spec s : exists s', fresh_oid s = Ok (s_oid s, s') /\ s_oid s' = S (s_oid s) /\ s_dup s' = s_dup s /\ s_dups s' = s_dups s.
Proof. unfold fresh_oid. eexists; repeat split. Qed.

Lemma same_dups_ext s s' : s_oid s <= s_oid s' -> s_dup s' = s_dup s -> s_dups s' = s_dups s -> ext s s' /\ (dups_dom s -> dups_dom s').
Proof.
  intros Ho Hd Hds. split.
  - repeat split; try lia. intros k _. now rewrite Hds.
  - unfold dups_dom. rewrite Hd, Hds. auto.
Qed.

Lemma fresh_dup_spec og s : dups_dom s ->
  exists s', fresh_dup og s = Ok (s_dup s, s') /\ s_dup s' = S (s_dup s) /\ s_oid s' = s_oid s /\
             ext s s' /\ dups_dom s' /\
             dup_lookup (s_dup s) (s_dups s') = Some {| di_og := og; di_mrca := None; di_parent := None |}.
Proof.
  intros Hdom. unfold fresh_dup. eexists. split; [reflexivity|]. cbn [s_dup s_oid s_dups]. split; [reflexivity|]. split; [reflexivity|].
  split; [|split].
  - repeat split; cbn [s_oid s_dup s_dups]; try lia. intros k Hk. simpl.
    destruct (Nat.eqb k (s_dup s)) eqn:E; [apply Nat.eqb_eq in E; lia|reflexivity].
  - intros k. cbn [s_dups s_dup]. simpl. destruct (Nat.eqb k (s_dup s)) eqn:E.
    + apply Nat.eqb_eq in E. subst. split; [lia|discriminate].
    + apply Nat.eqb_neq in E. rewrite (Hdom k). lia.
  - simpl. now rewrite Nat.eqb_refl.
Qed.

Lemma dup_update_spec k f s d : dup_lookup k (s_dups s) = Some d -> dups_dom s ->
  exists s', dup_update k f s = Ok (tt, s') /\ s_oid s' = s_oid s /\ s_dup s' = s_dup s /\ dups_dom s' /\
             dup_lookup k (s_dups s') = Some (f d) /\
             (forall k', k' <> k -> dup_lookup k' (s_dups s') = dup_lookup k' (s_dups s)).
Proof.
  intros Hd Hdom. unfold dup_update. rewrite Hd. eexists. split; [reflexivity|]. cbn [s_oid s_dup s_dups].
  split; [reflexivity|]. split; [reflexivity|]. split; [|split].
  - intros k'. simpl. destruct (Nat.eqb k' k) eqn:E.
    + apply Nat.eqb_eq in E. subst. split; [intros _; apply Hdom; congruence|discriminate].
    + apply Hdom.
  - simpl. now rewrite Nat.eqb_refl.
  - intros k' Hne. simpl. destruct (Nat.eqb k' k) eqn:E; [apply Nat.eqb_eq in E; contradiction|reflexivity].
Qed.

(* ---------- the explicit encoding, one element at a time ---------- *)
Fixpoint relm (ms : list hist) (xs : list hog) : Prop :=
  match ms, xs with
  | [], [] => True
  | m :: mr, y :: yr => matches m y /\ relm mr yr
  | _, _ => False
  end.

Fixpoint rel (ls : list (list hist)) (gs : list (option nat * list hog)) : Prop :=
  match ls, gs with
  | [], [] => True
  | l :: lr, (f, cs) :: gr =>
      (match l with [_] => f = None | _ => f <> None end) /\ relm l cs /\ rel lr gr
  | _, _ => False
  end.

Definition enc_lin (l : list hist) : item :=
  match l with
  | [c] => enc c
  | cs => IPG None (map enc cs)
  end.

Lemma enc_XH p lins : enc (XH p lins) = IOG None None (map enc_lin lins).
Proof. reflexivity. Qed.

Definition node_ok (t : stree) (X : taxon) (x : hog) : Prop := htax x = X /\ wf_node t x = true.

(* what evaluating the encoding of one history as a member must deliver *)
Definition member_eval (t : stree) (genes : list (string * taxon)) (h : hist) : Prop :=
  forall pg fr s, dups_dom s ->
    exists x s', eval_item t genes (enc h) pg fr s = Ok (add_kids fr [(pg, x)], s') /\
                 matches h x /\ node_ok t (xtax h) x /\ ext s s' /\ dups_dom s'.

Definition body_go (t : stree) (genes : list (string * taxon)) (pg : option nat) :=
  fix go (l : list item) (acc : frame) : M frame :=
    match l with
    | [] => ret acc
    | x :: r => bind (eval_item t genes x pg acc) (fun acc' => go r acc')
    end.

Lemma add_kids_app fr a b : add_kids (add_kids fr a) b = add_kids fr (a ++ b).
Proof. unfold add_kids. simpl. now rewrite app_assoc. Qed.
Lemma add_kids_nil fr : add_kids fr [] = fr.
Proof. destruct fr. unfold add_kids. simpl. now rewrite app_nil_r. Qed.

(* the members of one lineage, evaluated with flag pg *)
Lemma members_eval t genes X pg ms :
  Forall (member_eval t genes) ms -> Forall (fun c => xtax c = X) ms ->
  forall acc s, dups_dom s ->
  exists xs s', body_go t genes pg (map enc ms) acc s = Ok (add_kids acc (map (pair pg) xs), s') /\
                relm ms xs /\ Forall (node_ok t X) xs /\ ext s s' /\ dups_dom s'.
Proof.
  induction ms as [|m mr IH]; intros HF HX acc s Hdom.
  - exists [], s. simpl. rewrite add_kids_nil. split; [reflexivity|]. split; [exact I|]. split; [constructor|]. split; [apply ext_refl|exact Hdom].
  - inversion HF as [|? ? Hm Hmr]; subst. inversion HX as [|? ? Hx Hxr]; subst.
    destruct (Hm pg acc s Hdom) as (x & s1 & E1 & M1 & N1 & X1 & D1).
    destruct (IH Hmr Hxr (add_kids acc [(pg, x)]) s1 D1) as (xs & s2 & E2 & M2 & N2 & X2 & D2).
    exists (x :: xs), s2. split; [|split; [|split; [|split]]].
    + cbn [map body_go]. unfold bind. rewrite E1. fold (body_go t genes pg). rewrite E2.
      rewrite add_kids_app. reflexivity.
    + simpl. auto.
    + constructor; auto.
    + eapply ext_trans; eauto.
    + exact D2.
Qed.

(* ---------- one lineage ---------- *)
Definition gflags (groups : list (option nat * list hog)) : list nat :=
  flat_map (fun fg => match fst fg with Some k => [k] | None => [] end) groups.
Definition gkids (groups : list (option nat * list hog)) : list kid :=
  flat_map (fun fg => map (pair (fst fg)) (snd fg)) groups.

Lemma members_of_app k a b : members_of k (a ++ b) = members_of k a ++ members_of k b.
Proof. unfold members_of. now rewrite filter_app, map_app. Qed.

Lemma members_of_flag k xs : members_of k (map (pair (Some k)) xs) = xs.
Proof.
  unfold members_of. induction xs as [|x r IH]; simpl; [reflexivity|]. rewrite Nat.eqb_refl. simpl. now rewrite IH.
Qed.

Lemma members_of_other k (f : option nat) xs : f <> Some k -> members_of k (map (pair f) xs) = [].
Proof.
  intros Hne. unfold members_of. induction xs as [|x r IH]; simpl; [reflexivity|].
  destruct f as [k'|]; simpl; [|exact IH].
  destruct (Nat.eqb k k') eqn:E; [apply Nat.eqb_eq in E; subst; contradiction|exact IH].
Qed.

Lemma members_of_gkids_fresh k groups : (forall k', In k' (gflags groups) -> k' <> k) -> members_of k (gkids groups) = [].
Proof.
  intros H. induction groups as [|[f cs] r IH]; [reflexivity|].
  unfold gkids in *. simpl. rewrite members_of_app. rewrite IH.
  - rewrite app_nil_r. apply members_of_other. intros ->. apply (H k); [|reflexivity]. unfold gflags. simpl. left. reflexivity.
  - intros k' Hk'. apply H. unfold gflags in *. simpl. apply in_or_app. right. exact Hk'.
Qed.

Lemma set_mrca_single k members X p s d :
  members <> [] -> Forall (fun x => htax x = X) members -> up X = Some p ->
  dup_lookup k (s_dups s) = Some d -> dups_dom s ->
  exists s', set_mrca k members s = Ok (tt, s') /\ s_oid s' = s_oid s /\ s_dup s' = s_dup s /\ dups_dom s' /\
             mrca_is s' k p /\ (forall k', k' <> k -> dup_lookup k' (s_dups s') = dup_lookup k' (s_dups s)).
Proof.
  intros Hne Hall Hup Hd Hdom. unfold set_mrca.
  assert (E : dedup_tax (map htax members) = [X]).
  { apply dedup_tax_single; [destruct members; [contradiction|discriminate]|].
    apply Forall_forall. intros q Hq. apply in_map_iff in Hq as (x & <- & Hx). rewrite Forall_forall in Hall. auto. }
  rewrite E. unfold up_or_fail. rewrite Hup. unfold bind at 1. unfold ret at 1.
  destruct (ensure_spec p s) as (s1 & E1 & O1 & D1 & DS1). unfold bind at 1. rewrite E1.
  assert (Hd1 : dup_lookup k (s_dups s1) = Some d) by (rewrite DS1; exact Hd).
  assert (Hdom1 : dups_dom s1) by (unfold dups_dom; rewrite D1, DS1; exact Hdom).
  destruct (dup_update_spec k (fun d0 => {| di_og := di_og d0; di_mrca := Some p; di_parent := di_parent d0 |}) s1 d Hd1 Hdom1)
    as (s2 & E2 & O2 & D2 & Hdom2 & L2 & K2).
  exists s2. split; [exact E2|]. split; [congruence|]. split; [congruence|]. split; [exact Hdom2|]. split.
  - eexists. split; [exact L2|reflexivity].
  - intros k' Hk'. rewrite K2 by exact Hk'. now rewrite DS1.
Qed.

Record finv (t : stree) (p : taxon) (s : lstate) (groups : list (option nat * list hog)) : Prop := {
  fi_flags : forall k, In k (gflags groups) -> k < s_dup s /\ mrca_is s k p;
  fi_nodup : NoDup (gflags groups);
}.

(* the flags of the groups were all created at or after state number b *)
Definition flags_from (b : nat) (groups : list (option nat * list hog)) : Prop :=
  forall k, In k (gflags groups) -> b <= k.

Lemma finv_ext t p s s' groups : ext s s' -> finv t p s groups -> finv t p s' groups.
Proof.
  intros He [H1 H2]. constructor; auto. intros k Hk. destruct (H1 k Hk) as [Hlt Hm]. split.
  - destruct He as (_ & Hd & _). lia.
  - eapply mrca_is_ext; eauto.
Qed.

Lemma lin_eval t genes p l groups acc s :
  l <> [] -> Forall (member_ok t genes p l) l -> Forall (member_eval t genes) l ->
  f_kids acc = gkids groups -> finv t p s groups -> dups_dom s ->
  exists f cs s', eval_item t genes (enc_lin l) None acc s = Ok (add_kids acc (map (pair f) cs), s') /\
    (match l with [_] => f = None | _ => f <> None end) /\ relm l cs /\ cs <> [] /\
    Forall (node_ok t (lin_tax l)) cs /\ ext s s' /\ dups_dom s' /\
    finv t p s' (groups ++ [(f, cs)]) /\ flags_from (s_dup s) [(f, cs)].
Proof.
  intros Hne Hok Hev Hk Hinv Hdom.
  destruct l as [|c1 [|c2 r]]; [contradiction| |].
  - (* a plain ortholog *)
    inversion Hev as [|? ? Hc _]; subst. destruct (Hc None acc s Hdom) as (x & s1 & E1 & M1 & N1 & X1 & D1).
    exists None, [x], s1. cbn [enc_lin map]. split; [exact E1|]. split; [reflexivity|]. split; [simpl; auto|].
    split; [discriminate|]. split; [constructor; [exact N1|constructor]|]. split; [exact X1|]. split; [exact D1|].
    split; [|intros k []].
    apply (finv_ext _ _ _ _ _ X1) in Hinv. destruct Hinv as [H1 H2]. constructor.
    + intros k Hk'. unfold gflags in *. rewrite flat_map_app in Hk'. simpl in Hk'. rewrite app_nil_r in Hk'. auto.
    + unfold gflags in *. rewrite flat_map_app. simpl. rewrite app_nil_r. exact H2.
  - (* the copies of a duplication *)
    set (l := c1 :: c2 :: r) in *.
    assert (Hlt : forall c, In c l -> xtax c = lin_tax l).
    { intros c Hc. rewrite Forall_forall in Hok. destruct (Hok c Hc) as (_ & _ & _ & H). exact H. }
    assert (HX : exists a, lin_tax l = a :: p).
    { rewrite Forall_forall in Hok. destruct (Hok c1 (or_introl eq_refl)) as (_ & Hn & Ht & Hl).
      rewrite <- Hl. destruct (xtax c1) as [|a q]; [contradiction|]. simpl in Ht. subst q. eauto. }
    destruct HX as [a HX].
    destruct (fresh_dup_spec None s Hdom) as (s1 & E1 & D1 & O1 & X1 & Hdom1 & L1).
    set (k := s_dup s) in *.
    destruct (members_eval t genes (lin_tax l) (Some k) l Hev) with (acc := acc) (s := s1)
      as (xs & s2 & E2 & M2 & N2 & X2 & Hdom2); [apply Forall_forall; exact Hlt|exact Hdom1|].
    assert (Hxs : xs <> []).
    { destruct xs; [simpl in M2; contradiction|discriminate]. }
    assert (Hmem : members_of k (f_kids (add_kids acc (map (pair (Some k)) xs))) = xs).
    { cbn [add_kids f_kids]. rewrite members_of_app, members_of_flag, Hk, members_of_gkids_fresh; [reflexivity|].
      intros k' Hk' ->. destruct Hinv as [H1 _]. destruct (H1 k Hk') as [Hlt' _]. unfold k in Hlt'. lia. }
    assert (Hd2 : dup_lookup k (s_dups s2) = Some {| di_og := None; di_mrca := None; di_parent := None |}).
    { destruct X2 as (_ & _ & C2). rewrite C2; [exact L1|]. rewrite D1. unfold k. lia. }
    destruct (set_mrca_single k xs (lin_tax l) p s2 {| di_og := None; di_mrca := None; di_parent := None |} Hxs) as (s3 & E3 & O3 & D3 & Hdom3 & Hm3 & K3);
      [eapply Forall_impl; [|exact N2]; intros x [Hx _]; exact Hx|rewrite HX; reflexivity|exact Hd2|exact Hdom2|].
    exists (Some k), xs, s3. split; [|split; [discriminate|split; [exact M2|split; [exact Hxs|split; [exact N2|]]]]].
    + unfold l. cbn [enc_lin eval_item]. fold l. unfold bind at 1. fold k. rewrite E1.
      fold (body_go t genes (Some k)). unfold bind at 1. rewrite E2. unfold bind at 1. rewrite Hmem, Hk, members_of_gkids_fresh.
      2:{ intros k' Hk' ->. destruct Hinv as [H1 _]. destruct (H1 k Hk') as [Hlt' _]. unfold k in Hlt'. lia. }
      assert (Hnz : Nat.eqb (List.length xs) (List.length (@nil hog)) = false) by (destruct xs; [contradiction|reflexivity]).
      rewrite Hnz. unfold ret at 1. unfold bind at 1. rewrite E3. reflexivity.
    + assert (Hext : ext s s3).
      { destruct X1 as (A1 & B1 & C1). destruct X2 as (A2 & B2 & C2). repeat split; try lia.
        intros k' Hk'. rewrite K3 by (unfold k; lia). rewrite C2 by lia. apply C1. exact Hk'. }
      split; [exact Hext|]. split; [exact Hdom3|].
      assert (Hfresh : ~ In k (gflags groups)).
      { intros Hin. destruct Hinv as [H1 _]. destruct (H1 k Hin) as [Hlt' _]. unfold k in Hlt'. lia. }
      split; [|intros k' [<-|[]]; unfold k; lia].
      apply (finv_ext _ _ _ _ _ Hext) in Hinv. destruct Hinv as [H1 H2]. constructor.
      * intros k' Hk'. unfold gflags in Hk'. rewrite flat_map_app in Hk'. apply in_app_or in Hk' as [Hk'|Hk']; [apply H1; exact Hk'|].
        simpl in Hk'. destruct Hk' as [<-|[]]. split; [|exact Hm3].
        destruct X2 as (_ & B2 & _). rewrite D3. unfold k. lia.
      * unfold gflags in *. rewrite flat_map_app. simpl. apply NavFacts_NoDup_snoc; [exact H2|exact Hfresh].
Qed.

(* ---------- all the lineages of one group ---------- *)
Definition gl_ok (t : stree) (l : list hist) (g : option nat * list hog) : Prop :=
  snd g <> [] /\ Forall (node_ok t (lin_tax l)) (snd g) /\
  (match l with [_] => fst g = None /\ List.length (snd g) = 1 | _ => fst g <> None /\ 2 <= List.length (snd g) end).

Lemma relm_length ms xs : relm ms xs -> List.length xs = List.length ms.
Proof.
  revert xs; induction ms as [|m mr IH]; intros [|x xr] H; simpl in *; try contradiction; auto.
  destruct H as [_ H]. f_equal. auto.
Qed.

Lemma gkids_app a b : gkids (a ++ b) = gkids a ++ gkids b.
Proof. unfold gkids. apply flat_map_app. Qed.

Lemma lins_eval t genes p lins :
  Forall (fun l => l <> [] /\ Forall (member_ok t genes p l) l) lins ->
  Forall (Forall (member_eval t genes)) lins ->
  forall groups0 acc s, f_kids acc = gkids groups0 -> finv t p s groups0 -> dups_dom s ->
  exists groups s',
    body_go t genes None (map enc_lin lins) acc s = Ok (add_kids acc (gkids groups), s') /\
    rel lins groups /\ Forall2 (gl_ok t) lins groups /\ ext s s' /\ dups_dom s' /\
    finv t p s' (groups0 ++ groups) /\ flags_from (s_dup s) groups.
Proof.
  induction lins as [|l lr IH]; intros Hok Hev groups0 acc s Hk Hinv Hdom.
  - exists [], s. simpl. rewrite add_kids_nil, app_nil_r.
    split; [reflexivity|]. split; [exact I|]. split; [constructor|]. split; [apply ext_refl|]. split; [auto|]. split; [auto|intros k []].
  - inversion Hok as [|? ? [Hne Hl] Hlr]; subst. inversion Hev as [|? ? Hel Helr]; subst.
    destruct (lin_eval t genes p l groups0 acc s Hne Hl Hel Hk Hinv Hdom)
      as (f & cs & s1 & E1 & F1 & M1 & N1 & K1 & X1 & D1 & I1 & L1).
    assert (Hk1 : f_kids (add_kids acc (map (pair f) cs)) = gkids (groups0 ++ [(f, cs)])).
    { cbn [add_kids f_kids]. rewrite gkids_app, Hk. unfold gkids at 2. simpl. now rewrite app_nil_r. }
    destruct (IH Hlr Helr (groups0 ++ [(f, cs)]) _ s1 Hk1 I1 D1) as (groups & s2 & E2 & R2 & G2 & X2 & D2 & I2 & L2).
    exists ((f, cs) :: groups), s2. split; [|split; [|split; [|split; [|split; [|split]]]]].
    + cbn [map body_go]. unfold bind. rewrite E1. fold (body_go t genes None). rewrite E2.
      rewrite add_kids_app. unfold gkids at 2. simpl. reflexivity.
    + simpl. auto.
    + constructor; [|exact G2]. unfold gl_ok. simpl. split; [exact N1|]. split; [exact K1|].
      pose proof (relm_length _ _ M1) as Hlen.
      destruct l as [|c1 [|c2 r]]; [contradiction| |]; simpl in *; split; auto; lia.
    + eapply ext_trans; eauto.
    + exact D2.
    + rewrite <- app_assoc in I2. exact I2.
    + intros k Hk'. unfold gflags in Hk'. simpl in Hk'. apply in_app_or in Hk' as [Hk'|Hk'].
      * apply (L1 k). unfold gflags. simpl. rewrite app_nil_r. exact Hk'.
      * destruct X1 as (_ & B1 & _). specialize (L2 k Hk'). lia.
Qed.

(* ---------- closing the group ---------- *)
Definition kid_child_of (p : taxon) (kd : kid) : Prop := is_child_of p (htax (snd kd)).

Lemma lift_level_id p ks : forall s,
  (forall k c, In (Some k, c) ks -> mrca_is s k p) -> lift_level ks p s = Ok (p, s).
Proof.
  induction ks as [|[[k|] c] r IH]; intros s H; simpl; [reflexivity| |].
  - unfold bind, dup_mrca. destruct (H k c (or_introl eq_refl)) as (d & Hd & Hm). rewrite Hd, Hm.
    rewrite Nat.ltb_irrefl. apply IH. intros k' c' Hin. apply (H k' c'). right. exact Hin.
  - apply IH. intros k' c' Hin. apply (H k' c'). right. exact Hin.
Qed.

Lemma chain_id_same c hid s : exists i, chain_id c hid s = Ok (i, s).
Proof. destruct c; simpl; unfold bind, get_loft, ret; eauto. Qed.

Lemma lift_member_adjacent hid lvl k c s :
  is_child_of lvl (htax c) -> lift_member hid lvl k c s = Ok ((Some k, c), s).
Proof.
  intros [a Ha]. unfold lift_member. destruct (chain_id_same c hid s) as [i Ei].
  unfold bind. rewrite Ei, Ha, path_up_child. reflexivity.
Qed.

Lemma mapM_lift_adjacent hid lvl k cs : forall s,
  Forall (fun c => is_child_of lvl (htax c)) cs ->
  mapM (lift_member hid lvl k) cs s = Ok (map (pair (Some k)) cs, s).
Proof.
  induction cs as [|c r IH]; intros s H; [reflexivity|]. inversion H; subst.
  cbn [mapM]. unfold bind. rewrite lift_member_adjacent by assumption. rewrite IH by assumption. reflexivity.
Qed.

Lemma members_pairs k ks :
  map (pair (Some k)) (members_of k ks) =
  filter (fun kd : kid => match fst kd with Some k' => Nat.eqb k k' | None => false end) ks.
Proof.
  unfold members_of. induction ks as [|[[k'|] c] r IH]; simpl; auto.
  destruct (Nat.eqb k k') eqn:E; simpl; [|exact IH]. apply Nat.eqb_eq in E. subst. now rewrite IH.
Qed.

Lemma regroup_perm k ks :
  Permutation (filter (not_member k) ks ++ map (pair (Some k)) (members_of k ks)) ks.
Proof.
  rewrite members_pairs. apply Permutation_sym.
  set (pm := fun kd : kid => match fst kd with Some k' => Nat.eqb k k' | None => false end).
  assert (E : forall kd, not_member k kd = negb (pm kd)).
  { intros [[k'|] c]; unfold not_member, pm; simpl; reflexivity. }
  rewrite (filter_ext _ _ E). apply filter_partition_perm.
Qed.

Lemma rehome_else hid hoid lvl ks k s :
  mrca_is s k lvl -> dups_dom s -> Forall (kid_child_of lvl) ks ->
  exists ks' s', rehome hid hoid lvl ks k s = Ok (ks', s') /\ Permutation ks' ks /\
    s_oid s' = s_oid s /\ s_dup s' = s_dup s /\ dups_dom s' /\
    (forall k' a, mrca_is s k' a -> mrca_is s' k' a) /\
    (forall k', k' <> k -> dup_lookup k' (s_dups s') = dup_lookup k' (s_dups s)).
Proof.
  intros (d & Hd & Hm) Hdom Hall. unfold rehome. unfold bind at 1. unfold dup_mrca. rewrite Hd, Hm.
  rewrite taxon_eqb_refl. cbn [negb].
  destruct (dup_update_spec k (fun d0 => {| di_og := di_og d0; di_mrca := di_mrca d0; di_parent := Some hoid |}) s d Hd Hdom)
    as (s1 & E1 & O1 & D1 & Hdom1 & L1 & K1).
  unfold bind at 1. rewrite E1. unfold bind at 1.
  rewrite mapM_lift_adjacent.
  - eexists _, s1. split; [reflexivity|]. split; [apply regroup_perm|]. split; [exact O1|]. split; [exact D1|]. split; [exact Hdom1|].
    split; [|exact K1].
    intros k' a (d' & Hd' & Hm'). destruct (Nat.eq_dec k' k) as [->|Hne].
    + rewrite Hd in Hd'. inversion Hd'; subst d'. eexists. split; [exact L1|]. simpl. exact Hm'.
    + exists d'. rewrite K1 by exact Hne. auto.
  - unfold members_of. apply Forall_forall. intros c Hc. apply in_map_iff in Hc as (kd & <- & Hkd).
    apply filter_In in Hkd as [Hkd _]. rewrite Forall_forall in Hall. apply Hall. exact Hkd.
Qed.

Lemma foldM_rehome_else hid hoid lvl keys : forall ks s,
  (forall k, In k keys -> mrca_is s k lvl) -> dups_dom s -> Forall (kid_child_of lvl) ks ->
  exists ks' s', foldM (rehome hid hoid lvl) keys ks s = Ok (ks', s') /\ Permutation ks' ks /\
    s_oid s' = s_oid s /\ s_dup s' = s_dup s /\ dups_dom s' /\
    (forall k', ~ In k' keys -> dup_lookup k' (s_dups s') = dup_lookup k' (s_dups s)).
Proof.
  induction keys as [|k r IH]; intros ks s Hm Hdom Hall.
  - exists ks, s. split; [reflexivity|]. split; [apply Permutation_refl|]. split; [reflexivity|]. split; [reflexivity|]. split; [exact Hdom|auto].
  - destruct (rehome_else hid hoid lvl ks k s (Hm k (or_introl eq_refl)) Hdom Hall)
      as (ks1 & s1 & E1 & P1 & O1 & D1 & Hdom1 & M1 & U1).
    destruct (IH ks1 s1) as (ks2 & s2 & E2 & P2 & O2 & D2 & Hdom2 & U2).
    + intros k' Hk'. apply M1. apply Hm. right. exact Hk'.
    + exact Hdom1.
    + eapply Permutation_Forall; [apply Permutation_sym; exact P1|exact Hall].
    + exists ks2, s2. split; [cbn [foldM]; unfold bind; rewrite E1; exact E2|].
      split; [eapply Permutation_trans; eauto|]. split; [congruence|]. split; [congruence|]. split; [exact Hdom2|].
      intros k' Hk'. rewrite U2 by (intros H; apply Hk'; right; exact H). apply U1. intros ->. apply Hk'. left. reflexivity.
Qed.

Lemma filter_all {X} (f : X -> bool) l : (forall x, In x l -> f x = true) -> filter f l = l.
Proof.
  induction l as [|x r IH]; intros H; simpl; [reflexivity|]. rewrite (H x (or_introl eq_refl)). f_equal.
  apply IH. intros y Hy. apply H. right. exact Hy.
Qed.
Lemma filter_none {X} (f : X -> bool) l : (forall x, In x l -> f x = false) -> filter f l = [].
Proof.
  induction l as [|x r IH]; intros H; simpl; [reflexivity|]. rewrite (H x (or_introl eq_refl)).
  apply IH. intros y Hy. apply H. right. exact Hy.
Qed.

Lemma generic_pass_adjacent hid lvl ks s :
  Forall (kid_child_of lvl) ks -> generic_pass hid lvl ks s = Ok (ks, s).
Proof.
  intros Hall. unfold generic_pass.
  assert (Hadj : forall kd, In kd ks -> adjacent lvl kd = true).
  { intros kd Hkd. rewrite Forall_forall in Hall. destruct (Hall kd Hkd) as [a Ha].
    unfold adjacent, depth. rewrite Ha. simpl. apply Nat.eqb_refl. }
  rewrite (filter_none (fun kd => negb (adjacent lvl kd))) by (intros kd Hkd; rewrite (Hadj kd Hkd); reflexivity).
  rewrite (filter_all (adjacent lvl)) by exact Hadj. unfold bind. simpl. rewrite app_nil_r. reflexivity.
Qed.

Lemma gkids_taxa t lins groups p :
  Forall2 (gl_ok t) lins groups ->
  Forall (fun l => exists a, lin_tax l = a :: p) lins ->
  Forall (kid_child_of p) (gkids groups).
Proof.
  induction 1 as [|l g lr gr Hg HF IH]; intros Hl; [constructor|].
  inversion Hl as [|? ? [a Ha] Hlr]; subst. unfold gkids. simpl. apply Forall_app. split; [|apply IH; exact Hlr].
  destruct Hg as (_ & Hn & _). apply Forall_forall. intros kd Hkd. apply in_map_iff in Hkd as (c & <- & Hc).
  rewrite Forall_forall in Hn. destruct (Hn c Hc) as [Ht _]. unfold kid_child_of. simpl. rewrite Ht, Ha. exists a. reflexivity.
Qed.

Lemma gkids_flags_in groups k c : In (Some k, c) (gkids groups) -> In k (gflags groups).
Proof.
  unfold gkids, gflags. intros H. apply in_flat_map in H as ([f cs] & Hg & Hin).
  apply in_map_iff in Hin as (c' & E & _). simpl in E. inversion E; subst.
  apply in_flat_map. exists (Some k, cs). split; auto. simpl. left. reflexivity.
Qed.

Lemma dup_keys_in ks : forall seen k, In k (dup_keys ks seen) -> exists c, In (Some k, c) ks.
Proof.
  induction ks as [|[[k'|] c] r IH]; intros seen k H; simpl in H; [contradiction| |].
  - destruct (existsb (Nat.eqb k') seen).
    + destruct (IH _ _ H) as [c' Hc']. exists c'. right. exact Hc'.
    + destruct H as [->|H]; [exists c; left; reflexivity|]. destruct (IH _ _ H) as [c' Hc']. exists c'. right. exact Hc'.
  - destruct (IH _ _ H) as [c' Hc']. exists c'. right. exact Hc'.
Qed.

Lemma close_explicit t top p inner groups s :
  f_kids inner = gkids groups -> f_props inner = [] -> gkids groups <> [] ->
  Forall (kid_child_of p) (gkids groups) -> finv t p s groups -> dups_dom s ->
  exists ks1 s',
    close_og t top None None inner s =
      Ok (Node (HHog (s_oid s) p {| m_id := None; m_og := None; m_props := []; m_scores := f_scores inner; m_synth := false |} ks1), s') /\
    Permutation ks1 (gkids groups) /\ s_oid s' = S (s_oid s) /\ s_dup s' = s_dup s /\ dups_dom s' /\
    (forall k, ~ In k (gflags groups) -> dup_lookup k (s_dups s') = dup_lookup k (s_dups s)).
Proof.
  intros Hk Hp Hne Hall Hinv Hdom. unfold close_og. rewrite Hk, Hp.
  match goal with |- context [dedup_tax ?l] => set (taxa := l) end.
  assert (Htaxa : Forall (is_child_of p) taxa).
  { unfold taxa. apply Forall_forall. intros q Hq. apply in_map_iff in Hq as (kd & <- & Hkd).
    rewrite Forall_forall in Hall. apply Hall. exact Hkd. }
  assert (Hne' : taxa <> []) by (unfold taxa; destruct (gkids groups); [contradiction|discriminate]).
  pose proof (level_of_children p taxa Hne' Htaxa) as Hlvl.
  destruct (dedup_tax taxa) as [|x more]; [contradiction|].
  assert (Hcol : (match more, assoc_last "TaxRange" [], name_of t x with
                  | [], Some v, Some n => String.eqb v n
                  | _, _, _ => false
                  end) = false) by (destruct more; reflexivity).
  rewrite Hcol.
  assert (Hlvl0 : (match more with [] => up_or_fail x | _ => ret (fold_left lcs more x) end) s = Ok (p, s)).
  { destruct more; [unfold up_or_fail; rewrite Hlvl; reflexivity|unfold ret; rewrite Hlvl; reflexivity]. }
  unfold bind at 1. rewrite Hlvl0.
  unfold bind at 1. rewrite lift_level_id.
  2:{ intros k c Hin. destruct Hinv as [H1 _]. apply H1. eapply gkids_flags_in; eauto. }
  destruct (ensure_spec p s) as (s1 & E1 & O1 & D1 & DS1). unfold bind at 1. rewrite E1.
  destruct (fresh_oid_spec s1) as (s2 & E2 & O2 & D2 & DS2). unfold bind at 1. rewrite E2.
  destruct (register_spec p (RHog (s_oid s1)) s2) as (s3 & E3 & O3 & D3 & DS3). unfold bind at 1. rewrite E3.
  assert (Hdom3 : dups_dom s3) by (unfold dups_dom; rewrite D3, D2, D1, DS3, DS2, DS1; exact Hdom).
  assert (Hm3 : forall k, In k (dup_keys (gkids groups) []) -> mrca_is s3 k p).
  { intros k Hk'. apply dup_keys_in in Hk' as [c Hc]. apply gkids_flags_in in Hc. destruct Hinv as [H1 _].
    destruct (H1 k Hc) as [_ (d & Hd & Hm)]. exists d. rewrite DS3, DS2, DS1. auto. }
  cbn [hog_id_of m_id m_og].
  destruct (foldM_rehome_else None (s_oid s1) p (dup_keys (gkids groups) []) (gkids groups) s3 Hm3 Hdom3 Hall)
    as (ks1 & s4 & E4 & P4 & O4 & D4 & Hdom4 & U4).
  unfold bind at 1. rewrite E4.
  assert (Hall1 : Forall (kid_child_of p) ks1) by (eapply Permutation_Forall; [apply Permutation_sym; exact P4|exact Hall]).
  unfold bind at 1. rewrite generic_pass_adjacent by exact Hall1.
  exists ks1, s4. rewrite O1. split; [reflexivity|]. split; [exact P4|]. split; [congruence|]. split; [congruence|].
  split; [exact Hdom4|].
  intros k Hk'. rewrite U4; [rewrite DS3, DS2, DS1; reflexivity|].
  intros Hin. apply Hk'. apply dup_keys_in in Hin as [c Hc]. eapply gkids_flags_in; eauto.
Qed.

(* ---------- the closed group is aligned ---------- *)
Lemma FOP_app {X} (R : X -> X -> Prop) a b :
  ForallOrdPairs R a -> ForallOrdPairs R b -> (forall x y, In x a -> In y b -> R x y) -> ForallOrdPairs R (a ++ b).
Proof.
  induction a as [|x r IH]; intros Ha Hb Hc; simpl; [exact Hb|].
  inversion Ha as [|? ? Hx Hr]; subst. constructor.
  - apply Forall_app. split; [exact Hx|]. apply Forall_forall. intros y Hy. apply Hc; [left; reflexivity|exact Hy].
  - apply IH; auto. intros x' y Hx' Hy. apply Hc; [right; exact Hx'|exact Hy].
Qed.

Lemma FOP_same_flag k cs : ForallOrdPairs sibR (map (pair (Some k)) cs).
Proof.
  induction cs as [|c r IH]; simpl; constructor; auto.
  apply Forall_forall. intros kd Hkd _. apply in_map_iff in Hkd as (c' & <- & _). simpl. auto.
Qed.

Lemma gkids_in_group groups kd : In kd (gkids groups) -> exists g, In g groups /\ fst kd = fst g /\ In (snd kd) (snd g).
Proof.
  unfold gkids. intros H. apply in_flat_map in H as (g & Hg & Hin). apply in_map_iff in Hin as (c & <- & Hc). eauto.
Qed.

Lemma FOP_gkids t lins groups :
  Forall2 (gl_ok t) lins groups -> NoDup (map lin_tax lins) -> ForallOrdPairs sibR (gkids groups).
Proof.
  induction 1 as [|l g lr gr Hg HF IH]; intros Hn; [constructor|].
  simpl in Hn. inversion Hn as [|? ? Hnl Hnr]; subst. unfold gkids. simpl. fold (gkids gr).
  destruct g as [f cs]. destruct Hg as (Hne & Hnodes & Har). simpl in *.
  apply FOP_app; [|apply IH; exact Hnr|].
  - destruct l as [|c1 [|c2 r]].
    + destruct Har as [Hf _]. destruct f as [k|]; [|contradiction]. apply FOP_same_flag.
    + destruct Har as [-> Hlen]. destruct cs as [|c [|c' r']]; simpl in Hlen; try lia. simpl. constructor; constructor.
    + destruct Har as [Hf _]. destruct f as [k|]; [|contradiction]. apply FOP_same_flag.
  - intros x y Hx Hy E. exfalso. apply in_map_iff in Hx as (c & <- & Hc). simpl in E.
    rewrite Forall_forall in Hnodes. destruct (Hnodes c Hc) as [Htc _].
    apply gkids_in_group in Hy as (g' & Hg' & _ & Hyin).
    (* the taxon of y is the taxon of its lineage, which differs from l's *)
    clear IH. revert Hg' Hyin. clear - HF Hnl Htc E. intros Hg' Hyin.
    induction HF as [|l' g0 lr' gr' Hg0 HF' IHF]; [contradiction|].
    destruct Hg' as [->|Hg'].
    + destruct Hg0 as (_ & Hn0 & _). rewrite Forall_forall in Hn0. destruct (Hn0 _ Hyin) as [Hty _].
      apply Hnl. left. congruence.
    + apply IHF; auto. intros Hin. apply Hnl. right. exact Hin.
Qed.

Lemma filter_same_flag k (f : option nat) cs :
  filter (fun k' : option nat * hog => opt_nat_eqb (Some k) (fst k')) (map (pair f) cs) =
  if opt_nat_eqb (Some k) f then map (pair f) cs else [].
Proof.
  induction cs as [|c r IH]; cbn [map filter fst]; [destruct (opt_nat_eqb (Some k) f); reflexivity|].
  rewrite IH. destruct (opt_nat_eqb (Some k) f); reflexivity.
Qed.

Lemma filter_flag_gkids groups k cs :
  NoDup (gflags groups) -> In (Some k, cs) groups ->
  filter (fun k' : option nat * hog => opt_nat_eqb (Some k) (fst k')) (gkids groups) = map (pair (Some k)) cs.
Proof.
  induction groups as [|[f cs'] r IH]; intros Hn Hin; [contradiction|].
  unfold gkids. cbn [flat_map fst snd]. fold (gkids r). rewrite filter_app, filter_same_flag.
  destruct Hin as [E|Hin].
  - inversion E; subst.
    assert (E1 : opt_nat_eqb (Some k) (Some k) = true) by (simpl; apply Nat.eqb_refl). rewrite E1.
    assert (Hk : ~ In k (gflags r)).
    { unfold gflags in Hn. cbn [flat_map fst] in Hn. simpl in Hn. inversion Hn; auto. }
    rewrite (filter_none _ (gkids r)); [apply app_nil_r|].
    intros kd Hkd. apply gkids_in_group in Hkd as ([f' cs''] & Hg & Ef & _). simpl in Ef. rewrite Ef.
    destruct f' as [k'|]; [|reflexivity]. simpl. destruct (Nat.eqb k k') eqn:E'; [|reflexivity].
    apply Nat.eqb_eq in E'. subst. exfalso. apply Hk. unfold gflags. apply in_flat_map. exists (Some k', cs''). split; auto. left. reflexivity.
  - assert (Hn' : NoDup (gflags r)).
    { unfold gflags in *. cbn [flat_map fst] in Hn. destruct f; simpl in Hn; [inversion Hn; auto|exact Hn]. }
    assert (Ef : opt_nat_eqb (Some k) f = false).
    { destruct f as [k'|]; [|reflexivity]. simpl. destruct (Nat.eqb k k') eqn:E'; [|reflexivity].
      apply Nat.eqb_eq in E'. subst. exfalso. unfold gflags in Hn. cbn [flat_map fst] in Hn. simpl in Hn.
      inversion Hn as [|? ? Hk _]; subst. apply Hk. apply in_flat_map. exists (Some k', cs). split; auto. left. reflexivity. }
    rewrite Ef. cbn [app]. exact (IH Hn' Hin).
Qed.

Lemma Forall2_in_r {X Y} (R : X -> Y -> Prop) l l' y : Forall2 R l l' -> In y l' -> exists x, In x l /\ R x y.
Proof.
  induction 1 as [|a b r r' Hab HF IH]; intros Hin; [contradiction|]. destruct Hin as [<-|Hin].
  - exists a. split; [left; reflexivity|exact Hab].
  - destruct (IH Hin) as (x & Hx & Hr). exists x. split; [right; exact Hx|exact Hr].
Qed.

Lemma wf_closed t o p m lins groups ks1 :
  valid t p = true -> is_leaf t p = false ->
  Forall2 (gl_ok t) lins groups -> NoDup (map lin_tax lins) -> NoDup (gflags groups) ->
  Forall (kid_child_of p) (gkids groups) -> gkids groups <> [] ->
  Permutation ks1 (gkids groups) ->
  wf_node t (HHog o p m ks1) = true.
Proof.
  intros Hv Hl HF Hnl Hnf Hall Hne Hp. cbn [wf_node]. rewrite Hv, Hl. cbn [negb andb].
  assert (Hps : Permutation (gkids groups) ks1) by (apply Permutation_sym; exact Hp).
  assert (Hne1 : ks1 <> []).
  { intros ->. apply Permutation_nil in Hp. contradiction. }
  destruct ks1 as [|k0 kr] eqn:Ek; [contradiction|]. rewrite <- Ek in *. clear Hne1. cbn [negb andb].
  repeat (apply andb_true_iff; split).
  - apply forallb_forall. intros kd Hkd. eapply Permutation_in in Hkd; [|exact Hp].
    rewrite Forall_forall in Hall. destruct (Hall kd Hkd) as [a Ha]. rewrite Ha. simpl. apply taxon_eqb_refl.
  - eapply siblings_ok_perm; [exact Hps|]. apply siblings_ok_iff. eapply FOP_gkids; eauto.
  - apply (forallb_perm _ _ _ Hps). apply forallb_forall. intros kd Hkd. apply (dup_ok_perm _ _ _ Hps).
    unfold dup_ok. destruct kd as [[k|] c]; [|reflexivity]. cbn [fst snd].
    apply gkids_in_group in Hkd as ([f cs] & Hg & Ef & Hc). simpl in Ef, Hc. subst f.
    rewrite (filter_flag_gkids groups k cs Hnf Hg).
    destruct (Forall2_in_r _ _ _ _ HF Hg) as (l & _ & (_ & Hnodes & Har)). simpl in *.
    apply andb_true_iff. split.
    + rewrite map_length.
      assert (H2 : 2 <= List.length cs) by (destruct l as [|c1 [|c2 r]]; destruct Har as [H1 H2]; try discriminate; exact H2).
      destruct cs as [|a [|b r']]; simpl in H2; try lia. reflexivity.
    + apply forallb_forall. intros kd' Hkd'. apply in_map_iff in Hkd' as (c' & <- & Hc'). simpl.
      rewrite Forall_forall in Hnodes. destruct (Hnodes c Hc) as [E1 _]. destruct (Hnodes c' Hc') as [E2 _].
      rewrite E1, E2. apply taxon_eqb_refl.
  - apply (forallb_perm _ _ _ Hps). apply forallb_forall. intros kd Hkd.
    apply gkids_in_group in Hkd as ([f cs] & Hg & _ & Hc). simpl in Hc.
    destruct (Forall2_in_r _ _ _ _ HF Hg) as (l & _ & (_ & Hnodes & _)). simpl in Hnodes.
    rewrite Forall_forall in Hnodes. destruct (Hnodes _ Hc) as [_ Hw]. exact Hw.
Qed.

(* ---------- main lemma: every well-formed history, explicitly encoded, evaluates to itself ---------- *)
Lemma find_gene_fix g genes :
  (fix find (l : list (string * taxon)) : option taxon :=
     match l with
     | [] => None
     | (g', p) :: r => if String.eqb g g' then Some p else find r
     end) genes = find_gene g genes.
Proof. induction genes as [|[g' p] r IH]; simpl; [reflexivity|]. now rewrite IH. Qed.

Lemma Forall2_length {X Y} (R : X -> Y -> Prop) l l' : Forall2 R l l' -> List.length l = List.length l'.
Proof. induction 1; simpl; auto. Qed.

Theorem enc_evaluates t genes h : WFh t genes h -> member_eval t genes h.
Proof.
  induction h as [g p|p lins IH] using hist_ind'; intros Hwf pg fr s Hdom.
  - (* a gene *)
    destruct Hwf as [Hf Hl]. exists (HGene g p), s. split; [|split; [|split; [|split]]].
    + cbn [enc eval_item]. rewrite find_gene_fix, Hf. reflexivity.
    + simpl. auto.
    + split; [reflexivity|exact Hl].
    + apply ext_refl.
    + exact Hdom.
  - (* a HOG *)
    apply WFh_inv in Hwf as (Hv & Hl & Hne & Hnd & Hmem).
    assert (Hev : Forall (Forall (member_eval t genes)) lins).
    { rewrite Forall_forall in *. intros l Hlin. destruct (Hmem l Hlin) as [_ Hm]. specialize (IH l Hlin).
      rewrite Forall_forall in *. intros c Hc. apply IH; auto. destruct (Hm c Hc) as [Hw _]. exact Hw. }
    assert (Hinv0 : finv t p s []) by (constructor; [intros k []|constructor]).
    destruct (lins_eval t genes p lins Hmem Hev [] empty_frame s eq_refl Hinv0 Hdom)
      as (groups & s1 & E1 & R1 & G1 & X1 & D1 & I1 & L1).
    simpl in I1.
    assert (Htax : Forall (fun l => exists a, lin_tax l = a :: p) lins).
    { rewrite Forall_forall in *. intros l Hlin. destruct (Hmem l Hlin) as [Hlne Hm].
      destruct l as [|c r]; [contradiction|]. rewrite Forall_forall in Hm. destruct (Hm c (or_introl eq_refl)) as (_ & Hn & Ht & _).
      simpl. destruct (xtax c) as [|a q]; [contradiction|]. simpl in Ht. subst q. eauto. }
    assert (Hall : Forall (kid_child_of p) (gkids groups)) by (eapply gkids_taxa; eauto).
    assert (Hgne : gkids groups <> []).
    { destruct lins as [|l lr]; [contradiction|]. inversion G1 as [|? g ? gr Hg HF]; subst.
      destruct Hg as (Hcs & _). unfold gkids. simpl. destruct (snd g); [contradiction|discriminate]. }
    destruct (close_explicit t false p (add_kids empty_frame (gkids groups)) groups s1 eq_refl eq_refl Hgne Hall I1 D1)
      as (ks1 & s2 & E2 & P2 & O2 & DD2 & Hdom2 & U2).
    eexists _, s2. split; [|split; [|split; [|split]]].
    + rewrite enc_XH. cbn [eval_item]. fold (body_go t genes None). unfold bind at 1. rewrite E1.
      unfold bind at 1. rewrite E2. reflexivity.
    + cbn [matches]. split; [reflexivity|]. exists groups. split; [exact P2|]. split; [symmetry; eapply Forall2_length; eauto|].
      split; [destruct I1 as [_ Hn]; exact Hn|]. exact R1.
    + split; [reflexivity|]. eapply wf_closed; eauto. destruct I1 as [_ Hn]. exact Hn.
    + destruct X1 as (A1 & B1 & C1). repeat split; try lia.
      intros k Hk. rewrite U2; [apply C1; exact Hk|]. intros Hin. specialize (L1 k Hin). lia.
    + exact Hdom2.
Qed.

(* ---------- top level and whole documents ---------- *)
Lemma enc_top_evaluates t genes p lins s :
  WFh t genes (XH p lins) -> dups_dom s ->
  exists x s', eval_top t genes (enc (XH p lins)) s = Ok ((None, x), s') /\
               matches (XH p lins) x /\ node_ok t p x /\ ext s s' /\ dups_dom s'.
Proof.
  intros Hwf Hdom. pose proof Hwf as Hwf0.
  apply WFh_inv in Hwf as (Hv & Hl & Hne & Hnd & Hmem).
  assert (Hev : Forall (Forall (member_eval t genes)) lins).
  { rewrite Forall_forall in *. intros l Hlin. destruct (Hmem l Hlin) as [_ Hm].
    rewrite Forall_forall in *. intros c Hc. apply enc_evaluates. destruct (Hm c Hc) as [Hw _]. exact Hw. }
  assert (Hinv0 : finv t p s []) by (constructor; [intros k []|constructor]).
  destruct (lins_eval t genes p lins Hmem Hev [] empty_frame s eq_refl Hinv0 Hdom)
    as (groups & s1 & E1 & R1 & G1 & X1 & D1 & I1 & L1).
  simpl in I1.
  assert (Htax : Forall (fun l => exists a, lin_tax l = a :: p) lins).
  { rewrite Forall_forall in *. intros l Hlin. destruct (Hmem l Hlin) as [Hlne Hm].
    destruct l as [|c r]; [contradiction|]. rewrite Forall_forall in Hm. destruct (Hm c (or_introl eq_refl)) as (_ & Hn & Ht & _).
    simpl. destruct (xtax c) as [|a q]; [contradiction|]. simpl in Ht. subst q. eauto. }
  assert (Hall : Forall (kid_child_of p) (gkids groups)) by (eapply gkids_taxa; eauto).
  assert (Hgne : gkids groups <> []).
  { destruct lins as [|l lr]; [contradiction|]. inversion G1 as [|? g ? gr Hg HF]; subst.
    destruct Hg as (Hcs & _). unfold gkids. simpl. destruct (snd g); [contradiction|discriminate]. }
  destruct (close_explicit t true p (add_kids empty_frame (gkids groups)) groups s1 eq_refl eq_refl Hgne Hall I1 D1)
    as (ks1 & s2 & E2 & P2 & O2 & DD2 & Hdom2 & U2).
  eexists _, s2. split; [|split; [|split; [|split]]].
  - rewrite enc_XH. cbn [eval_top]. unfold eval_body. fold (body_go t genes None). unfold bind at 1. rewrite E1.
    unfold bind at 1. rewrite E2. reflexivity.
  - cbn [matches]. split; [reflexivity|]. exists groups. split; [exact P2|]. split; [symmetry; eapply Forall2_length; eauto|].
    split; [destruct I1 as [_ Hn]; exact Hn|]. exact R1.
  - split; [reflexivity|]. eapply wf_closed; eauto. destruct I1 as [_ Hn]. exact Hn.
  - destruct X1 as (A1 & B1 & C1). repeat split; try lia.
    intros k Hk. rewrite U2; [apply C1; exact Hk|]. intros Hin. specialize (L1 k Hin). lia.
  - exact Hdom2.
Qed.

Definition is_group (h : hist) : Prop := match h with XH _ _ => True | XG _ _ => False end.

Lemma tops_evaluate t genes hs : forall s,
  Forall (fun h => WFh t genes h /\ is_group h) hs -> dups_dom s ->
  exists tops s', mapM (eval_top t genes) (map enc hs) s = Ok (tops, s') /\
    Forall2 (fun h top => matches h (snd top) /\ node_ok t (xtax h) (snd top)) hs tops /\ dups_dom s'.
Proof.
  induction hs as [|h r IH]; intros s HF Hdom.
  - exists [], s. simpl. split; [reflexivity|]. split; [constructor|exact Hdom].
  - inversion HF as [|? ? [Hw Hg] Hr]; subst. destruct h as [g p|p lins]; [contradiction|].
    destruct (enc_top_evaluates t genes p lins s Hw Hdom) as (x & s1 & E1 & M1 & N1 & X1 & D1).
    destruct (IH s1 Hr D1) as (tops & s2 & E2 & F2 & D2).
    exists ((None, x) :: tops), s2. split; [|split; [constructor; auto|exact D2]].
    cbn [map mapM]. unfold bind at 1. rewrite E1. unfold bind at 1. rewrite E2. reflexivity.
Qed.

Lemma nodup_app_l {X} (a b : list X) : NoDup (a ++ b) -> NoDup a.
Proof.
  induction a as [|x r IH]; intros H; [constructor|]. simpl in H. inversion H as [|? ? Hx Hr]; subst.
  constructor; [|apply IH; exact Hr]. intros Hin. apply Hx. apply in_or_app. left. exact Hin.
Qed.

(* the species section of a sane document loads *)
Definition species_sane (t : stree) (sp : species) : Prop :=
  exists p, search t (sp_name sp) = [p] /\ is_leaf t p = true.

Lemma genes_fold_ok p gs : forall acc s,
  NoDup (map fst acc ++ map gd_id gs) ->
  exists s', foldM (fun acc g =>
                      if existsb (fun x => String.eqb (gd_id g) (fst x)) acc then fail Unmodelled
                      else bind (register p (RGene (gd_id g))) (fun _ => ret (acc ++ [(gd_id g, p)]))) gs acc s
             = Ok (acc ++ map (fun g => (gd_id g, p)) gs, s') /\ s_dup s' = s_dup s /\ s_dups s' = s_dups s.
Proof.
  induction gs as [|g r IH]; intros acc s Hn.
  - exists s. simpl. rewrite app_nil_r. auto.
  - cbn [foldM]. unfold bind at 1.
    assert (E : existsb (fun x => String.eqb (gd_id g) (fst x)) acc = false).
    { destruct (existsb _ acc) eqn:E; auto. exfalso. apply existsb_exists in E as (x & Hx & Ex). apply String.eqb_eq in Ex.
      simpl in Hn. apply NoDup_remove_2 in Hn. apply Hn. apply in_or_app. left. rewrite Ex. apply in_map. exact Hx. }
    rewrite E. destruct (register_spec p (RGene (gd_id g)) s) as (s1 & E1 & O1 & D1 & DS1).
    unfold bind at 1. rewrite E1. unfold ret at 1.
    destruct (IH (acc ++ [(gd_id g, p)]) s1) as (s2 & E2 & D2 & DS2).
    + rewrite map_app. simpl. rewrite <- app_assoc. simpl in *. exact Hn.
    + exists s2. rewrite E2. rewrite <- app_assoc. simpl. split; [reflexivity|]. split; congruence.
Qed.

Lemma species_fold_ok t sps : forall acc s,
  Forall (species_sane t) sps ->
  NoDup (map fst acc ++ flat_map (fun sp => map gd_id (sp_genes sp)) sps) ->
  exists genes s', foldM (fun acc sp => load_species t sp acc) sps acc s = Ok (genes, s') /\
                   s_dup s' = s_dup s /\ s_dups s' = s_dups s.
Proof.
  induction sps as [|sp r IH]; intros acc s HF Hn.
  - exists acc, s. simpl. auto.
  - inversion HF as [|? ? (p & Hs & Hl) Hr]; subst. cbn [foldM]. unfold bind at 1. unfold load_species. rewrite Hs, Hl. cbn [negb].
    destruct (ensure_spec p s) as (s1 & E1 & O1 & D1 & DS1). unfold bind at 1. rewrite E1.
    simpl in Hn. rewrite app_assoc in Hn.
    destruct (genes_fold_ok p (sp_genes sp) acc s1) as (s2 & E2 & D2 & DS2).
    { apply nodup_app_l in Hn. exact Hn. }
    rewrite E2.
    destruct (IH (acc ++ map (fun g => (gd_id g, p)) (sp_genes sp)) s2 Hr) as (genes & s3 & E3 & D3 & DS3).
    { rewrite map_app, map_map. simpl. exact Hn. }
    exists genes, s3. split; [exact E3|]. split; congruence.
Qed.

Theorem explicit_load t d hs :
  Forall (species_sane t) (d_species d) -> NoDup (declared d) -> d_groups d = map enc hs ->
  (forall genes, map fst genes = declared d ->
     (forall g p, In (g, p) genes -> exists sp, In sp (d_species d) /\ In g (map gd_id (sp_genes sp)) /\ species_resolves t sp p) ->
     Forall (fun h => WFh t genes h /\ is_group h) hs) ->
  exists l, load t d = Ok l /\
    Forall2 (fun h top => matches h (snd top) /\ htax (snd top) = xtax h /\ wf_node t (snd top) = true) hs (l_tops l).
Proof.
  intros Hsp Hnd Hg Hwf.
  destruct (species_fold_ok t (d_species d) [] init_state Hsp Hnd) as (genes & s0 & E0 & D0 & DS0).
  pose proof (species_fold_spec t _ _ _ _ _ E0) as (I1 & _ & _ & I4). simpl in I1.
  assert (Hdom0 : dups_dom s0).
  { intros k. rewrite DS0, D0. simpl. split; [intros H; contradiction|intros H; inversion H]. }
  assert (HF : Forall (fun h => WFh t genes h /\ is_group h) hs).
  { apply Hwf; [exact I1|]. intros g p Hin. apply I4 in Hin as [[]|Hin]. exact Hin. }
  destruct (tops_evaluate t genes hs s0 HF Hdom0) as (tops & s1 & E1 & F1 & _).
  exists {| l_genes := genes; l_tops := tops; l_state := s1 |}. split.
  - unfold load. unfold bind at 1. rewrite E0. rewrite Hg. unfold bind at 1. rewrite E1. reflexivity.
  - simpl. clear - F1. induction F1 as [|h top hr tr (M & [Ht Hw]) HF IH]; constructor; auto.
Qed.
