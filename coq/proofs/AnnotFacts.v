(* AnnotFacts.v — annotations stay attached to the object they annotate (C19). *)
From Coq Require Import List Arith Bool String Lia Permutation.
From PyHam Require Import Tax Ortho Loader.
From PyHam.proofs Require Import TaxFacts MapperFacts ForestFacts LoaderFacts.
Import ListNotations.

(* annotations written on a group itself: directly in its body, or inside its paralogGroups
   (they attach to the innermost open orthologGroup), not inside sub-groups *)
Fixpoint own_props (it : item) : list (string * string) :=
  match it with
  | IProp n v => [(n, v)]
  | IPG _ body => flat_map own_props body
  | _ => []
  end.
Fixpoint own_scores (it : item) : list (string * string) :=
  match it with
  | IScore n v => [(n, v)]
  | IPG _ body => flat_map own_scores body
  | _ => []
  end.

Definition item_annots (t : stree) (genes : list (string * taxon)) (it : item) : Prop :=
  forall pg fr s fr' s', eval_item t genes it pg fr s = Ok (fr', s') ->
    f_props fr' = f_props fr ++ own_props it /\ f_scores fr' = f_scores fr ++ own_scores it.

Lemma body_annots t genes pg l : forall acc s0 acc' s0',
  Forall (item_annots t genes) l ->
  (fix go (l : list item) (acc : frame) : M frame :=
     match l with
     | [] => ret acc
     | x :: r => bind (eval_item t genes x pg acc) (fun acc' => go r acc')
     end) l acc s0 = Ok (acc', s0') ->
  f_props acc' = f_props acc ++ flat_map own_props l /\ f_scores acc' = f_scores acc ++ flat_map own_scores l.
Proof.
  induction l as [|x r IHr]; intros acc s0 acc' s0' HF Hgo.
  - apply ret_ok in Hgo as [<- _]. simpl. rewrite !app_nil_r. auto.
  - inversion HF as [|? ? Hx Hr]; subst. inv_bind_as Hgo acc1 t1 E1 K1.
    destruct (Hx _ _ _ _ _ E1) as [P1 S1]. destruct (IHr _ _ _ _ Hr K1) as [P2 S2].
    simpl. rewrite P2, P1, S2, S1, !app_assoc. auto.
Qed.

Lemma eval_item_annots t genes it : item_annots t genes it.
Proof.
  induction it as [g l|id og body IH|og body IH|n v|n v] using item_ind'; intros pg fr s fr' s' H.
  - cbn [eval_item] in H.
    match type of H with context [match ?f with _ => _ end] => destruct f as [p|] eqn:Ef end; [|discriminate].
    inv_bind_as H u1 t1 E1 K1. apply ret_ok in K1 as [<- _]. simpl. rewrite !app_nil_r. auto.
  - cbn [eval_item] in H. inv_bind_as H inner t1 Einner K1. inv_bind_as K1 cl t2 Eclose K2.
    destruct cl; apply ret_ok in K2 as [<- _]; simpl; rewrite !app_nil_r; auto.
  - cbn [eval_item] in H. inv_bind_as H k t1 Ek K1. inv_bind_as K1 fr1 t2 Ebody K2. inv_bind_as K2 uc tc Ec Kc.
    apply chk_ok in Ec as [-> _]. inv_bind_as Kc u3 t3 E3 K3.
    apply ret_ok in K3 as [<- _]. apply (body_annots t genes (Some k) body fr t1 fr1 t2 IH Ebody).
  - cbn [eval_item] in H. apply ret_ok in H as [<- _]. simpl. rewrite app_nil_r. auto.
  - cbn [eval_item] in H. apply ret_ok in H as [<- _]. simpl. rewrite app_nil_r. auto.
Qed.

(* the HOG created when a group closes carries exactly the group's id and the frame's annotations *)
Lemma close_og_meta t top id og fr s h s' :
  close_og t top id og fr s = Ok (Node h, s') ->
  exists o lvl ks,
    h = HHog o lvl {| m_id := match id with Some i => Some i | None => og end; m_og := og;
                      m_props := f_props fr; m_scores := f_scores fr; m_synth := false |} ks.
Proof.
  unfold close_og. destruct (dedup_tax (map (fun kd => htax (snd kd)) (f_kids fr))) as [|x more]; [discriminate|].
  match goal with |- context [if ?b then _ else _] => destruct b end.
  - destruct top; [discriminate|]. intros H. apply ret_ok in H as [E _]. discriminate.
  - intros H. inv_bind_as H lvl0 t1 E1 K1. inv_bind_as K1 lvl t2 E2 K2. inv_bind_as K2 u3 t3 E3 K3.
    inv_bind_as K3 o t4 E4 K4. inv_bind_as K4 u5 t5 E5 K5. inv_bind_as K5 ks1 t6 E6 K6. inv_bind_as K6 ks2 t7 E7 K7.
    apply ret_ok in K7 as [E _]. inversion E. eauto.
Qed.

(* the annotation invariant of a hierarchy: HOGs synthesised for skipped levels carry nothing *)
Fixpoint annot_ok (h : hog) : Prop :=
  match h with
  | HGene _ _ => True
  | HHog _ _ m ks =>
      (m_synth m = true -> m_props m = [] /\ m_scores m = []) /\
      (fix all (l : list kid) : Prop := match l with [] => True | k :: r => annot_ok (snd k) /\ all r end) ks
  end.

Lemma annot_ok_all ks :
  (fix all (l : list kid) : Prop := match l with [] => True | k :: r => annot_ok (snd k) /\ all r end) ks
  <-> Forall (fun k => annot_ok (snd k)) ks.
Proof.
  induction ks as [|k r IH].
  - split; intros; [constructor|exact I].
  - split.
    + intros [H1 H2]. constructor; [exact H1|apply IH; exact H2].
    + intros H. inversion H; subst. split; [assumption|apply IH; assumption].
Qed.

Definition kids_ok (ks : list kid) : Prop := Forall (fun k => annot_ok (snd k)) ks.

Lemma chain_ok hid path : forall fl c s h s', chain hid path fl c s = Ok (h, s') -> annot_ok c -> annot_ok h.
Proof.
  induction path as [|tx r IH]; intros fl c s h s' H Hc.
  - apply ret_ok in H as [<- _]. exact Hc.
  - cbn [chain] in H. inv_bind_as H u1 t1 E1 K1. inv_bind_as K1 o t2 E2 K2. inv_bind_as K2 u3 t3 E3 K3.
    eapply IH; eauto. cbn [annot_ok]. split; [intros _; split; reflexivity|]. split; [exact Hc|exact I].
Qed.

Lemma mapM_kids_ok {X} (f : X -> M kid) (P : X -> Prop) :
  (forall c s kd s', f c s = Ok (kd, s') -> P c -> annot_ok (snd kd)) ->
  forall l s rs s', mapM f l s = Ok (rs, s') -> Forall P l -> kids_ok rs.
Proof.
  intros Hf. induction l as [|c r IH]; intros s rs s' H HP.
  - apply ret_ok in H as [<- _]. constructor.
  - cbn [mapM] in H. inv_bind_as H kd t1 E1 K1. inv_bind_as K1 rs' t2 E2 K2. apply ret_ok in K2 as [<- _].
    inversion HP; subst. constructor; eauto. eapply IH; eauto.
Qed.

Lemma lift_member_ok hid target k c s kd s' :
  lift_member hid target k c s = Ok (kd, s') -> annot_ok c -> annot_ok (snd kd).
Proof.
  unfold lift_member. intros H Hc. inv_bind_as H cid t1 E1 K1. inv_bind_as K1 top t2 E2 K2.
  apply ret_ok in K2 as [<- _]. simpl. eapply chain_ok; eauto.
Qed.

Lemma kids_ok_filter p ks : kids_ok ks -> kids_ok (filter p ks).
Proof. unfold kids_ok. rewrite !Forall_forall. intros H k Hk. apply filter_In in Hk as [Hk _]. auto. Qed.

Lemma members_ok k ks : kids_ok ks -> Forall annot_ok (members_of k ks).
Proof.
  unfold members_of, kids_ok. rewrite !Forall_forall. intros H c Hc. apply in_map_iff in Hc as (kd & <- & Hkd).
  apply filter_In in Hkd as [Hkd _]. auto.
Qed.

Lemma rehome_ok hid hoid lvl ks k s ks' s' :
  rehome hid hoid lvl ks k s = Ok (ks', s') -> kids_ok ks -> kids_ok ks'.
Proof.
  unfold rehome. intros H Hok. inv_bind_as H m t0 E0 K0. destruct m as [a|]; [|discriminate].
  destruct (negb (taxon_eqb a lvl)).
  - inv_bind_as K0 u1 t1 E1 K1. inv_bind_as K1 mo t2 E2 K2. inv_bind_as K2 u3 t3 E3 K3.
    inv_bind_as K3 lifted t4 E4 K4. inv_bind_as K4 u5 t5 E5 K5. apply ret_ok in K5 as [<- _].
    apply Forall_app. split; [apply kids_ok_filter; exact Hok|]. constructor; [|constructor].
    cbn [snd annot_ok]. split; [intros _; split; reflexivity|]. apply annot_ok_all.
    eapply (mapM_kids_ok _ annot_ok); [|exact E4|apply members_ok; exact Hok].
    intros c s0 kd s0' Hc. eapply lift_member_ok; eauto.
  - inv_bind_as K0 u1 t1 E1 K1. inv_bind_as K1 lifted t2 E2 K2. apply ret_ok in K2 as [<- _].
    apply Forall_app. split; [apply kids_ok_filter; exact Hok|].
    eapply (mapM_kids_ok _ annot_ok); [|exact E2|apply members_ok; exact Hok].
    intros c s0 kd s0' Hc. eapply lift_member_ok; eauto.
Qed.

Lemma foldM_rehome_ok hid hoid lvl keys : forall ks s ks' s',
  foldM (rehome hid hoid lvl) keys ks s = Ok (ks', s') -> kids_ok ks -> kids_ok ks'.
Proof.
  induction keys as [|k r IH]; intros ks s ks' s' H Hok.
  - apply ret_ok in H as [<- _]. exact Hok.
  - cbn [foldM] in H. inv_bind_as H ks1 t1 E1 K1. eapply IH; eauto. eapply rehome_ok; eauto.
Qed.

Lemma lift_generic_ok hid lvl kd s kd' s' :
  lift_generic hid lvl kd s = Ok (kd', s') -> annot_ok (snd kd) -> annot_ok (snd kd').
Proof.
  unfold lift_generic. intros H Hok. inv_bind_as H cid t1 E1 K1.
  destruct (path_up (htax (snd kd)) lvl) as [|tx r].
  - apply ret_ok in K1 as [<- _]. exact Hok.
  - inv_bind_as K1 top t2 E2 K2. apply ret_ok in K2 as [<- _]. simpl. eapply chain_ok; eauto.
Qed.

Lemma generic_pass_ok hid lvl ks s ks' s' :
  generic_pass hid lvl ks s = Ok (ks', s') -> kids_ok ks -> kids_ok ks'.
Proof.
  unfold generic_pass. intros H Hok. inv_bind_as H lifted t1 E1 K1. apply ret_ok in K1 as [<- _].
  apply Forall_app. split; [apply kids_ok_filter; exact Hok|].
  eapply (mapM_kids_ok _ (fun kd => annot_ok (snd kd))); [|exact E1|apply kids_ok_filter; exact Hok].
  intros c s0 kd s0' Hc. eapply lift_generic_ok; eauto.
Qed.

Lemma close_og_ok t top id og fr s c s' :
  close_og t top id og fr s = Ok (c, s') -> kids_ok (f_kids fr) ->
  match c with Node h => annot_ok h | Collapsed ks => kids_ok ks end.
Proof.
  unfold close_og. destruct (dedup_tax (map (fun kd => htax (snd kd)) (f_kids fr))) as [|x more]; [discriminate|].
  match goal with |- context [if ?b then _ else _] => destruct b end.
  - destruct top; [discriminate|]. intros H Hok. apply ret_ok in H as [<- _]. exact Hok.
  - intros H Hok. inv_bind_as H lvl0 t1 E1 K1. inv_bind_as K1 lvl t2 E2 K2. inv_bind_as K2 u3 t3 E3 K3.
    inv_bind_as K3 o t4 E4 K4. inv_bind_as K4 u5 t5 E5 K5. inv_bind_as K5 ks1 t6 E6 K6. inv_bind_as K6 ks2 t7 E7 K7.
    apply ret_ok in K7 as [<- _]. cbn [annot_ok m_synth]. split; [discriminate|]. apply annot_ok_all.
    eapply generic_pass_ok; eauto. eapply foldM_rehome_ok; eauto.
Qed.

Definition item_keeps_ok (t : stree) (genes : list (string * taxon)) (it : item) : Prop :=
  forall pg fr s fr' s', eval_item t genes it pg fr s = Ok (fr', s') -> kids_ok (f_kids fr) -> kids_ok (f_kids fr').

Lemma body_keeps_ok t genes pg l : forall acc s0 acc' s0',
  Forall (item_keeps_ok t genes) l ->
  (fix go (l : list item) (acc : frame) : M frame :=
     match l with
     | [] => ret acc
     | x :: r => bind (eval_item t genes x pg acc) (fun acc' => go r acc')
     end) l acc s0 = Ok (acc', s0') -> kids_ok (f_kids acc) -> kids_ok (f_kids acc').
Proof.
  induction l as [|x r IHr]; intros acc s0 acc' s0' HF Hgo Hok.
  - apply ret_ok in Hgo as [<- _]. exact Hok.
  - inversion HF as [|? ? Hx Hr]; subst. inv_bind_as Hgo acc1 t1 E1 K1. eapply IHr; eauto.
Qed.

Lemma kids_ok_reflag (pg : option nat) ks : kids_ok ks -> kids_ok (map (fun kd : kid => (pg, snd kd)) ks).
Proof. unfold kids_ok. rewrite !Forall_forall. intros H k Hk. apply in_map_iff in Hk as (kd & <- & Hkd). simpl. auto. Qed.

Lemma eval_item_keeps_ok t genes it : item_keeps_ok t genes it.
Proof.
  induction it as [g l|id og body IH|og body IH|n v|n v] using item_ind'; intros pg fr s fr' s' H Hok.
  - cbn [eval_item] in H.
    match type of H with context [match ?f with _ => _ end] => destruct f as [p|] eqn:Ef end; [|discriminate].
    inv_bind_as H u1 t1 E1 K1. apply ret_ok in K1 as [<- _]. cbn [add_kids f_kids].
    apply Forall_app. split; [exact Hok|]. constructor; [exact I|constructor].
  - cbn [eval_item] in H. inv_bind_as H inner t1 Einner K1. inv_bind_as K1 cl t2 Eclose K2.
    pose proof (body_keeps_ok t genes None body empty_frame s inner t1 IH Einner (Forall_nil _)) as Hb.
    apply close_og_ok in Eclose; auto. destruct cl as [ks|h]; apply ret_ok in K2 as [<- _]; cbn [add_kids f_kids];
      apply Forall_app; (split; [exact Hok|]).
    + destruct pg; [apply kids_ok_reflag|]; exact Eclose.
    + constructor; [exact Eclose|constructor].
  - cbn [eval_item] in H. inv_bind_as H k t1 Ek K1. inv_bind_as K1 fr1 t2 Ebody K2. inv_bind_as K2 uc tc Ec Kc.
    apply chk_ok in Ec as [-> _]. inv_bind_as Kc u3 t3 E3 K3.
    apply ret_ok in K3 as [<- _]. eapply (body_keeps_ok t genes (Some k) body); eauto.
  - cbn [eval_item] in H. apply ret_ok in H as [<- _]. exact Hok.
  - cbn [eval_item] in H. apply ret_ok in H as [<- _]. exact Hok.
Qed.

(* ---------- top level ---------- *)
Theorem top_annotations t genes id og body s i h s' :
  eval_top t genes (IOG id og body) s = Ok ((i, h), s') ->
  annot_ok h /\
  exists o lvl ks,
    h = HHog o lvl {| m_id := match id with Some x => Some x | None => og end; m_og := og;
                      m_props := flat_map own_props body; m_scores := flat_map own_scores body;
                      m_synth := false |} ks.
Proof.
  cbn [eval_top]. intros H. inv_bind_as H inner t1 Einner K1. inv_bind_as K1 cl t2 Eclose K2.
  rewrite eval_body_eq in Einner.
  assert (IH1 : Forall (item_annots t genes) body) by (apply Forall_forall; intros x _; apply eval_item_annots).
  assert (IH2 : Forall (item_keeps_ok t genes) body) by (apply Forall_forall; intros x _; apply eval_item_keeps_ok).
  destruct (body_annots t genes None body empty_frame s inner t1 IH1 Einner) as [P S]. simpl in P, S.
  pose proof (body_keeps_ok t genes None body empty_frame s inner t1 IH2 Einner (Forall_nil _)) as Hb.
  destruct cl as [ks|h0]; [discriminate|]. apply ret_ok in K2 as [E _]. inversion E; subst.
  split; [apply (close_og_ok _ _ _ _ _ _ _ _ Eclose Hb)|].
  apply close_og_meta in Eclose as (o & lvl & ks & ->). rewrite P, S. eauto.
Qed.

(* a nested group: whenever its close creates a HOG, that HOG carries the group's id and exactly the
   annotations written on the group *)
Theorem nested_annotations t genes id og body s inner t1 h s' :
  eval_body t genes body None empty_frame s = Ok (inner, t1) ->
  close_og t false id og inner t1 = Ok (Node h, s') ->
  annot_ok h /\
  exists o lvl ks,
    h = HHog o lvl {| m_id := match id with Some x => Some x | None => og end; m_og := og;
                      m_props := flat_map own_props body; m_scores := flat_map own_scores body;
                      m_synth := false |} ks.
Proof.
  intros Einner Eclose. rewrite eval_body_eq in Einner.
  assert (IH1 : Forall (item_annots t genes) body) by (apply Forall_forall; intros x _; apply eval_item_annots).
  assert (IH2 : Forall (item_keeps_ok t genes) body) by (apply Forall_forall; intros x _; apply eval_item_keeps_ok).
  destruct (body_annots t genes None body empty_frame s inner t1 IH1 Einner) as [P S]. simpl in P, S.
  pose proof (body_keeps_ok t genes None body empty_frame s inner t1 IH2 Einner (Forall_nil _)) as Hb.
  split; [apply (close_og_ok _ _ _ _ _ _ _ _ Eclose Hb)|].
  apply close_og_meta in Eclose as (o & lvl & ks & ->). rewrite P, S. eauto.
Qed.
