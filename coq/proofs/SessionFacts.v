(* SessionFacts.v — caches are never observable; the only side effect is genome creation (C17). *)
From Coq Require Import List Arith Bool String Lia.
From PyHam Require Import Tax Ortho Loader Mapper Profile Nav Export Session.
From PyHam.proofs Require Import TaxFacts.
Import ListNotations.

(* every cache entry equals the recomputation *)
Definition cache_ok (t : stree) (fo : forest) (s : sstate) : Prop :=
  (forall a d m, map_get (a, d) (ss_maps s) = Some m -> m = hogmap fo a d) /\
  (forall p c, clust_get p (ss_clust s) = Some c -> c = ancestral_clustering fo p) /\
  (forall o x, vis_get o (ss_vis s) = Some x -> exists h, find_hog fo o = Some h /\ x = export_groups t h).

Lemma pair_eqb_eq x y : pair_eqb x y = true -> x = y.
Proof.
  destruct x, y. unfold pair_eqb. simpl. intros H. apply andb_true_iff in H as [H1 H2].
  apply taxon_eqb_eq in H1, H2. congruence.
Qed.

Lemma cache_ok_init t fo gs : cache_ok t fo (sinit gs).
Proof. repeat split; simpl; intros; discriminate. Qed.

Lemma cached_map_spec t fo s a d :
  cache_ok t fo s ->
  snd (cached_map fo s a d) = hogmap fo a d /\ cache_ok t fo (fst (cached_map fo s a d)) /\
  ss_genomes (fst (cached_map fo s a d)) = ss_genomes s.
Proof.
  intros (H1 & H2 & H3). unfold cached_map. destruct (map_get (a, d) (ss_maps s)) as [m|] eqn:E; simpl.
  - split; [apply H1; exact E|]. split; [repeat split; auto|reflexivity].
  - split; [reflexivity|]. split; [|reflexivity]. repeat split; simpl; auto.
    intros a' d' m. destruct (pair_eqb (a', d') (a, d)) eqn:Ep.
    + apply pair_eqb_eq in Ep. inversion Ep; subst. intros H. inversion H. reflexivity.
    + apply H1.
Qed.

Lemma profile_maps_ok t fo (l : list (taxon * stree)) : forall s, cache_ok t fo s ->
  cache_ok t fo (fold_left (fun s pn => match up (fst pn) with
                                         | Some u => if skip_leaf t (ss_genomes s) (fst pn) then s else fst (cached_map fo s u (fst pn))
                                         | None => s
                                         end) l s).
Proof.
  induction l as [|pn r IH]; intros s H; simpl; auto. apply IH.
  destruct (up (fst pn)); auto. destruct (skip_leaf t (ss_genomes s) (fst pn)); auto. apply (cached_map_spec t fo s). exact H.
Qed.

(* what each call returns when the caches are consistent: a function of the loaded data only *)
Definition pure_out (t : stree) (fo : forest) (o : op) : out :=
  match o with
  | OVertical g1 g2 =>
      if taxon_eqb g1 g2 then RVertical (Err IndexError)
      else match orient g1 g2 with
           | Ok (a, d) => RVertical (Ok (a, d, hogmap fo a d))
           | Err e => RVertical (Err e)
           end
  | OLateral g1 g2 => RLateral (lateral fo g1 g2)
  | OProfileFull => RProfile (profile_full t fo)
  | OClustering p => RClustering (ancestral_clustering fo p)
  | OIham oid => RIham (option_map (export_groups t) (find_hog fo oid))
  | OProfileHog oid => RProfileHog (option_map (profile_hog t) (find_hog fo oid))
  | ONav oid => RNav (option_map (fun h => (desc_genes h, genes_by_species h, desc_hogs h, desc_levels h)) (find_hog fo oid))
  | OAtLevel r g => RAtLevel (get_at_level fo r g)
  end.

Lemma sstep_spec t fo s o :
  cache_ok t fo s -> snd (sstep t fo s o) = pure_out t fo o /\ cache_ok t fo (fst (sstep t fo s o)).
Proof.
  intros Hok. destruct o as [g1 g2|g1 g2| |p|oid|oid|oid|r g]; simpl.
  - destruct (taxon_eqb g1 g2); [auto|]. destruct (orient g1 g2) as [[a d]|e]; [|auto].
    destruct (cached_map_spec t fo s a d Hok) as (E & Hok' & _).
    destruct (cached_map fo s a d) as [s' m]. simpl in *. subst m. auto.
  - split; [reflexivity|]. destruct Hok as (H1 & H2 & H3). repeat split; auto.
  - destruct (profile_full t fo) as [r|e]; simpl; [|auto]. split; [reflexivity|].
    pose proof (profile_maps_ok t fo (all_nodes t) s Hok) as (H1 & H2 & H3). fold (profile_maps fo t s) in *.
    repeat split; auto.
  - destruct Hok as (H1 & H2 & H3). destruct (clust_get p (ss_clust s)) as [c|] eqn:E; simpl.
    + split; [f_equal; apply H2; exact E|repeat split; auto].
    + split; [reflexivity|]. repeat split; simpl; auto.
      intros p' c. destruct (taxon_eqb p' p) eqn:Ep; [|apply H2].
      apply taxon_eqb_eq in Ep. subst. intros H. inversion H. reflexivity.
  - destruct Hok as (H1 & H2 & H3). destruct (vis_get oid (ss_vis s)) as [x|] eqn:E; simpl.
    + destruct (H3 _ _ E) as (h & Hf & ->). rewrite Hf. simpl. split; [reflexivity|repeat split; auto].
    + destruct (find_hog fo oid) as [h|] eqn:Ef; simpl; [|split; [reflexivity|repeat split; auto]].
      split; [reflexivity|]. repeat split; simpl; auto.
      intros o x. destruct (Nat.eqb o oid) eqn:Eo; [|apply H3].
      apply Nat.eqb_eq in Eo. subst. intros H. inversion H. eauto.
  - auto.
  - auto.
  - auto.
Qed.

Lemma srun_ok t fo ops : forall s, cache_ok t fo s -> cache_ok t fo (srun t fo ops s).
Proof.
  induction ops as [|o r IH]; intros s H; simpl; auto. apply IH. apply sstep_spec. exact H.
Qed.

(* history independence *)
Theorem history_independent t fo gs ops o :
  snd (sstep t fo (srun t fo ops (sinit gs)) o) = snd (sstep t fo (sinit gs) o) /\
  snd (sstep t fo (sinit gs) o) = pure_out t fo o.
Proof.
  pose proof (cache_ok_init t fo gs) as H0.
  destruct (sstep_spec t fo _ o (srun_ok t fo ops _ H0)) as [E1 _].
  destruct (sstep_spec t fo _ o H0) as [E2 _]. split; congruence.
Qed.

(* genomes are only ever added *)
Lemma add_genome_incl p gs x : In x gs -> In x (add_genome p gs).
Proof. unfold add_genome. destruct (mem_tax p gs); auto. intros H. apply in_or_app. auto. Qed.

Lemma sstep_genomes t fo s o x : cache_ok t fo s -> In x (ss_genomes s) -> In x (ss_genomes (fst (sstep t fo s o))).
Proof.
  intros Hok Hx. destruct o as [g1 g2|g1 g2| |p|oid|oid|oid|r g]; simpl.
  - destruct (taxon_eqb g1 g2); auto. destruct (orient g1 g2) as [[a d]|e]; auto.
    destruct (cached_map_spec t fo s a d Hok) as (_ & _ & Eg). destruct (cached_map fo s a d) as [s' m]. simpl in *. congruence.
  - apply add_genome_incl. exact Hx.
  - destruct (profile_full t fo); simpl; auto.
    assert (Hg : In x (ss_genomes (profile_maps fo t s))).
    { unfold profile_maps. revert s Hok Hx. induction (all_nodes t) as [|pn r IH]; intros s Hok Hx; simpl; auto.
      destruct (up (fst pn)) as [u|]; [|apply IH; auto]. destruct (skip_leaf t (ss_genomes s) (fst pn)); [apply IH; auto|].
      destruct (cached_map_spec t fo s u (fst pn) Hok) as (_ & Hok' & Eg). apply IH; auto. congruence. }
    revert Hg. generalize (ss_genomes (profile_maps fo t s)). induction (all_nodes t) as [|pn r IH]; intros gs Hg; simpl; auto.
    apply IH. destruct (is_leaf t (fst pn)); [exact Hg|apply add_genome_incl; exact Hg].
  - destruct (clust_get p (ss_clust s)); auto.
  - destruct (vis_get oid (ss_vis s)); auto. destruct (find_hog fo oid); auto.
  - auto.
  - auto.
  - auto.
Qed.

Theorem genomes_monotone t fo gs ops x : In x gs -> In x (ss_genomes (srun t fo ops (sinit gs))).
Proof.
  intros Hx. assert (H : forall s, cache_ok t fo s -> In x (ss_genomes s) -> In x (ss_genomes (srun t fo ops s))).
  { induction ops as [|o r IH]; intros s Hok Hin; simpl; auto.
    apply IH; [apply sstep_spec; exact Hok|apply sstep_genomes; auto]. }
  apply H; [apply cache_ok_init|exact Hx].
Qed.

(* which genomes a call may create: the whole-dataset profile creates genomes of internal nodes only (never an
   extant genome); a lateral comparison the genome of the MRCA of its arguments; nothing else creates any *)
Lemma add_genome_in p gs x : In x (add_genome p gs) -> In x gs \/ x = p.
Proof. unfold add_genome. destruct (mem_tax p gs); [auto|]. intros H. apply in_app_or in H as [H|[H|[]]]; auto. Qed.

Lemma profile_maps_genomes t fo (l : list (taxon * stree)) : forall s,
  ss_genomes (fold_left (fun s pn => match up (fst pn) with
                                     | Some u => if skip_leaf t (ss_genomes s) (fst pn) then s else fst (cached_map fo s u (fst pn))
                                     | None => s
                                     end) l s) = ss_genomes s.
Proof.
  induction l as [|pn r IH]; intros s; simpl; [reflexivity|]. rewrite IH.
  destruct (up (fst pn)); [|reflexivity]. destruct (skip_leaf t (ss_genomes s) (fst pn)); [reflexivity|].
  unfold cached_map. destruct (map_get (t0, fst pn) (ss_maps s)); reflexivity.
Qed.

Theorem new_genomes t fo s o x :
  In x (ss_genomes (fst (sstep t fo s o))) ->
  In x (ss_genomes s) \/ (o = OProfileFull /\ is_leaf t x = false) \/ (exists g1 g2, o = OLateral g1 g2 /\ x = lcs g1 g2).
Proof.
  destruct o as [g1 g2|g1 g2| |p|oid|oid|oid|r g]; simpl.
  - destruct (taxon_eqb g1 g2); auto. destruct (orient g1 g2) as [[a d]|e]; auto.
    unfold cached_map. destruct (map_get (a, d) (ss_maps s)); simpl; auto.
  - intros H. apply add_genome_in in H as [H|H]; [auto|]. right. right. eauto.
  - destruct (profile_full t fo); simpl; auto. unfold profile_maps. rewrite profile_maps_genomes.
    generalize (ss_genomes s) as gs. induction (all_nodes t) as [|pn r IH]; intros gs H; simpl in H; auto.
    destruct (is_leaf t (fst pn)) eqn:El.
    + apply IH. exact H.
    + destruct (IH _ H) as [Hin|Hr]; [|auto]. apply add_genome_in in Hin as [Hin| ->]; auto.
  - destruct (clust_get p (ss_clust s)); auto.
  - destruct (vis_get oid (ss_vis s)); auto. destruct (find_hog fo oid); auto.
  - auto.
  - auto.
  - auto.
Qed.

(* ---------- the genome listings: the extant one never changes, the ancestral one only gains internal nodes ---------- *)
Lemma sub_rev_app t a : forall b, sub_rev t (a ++ b) = match sub_rev t a with Some c => sub_rev c b | None => None end.
Proof.
  revert t. induction a as [|k a IH]; intros t b; cbn [app sub_rev]; [reflexivity|].
  destruct (nth_error (skids t) k) as [c|]; [apply IH|reflexivity].
Qed.

Lemma sub_app t s a : sub t (s ++ a) = match sub t a with Some c => sub_rev c (rev s) | None => None end.
Proof. unfold sub. rewrite rev_app_distr. apply sub_rev_app. Qed.

Lemma valid_suffix t s a : valid t (s ++ a) = true -> valid t a = true.
Proof. unfold valid. rewrite sub_app. destruct (sub t a); [reflexivity|discriminate]. Qed.

Lemma leaf_no_extension t s a : valid t (s ++ a) = true -> is_leaf t a = true -> s = [].
Proof.
  unfold valid, is_leaf. rewrite sub_app. destruct (sub t a) as [c|]; [|discriminate]. intros Hv Hl.
  destruct (rev s) as [|k r] eqn:Er.
  - apply (f_equal (@rev nat)) in Er. rewrite rev_involutive in Er. exact Er.
  - cbn [sub_rev] in Hv. unfold sleaf in Hl. destruct (skids c); [|discriminate]. destruct k; discriminate.
Qed.

Lemma mem_tax_in p gs : mem_tax p gs = true <-> In p gs.
Proof.
  unfold mem_tax. rewrite existsb_exists. split.
  - intros (x & Hx & E). apply taxon_eqb_eq in E. subst. exact Hx.
  - intros H. exists p. split; [exact H|apply taxon_eqb_refl].
Qed.

Definition anc_node (t : stree) (p : taxon) : Prop := is_leaf t p = false /\ valid t p = true.

Lemma lateral_genome_shape t g1 g2 gs :
  valid t g1 = true -> In g1 gs ->
  exists extra, add_genome (lcs g1 g2) gs = gs ++ extra /\ Forall (anc_node t) extra.
Proof.
  intros Hv Hin. unfold add_genome. destruct (mem_tax (lcs g1 g2) gs) eqn:Em.
  - exists []. rewrite app_nil_r. auto.
  - exists [lcs g1 g2]. split; [reflexivity|]. constructor; [|constructor].
    destruct (lcs_is_suffix_l g1 g2) as (s & Es). split.
    + destruct (is_leaf t (lcs g1 g2)) eqn:El; [|reflexivity]. exfalso.
      rewrite Es in Hv. pose proof (leaf_no_extension t s _ Hv El) as ->. cbn [app] in Es.
      rewrite <- Es in Em. apply mem_tax_in in Hin. congruence.
    + rewrite Es in Hv. apply valid_suffix in Hv. exact Hv.
Qed.

Lemma profile_genome_shape t (l : list (taxon * stree)) :
  Forall (fun pn => valid t (fst pn) = true) l -> forall gs,
  exists extra, fold_left (fun gs pn => if is_leaf t (fst pn) then gs else add_genome (fst pn) gs) l gs = gs ++ extra /\
                Forall (anc_node t) extra.
Proof.
  induction l as [|pn r IH]; intros Hl gs; cbn [fold_left].
  - exists []. rewrite app_nil_r. auto.
  - inversion Hl as [|? ? Hv Hr]; subst. destruct (is_leaf t (fst pn)) eqn:El; [apply IH; exact Hr|].
    assert (Hc : add_genome (fst pn) gs = gs \/ add_genome (fst pn) gs = gs ++ [fst pn])
      by (unfold add_genome; destruct (mem_tax _ _); auto).
    destruct Hc as [-> | ->]; [apply IH; exact Hr|].
    destruct (IH Hr (gs ++ [fst pn])) as (e & E & He). exists (fst pn :: e). rewrite E, <- app_assoc. split; [reflexivity|].
    constructor; [split; assumption|exact He].
Qed.

Lemma sstep_genome_shape t fo s o :
  (forall g1 g2, o = OLateral g1 g2 -> valid t g1 = true /\ In g1 (ss_genomes s)) ->
  exists extra, ss_genomes (fst (sstep t fo s o)) = ss_genomes s ++ extra /\ Forall (anc_node t) extra.
Proof.
  intros Ha. assert (Hnil : exists extra, ss_genomes s = ss_genomes s ++ extra /\ Forall (anc_node t) extra)
    by (exists []; rewrite app_nil_r; auto).
  destruct o as [g1 g2|g1 g2| |p|oid|oid|oid|r g]; simpl.
  - destruct (taxon_eqb g1 g2); auto. destruct (orient g1 g2) as [[a d]|e]; auto.
    unfold cached_map. destruct (map_get (a, d) (ss_maps s)); simpl; auto.
  - destruct (Ha g1 g2 eq_refl) as (Hv & Hin). apply lateral_genome_shape; assumption.
  - destruct (profile_full t fo); simpl; auto. unfold profile_maps. rewrite profile_maps_genomes.
    apply profile_genome_shape. apply Forall_forall. intros pn Hpn. apply all_nodes_valid. apply in_map. exact Hpn.
  - destruct (clust_get p (ss_clust s)); auto.
  - destruct (vis_get oid (ss_vis s)); auto. destruct (find_hog fo oid); auto.
  - auto.
  - auto.
  - auto.
Qed.

(* the arguments of lateral comparisons are genomes that exist (arguments are drawn from the loaded objects) *)
Definition args_ok (gs : list taxon) (ops : list op) : Prop :=
  forall g1 g2, In (OLateral g1 g2) ops -> In g1 gs.

Theorem srun_genome_shape t fo ops : forall s,
  Forall (fun p => valid t p = true) (ss_genomes s) -> args_ok (ss_genomes s) ops ->
  exists extra, ss_genomes (srun t fo ops s) = ss_genomes s ++ extra /\ Forall (anc_node t) extra.
Proof.
  induction ops as [|o r IH]; intros s Hv Ha; cbn [srun fold_left].
  - exists []. rewrite app_nil_r. auto.
  - destruct (sstep_genome_shape t fo s o) as (e1 & E1 & H1).
    { intros g1 g2 ->. pose proof (Ha g1 g2 (or_introl eq_refl)) as Hin. split; [|exact Hin].
      rewrite Forall_forall in Hv. apply Hv. exact Hin. }
    destruct (IH (fst (sstep t fo s o))) as (e2 & E2 & H2).
    + rewrite E1. apply Forall_app. split; [exact Hv|]. eapply Forall_impl; [|exact H1]. intros p Hp. apply Hp.
    + intros g1 g2 Hin. rewrite E1. apply in_or_app. left. apply (Ha g1 g2). right. exact Hin.
    + exists (e1 ++ e2). fold (srun t fo r (fst (sstep t fo s o))). rewrite E2, E1, <- app_assoc. split; [reflexivity|].
      apply Forall_app. auto.
Qed.

Lemma filter_none {A} (f : A -> bool) l : Forall (fun x => f x = false) l -> filter f l = [].
Proof. induction 1 as [|x l Hx _ IH]; simpl; [reflexivity|]. rewrite Hx. exact IH. Qed.

Lemma filter_all {A} (f : A -> bool) l : Forall (fun x => f x = true) l -> filter f l = l.
Proof. induction 1 as [|x l Hx _ IH]; simpl; [reflexivity|]. rewrite Hx, IH. reflexivity. Qed.

Theorem extant_listing_stable t fo ops s :
  Forall (fun p => valid t p = true) (ss_genomes s) -> args_ok (ss_genomes s) ops ->
  extant_listing t (srun t fo ops s) = extant_listing t s.
Proof.
  intros Hv Ha. destruct (srun_genome_shape t fo ops s Hv Ha) as (e & E & He). unfold extant_listing.
  rewrite E, filter_app, (filter_none _ e), app_nil_r; [reflexivity|].
  eapply Forall_impl; [|exact He]. intros p Hp. apply Hp.
Qed.

Theorem ancestral_listing_grows t fo ops s :
  Forall (fun p => valid t p = true) (ss_genomes s) -> args_ok (ss_genomes s) ops ->
  exists extra, ancestral_listing t (srun t fo ops s) = ancestral_listing t s ++ extra /\ Forall (anc_node t) extra.
Proof.
  intros Hv Ha. destruct (srun_genome_shape t fo ops s Hv Ha) as (e & E & He). exists e. unfold ancestral_listing.
  rewrite E, filter_app, (filter_all _ e); [auto|].
  eapply Forall_impl; [|exact He]. intros p Hp. destruct Hp as [Hp _]. rewrite Hp. reflexivity.
Qed.

(* ---------- listed genomes are found by the lookups, in every reachable state ---------- *)
(* what Taxonomy accepts: leaf names pairwise different, internal names pairwise different *)
Definition kind_names_inj (t : stree) : Prop :=
  forall p q, valid t p = true -> valid t q = true -> is_leaf t p = is_leaf t q -> tax_name t p = tax_name t q -> p = q.

Lemma first_named_found t l p :
  (forall q, In q l -> tax_name t q = tax_name t p -> q = p) -> In p l -> first_named t (tax_name t p) l = Ok p.
Proof.
  intros Hu Hin. unfold first_named.
  assert (Hp : In p (filter (fun q => String.eqb (tax_name t q) (tax_name t p)) l))
    by (apply filter_In; split; [exact Hin|apply String.eqb_refl]).
  destruct (filter (fun q => String.eqb (tax_name t q) (tax_name t p)) l) as [|q r] eqn:Ef; [contradiction|].
  assert (Hq : In q (filter (fun q => String.eqb (tax_name t q) (tax_name t p)) l)) by (rewrite Ef; left; reflexivity).
  apply filter_In in Hq as [Hq1 Hq2]. apply String.eqb_eq in Hq2. rewrite (Hu q Hq1 Hq2). reflexivity.
Qed.

Theorem listed_genomes_found t s :
  kind_names_inj t -> Forall (fun q => valid t q = true) (ss_genomes s) ->
  (forall p, In p (ancestral_listing t s) -> s_anc_by_taxon t s p = Ok p /\ s_anc_by_name t s (tax_name t p) = Ok p) /\
  (forall p, In p (extant_listing t s) -> s_ext_by_name t s (tax_name t p) = Ok p).
Proof.
  intros Hinj Hv. rewrite Forall_forall in Hv. split.
  - intros p Hp. pose proof Hp as Hp'. unfold ancestral_listing in Hp. apply filter_In in Hp as [Hin Hl]. split.
    + unfold s_anc_by_taxon. rewrite Hl. rewrite (proj2 (mem_tax_in p (ss_genomes s)) Hin). reflexivity.
    + apply first_named_found; [|exact Hp']. intros q Hq En. unfold ancestral_listing in Hq. apply filter_In in Hq as [Hq Hlq].
      apply Hinj; auto. apply negb_true_iff in Hl, Hlq. congruence.
  - intros p Hp. pose proof Hp as Hp'. unfold extant_listing in Hp. apply filter_In in Hp as [Hin Hl].
    apply first_named_found; [|exact Hp']. intros q Hq En. unfold extant_listing in Hq. apply filter_In in Hq as [Hq Hlq].
    apply Hinj; auto. congruence.
Qed.

Lemma srun_valid t fo ops s :
  Forall (fun p => valid t p = true) (ss_genomes s) -> args_ok (ss_genomes s) ops ->
  Forall (fun p => valid t p = true) (ss_genomes (srun t fo ops s)).
Proof.
  intros Hv Ha. destruct (srun_genome_shape t fo ops s Hv Ha) as (e & E & He). rewrite E. apply Forall_app. split; [exact Hv|].
  eapply Forall_impl; [|exact He]. intros p Hp. apply Hp.
Qed.

Theorem listed_genomes_found_after_history t fo ops s0 :
  kind_names_inj t -> Forall (fun q => valid t q = true) (ss_genomes s0) -> args_ok (ss_genomes s0) ops ->
  let s := srun t fo ops s0 in
  (forall p, In p (ancestral_listing t s) -> s_anc_by_taxon t s p = Ok p /\ s_anc_by_name t s (tax_name t p) = Ok p) /\
  (forall p, In p (extant_listing t s) -> s_ext_by_name t s (tax_name t p) = Ok p).
Proof. intros Hinj Hv Ha s. apply listed_genomes_found; [exact Hinj|]. apply srun_valid; assumption. Qed.
