(* C04 — genome gene lists are exact; ancestral gene counts equal the lineages at a taxon. *)
From Coq Require Import List Arith Bool String Permutation.
From PyHam Require Import Tax Ortho Loader Mapper Preds Hist Whole.
From PyHam.proofs Require Import LoaderFacts RegFacts ExplicitFacts WholeFacts CrossFacts.
Import ListNotations.

(* The registrations performed during a load (Genome.add_gene calls: one list per node) are, up to
   order, exactly one per declared gene at the leaf of its species and one per HOG of the loaded
   hierarchy at that HOG's taxon - every HOG created at any of the four creation sites (group close,
   intermediate duplication HOG, missing-level chains) is registered once and ends up in the
   hierarchy, and nothing else is registered (no orphans, no omissions).  No hypothesis on the
   document beyond "it loads". *)
Theorem c04_registration : forall t d l,
  load t d = Ok l ->
  Permutation (s_regs (l_state l))
              (map (fun gp => (snd gp, RGene (fst gp))) (l_genes l) ++
               flat_map (fun top => hogregs (snd top)) (l_tops l)).
Proof. exact registrations_exact. Qed.
Print Assumptions c04_registration.

(* per taxon: the genome's list is the declared genes of that leaf plus the HOGs placed at the taxon,
   so the number of ancestral genes at T is the number of family lineages (HOG nodes) at T *)
Theorem c04_genome_lists : forall t d l T,
  load t d = Ok l ->
  Permutation (genome_list (l_state l) T)
    (map (fun gp => RGene (fst gp)) (filter (fun gp => taxon_eqb (snd gp) T) (l_genes l)) ++
     flat_map (fun top => map href (filter (fun x => taxon_eqb (htax x) T) (hogs_of (snd top)))) (l_tops l)).
Proof. exact genome_lists_exact. Qed.
Print Assumptions c04_genome_lists.

(* "the number of ancestral genes at a taxon equals the number of family lineages crossing it": the lineages crossing T
   in a family are the HOGs placed at T plus the parent -> child links passing T without a HOG there (Preds.crossing);
   for every consistent input no link skips a level, so every top-level HOG contributes exactly its HOGs at T - which,
   by c04_genome_lists, are what the ancestral genome at T lists *)
Theorem c04_lineages_crossing : forall t d hs,
  consistent t d hs ->
  exists l, load t d = Ok l /\ forall T,
    Forall (fun top => crossing T (snd top) = List.length (filter (fun x => taxon_eqb (htax x) T) (hogs_of (snd top)))) (l_tops l).
Proof.
  intros t d hs Hc. destruct (consistent_forest t d hs Hc) as (l & El & _ & Hf). exists l. split; [exact El|]. intros T.
  apply Forall_forall. intros top Hin. destruct (Forall2_in_r _ _ _ top Hf Hin) as (h & _ & (_ & _ & Hw)).
  exact (aligned_crossing t T (snd top) Hw).
Qed.
Print Assumptions c04_lineages_crossing.

(* a link that skips a level is seen by the count (the measure is not trivially the HOG count) *)
Example c04_skip_counted :
  crossing [1] (HHog 0 [] {| m_id := None; m_og := None; m_props := []; m_scores := []; m_synth := false |}
                     [(None, HGene "c1"%string [1; 1]); (None, HGene "x1"%string [0])]) = 1.
Proof. vm_compute. reflexivity. Qed.

Local Open Scope string_scope.
Definition tr : stree :=
  SNode "R" [SNode "X" []; SNode "M" [SNode "E" [SNode "H" []; SNode "P" []]; SNode "C" []]].
Definition doc0 : doc :=
  {| d_species := [ {| sp_name := "H"; sp_genes := [ {| gd_id := "h1"; gd_xrefs := [] |}; {| gd_id := "h2"; gd_xrefs := [] |} ] |};
                    {| sp_name := "X"; sp_genes := [ {| gd_id := "x1"; gd_xrefs := [] |} ] |} ];
     d_groups := [ IOG (Some "f") None [IGene "x1" None; IPG None [IGene "h1" None; IGene "h2" None]] ] |}.
(* the duplication sits below the group: an intermediate HOG at E and a missing-level HOG at M are created *)
Example c04_nonvacuous :
  match load tr doc0 with
  | Ok l => List.length (s_regs (l_state l)) = 3 + 3 /\
            List.length (genome_list (l_state l) [0; 1]) = 1 /\ List.length (genome_list (l_state l) [1]) = 1
  | Err _ => False
  end.
Proof. vm_compute. repeat split; reflexivity. Qed.
