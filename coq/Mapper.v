(* Mapper.v — AbstractGene.search_ancestor_hog_in_ancestral_genome, HOGsMap (mapper.py),
   Ham.compare_genomes_vertically / _lateral and their helpers, as functions of the loaded forest.
   The descendant genome's gene list is taken to be the forest's nodes at that taxon
   (property C04 is what justifies this; it is checked on the implementation separately).
   Model only: no proofs in this file. *)
From Coq Require Import List Arith Bool String.
From PyHam Require Import Tax Ortho.
Import ListNotations.

Record forest := {
  fo_tops : list hog;        (* top-level HOGs *)
  fo_singles : list hog      (* genes referenced by no group (HGene) *)
}.
Definition fo_roots (fo : forest) : list hog := fo_tops fo ++ fo_singles fo.

(* an ancestor on the way up, and whether it arose by duplication from its own parent *)
Definition anc := (hog * bool)%type.

(* every node at taxon D below h, with its own flag and its chain of ancestors (nearest first) *)
Fixpoint at_level (D : taxon) (chain : list anc) (fl : bool) (h : hog) : list (hog * bool * list anc) :=
  (if taxon_eqb (htax h) D then [(h, fl, chain)] else []) ++
  match h with
  | HGene _ _ => []
  | HHog _ _ _ ks => flat_map (fun k => at_level D ((h, fl) :: chain) (flagged (fst k)) (snd k)) ks
  end.

Definition genome_nodes (fo : forest) (D : taxon) : list (hog * bool * list anc) :=
  flat_map (at_level D [] false) (fo_roots fo).

(* the loop of search_ancestor_hog_in_ancestral_genome *)
Fixpoint walk (A : taxon) (paralog : bool) (chain : list anc) : option hog * bool :=
  match chain with
  | [] => (None, paralog)
  | (h, f) :: r => if taxon_eqb (htax h) A then (Some h, paralog) else walk A (paralog || f) r
  end.

Definition upmap (fo : forest) (A D : taxon) : list (hog * (option hog * bool)) :=
  map (fun x => match x with (hy, fl, ch) => (hy, walk A fl ch) end) (genome_nodes fo D).

(* Python dict keyed by object: RETAINED[Ho] = Hy overwrites, DUPLICATE.setdefault(Ho, []).append(Hy) *)
Fixpoint dict_set (k v : ref) (d : list (ref * ref)) : list (ref * ref) :=
  match d with
  | [] => [(k, v)]
  | (k', v') :: r => if ref_eqb k k' then (k', v) :: r else (k', v') :: dict_set k v r
  end.
Fixpoint dict_append (k v : ref) (d : list (ref * list ref)) : list (ref * list ref) :=
  match d with
  | [] => [(k, [v])]
  | (k', vs) :: r => if ref_eqb k k' then (k', vs ++ [v]) :: r else (k', vs) :: dict_append k v r
  end.

Record hmap := {
  hm_gain : list ref;
  hm_retained : list (ref * ref);            (* Ho -> Hy *)
  hm_dup : list (ref * list ref);            (* Ho -> [Hy] *)
  hm_loss : list ref;
  hm_ndup : nat                              (* number_duplication *)
}.

Definition mem_ref (r : ref) (l : list ref) : bool := existsb (ref_eqb r) l.

(* HOGsMap._build_event_clusters + _count_duplications *)
Definition clusters (anc_genes : list ref) (um : list (hog * (option hog * bool))) : hmap :=
  let step (acc : list ref * list (ref * ref) * list (ref * list ref) * list ref) (e : hog * (option hog * bool)) :=
      match acc, e with
      | (g, rt, du, comp), (hy, (None, _)) => (g ++ [href hy], rt, du, comp)
      | (g, rt, du, comp), (hy, (Some ho, true)) => (g, rt, dict_append (href ho) (href hy) du, href ho :: comp)
      | (g, rt, du, comp), (hy, (Some ho, false)) => (g, dict_set (href ho) (href hy) rt, du, href ho :: comp)
      end in
  match fold_left step um ([], [], [], []) with
  | (g, rt, du, comp) =>
      {| hm_gain := g; hm_retained := rt; hm_dup := du;
         hm_loss := filter (fun r => negb (mem_ref r comp)) anc_genes;
         hm_ndup := fold_left (fun n e => n + (List.length (snd e) - 1)) du 0 |}
  end.

(* MapVertical.get_number_duplications (finding F3 repaired: returns the attribute) *)
Definition get_number_duplications (m : hmap) : nat := hm_ndup m.

Definition genome_refs (fo : forest) (D : taxon) : list ref :=
  map (fun x => href (fst (fst x))) (genome_nodes fo D).

(* HOGsMap for an ancestor A and descendant D (orientation already decided) *)
Definition hogmap (fo : forest) (A D : taxon) : hmap :=
  clusters (genome_refs fo A) (upmap fo A D).

(* Ham._get_oldest_from_genome_pair for two distinct genomes *)
Definition orient (g1 g2 : taxon) : result (taxon * taxon) :=
  let m := lcs g1 g2 in
  if taxon_eqb g1 m then Ok (g1, g2)
  else if taxon_eqb g2 m then Ok (g2, g1)
  else Err TypeError.

(* Ham.compare_genomes_vertically on two distinct genomes *)
Definition vertical (fo : forest) (g1 g2 : taxon) : result (taxon * taxon * hmap) :=
  match orient g1 g2 with
  | Ok (a, d) => Ok (a, d, hogmap fo a d)
  | Err e => Err e
  end.

(* Ham.compare_genomes_lateral on two distinct genomes: reference = their MRCA; one HOGsMap per
   compared genome other than the reference *)
Definition lateral (fo : forest) (g1 g2 : taxon) : taxon * list (taxon * hmap) :=
  let a := lcs g1 g2 in
  (a, map (fun g => (g, hogmap fo a g)) (filter (fun g => negb (taxon_eqb g a)) [g1; g2])).

(* MapLateral's lazy aggregations *)
Definition lat_loss (ms : list (taxon * hmap)) : list (ref * taxon) :=
  flat_map (fun gm => map (fun r => (r, fst gm)) (hm_loss (snd gm))) ms.
Definition lat_gain (ms : list (taxon * hmap)) : list (taxon * list ref) :=
  map (fun gm => (fst gm, hm_gain (snd gm))) ms.
Definition lat_retained (ms : list (taxon * hmap)) : list (ref * taxon * ref) :=
  flat_map (fun gm => map (fun kv => (fst kv, fst gm, snd kv)) (hm_retained (snd gm))) ms.
Definition lat_dup (ms : list (taxon * hmap)) : list (ref * taxon * list ref) :=
  flat_map (fun gm => map (fun kv => (fst kv, fst gm, snd kv)) (hm_dup (snd gm))) ms.
