(* C09 — the whole-dataset tree profile balances on every branch. *)
From Coq Require Import List Arith Bool String.
From PyHam Require Import Tax Ortho Loader Mapper Preds Profile Whole.
From PyHam.proofs Require Import ProfileFacts WholeFacts.
Import ListNotations.

(* every non-root node a :: u carries the size of its genome and the counts of the vertical
   comparison with its parent u, and they balance *)
Theorem c09_balance : forall t fo a u,
  wfbc t fo = true ->
  exists ft, full_node fo (a :: u) = (a :: u, List.length (genome_refs fo (a :: u)), Some ft) /\
    List.length (genome_refs fo (a :: u)) + ft_lost ft =
      List.length (genome_refs fo u) + ft_gain ft + ft_duplication ft /\
    List.length (genome_refs fo (a :: u)) = ft_retained ft + ft_dupl ft + ft_gain ft /\
    ft_events ft = ft_duplication ft + ft_lost ft + ft_gain ft /\
    ft_retained ft = List.length (hm_retained (hogmap fo u (a :: u))) /\
    ft_gain ft = List.length (hm_gain (hogmap fo u (a :: u))) /\
    ft_lost ft = List.length (hm_loss (hogmap fo u (a :: u))) /\
    ft_duplication ft = hm_ndup (hogmap fo u (a :: u)).
Proof. exact balance. Qed.
Print Assumptions c09_balance.

(* the root carries only its genome size (0 when no family reaches it) *)
Theorem c09_root : forall fo, full_node fo [] = ([], List.length (genome_refs fo []), None).
Proof. exact root_node. Qed.
Print Assumptions c09_root.

(* the profile exists for every forest, whatever its content, as soon as node names are unambiguous *)
Theorem c09_total : forall t fo,
  names_unique t = true ->
  profile_full t fo = Ok (map (fun pn => full_node fo (fst pn)) (all_nodes t)).
Proof. exact profile_total. Qed.
Print Assumptions c09_total.

(* end to end: for every consistent input the whole-dataset profile of the loaded forest balances on every branch *)
Theorem c09_every_consistent_input : forall t d hs,
  consistent t d hs ->
  exists l, load t d = Ok l /\ forall a u,
    let fo := forest_of l in
    exists ft, full_node fo (a :: u) = (a :: u, List.length (genome_refs fo (a :: u)), Some ft) /\
      List.length (genome_refs fo (a :: u)) + ft_lost ft = List.length (genome_refs fo u) + ft_gain ft + ft_duplication ft /\
      List.length (genome_refs fo (a :: u)) = ft_retained ft + ft_dupl ft + ft_gain ft.
Proof.
  intros t d hs Hc. destruct (consistent_forest t d hs Hc) as (l & El & Hw & _). exists l. split; [exact El|].
  intros a u fo. destruct (balance t (forest_of l) a u Hw) as (ft & H1 & H2 & H3 & _). exists ft. auto.
Qed.
Print Assumptions c09_every_consistent_input.

Definition m0 : hmeta := {| m_id := None; m_og := None; m_props := []; m_scores := []; m_synth := false |}.
Definition tr : stree :=
  SNode "R" [SNode "X" []; SNode "M" [SNode "E" [SNode "H" []; SNode "P" []]; SNode "C" []]].
Definition fam : hog :=
  HHog 0 [1] m0 [(Some 0, HHog 2 [0; 1] m0 [(None, HGene "h1" [0; 0; 1])]);
                 (Some 0, HHog 3 [0; 1] m0 [(None, HGene "h2" [0; 0; 1]); (None, HGene "p2" [1; 0; 1])]);
                 (None, HGene "c1" [1; 1])].
Definition fo0 : forest := {| fo_tops := [fam]; fo_singles := [HGene "h9" [0; 0; 1]] |}.
(* no family reaches the root R: the profile is still defined, the root has 0 genes *)
Example c09_nonvacuous :
  wfbc tr fo0 = true /\ names_unique tr = true /\
  match profile_full tr fo0 with
  | Ok l => map (fun x => snd (fst x)) l = [0; 0; 1; 2; 3; 1; 1]
  | Err _ => False
  end.
Proof. vm_compute. repeat split; reflexivity. Qed.
