"""Per-property checks.  Each check_Cxx(ctx) explores inputs, compares the real pyham with the
extracted model layer by layer, evaluates the property's predicate on what the real code built,
and records violations in ctx."""
import io
import json
import os
import re
import tempfile
from collections import Counter

import gen
import impl
import model
import core
import corpus
import regress
from core import compare_parser, case_json
from sx import Q

pyham = impl.pyham
abstractgene = impl.abstractgene


# ------------------------------------------------------------------ streams
def gen_main(ctx, n, **kw):
    cases = []
    if not kw.pop('no_fixtures', False):
        cases.extend(regress.regress_cases())
        cases.extend(corpus.fixture_cases())
    big = ctx.tier == 'thorough'
    for i in range(n):
        r = ctx.rng.random()
        if r < 0.15:
            c = gen.gen_case(ctx.rng, max_leaves=4, **kw)
        elif r < 0.85 or not big:
            c = gen.gen_case(ctx.rng, max_leaves=10, **kw)
        else:
            c = gen.gen_case(ctx.rng, nleaves=ctx.rng.randint(11, 40), nfam=ctx.rng.randint(1, 8), **kw)
        cases.append(c)
    return cases


FORCED = None      # set by replay(): the only case explored


def loaded_stream(ctx, n, **kw):
    cases = FORCED if FORCED is not None else gen_main(ctx, n, **kw)
    Ls = core.load_cases(cases)
    for L in Ls:
        ctx.record_case(L.case)
    return Ls


def report_parser_layer(ctx, L, diffs, theorem):
    """a parser-layer disagreement with no failing predicate: the theorem no longer speaks about this code"""
    ctx.counts['parser_layer_disagreements'] += 1
    ctx.violation('parser layer: model and implementation disagree (%s); %s is no longer tied to the code'
                  % ('; '.join(diffs)[:300], theorem),
                  {'case': case_json(L.case), 'layer': 'parser', 'differences': diffs, 'theorem': theorem},
                  no_input=True)


def analyze(Ls, cmds_for):
    """run analysis commands of the model on the implementation's own forest; returns list of reply lists"""
    reqs = []
    idx = []
    for i, L in enumerate(Ls):
        if L.dump is None:
            continue
        cmds = cmds_for(L)
        if not cmds:
            continue
        reqs.append(['analyze', L.dump.named_tree_sx(), L.dump.forest_sx()] + cmds)
        idx.append(i)
    reps = model.run_requests(reqs, chunk=100)
    out = [None] * len(Ls)
    for i, r in zip(idx, reps):
        out[i] = r[1:] if isinstance(r, list) and r and r[0] == 'results' else None
    return out


def P(p):
    return tuple(int(i) for i in p)


def R(r):
    return ('g', str(r[1])) if r[0] == 'g' else ('h', int(r[1]))


# ------------------------------------------------------------------ C01
def group_refs(it):
    if it[0] == 'g':
        return [it[1]]
    if it[0] == 'og':
        return [g for x in it[3] for g in group_refs(x)]
    if it[0] == 'pg':
        return [g for x in it[2] for g in group_refs(x)]
    return []


def pred_c01(L):
    """returns a list of failure descriptions"""
    bad = []
    ham, c = L.ham, L.case
    declared = {}
    for sp, gs in c.species:
        for g in gs:
            declared[g['id']] = sp
    if sorted(ham.extant_gene_map.keys()) != sorted(declared.keys()):
        bad.append('extant genes are not exactly the declared genes')
    for gid, g in ham.extant_gene_map.items():
        if gid in declared and (g.genome is None or g.genome.name != declared[gid]):
            bad.append('gene %s is not in the species that declares it' % gid)
        if g.unique_id != gid:
            bad.append('gene stored under a different id')
    referenced = set()
    fams = []
    for it in c.groups:
        gid = it[1] if it[1] is not None else it[2]
        refs = group_refs(it)
        referenced.update(refs)
        try:
            hog = ham.get_hog_by_id(gid)
        except KeyError:
            bad.append('top-level group %s has no top-level HOG' % gid)
            continue
        members = [g.unique_id for g in hog.get_all_descendant_genes()]
        if sorted(members) != sorted(refs):
            bad.append('members of top-level HOG %s are not the genes referenced in its group' % gid)
        fams.append(set(members))
        for g in hog.get_all_descendant_genes():
            if g.get_top_level_hog() is not hog:
                bad.append('gene %s belongs to another family than the one listing it' % g.unique_id)
    if len(ham.top_level_hogs) != len(c.groups):
        bad.append('number of top-level HOGs differs from the number of top-level groups')
    for i in range(len(fams)):
        for j in range(i + 1, len(fams)):
            if fams[i] & fams[j]:
                bad.append('two families share a gene')
    for gid, g in ham.extant_gene_map.items():
        if gid not in referenced:
            if g.parent is not None or not g.is_singleton():
                bad.append('unreferenced gene %s is not a singleton' % gid)
        elif g.parent is None:
            bad.append('referenced gene %s lost its family' % gid)
    return bad


def check_C01(ctx):
    Ls = loaded_stream(ctx, ctx.scale(400, 6000))
    for L in Ls:
        if L.impl[0] == 'ok':
            ctx.counts['loaded'] += 1
            bad = pred_c01(L)
            if bad:
                ctx.violation(bad[0], {'case': case_json(L.case), 'failures': bad})
                continue
        diffs = compare_parser(L)
        if diffs == ['unmodelled']:
            ctx.counts['outside_model_domain'] += 1
        elif diffs:
            report_parser_layer(ctx, L, diffs, 'props/C01.v: c01_conservation')
        else:
            ctx.counts['parser_layer_agree'] += 1


# ------------------------------------------------------------------ C02
def check_C02(ctx):
    Ls = loaded_stream(ctx, ctx.scale(400, 6000))
    wf = analyze(Ls, lambda L: [['wf']])
    for L, w in zip(Ls, wf):
        if L.impl[0] != 'ok':
            if L.model[0] == 'ok':
                report_parser_layer(ctx, L, ['impl rejects, model loads'], 'props/C02.v: c02_wf')
            continue
        ctx.counts['loaded'] += 1
        bad = list(L.dump.anomalies)
        if L.case.consistent and (w is None or str(w[0]) != '1'):
            bad.append('hierarchy is not aligned with the species tree (wfb = false)')
        if bad:
            ctx.violation(bad[0], {'case': case_json(shrunk(ctx, L, wf_fails)), 'failures': bad[:10]})
            continue
        diffs = compare_parser(L)
        if diffs == ['unmodelled']:
            ctx.counts['outside_model_domain'] += 1
        elif diffs:
            report_parser_layer(ctx, L, diffs, 'props/C02.v: c02_wf')
        else:
            ctx.counts['parser_layer_agree'] += 1


# ------------------------------------------------------------------ C03
def check_C03(ctx):
    n = ctx.scale(400, 6000)
    Ls = loaded_stream(ctx, n)
    # fully explicit encodings: loaded hierarchy must equal the simulated history
    ex = [gen.gen_case(ctx.rng, explicit=True, tag='explicit') for _ in range(ctx.scale(150, 2000))]
    Ls2 = core.load_cases(ex)
    for L in Ls2:
        ctx.record_case(L.case)
    for L in Ls + Ls2:
        if L.impl[0] != 'ok':
            if L.case.histories is not None:
                ctx.violation('consistent input rejected: %s' % (L.impl[1],),
                              {'case': case_json(L.case), 'error': L.impl[1:]})
            continue
        ctx.counts['loaded'] += 1
        if L.case.histories is not None:
            ch = sorted(gen.h_canon(h) for _, h in L.case.histories)
            ci = sorted(gen.h_canon(impl.hist_of_forest(h)) for h in L.dump.top_sx)
            ctx.counts['history_oracle'] += 1
            if ch != ci:
                ctx.violation('loaded hierarchy differs from the generating history',
                              {'case': case_json(L.case), 'loaded': repr(ci)[:2000], 'history': repr(ch)[:2000]})
                continue
        diffs = compare_parser(L)
        if diffs == ['unmodelled']:
            ctx.counts['outside_model_domain'] += 1
        elif diffs:
            report_parser_layer(ctx, L, diffs, 'props/C03.v: c03_levels')
        else:
            ctx.counts['parser_layer_agree'] += 1


# ------------------------------------------------------------------ C04
def pred_c04(L):
    bad = []
    d, c = L.dump, L.case
    declared = {}
    for sp, gs in c.species:
        declared.setdefault(sp, []).extend(g['id'] for g in gs)
    gt = d.genome_table()
    # nodes of the forest per taxon
    at = {}
    for h in d.top_sx:
        for x in core.all_hogs_sx(h):
            at.setdefault(P(x[2]), []).append(int(x[1]))
    for p, (kind, name, refs) in gt.items():
        node = d.node_at[p]
        if kind == 'extant':
            if not node.is_leaf():
                bad.append('extant genome on an internal node')
            want = sorted(declared.get(name, []))
            got = sorted(r[1] for r in refs if r[0] == 'g')
            if want != got or any(r[0] != 'g' for r in refs):
                bad.append('extant genome %s does not list exactly its declared genes' % name)
            if p not in d.leaves:
                bad.append('extant genome %s missing from the taxonomy leaves set' % name)
        else:
            if node.is_leaf():
                bad.append('ancestral genome on a leaf')
            if name != node.name:
                bad.append('ancestral genome name %r differs from its node name %r' % (name, node.name))
            want = sorted(at.get(p, []))
            got = sorted(r[1] for r in refs if r[0] == 'h')
            if want != got or any(r[0] != 'h' for r in refs):
                bad.append('ancestral genome %s does not list exactly the HOGs placed at its taxon' % name)
            if p not in d.internals:
                bad.append('ancestral genome %s missing from the taxonomy internal_nodes set' % name)
            if d.ham.get_ancestral_genome_by_taxon(node) is not d.genome_at[p]:
                bad.append('lookup by taxon returns another genome')
    for p in at:
        if p not in gt:
            bad.append('HOGs placed at a taxon without a genome')
    if set(gt.keys()) != (d.leaves | d.internals):
        bad.append('taxonomy genome sets differ from the nodes carrying a genome')
    gs = list(d.genome_at.values())
    if len(set(id(g) for g in gs)) != len(gs):
        bad.append('one genome object bound to two nodes')
    # every gene/HOG points to the genome that lists it
    for p, g in d.genome_at.items():
        for x in g.genes:
            if x.genome is not g:
                bad.append('member of genome %s points to another genome' % g.name)
    bad.extend(a for a in d.anomalies if 'genome' in a)
    return bad


def check_C04(ctx):
    Ls = loaded_stream(ctx, ctx.scale(400, 6000))
    for L in Ls:
        if L.impl[0] != 'ok':
            continue
        ctx.counts['loaded'] += 1
        bad = pred_c04(L)
        if bad:
            ctx.violation(bad[0], {'case': case_json(L.case), 'failures': bad[:10]})
            continue
        diffs = compare_parser(L)
        if diffs == ['unmodelled']:
            ctx.counts['outside_model_domain'] += 1
        elif diffs:
            report_parser_layer(ctx, L, diffs, 'props/C04.v: c04_registration')
        else:
            ctx.counts['parser_layer_agree'] += 1


def replay(ctx, rp):
    """re-run the property's check on exactly the recorded case"""
    global FORCED
    FORCED = [core.case_unjson(rp['case'])]
    ctx.notes.append('replay of %s' % rp.get('what', ''))
    CHECKS[ctx.prop](ctx)


def shrunk(ctx, L, fails):
    """smallest sub-case (families deleted) on which `fails` still holds"""
    try:
        return core.shrink_case(L.case, fails)
    except Exception:  # noqa
        return L.case


def wf_fails(case):
    L = core.load_cases([case])[0]
    if L.impl[0] != 'ok':
        return False
    w = analyze([L], lambda L: [['wf']])[0]
    return bool(L.dump.anomalies) or w is None or str(w[0]) != '1'


CHECKS = {}
for _k, _v in list(globals().items()):
    if _k.startswith('check_C'):
        CHECKS[_k[6:]] = _v
