(* C10 — per-family tree profiles are correct and add up to the whole-dataset profile. *)
From Coq Require Import List Arith Bool String.
From PyHam Require Import Tax Ortho Loader Mapper Preds Profile Whole.
From PyHam.proofs Require Import PartitionFacts FamilyProfileFacts AdditiveFacts WholeFacts.
Import ListNotations.

(* at every node below the family's taxon: nbr_genes is the number of family members living there,
   split into duplicated (flagged) and retained; lost is the number of family members at the parent
   node without a child at the node; the root of the family's subtree carries its size only *)
Theorem c10_meaning : forall h lvl,
  taxon_eqb lvl (htax h) = false ->
  exists hf, hog_node h lvl = (lvl, List.length (members_at h lvl), Some hf) /\
    hf_dupl hf + hf_retained hf = List.length (members_at h lvl) /\
    hf_dupl hf = List.length (filter (fun x => snd (fst x)) (at_level lvl [] false h)) /\
    hf_lost hf = (match up lvl with
                  | Some u => List.length (filter (fun x => negb (has_child_at lvl x)) (members_at h u))
                  | None => 0
                  end) /\
    hf_events hf = hf_lost hf + hf_duplication hf.
Proof. exact family_node_meaning. Qed.
Print Assumptions c10_meaning.

Theorem c10_root : forall h, exists n, hog_node h (htax h) = (htax h, n, None).
Proof. exact family_root_node. Qed.
Print Assumptions c10_root.

(* additivity: on every branch (node a :: u below its parent u) of an aligned forest, the node of the
   whole-dataset profile is the sum over all roots - top-level HOGs and singletons - of what each
   contributes (fam_feat): a gain (one event) at the root's own taxon, and at every other node the
   retained / duplicated / lost / duplication / events counts of its per-family profile.  Gene counts add
   up as well.  Hypothesis: wfb (C02), which every consistent load satisfies. *)
Theorem c10_additive : forall t fo a u,
  wfbc t fo = true ->
  full_node fo (a :: u) =
    (a :: u, list_sum (map (fun r => List.length (members_at r (a :: u))) (fo_roots fo)),
     Some (feat_sum (map (fun r => fam_feat r (a :: u)) (fo_roots fo)))).
Proof. exact additive. Qed.
Print Assumptions c10_additive.

(* only the families whose per-family profile covers the node (the node lies in the clade of the
   family's taxon) contribute: the others add zero *)
Theorem c10_additive_covering : forall t fo a u,
  wfbc t fo = true ->
  full_node fo (a :: u) =
    (a :: u, list_sum (map (fun r => List.length (members_at r (a :: u))) (fo_roots fo)),
     Some (feat_sum (map (fun r => fam_feat r (a :: u)) (filter (covers (a :: u)) (fo_roots fo))))).
Proof. exact additive_covering. Qed.
Print Assumptions c10_additive_covering.

(* the root node of the whole-dataset profile carries the gene count only, and that count adds up too *)
Theorem c10_additive_genes : forall fo v,
  List.length (genome_refs fo v) = list_sum (map (fun r => List.length (members_at r v)) (fo_roots fo)).
Proof. exact nbr_genes_additive. Qed.
Print Assumptions c10_additive_genes.

(* end to end: for every consistent input the per-family profiles of the loaded forest add up to its
   whole-dataset profile on every branch *)
Theorem c10_every_consistent_input : forall t d hs,
  consistent t d hs ->
  exists l, load t d = Ok l /\ forall a u,
    let fo := forest_of l in
    full_node fo (a :: u) =
      (a :: u, list_sum (map (fun r => List.length (members_at r (a :: u))) (fo_roots fo)),
       Some (feat_sum (map (fun r => fam_feat r (a :: u)) (fo_roots fo)))).
Proof.
  intros t d hs Hc. destruct (consistent_forest t d hs Hc) as (l & El & Hw & _). exists l. split; [exact El|].
  intros a u fo. exact (additive t (forest_of l) a u Hw).
Qed.
Print Assumptions c10_every_consistent_input.

Definition m0 : hmeta := {| m_id := None; m_og := None; m_props := []; m_scores := []; m_synth := false |}.
Definition fam : hog :=
  HHog 0 [1] m0 [(Some 0, HHog 2 [0; 1] m0 [(None, HGene "h1" [0; 0; 1])]);
                 (Some 0, HHog 3 [0; 1] m0 [(None, HGene "h2" [0; 0; 1]); (None, HGene "p2" [1; 0; 1])]);
                 (None, HGene "c1" [1; 1])].
Example c10_nonvacuous :
  hog_node fam [0; 1] = ([0; 1], 2, Some {| hf_retained := 0; hf_dupl := 2; hf_lost := 0; hf_duplication := 1; hf_events := 1 |}) /\
  hog_node fam [1; 0; 1] = ([1; 0; 1], 1, Some {| hf_retained := 1; hf_dupl := 0; hf_lost := 1; hf_duplication := 0; hf_events := 1 |}).
Proof. vm_compute. split; reflexivity. Qed.

Definition tr10 : stree := SNode "R" [SNode "X" []; SNode "M" [SNode "E" [SNode "H" []; SNode "P" []]; SNode "C" []]].
Definition fo10 : forest := {| fo_tops := [fam]; fo_singles := [HGene "x9" [0]] |}.
Example c10_additive_nonvacuous :
  wfbc tr10 fo10 = true /\
  full_node fo10 [0; 1] = ([0; 1], 2, Some (feat_sum (map (fun r => fam_feat r [0; 1]) (fo_roots fo10)))) /\
  full_node fo10 [0] = ([0], 1, Some (feat_sum (map (fun r => fam_feat r [0]) (fo_roots fo10)))).
Proof. vm_compute. repeat split. Qed.
