(* C06 — retained / duplicated / lost / gained mean what the documentation says. *)
From Coq Require Import List Arith Bool String Permutation.
From PyHam Require Import Tax Ortho Loader Mapper Preds Whole.
From PyHam.proofs Require Import ForestFacts ClusterFacts PartitionFacts WholeFacts.
Import ListNotations.

(* The specification side is defined downward on the forest, independently of the up-walk:
   - ANs A fo           : the genes of the ancestral genome (nodes at A);
   - dn D false ho      : the nodes at D below ho, each with the OR of the duplication flags on the
                          edges of the path from ho ("it or a HOG strictly between arose by duplication");
   - gains A D false r  : the nodes at D of family r that are not below any node at A. *)
Theorem c06_meaning : forall t fo A D,
  wfbc t fo = true -> A <> D ->
  let m := hogmap fo A D in
  (forall a, In a (hm_gain m) <->
             exists r hy b, In r (fo_roots fo) /\ In (hy, b) (gains A D false r) /\ a = href hy) /\
  (forall ho y, In ho (ANs A fo) ->
     (In (href ho, y) (hm_retained m) <-> exists hy, In (hy, false) (dn D false ho) /\ y = href hy)) /\
  (forall ho y, In ho (ANs A fo) ->
     (In (href ho, y) (dpairs (hm_dup m)) <-> exists hy, In (hy, true) (dn D false ho) /\ y = href hy)) /\
  (forall a, In a (hm_loss m) <-> exists ho, In ho (ANs A fo) /\ a = href ho /\ dn D false ho = []) /\
  hm_ndup m = list_sum (map (fun e => List.length (snd e) - 1) (hm_dup m)).
Proof. exact meaning. Qed.
Print Assumptions c06_meaning.

(* the genes of the ancestral genome are exactly the nodes ANs enumerates *)
Theorem c06_ancestral_genes : forall t fo A, wfbc t fo = true -> genome_refs fo A = map href (ANs A fo).
Proof. exact genome_refs_ANs. Qed.
Print Assumptions c06_ancestral_genes.

(* the number of duplication events is obtainable through the public accessor *)
Theorem c06_accessor : forall m, get_number_duplications m = hm_ndup m.
Proof. reflexivity. Qed.
Print Assumptions c06_accessor.

(* end to end: for every consistent input the loaded forest satisfies the hypothesis (c02_consistent_forest) *)
Theorem c06_every_consistent_input : forall t d hs,
  consistent t d hs ->
  exists l, load t d = Ok l /\ wfbc t (forest_of l) = true /\
    forall A, genome_refs (forest_of l) A = map href (ANs A (forest_of l)).
Proof.
  intros t d hs Hc. destruct (consistent_forest t d hs Hc) as (l & El & Hw & _). exists l. split; [exact El|]. split; [exact Hw|].
  intros A. exact (genome_refs_ANs t (forest_of l) A Hw).
Qed.
Print Assumptions c06_every_consistent_input.

Definition m0 : hmeta := {| m_id := None; m_og := None; m_props := []; m_scores := []; m_synth := false |}.
Definition tr : stree :=
  SNode "R" [SNode "X" []; SNode "M" [SNode "E" [SNode "H" []; SNode "P" []]; SNode "C" []]].
Definition fam : hog :=
  HHog 0 [] m0 [(None, HGene "x1" [0]);
                (None, HHog 1 [1] m0 [(Some 0, HHog 2 [0; 1] m0 [(None, HGene "h1" [0; 0; 1])]);
                                      (Some 0, HHog 3 [0; 1] m0 [(None, HGene "h2" [0; 0; 1]); (None, HGene "p2" [1; 0; 1])]);
                                      (None, HGene "c1" [1; 1])])].
Definition fo0 : forest := {| fo_tops := [fam]; fo_singles := [HGene "h9" [0; 0; 1]] |}.
Example c06_nonvacuous :
  wfbc tr fo0 = true /\
  map href (ANs [1] fo0) = [RHog 1] /\
  map (fun e => (href (fst e), snd e)) (dn [0; 0; 1] false (HHog 1 [1] m0 (hkids (snd (nth 1 (hkids fam) (None, fam))))))
    = [(RGene "h1", true); (RGene "h2", true)] /\
  hm_ndup (hogmap fo0 [1] [0; 0; 1]) = 1.
Proof. vm_compute. repeat split; reflexivity. Qed.
