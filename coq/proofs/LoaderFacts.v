(* LoaderFacts.v — the loader conserves genes: what an element adds to the open group is a
   rearrangement of the genes it references (C01), and failures propagate (C20). *)
From Coq Require Import List Arith Bool String Lia Permutation.
From PyHam Require Import Tax Ortho Loader Filter.
From PyHam.proofs Require Import TaxFacts MapperFacts ForestFacts.
Import ListNotations.

(* ---------- induction principle for items ---------- *)
Fixpoint item_ind' (P : item -> Prop)
  (Hg : forall g l, P (IGene g l))
  (Ho : forall id og body, Forall P body -> P (IOG id og body))
  (Hp : forall og body, Forall P body -> P (IPG og body))
  (Hpr : forall n v, P (IProp n v))
  (Hs : forall n v, P (IScore n v))
  (it : item) : P it :=
  match it with
  | IGene g l => Hg g l
  | IOG id og body =>
      Ho id og body ((fix go (l : list item) : Forall P l :=
                        match l with [] => Forall_nil _ | x :: r => Forall_cons x (item_ind' P Hg Ho Hp Hpr Hs x) (go r) end) body)
  | IPG og body =>
      Hp og body ((fix go (l : list item) : Forall P l :=
                     match l with [] => Forall_nil _ | x :: r => Forall_cons x (item_ind' P Hg Ho Hp Hpr Hs x) (go r) end) body)
  | IProp n v => Hpr n v
  | IScore n v => Hs n v
  end.

(* ---------- monad inversion ---------- *)
Lemma bind_ok {A B} (m : M A) (f : A -> M B) s b s' :
  bind m f s = Ok (b, s') -> exists a s1, m s = Ok (a, s1) /\ f a s1 = Ok (b, s').
Proof.
  unfold bind. destruct (m s) as [[a s1]|e]; [|discriminate]. intros H. eauto.
Qed.

Lemma ret_ok {A} (a b : A) s s' : ret a s = Ok (b, s') -> a = b /\ s = s'.
Proof. unfold ret. intros H. inversion H. auto. Qed.

Ltac inv_bind H :=
  let a := fresh "a" in let s1 := fresh "s" in let H1 := fresh "Hm" in let H2 := fresh "Hk" in
  apply bind_ok in H as (a & s1 & H1 & H2).

(* ---------- genes of the children of a frame ---------- *)
Definition kgenes (ks : list kid) : list string := flat_map (fun k => genes_of (snd k)) ks.

Lemma kgenes_app a b : kgenes (a ++ b) = kgenes a ++ kgenes b.
Proof. unfold kgenes. apply flat_map_app. Qed.

(* the chain built for missing levels contains the same genes *)
Lemma chain_genes hid path : forall fl c s h s',
  chain hid path fl c s = Ok (h, s') -> genes_of h = genes_of c.
Proof.
  induction path as [|tx r IH]; intros fl c s h s' H.
  - apply ret_ok in H as [<- _]. reflexivity.
  - cbn [chain] in H. inv_bind H. inv_bind Hk. inv_bind Hk0.
    apply IH in Hk. rewrite Hk. simpl. now rewrite app_nil_r.
Qed.

Lemma filter_partition_perm {X} (p : X -> bool) (l : list X) :
  Permutation l (filter (fun x => negb (p x)) l ++ filter p l).
Proof.
  induction l as [|x r IH]; simpl; [constructor|].
  destruct (p x); simpl.
  - apply Permutation_cons_app. exact IH.
  - constructor. exact IH.
Qed.

Lemma members_rest_perm k ks :
  Permutation (kgenes ks) (kgenes (filter (not_member k) ks) ++ flat_map genes_of (members_of k ks)).
Proof.
  unfold members_of, kgenes.
  set (p := fun kd : kid => match fst kd with Some k' => Nat.eqb k k' | None => false end).
  assert (E : forall kd, not_member k kd = negb (p kd)).
  { intros [[k'|] c]; unfold not_member, p; simpl; reflexivity. }
  rewrite (filter_ext _ _ E). rewrite flat_map_concat_map with (l := map snd _). rewrite map_map.
  rewrite <- flat_map_concat_map. rewrite <- flat_map_app.
  apply Permutation_flat_map. apply filter_partition_perm.
Qed.

(* lifting a list of copies keeps their genes *)
Lemma lift_list_genes (step : hog -> M kid) :
  (forall c s kd s', step c s = Ok (kd, s') -> genes_of (snd kd) = genes_of c) ->
  forall l s rs s',
  (fix go (l : list hog) : M (list kid) :=
     match l with
     | [] => ret []
     | c :: r => bind (step c) (fun kd => bind (go r) (fun rs => ret (kd :: rs)))
     end) l s = Ok (rs, s') -> kgenes rs = flat_map genes_of l.
Proof.
  intros Hstep. induction l as [|c r IH]; intros s rs s' H.
  - apply ret_ok in H as [<- _]. reflexivity.
  - inv_bind H. inv_bind Hk. apply ret_ok in Hk0 as [<- _].
    unfold kgenes in *. simpl. rewrite (Hstep _ _ _ _ Hm). f_equal. eapply IH; eauto.
Qed.
