(* C17 — analyses are read-only: results do not depend on call history. *)
From Coq Require Import List Arith Bool String.
From PyHam Require Import Tax Ortho Loader Mapper Profile Nav Export Session.
From PyHam.proofs Require Import SessionFacts.
Import ListNotations.

(* For every forest, every finite sequence `ops` of analysis calls (vertical and lateral comparisons,
   whole-dataset profile, ancestral clustering, iHam export, with arbitrary arguments, repeated and
   interleaved) and every further call o: the result of o after the history equals its result on the
   freshly loaded analysis, which is a function of the loaded data only (pure_out).  The caches
   (HOGMaps keyed by the pair, memoised clustering, memoised iHam page) are therefore not observable.
   The loaded forest is a parameter of the step function: no call writes to it. *)
Theorem c17_history_independent : forall t fo gs ops o,
  snd (sstep t fo (srun t fo ops (sinit gs)) o) = snd (sstep t fo (sinit gs) o) /\
  snd (sstep t fo (sinit gs) o) = pure_out t fo o.
Proof. exact history_independent. Qed.
Print Assumptions c17_history_independent.

(* every cache entry reachable by any history equals the recomputation *)
Theorem c17_cache_invariant : forall t fo gs ops, cache_ok t fo (srun t fo ops (sinit gs)).
Proof. intros. apply srun_ok. apply cache_ok_init. Qed.
Print Assumptions c17_cache_invariant.

(* the only side effect: genome objects are added, never removed *)
Theorem c17_genomes_only_grow : forall t fo gs ops x,
  In x gs -> In x (ss_genomes (srun t fo ops (sinit gs))).
Proof. exact genomes_monotone. Qed.
Print Assumptions c17_genomes_only_grow.

Definition m0 : hmeta := {| m_id := None; m_og := None; m_props := []; m_scores := []; m_synth := false |}.
Definition tr : stree :=
  SNode "R" [SNode "X" []; SNode "M" [SNode "E" [SNode "H" []; SNode "P" []]; SNode "C" []]].
Definition fam : hog :=
  HHog 0 [1] m0 [(Some 0, HHog 2 [0; 1] m0 [(None, HGene "h1" [0; 0; 1])]);
                 (Some 0, HHog 3 [0; 1] m0 [(None, HGene "h2" [0; 0; 1]); (None, HGene "p2" [1; 0; 1])]);
                 (None, HGene "c1" [1; 1])].
Definition fo0 : forest := {| fo_tops := [fam]; fo_singles := [] |}.
Example c17_nonvacuous :
  let ops := [OLateral [0; 0; 1] [1; 1]; OVertical [0; 1] [0; 0; 1]; OProfileFull; OVertical [0; 0; 1] [1]; OIham 0; OClustering [0; 1]] in
  List.length (ss_maps (srun tr fo0 ops (sinit [[1]]))) = 7 /\
  List.length (ss_genomes (srun tr fo0 ops (sinit [[1]]))) = 7.
Proof. vm_compute. split; reflexivity. Qed.
