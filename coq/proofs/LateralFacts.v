(* LateralFacts.v — orientation of a vertical comparison, and the lateral comparison as the
   vertical comparisons against the common ancestor (C08). *)
From Coq Require Import List Arith Bool String Lia Permutation.
From PyHam Require Import Tax Ortho Mapper Preds.
From PyHam.proofs Require Import TaxFacts.
Import ListNotations.

(* ---------- orientation / lineage test ---------- *)
Lemma orient_ok g1 g2 a d : orient g1 g2 = Ok (a, d) ->
  (a = g1 /\ d = g2 \/ a = g2 /\ d = g1) /\ exists s, d = s ++ a.
Proof.
  unfold orient. destruct (taxon_eqb g1 (lcs g1 g2)) eqn:E1.
  - intros H. inversion H; subst. split; [left; auto|].
    apply taxon_eqb_eq in E1. destruct (lcs_is_suffix_l d a) as [s Hs]. rewrite lcs_comm, <- E1 in Hs. eauto.
  - destruct (taxon_eqb g2 (lcs g1 g2)) eqn:E2; [|discriminate].
    intros H. inversion H; subst. split; [right; auto|].
    apply taxon_eqb_eq in E2. destruct (lcs_is_suffix_l d a) as [s Hs]. rewrite <- E2 in Hs. eauto.
Qed.

Lemma orient_err g1 g2 : orient g1 g2 = Err TypeError <->
  anc_or_self g1 g2 = false /\ anc_or_self g2 g1 = false.
Proof.
  unfold orient, anc_or_self. rewrite (lcs_comm g2 g1).
  rewrite (taxon_eqb_sym g1), (taxon_eqb_sym g2).
  destruct (taxon_eqb (lcs g1 g2) g1), (taxon_eqb (lcs g1 g2) g2); split; intros H; try discriminate; auto;
    destruct H; discriminate.
Qed.

Lemma orient_total g1 g2 : (exists a d, orient g1 g2 = Ok (a, d)) \/ orient g1 g2 = Err TypeError.
Proof.
  unfold orient. destruct (taxon_eqb g1 (lcs g1 g2)); [left; eauto|].
  destruct (taxon_eqb g2 (lcs g1 g2)); [left; eauto|right; reflexivity].
Qed.

(* the outcome does not depend on the argument order (two distinct genomes) *)
Lemma orient_sym g1 g2 : g1 <> g2 -> orient g1 g2 = orient g2 g1.
Proof.
  intros Hne. unfold orient. rewrite (lcs_comm g2 g1).
  destruct (taxon_eqb g1 (lcs g1 g2)) eqn:E1, (taxon_eqb g2 (lcs g1 g2)) eqn:E2; auto.
  apply taxon_eqb_eq in E1, E2. congruence.
Qed.

Lemma vertical_sym fo g1 g2 : g1 <> g2 -> vertical fo g1 g2 = vertical fo g2 g1.
Proof. intros H. unfold vertical. now rewrite (orient_sym g1 g2 H). Qed.

Lemma vertical_spec fo g1 g2 :
  match vertical fo g1 g2 with
  | Ok (a, d, m) => orient g1 g2 = Ok (a, d) /\ m = hogmap fo a d
  | Err e => e = TypeError /\ orient g1 g2 = Err TypeError
  end.
Proof.
  unfold vertical. destruct (orient_total g1 g2) as [(a & d & H)|H]; rewrite H; auto.
Qed.

(* ---------- lateral ---------- *)
Definition proj_loss (ms : list (taxon * hmap)) (g : taxon) : list ref :=
  map fst (filter (fun rg => taxon_eqb (snd rg) g) (lat_loss ms)).
Definition proj_gain (ms : list (taxon * hmap)) (g : taxon) : list (list ref) :=
  map snd (filter (fun e => taxon_eqb (fst e) g) (lat_gain ms)).
Definition proj_retained (ms : list (taxon * hmap)) (g : taxon) : list (ref * ref) :=
  map (fun e => (fst (fst e), snd e)) (filter (fun e => taxon_eqb (snd (fst e)) g) (lat_retained ms)).
Definition proj_dup (ms : list (taxon * hmap)) (g : taxon) : list (ref * list ref) :=
  map (fun e => (fst (fst e), snd e)) (filter (fun e => taxon_eqb (snd (fst e)) g) (lat_dup ms)).

Lemma filter_map_const {X} (l : list X) (g g' : taxon) (b : bool) :
  taxon_eqb g' g = b ->
  filter (fun rg : X * taxon => taxon_eqb (snd rg) g) (map (fun r => (r, g')) l) = if b then map (fun r => (r, g')) l else [].
Proof.
  intros E. induction l as [|x r IH]; simpl; [destruct b; reflexivity|]. rewrite E, IH. destruct b; reflexivity.
Qed.

(* the four lateral dictionaries, restricted to one compared genome, are that genome's vertical map *)
Lemma lateral_projection ms g m :
  NoDup (map fst ms) -> In (g, m) ms ->
  proj_loss ms g = hm_loss m /\ proj_gain ms g = [hm_gain m] /\
  proj_retained ms g = hm_retained m /\ proj_dup ms g = hm_dup m.
Proof.
  induction ms as [|[g' m'] r IH]; intros Hn Hin; [contradiction|].
  simpl in Hn. inversion Hn as [|? ? Hg Hr]; subst.
  unfold proj_loss, proj_gain, proj_retained, proj_dup, lat_loss, lat_gain, lat_retained, lat_dup in *.
  cbn [flat_map map fst snd]. rewrite !filter_app. cbn [filter fst snd].
  destruct Hin as [Hin|Hin].
  - inversion Hin; subst g' m'. rewrite taxon_eqb_refl.
    assert (Hrest : forall g'' m'', In (g'', m'') r -> taxon_eqb g'' g = false).
    { intros g'' m'' H. apply taxon_eqb_neq. intros ->. apply Hg. apply in_map_iff. exists (g, m''). auto. }
    assert (F1 : filter (fun rg : ref * taxon => taxon_eqb (snd rg) g)
                   (flat_map (fun gm : taxon * hmap => map (fun r0 => (r0, fst gm)) (hm_loss (snd gm))) r) = []).
    { clear - Hrest. induction r as [|[g'' m''] r IH]; [reflexivity|]. simpl. rewrite filter_app, IH.
      - rewrite (filter_map_const _ g g'' false); [reflexivity|]. eapply Hrest. left. reflexivity.
      - intros a b H. eapply Hrest. right. exact H. }
    assert (F2 : filter (fun e : taxon * list ref => taxon_eqb (fst e) g) (map (fun gm : taxon * hmap => (fst gm, hm_gain (snd gm))) r) = []).
    { clear - Hrest. induction r as [|[g'' m''] r IH]; [reflexivity|]. simpl.
      rewrite (Hrest g'' m'' (or_introl eq_refl)). apply IH. intros a b H. eapply Hrest. right. exact H. }
    assert (F3 : filter (fun e : ref * taxon * ref => taxon_eqb (snd (fst e)) g)
                   (flat_map (fun gm : taxon * hmap => map (fun kv => (fst kv, fst gm, snd kv)) (hm_retained (snd gm))) r) = []).
    { clear - Hrest. induction r as [|[g'' m''] r IH]; [reflexivity|]. simpl. rewrite filter_app, IH.
      - rewrite app_nil_r. pose proof (Hrest g'' m'' (or_introl eq_refl)) as E. clear - E.
        induction (hm_retained m'') as [|kv l IHl]; [reflexivity|]. simpl. rewrite E. exact IHl.
      - intros a b H. eapply Hrest. right. exact H. }
    assert (F4 : filter (fun e : ref * taxon * list ref => taxon_eqb (snd (fst e)) g)
                   (flat_map (fun gm : taxon * hmap => map (fun kv => (fst kv, fst gm, snd kv)) (hm_dup (snd gm))) r) = []).
    { clear - Hrest. induction r as [|[g'' m''] r IH]; [reflexivity|]. simpl. rewrite filter_app, IH.
      - rewrite app_nil_r. pose proof (Hrest g'' m'' (or_introl eq_refl)) as E. clear - E.
        induction (hm_dup m'') as [|kv l IHl]; [reflexivity|]. simpl. rewrite E. exact IHl.
      - intros a b H. eapply Hrest. right. exact H. }
    rewrite F1, F2, F3, F4, !app_nil_r. repeat split.
    + rewrite (filter_map_const _ g g true (taxon_eqb_refl g)). rewrite map_map. simpl. apply map_id.
    + clear. induction (hm_retained m) as [|[k v] l IHl]; [reflexivity|]. simpl. rewrite taxon_eqb_refl. simpl. now rewrite IHl.
    + clear. induction (hm_dup m) as [|[k v] l IHl]; [reflexivity|]. simpl. rewrite taxon_eqb_refl. simpl. now rewrite IHl.
  - assert (E : taxon_eqb g' g = false).
    { apply taxon_eqb_neq. intros ->. apply Hg. apply in_map_iff. exists (g, m). auto. }
    rewrite E. destruct (IH Hr Hin) as (I1 & I2 & I3 & I4).
    rewrite (filter_map_const _ g g' false E). cbn [app].
    assert (G3 : filter (fun e : ref * taxon * ref => taxon_eqb (snd (fst e)) g)
                   (map (fun kv : ref * ref => (fst kv, g', snd kv)) (hm_retained m')) = []).
    { clear - E. induction (hm_retained m') as [|kv l IHl]; [reflexivity|]. simpl. rewrite E. exact IHl. }
    assert (G4 : filter (fun e : ref * taxon * list ref => taxon_eqb (snd (fst e)) g)
                   (map (fun kv : ref * list ref => (fst kv, g', snd kv)) (hm_dup m')) = []).
    { clear - E. induction (hm_dup m') as [|kv l IHl]; [reflexivity|]. simpl. rewrite E. exact IHl. }
    rewrite G3, G4. cbn [app]. auto.
Qed.

(* the reference is the common ancestor; the compared genomes are the pair minus the reference *)
Lemma lateral_spec fo g1 g2 :
  fst (lateral fo g1 g2) = lcs g1 g2 /\
  snd (lateral fo g1 g2) =
    map (fun g => (g, hogmap fo (lcs g1 g2) g)) (filter (fun g => negb (taxon_eqb g (lcs g1 g2))) [g1; g2]).
Proof. split; reflexivity. Qed.

Lemma lateral_sym fo g1 g2 :
  fst (lateral fo g1 g2) = fst (lateral fo g2 g1) /\
  Permutation (snd (lateral fo g1 g2)) (snd (lateral fo g2 g1)).
Proof.
  unfold lateral. cbn [fst snd]. rewrite (lcs_comm g2 g1). split; [reflexivity|].
  apply Permutation_map. cbn [filter].
  destruct (negb (taxon_eqb g1 (lcs g1 g2))), (negb (taxon_eqb g2 (lcs g1 g2))); try apply Permutation_refl.
  apply perm_swap.
Qed.

Lemma lateral_nodup fo g1 g2 : g1 <> g2 -> NoDup (map fst (snd (lateral fo g1 g2))).
Proof.
  intros Hne. unfold lateral. cbn [snd]. rewrite map_map. cbn [fst]. rewrite map_id. cbn [filter].
  destruct (negb (taxon_eqb g1 (lcs g1 g2))), (negb (taxon_eqb g2 (lcs g1 g2))); repeat constructor; simpl; auto.
  intros [H|[]]. congruence.
Qed.
