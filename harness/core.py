"""Shared machinery of the checks: context (seed, tier, counters), case (de)serialisation,
loading a case on both sides, the parser-layer comparison, replays, known findings, evidence."""
import json
import os
import random
import time
import hashlib
from collections import Counter

import gen
import impl
import model
import sx
from sx import Q

VERIF = os.path.abspath(os.path.join(os.path.dirname(os.path.abspath(__file__)), '..'))


# ------------------------------------------------------------------ case <-> json
def tree_json(t):
    return [t.name] + [tree_json(c) for c in t.kids]


def tree_unjson(j):
    return gen.T(j[0], [tree_unjson(c) for c in j[1:]])


def item_json(it):
    if it[0] == 'og':
        return ['og', it[1], it[2], [item_json(x) for x in it[3]]]
    if it[0] == 'pg':
        return ['pg', it[1], [item_json(x) for x in it[2]]]
    return list(it)


def item_unjson(j):
    if j[0] == 'og':
        return ('og', j[1], j[2], [item_unjson(x) for x in j[3]])
    if j[0] == 'pg':
        return ('pg', j[1], [item_unjson(x) for x in j[2]])
    return tuple(j)


def hist_json(h):
    if h[0] == 'G':
        return ['G', h[1], list(h[2])]
    return ['H', list(h[1]), [[l[0], [hist_json(m) for m in l[1]] if l[0] == 'P' else hist_json(l[1])] for l in h[2]]]


def hist_unjson(j):
    if j[0] == 'G':
        return ('G', j[1], tuple(j[2]))
    return ('H', tuple(j[1]), [(l[0], [hist_unjson(m) for m in l[1]] if l[0] == 'P' else hist_unjson(l[1]))
                               for l in j[2]])


def case_json(c):
    return {'tree': tree_json(c.tree), 'use_internal': c.use_internal,
            'species': [[n, gs] for n, gs in c.species],
            'groups': [item_json(g) for g in c.groups],
            'histories': None if c.histories is None else [[i, hist_json(h)] for i, h in c.histories],
            'singles': c.singles, 'tag': c.tag, 'consistent': c.consistent, 'newick': c.newick(), 'xml': c.xml(),
            'species_resolve_mode': 'OMA' if getattr(c, 'oma', False) else None}


def case_unjson(j):
    t = tree_unjson(j['tree']).set_paths()
    c = gen.Case(t, [(n, gs) for n, gs in j['species']], [item_unjson(g) for g in j['groups']],
                 use_internal=j['use_internal'],
                 histories=None if j.get('histories') is None else [(i, hist_unjson(h)) for i, h in j['histories']],
                 singles=j.get('singles', []), tag=j.get('tag', 'replay'), consistent=j.get('consistent', True))
    c.oma = j.get('species_resolve_mode') == 'OMA'
    return c


# ------------------------------------------------------------------ loading on both sides
class Loaded(object):
    """a case loaded by the real pyham and by the model"""

    def __init__(self, case, impl_res, model_rep):
        self.case = case
        self.impl = impl_res                       # ('ok', ham) | ('err', cls, msg)
        self.model = model.reply_forest(model_rep)  # ('ok', dict) | ('err', kind) | ('taxerr', kind)
        self.dump = impl.Dump(impl_res[1]) if impl_res[0] == 'ok' else None

    @property
    def ham(self):
        return self.impl[1] if self.impl[0] == 'ok' else None

    def both_ok(self):
        return self.impl[0] == 'ok' and self.model[0] == 'ok'

    def model_unmodelled(self):
        return self.model[0] in ('err', 'taxerr') and str(self.model[1]) == 'Unmodelled'


def load_cases(cases, **kw):
    reps = model.run_requests([model.load_req(c) for c in cases])
    return [Loaded(c, impl.load_impl(c, **kw), r) for c, r in zip(cases, reps)]


def node_key(h):
    """(taxon, sorted genes below) of a forest s-expression node"""
    def genes(x):
        if x[0] == 'G':
            return [str(x[1])]
        out = []
        for _, c in x[4]:
            out.extend(genes(c))
        return out
    return (tuple(int(i) for i in h[2]), tuple(sorted(genes(h))))


def all_hogs_sx(h, out=None):
    if out is None:
        out = []
    if h[0] == 'H':
        out.append(h)
        for _, c in h[4]:
            all_hogs_sx(c, out)
    return out


def meta_tuple(h):
    m = h[3]
    return ((str(m[1][0]) if m[1] else None), (str(m[2][0]) if m[2] else None),
            tuple(sorted(dict((str(k), str(v)) for k, v in m[3]).items())),
            tuple(sorted(dict((str(k), float(v)) for k, v in m[4]).items())))


def compare_parser(L):
    """parser-layer correspondence; returns a list of difference descriptions (empty = agree)"""
    diffs = []
    if L.model_unmodelled():
        return ['unmodelled']
    if L.impl[0] == 'err' or L.model[0] != 'ok':
        if L.impl[0] == 'err' and L.model[0] != 'ok':
            return []      # both reject; exception types are compared by the properties that name them
        return ['impl=%s model=%s' % (L.impl[:2] if L.impl[0] == 'err' else 'ok', L.model[:2] if L.model[0] != 'ok' else 'ok')]
    d, m = L.dump, L.model[1]
    # structure: members, taxon of every HOG, duplication grouping
    ci = sorted(impl.canon_hog(h) for h in d.top_sx)
    cm = sorted(impl.canon_hog(h[1]) for h in m['tops'])
    if ci != cm:
        diffs.append('hierarchy differs')
        return diffs
    # top-level ids
    ti = sorted((str(k), impl.canon_hog(h)) for (k, _), h in zip(d.tops, d.top_sx))
    tm = sorted(((str(h[0][0]) if h[0] else 'None'), impl.canon_hog(h[1]))
                for h in dict(((str(x[0][0]) if x[0] else None), x) for x in m['tops']).values())
    if ti != tm:
        diffs.append('top-level ids differ')
    # annotations and ids, node by node (nodes identified by taxon + gene set)
    mi, mm = {}, {}
    for h in d.top_sx:
        for x in all_hogs_sx(h):
            mi.setdefault(node_key(x), []).append(x)
    for _, h in m['tops']:
        for x in all_hogs_sx(h):
            mm.setdefault(node_key(x), []).append(x)
    for k, xs in mm.items():
        ys = mi.get(k, [])
        if len(xs) != 1 or len(ys) != 1:
            continue
        x, y = xs[0], ys[0]
        synth = str(x[3][5]) == '1'
        tx, ty = meta_tuple(x), meta_tuple(y)
        if synth:
            if ty[2] or ty[3]:
                diffs.append('synthesised HOG at %s carries annotations' % (k[0],))
        elif tx != ty:
            diffs.append('id/annotations differ at %s: model %s impl %s' % (k[0], tx, ty))
    # extant genes
    gi = sorted((g.unique_id, d.tax(g)) for g in d.ham.extant_gene_map.values())
    gm = sorted((str(g), tuple(int(i) for i in p)) for g, p in m['genes'])
    if gi != gm:
        diffs.append('extant gene table differs')
    # genomes: which nodes carry one, and what is registered there (as canonical node keys)
    gt = d.genome_table()
    if set(gt.keys()) != set(tuple(int(i) for i in p) for p in m['genomes']):
        diffs.append('genome objects at different nodes: impl %s model %s' % (
            sorted(gt.keys()), sorted(tuple(int(i) for i in p) for p in m['genomes'])))
    keyi = {}
    for h in d.top_sx:
        for x in all_hogs_sx(h):
            keyi[int(x[1])] = node_key(x)
    keym = {}
    for _, h in m['tops']:
        for x in all_hogs_sx(h):
            keym[int(x[1])] = node_key(x)
    regi = Counter()
    for p, (_, _, refs) in gt.items():
        for r in refs:
            regi[(p, ('g', r[1]) if r[0] == 'g' else ('h', keyi.get(r[1], ('orphan', r[1]))))] += 1
    regm = Counter()
    for p, r in m['regs']:
        p = tuple(int(i) for i in p)
        regm[(p, ('g', str(r[1])) if r[0] == 'g' else ('h', keym.get(int(r[1]), ('orphan', int(r[1])))))] += 1
    if regi != regm:
        diffs.append('genome gene lists differ')
    # LOFT ids
    li = sorted((g.unique_id, g.hog_id) for g in d.ham.extant_gene_map.values() if hasattr(g, 'hog_id'))
    lm = sorted((str(a), str(b)) for a, b in m['lofts'])
    if li != lm:
        diffs.append('LOFT ids differ')
    return diffs


# ------------------------------------------------------------------ context
class Ctx(object):
    def __init__(self, prop, tier, seed):
        self.prop = prop
        self.tier = tier
        self.seed = seed
        self.rng = random.Random((seed * 1000003) ^ int(hashlib.md5(prop.encode()).hexdigest()[:8], 16))
        self.t0 = time.time()
        self.violations = []          # (what, replay_path, no_input)
        self.known = []               # KNOWN-FINDING lines
        self.counts = Counter()
        self.dist = Counter()         # input distribution
        self.samples = []
        self.distinct = set()
        self.notes = []
        self.findings = load_findings()

    def scale(self, quick, thorough):
        """size of an exploration: the quick tier runs QUICK_MULT times the base size (still seconds)"""
        if self.tier == 'thorough':
            return thorough
        return min(thorough, quick * int(os.environ.get('VERIF_QUICK_MULT', '3')))

    def seen(self, case):
        h = hashlib.md5((case.newick() + '|' + case.xml()).encode()).hexdigest()
        new = h not in self.distinct
        self.distinct.add(h)
        return new

    def record_case(self, case):
        self.counts['cases'] += 1
        self.seen(case)
        s = case.stats or {}
        self.dist['leaves=%s' % s.get('leaves', '?')] += 1
        self.dist['families=%s' % s.get('families', '?')] += 1
        self.dist['dups=%s' % min(s.get('dups', 0), 6)] += 1
        for k in ('omitted', 'wrapped', 'nested_pg', 'labels', 'annot', 'singles'):
            if s.get(k):
                self.dist['with_' + k] += 1
        if len(self.samples) < 3 and s.get('families', 0) >= 1:
            self.samples.append({'newick': case.newick(), 'use_internal': case.use_internal,
                                 'xml': case.xml(one_line=True)[:1500], 'stats': s})

    def violation(self, what, payload, no_input=False, finding_key=None):
        """report a violation (or a known finding when finding_key is listed as open)"""
        if finding_key is not None:
            for f in self.findings:
                if f.get('status') == 'open' and f.get('property') == self.prop and f.get('matcher') == finding_key:
                    line = 'KNOWN-FINDING: property=%s %s' % (self.prop, f.get('what', what))
                    if line not in self.known:
                        self.known.append(line)
                    return
        if len(self.violations) >= 20:
            self.counts['further_violations_not_recorded'] += 1
            return
        os.makedirs(os.path.join(VERIF, 'replays'), exist_ok=True)
        body = json.dumps(payload, sort_keys=True, default=str)
        name = '%s-%s.json' % (self.prop, hashlib.md5(body.encode()).hexdigest()[:10])
        path = os.path.join(VERIF, 'replays', name)
        payload = dict(payload)
        payload['property'] = self.prop
        payload['what'] = what
        payload['seed'] = self.seed
        payload['tier'] = self.tier
        with open(path, 'w') as f:
            json.dump(payload, f, indent=1, sort_keys=True, default=str)
        self.violations.append((what, path, no_input))


def load_findings():
    p = os.path.join(VERIF, 'known_findings.json')
    if os.path.exists(p):
        with open(p) as f:
            return json.load(f).get('findings', [])
    return []


def shrink_case(case, fails, budget=60):
    """greedy deletion of families / singletons / annotations while `fails(case)` stays true"""
    def without_group(c, i):
        gs = c.groups[:i] + c.groups[i + 1:]
        hs = None if c.histories is None else c.histories[:i] + c.histories[i + 1:]
        return gen.Case(c.tree, c.species, gs, c.use_internal, hs, c.singles, c.tag, c.stats, c.consistent)
    cur = case
    changed = True
    while changed and budget > 0:
        changed = False
        for i in range(len(cur.groups)):
            budget -= 1
            if budget <= 0:
                break
            cand = without_group(cur, i)
            try:
                if fails(cand):
                    cur = cand
                    changed = True
                    break
            except Exception:  # noqa
                pass
    return cur
