"""The repository's own fixtures as cases (they run first in every stream)."""
import os
import re
import xml.etree.ElementTree as ET
import gen
from impl import REPO

NS = '{http://orthoXML.org/2011/}'


def parse_newick(s):
    """minimal Newick reader for the fixtures (names, optional lengths, no quotes)"""
    s = re.sub(r'\s*([(),;:])\s*', r'\1', s.strip())
    pos = [0]

    def node():
        kids = []
        if s[pos[0]] == '(':
            pos[0] += 1
            kids.append(node())
            while s[pos[0]] == ',':
                pos[0] += 1
                kids.append(node())
            assert s[pos[0]] == ')', s[pos[0]:pos[0] + 20]
            pos[0] += 1
        m = re.match(r'[^,():;]*', s[pos[0]:])
        name = m.group(0).strip()
        pos[0] += len(m.group(0))
        if pos[0] < len(s) and s[pos[0]] == ':':
            m2 = re.match(r':[^,();]*', s[pos[0]:])
            pos[0] += len(m2.group(0))
        return gen.T(name, kids)
    t = node()
    return t.set_paths()


def parse_orthoxml(text):
    root = ET.fromstring(text)
    species = []
    for sp in root.findall(NS + 'species'):
        genes = []
        for g in sp.iter(NS + 'gene'):
            d = {'id': g.attrib['id']}
            for k, v in g.attrib.items():
                if k != 'id':
                    d[k] = v
            genes.append(d)
        species.append((sp.attrib['name'], genes))

    def item(e):
        tag = e.tag.replace(NS, '')
        if tag == 'geneRef':
            return ('g', e.attrib['id'], e.attrib.get('LOFT'))
        if tag == 'orthologGroup':
            return ('og', e.attrib.get('id'), e.attrib.get('og'), [x for x in (item(c) for c in e) if x is not None])
        if tag == 'paralogGroup':
            return ('pg', e.attrib.get('og'), [x for x in (item(c) for c in e) if x is not None])
        if tag == 'property':
            return ('prop', e.attrib['name'], e.attrib['value'])
        if tag == 'score':
            return ('score', e.attrib['id'], e.attrib['value'])
        return None
    groups = []
    gs = root.find(NS + 'groups')
    if gs is not None:
        for e in gs:
            it = item(e)
            if it is not None:
                groups.append(it)
    return species, groups


FIXTURES = [
    # (tree, orthoXML, use_internal_name, consistent with the tree in the sense of the properties)
    ('simpleEx.nwk', 'simpleEx.orthoxml', True, True),
    ('simpleEx.nwk', 'simpleEx_complexParalogs.orthoxml', True, True),
    ('simpleEx.nwk', 'simpleEx.orthoxml', False, True),
    # two plain sub-groups of one group at the same taxon: not the encoding of a history
    ('paralogs_only_inside_og.nwk', 'paralogs_only_inside_og.orthoxml', True, False),
    ('paralogs_only_toplevel_og.nwk', 'paralogs_only_toplevel_og.orthoxml', True, True),
    ('simpleEx.nwk', 'hogvisEx.orthoxml', True, True),
]


def fixture_cases():
    out = []
    base = os.path.join(REPO, 'tests', 'data')
    for nwk, ox, ui, cons in FIXTURES:
        try:
            with open(os.path.join(base, nwk)) as f:
                t = parse_newick(f.read())
            with open(os.path.join(base, ox)) as f:
                species, groups = parse_orthoxml(f.read())
        except Exception:  # noqa
            continue
        stats = {'leaves': len(t.leaves()), 'families': len(groups), 'fixture': ox}
        out.append(gen.Case(t, species, groups, use_internal=ui, histories=None, tag='fixture:' + ox, stats=stats,
                            consistent=cons))
    return out
