(* Filter.v — ParserFilter / FilterOrthoXMLParser (pass 1) and the effect of the filter on the
   building pass (pass 2: genes not selected are not built, unselected top-level groups are skipped).
   Model only: no proofs in this file. *)
From Coq Require Import List Arith Bool String.
From PyHam Require Import Tax Ortho Loader.
Import ListNotations.

Record pfilter := {
  pf_hogs : list string;       (* HOGId_filter *)
  pf_ext : list string;        (* GeneExtId_filter *)
  pf_int : list string         (* GeneIntId_filter *)
}.

Definition mem_str (s : string) (l : list string) : bool := existsb (String.eqb s) l.

(* geneRefs anywhere inside an element, document order *)
Fixpoint refs_of (it : item) : list string :=
  match it with
  | IGene g _ => [g]
  | IOG _ _ body => flat_map refs_of body
  | IPG _ body => flat_map refs_of body
  | _ => []
  end.

(* pass 1, <gene> start: ids selected directly *)
Definition gene_selected (f : pfilter) (g : gene_decl) : bool :=
  (negb (match pf_int f with [] => true | _ => false end) && mem_str (gd_id g) (pf_int f))
  || (negb (match pf_ext f with [] => true | _ => false end) &&
      existsb (fun v => mem_str v (pf_ext f)) (gd_id g :: map snd (gd_xrefs g))).

(* pass 1 over the groups: geneUniqueId grows as selected families are closed *)
Fixpoint pass1_groups (f : pfilter) (gs : list item) (genes : list string) (hogs : list string)
  : result (list string * list string) :=
  match gs with
  | [] => Ok (genes, hogs)
  | IOG (Some i) _ body :: r =>
      let refs := flat_map refs_of body in
      if mem_str i (pf_hogs f) || existsb (fun g => mem_str g genes) refs
      then pass1_groups f r (genes ++ refs) (hogs ++ [i])
      else pass1_groups f r genes hogs
  | IOG None _ _ :: _ => Err KeyError            (* attrib["id"] *)
  | _ :: _ => Err Unmodelled
  end.

Definition pass1 (f : pfilter) (d : doc) : result (list string * list string) :=
  let direct := flat_map (fun sp => map gd_id (filter (gene_selected f) (sp_genes sp))) (d_species d) in
  pass1_groups f (d_groups d) direct [].

(* pass 2 sees only the selected genes and the selected top-level groups *)
Definition project_doc (genes hogs : list string) (d : doc) : doc :=
  {| d_species := map (fun sp => {| sp_name := sp_name sp;
                                    sp_genes := filter (fun g => mem_str (gd_id g) genes) (sp_genes sp) |})
                      (d_species d);
     d_groups := filter (fun it => match it with
                                   | IOG (Some i) _ _ => mem_str i hogs
                                   | _ => false
                                   end) (d_groups d) |}.

Definition load_filtered (t : stree) (f : pfilter) (d : doc) : result loaded :=
  match pass1 f d with
  | Err e => Err e
  | Ok (genes, hogs) => load t (project_doc genes hogs d)
  end.
