(* C12 — the iHam orthoXML export describes the same HOG. *)
From Coq Require Import List Arith Bool String Permutation.
From PyHam Require Import Tax Ortho Loader Mapper Nav Export Filter.
From PyHam.proofs Require Import ExportFacts.
Import ListNotations.

(* PARTIAL (see DESIGN.md, C12).  Proved for every loaded HOG (any shape, no alignment hypothesis):
   the exported groups reference exactly the HOG's member genes, each once, and the exported species
   blocks declare exactly those genes.  The round trip (re-loading reproduces members, taxa and
   duplication grouping) is checked on the implementation by really re-loading every export, and the
   exporter model (elision rules of findings F5/F11 included) is tied to the code by correspondence;
   the round trip is not proved. *)
Theorem c12_references : forall t h ce, Permutation (flat_map refs_of (export t ce h)) (genes_of h).
Proof. intros t h ce. exact (export_refs t h ce). Qed.
Print Assumptions c12_references.

Theorem c12_declarations : forall t protid h,
  Permutation (flat_map (fun sp => map gd_id (sp_genes sp)) (export_species t protid h)) (genes_of h).
Proof. exact export_declared. Qed.
Print Assumptions c12_declarations.

Local Open Scope string_scope.
Definition m0 : hmeta := {| m_id := Some "f"; m_og := None; m_props := []; m_scores := []; m_synth := false |}.
Definition tr : stree :=
  SNode "R" [SNode "X" []; SNode "M" [SNode "E" [SNode "H" []; SNode "P" []]; SNode "C" []]].
Definition fam : hog :=
  HHog 0 [1] m0 [(Some 0, HHog 2 [0; 1] m0 [(None, HGene "h1" [0; 0; 1])]);
                 (Some 0, HHog 3 [0; 1] m0 [(None, HGene "h2" [0; 0; 1]); (None, HGene "p2" [1; 0; 1])]);
                 (None, HGene "c1" [1; 1])].
(* a copy with a single child is written as its own group (its parent element is the paralogGroup) *)
Example c12_nonvacuous :
  export_groups tr fam =
  [IOG (Some "f") None [IProp "TaxRange" "M";
     IPG None [IOG (Some "f") None [IProp "TaxRange" "E"; IGene "h1" None];
               IOG (Some "f") None [IProp "TaxRange" "E"; IGene "h2" None; IGene "p2" None]];
     IGene "c1" None]].
Proof. vm_compute. reflexivity. Qed.
