"""Calling the extracted model (driver/driver) on batches of requests."""
import os
import subprocess
import sx

HERE = os.path.dirname(os.path.abspath(__file__))
DRIVER = os.path.join(HERE, '..', 'driver', 'driver')


def run_requests(reqs, chunk=400):
    """reqs: list of s-expression values; returns the list of parsed replies"""
    out = []
    for i in range(0, len(reqs), chunk):
        text = '\n'.join(sx.dumps(r) for r in reqs[i:i + chunk]) + '\n'
        p = subprocess.run([DRIVER], input=text.encode('utf-8'), stdout=subprocess.PIPE, stderr=subprocess.PIPE)
        if p.returncode != 0:
            raise RuntimeError('driver failed: %s' % p.stderr.decode()[:500])
        lines = p.stdout.decode('utf-8').split('\n')
        lines = [l for l in lines if l.strip()]
        if len(lines) != len(reqs[i:i + chunk]):
            raise RuntimeError('driver returned %d replies for %d requests' % (len(lines), len(reqs[i:i + chunk])))
        out.extend(sx.loads(l) for l in lines)
    return out


def load_req(case):
    return ['load', case.use_internal, case.tree.sx(), case.doc_sx()]


def reply_forest(rep):
    """('ok', dict) | ('err', kind) | ('taxerr', kind) from a load reply"""
    if rep[0] == 'ok':
        d = {}
        for part in rep[1:]:
            d[part[0]] = part[1:]
        return ('ok', d)
    return (rep[0], rep[1])
