(* C08 — lateral comparison = the vertical comparisons against the common ancestor;
   argument order is irrelevant; genomes off one lineage are refused with TypeError. *)
From Coq Require Import List Arith Bool String Permutation.
From PyHam Require Import Tax Ortho Mapper Preds.
From PyHam.proofs Require Import TaxFacts LateralFacts.
Import ListNotations.

(* the reference genome is the MRCA; one map per compared genome other than the reference, and it
   is the vertical map of that genome against the reference *)
Theorem c08_lateral_reference : forall fo g1 g2,
  fst (lateral fo g1 g2) = lcs g1 g2 /\
  snd (lateral fo g1 g2) =
    map (fun g => (g, hogmap fo (lcs g1 g2) g)) (filter (fun g => negb (taxon_eqb g (lcs g1 g2))) [g1; g2]).
Proof. exact lateral_spec. Qed.
Print Assumptions c08_lateral_reference.

(* the lazily aggregated dictionaries, restricted to one compared genome, are exactly the lost,
   gained, retained and duplicated sets of that genome's vertical comparison *)
Theorem c08_lateral_projection : forall fo g1 g2 g m,
  g1 <> g2 -> In (g, m) (snd (lateral fo g1 g2)) ->
  let ms := snd (lateral fo g1 g2) in
  proj_loss ms g = hm_loss m /\ proj_gain ms g = [hm_gain m] /\
  proj_retained ms g = hm_retained m /\ proj_dup ms g = hm_dup m.
Proof. intros fo g1 g2 g m Hne Hin ms. apply lateral_projection; auto. apply lateral_nodup; auto. Qed.
Print Assumptions c08_lateral_projection.

Theorem c08_lateral_order : forall fo g1 g2,
  fst (lateral fo g1 g2) = fst (lateral fo g2 g1) /\
  Permutation (snd (lateral fo g1 g2)) (snd (lateral fo g2 g1)).
Proof. exact lateral_sym. Qed.
Print Assumptions c08_lateral_order.

Theorem c08_vertical_order : forall fo g1 g2, g1 <> g2 -> vertical fo g1 g2 = vertical fo g2 g1.
Proof. exact vertical_sym. Qed.
Print Assumptions c08_vertical_order.

(* refused with TypeError exactly when neither genome is an ancestor of the other *)
Theorem c08_lineage : forall fo g1 g2,
  (vertical fo g1 g2 = Err TypeError <-> anc_or_self g1 g2 = false /\ anc_or_self g2 g1 = false) /\
  (forall a d m, vertical fo g1 g2 = Ok (a, d, m) ->
     ((a = g1 /\ d = g2) \/ (a = g2 /\ d = g1)) /\ (exists s, d = s ++ a) /\ m = hogmap fo a d).
Proof.
  intros fo g1 g2. pose proof (vertical_spec fo g1 g2) as H. split.
  - rewrite <- orient_err. destruct (vertical fo g1 g2) as [[[a d] m]|e].
    + destruct H as [H _]. split; intros E; [discriminate|congruence].
    + destruct H as [-> H]. split; auto.
  - intros a d m E. rewrite E in H. destruct H as [Ho ->]. apply orient_ok in Ho as [H1 H2]. auto.
Qed.
Print Assumptions c08_lineage.

Example c08_nonvacuous :
  orient [0; 1] [1; 1] = Err TypeError /\ orient [0; 1] [1] = Ok ([1], [0; 1]) /\ orient [1] [0; 1] = Ok ([1], [0; 1]) /\
  lcs [0; 0; 1] [1; 1] = [1].
Proof. vm_compute. repeat split; reflexivity. Qed.
