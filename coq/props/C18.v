(* C18 — the taxonomy names, measures and serialises the species tree faithfully. *)
From Coq Require Import List Arith Bool String Ascii.
From PyHam Require Import Tax Newick.
From PyHam.proofs Require Import TaxFacts NewickFacts PathFacts.
Import ListNotations.

(* every node is annotated, and with its distance from the root *)
Theorem c18_depth : forall t p d,
  In (p, d) (annot_depth 0 [] t) -> d = List.length p.
Proof. intros t p d H. apply annot_depth_spec in H. simpl in H. rewrite Nat.add_0_r in H. exact H. Qed.
Print Assumptions c18_depth.

Theorem c18_depth_every_node : forall t p,
  valid t p = true <-> In p (map fst (annot_depth 0 [] t)).
Proof. intros t p. rewrite annot_depth_nodes. symmetry. exact (all_nodes_valid t p). Qed.
Print Assumptions c18_depth_every_node.

(* the path query returns exactly the nodes strictly between, youngest first *)
Theorem c18_path_up : forall s anc, s <> [] ->
  path_up (s ++ anc) anc = between s anc /\
  List.length (path_up (s ++ anc) anc) = List.length s - 1 /\
  (forall q, In q (path_up (s ++ anc) anc) <->
             exists s1 s2, s = s1 ++ s2 /\ s1 <> [] /\ s2 <> [] /\ q = s2 ++ anc).
Proof.
  intros s anc Hs. rewrite (path_up_spec s anc Hs). split; [reflexivity|]. split.
  - exact (between_length s anc).
  - intros q. exact (between_in s anc q).
Qed.
Print Assumptions c18_path_up.

(* the path over two stretches is the lower path, the middle node, the upper path (what C07's chaining relies on) *)
Theorem c18_path_up_compose : forall s1 s2 anc, s1 <> [] -> s2 <> [] ->
  path_up (s1 ++ s2 ++ anc) anc =
  path_up (s1 ++ s2 ++ anc) (s2 ++ anc) ++ (s2 ++ anc) :: path_up (s2 ++ anc) anc.
Proof. exact path_up_compose. Qed.
Print Assumptions c18_path_up_compose.

(* every node the query returns lies strictly between the two ends in depth *)
Theorem c18_path_up_depths : forall s anc q, s <> [] -> In q (path_up (s ++ anc) anc) ->
  List.length anc < List.length q < List.length (s ++ anc).
Proof. exact path_up_depths. Qed.
Print Assumptions c18_path_up_depths.

(* names: the tree's own when requested, otherwise the leaf names of the clade joined by '/' *)
Theorem c18_names : forall ui t t' p s,
  build_taxonomy ui t = Ok t' -> sub t p = Some s ->
  name_of t' p = Some (if ui then sname s
                       else if sleaf s then sname s else join "/" (leaf_names s)).
Proof.
  intros ui t t' p s Hb Hs. apply build_taxonomy_ok in Hb as [-> _]. destruct ui.
  - unfold name_of. now rewrite Hs.
  - exact (name_of_synth t p s Hs).
Qed.
Print Assumptions c18_names.

(* which trees are accepted; duplicate leaf names are rejected with KeyError *)
Theorem c18_dup_leaves : forall ui t, ~ NoDup (leaf_names t) -> build_taxonomy ui t = Err KeyError.
Proof. exact build_taxonomy_dup_leaves. Qed.
Print Assumptions c18_dup_leaves.

Theorem c18_accepts : forall (ui : bool) t,
  NoDup (leaf_names t) -> NoDup (internal_names (if ui then t else synth t)) ->
  no_shared_name (if ui then t else synth t) ->
  build_taxonomy ui t = Ok (if ui then t else synth t).
Proof.
  intros ui t Hl Hi Hs. apply build_taxonomy_accepts; auto. destruct ui; auto. now rewrite leaf_names_synth.
Qed.
Print Assumptions c18_accepts.

(* the stored Newick text re-parses to the same named topology, any arity *)
Theorem c18_newick_roundtrip : forall t, names_ok t -> parse (write8 t) = Some t.
Proof. exact newick_roundtrip. Qed.
Print Assumptions c18_newick_roundtrip.

(* non-vacuity: the repository's example tree meets every hypothesis *)
Definition simpleEx : stree :=
  SNode "Vertebrata" [SNode "XENTR" [];
    SNode "Mammalia" [SNode "Euarchontoglires" [SNode "Primates" [SNode "HUMAN" []; SNode "PANTR" []];
                                                SNode "Rodents" [SNode "MOUSE" []; SNode "RATNO" []]];
                      SNode "CANFA" []]].
Example simpleEx_ok :
  names_ok simpleEx /\ parse (write8 simpleEx) = Some simpleEx /\
  build_taxonomy false simpleEx = Ok (synth simpleEx) /\
  name_of (synth simpleEx) [0; 0; 1] = Some "HUMAN/PANTR"%string /\
  path_up [0; 0; 0; 1] [] = [[0; 0; 1]; [0; 1]; [1]].
Proof. vm_compute. repeat split; try discriminate; reflexivity. Qed.
