(* Lookup.v — the get_* lookups of ham.py over a loaded analysis: id dictionaries (string keys; an
   integer key is str()-converted by the caller), the cross-reference index built by
   OrthoXMLParser._build_gene, name scans over the genome sets, taxon and MRCA lookups.
   Model only: no proofs in this file. *)
From Coq Require Import List Arith Bool String.
From PyHam Require Import Tax Ortho Loader.
Import ListNotations.

Definition mem_s (s : string) (l : list string) : bool := existsb (String.eqb s) l.

(* Ham.get_gene_by_id *)
Definition get_gene_by_id (l : loaded) (k : string) : result string :=
  if mem_s k (map fst (l_genes l)) then Ok k else Err KeyError.

(* external_id_mapper.setdefault(Id, []).append(gene.unique_id), for every attribute but id *)
Fixpoint idx_add (k g : string) (d : list (string * list string)) : list (string * list string) :=
  match d with
  | [] => [(k, [g])]
  | (k', gs) :: r => if String.eqb k k' then (k', gs ++ [g]) :: r else (k', gs) :: idx_add k g r
  end.

Definition all_decls (d : doc) : list gene_decl := flat_map sp_genes (d_species d).

Definition ext_index (d : doc) : list (string * list string) :=
  fold_left (fun acc gd => fold_left (fun acc kv => idx_add (snd kv) (gd_id gd) acc) (gd_xrefs gd) acc)
            (all_decls d) [].

Fixpoint idx_get (k : string) (d : list (string * list string)) : option (list string) :=
  match d with
  | [] => None
  | (k', gs) :: r => if String.eqb k k' then Some gs else idx_get k r
  end.

(* Ham.get_genes_by_external_id *)
Definition get_genes_by_external_id (d : doc) (k : string) : result (list string) :=
  match idx_get k (ext_index d) with Some gs => Ok gs | None => Err KeyError end.

(* Ham.get_hog_by_id: the dictionary keeps the last HOG written under an id *)
Definition get_hog_by_id (l : loaded) (k : string) : result hog :=
  match find (fun top => match fst top with Some i => String.eqb i k | None => false end) (rev (l_tops l)) with
  | Some top => Ok (snd top)
  | None => Err KeyError
  end.

(* Ham.get_taxon_by_name (search_nodes: none, one, several) *)
Definition get_taxon_by_name (t : stree) (n : string) : result taxon :=
  match search t n with
  | [p] => Ok p
  | _ => Err KeyError
  end.

(* Ham.get_extant_genome_by_name / get_ancestral_genome_by_name: scan of the nodes carrying a genome *)
Definition genomes_named (t : stree) (st : lstate) (leaf : bool) (n : string) : list taxon :=
  filter (fun p => Bool.eqb (is_leaf t p) leaf &&
                   match name_of t p with Some m => String.eqb m n | None => false end) (s_genomes st).

Definition get_genome_by_name (t : stree) (st : lstate) (leaf : bool) (n : string) : result taxon :=
  match genomes_named t st leaf n with
  | p :: _ => Ok p
  | [] => Err KeyError
  end.

(* Ham.get_ancestral_genome_by_taxon *)
Definition get_ancestral_genome_by_taxon (t : stree) (st : lstate) (p : taxon) : result taxon :=
  if mem_tax p (s_genomes st) && negb (is_leaf t p) then Ok p else Err KeyError.

(* Ham.get_ancestral_genome_by_mrca_of_genome_set on two genomes *)
Definition get_mrca_genome (t : stree) (st : lstate) (g1 g2 : taxon) : result taxon :=
  get_ancestral_genome_by_taxon t st (lcs g1 g2).

(* ... on a set of genomes (the nodes of pairwise different genomes); fewer than two: ValueError *)
Definition get_mrca_genome_set (t : stree) (st : lstate) (gs : list taxon) : result taxon :=
  match gs with
  | x :: (y :: r) => get_ancestral_genome_by_taxon t st (fold_left lcs (y :: r) x)
  | _ => Err ValueError
  end.
