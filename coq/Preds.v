(* Preds.v — boolean forms of the structural properties (C02's invariant list), shared by the
   theorems (as hypotheses / conclusions) and by the harness, which evaluates the extracted
   functions on the forest dumped from the real implementation.  No proofs in this file. *)
From Coq Require Import List Arith Bool String.
From PyHam Require Import Tax Ortho Mapper.
Import ListNotations.

Definition opt_nat_eqb (a b : option nat) : bool :=
  match a, b with
  | Some x, Some y => Nat.eqb x y
  | None, None => true
  | _, _ => false
  end.

(* child taxon is a direct child of the parent's taxon *)
Definition child_of (c p : taxon) : bool :=
  match c with
  | [] => false
  | _ :: q => taxon_eqb q p
  end.

(* among the children of one HOG: two children at the same taxon are copies of one duplication *)
Fixpoint siblings_ok (ks : list kid) : bool :=
  match ks with
  | [] => true
  | (f, c) :: r =>
      forallb (fun k' => if taxon_eqb (htax (snd k')) (htax c)
                         then flagged f && opt_nat_eqb f (fst k') else true) r
      && siblings_ok r
  end.

(* every duplication groups at least two children, all at one taxon *)
Definition dup_ok (ks : list kid) (k : kid) : bool :=
  match fst k with
  | None => true
  | Some d =>
      let grp := filter (fun k' => opt_nat_eqb (Some d) (fst k')) ks in
      Nat.leb 2 (List.length grp) && forallb (fun k' => taxon_eqb (htax (snd k')) (htax (snd k))) grp
  end.

(* the local conditions at one node, recursively *)
Fixpoint wf_node (t : stree) (h : hog) : bool :=
  match h with
  | HGene _ p => is_leaf t p
  | HHog _ p _ ks =>
      valid t p && negb (is_leaf t p)
      && negb (match ks with [] => true | _ => false end)
      && forallb (fun k => child_of (htax (snd k)) p) ks
      && siblings_ok ks
      && forallb (dup_ok ks) ks
      && forallb (fun k => wf_node t (snd k)) ks
  end.

Fixpoint nodup_nat (l : list nat) : bool :=
  match l with
  | [] => true
  | x :: r => negb (existsb (Nat.eqb x) r) && nodup_nat r
  end.

Definition all_nodes_of (fo : forest) : list hog := flat_map all_of (fo_roots fo).
Definition oids_of (fo : forest) : list nat :=
  flat_map (fun h => match h with HHog o _ _ _ => [o] | _ => [] end) (all_nodes_of fo).
Definition gene_ids_of (fo : forest) : list string :=
  flat_map (fun h => match h with HGene g _ => [g] | _ => [] end) (all_nodes_of fo).

(* duplication ids used below each HOG, one entry per (parent, dup id) *)
Fixpoint dedup_nat (l : list nat) : list nat :=
  match l with
  | [] => []
  | x :: r => if existsb (Nat.eqb x) r then dedup_nat r else x :: dedup_nat r
  end.
Definition dup_ids_of (fo : forest) : list nat :=
  flat_map (fun h => dedup_nat (flat_map (fun k => match fst k with Some d => [d] | None => [] end) (hkids h)))
           (all_nodes_of fo).

Definition is_gene (h : hog) : bool := match h with HGene _ _ => true | _ => false end.

(* the forest is aligned level-by-level with the species tree (C02).
   wfbc: what the analysis theorems (C05-C10, C16) need; wfb adds that no duplication id is used under two
   different HOGs - the harness evaluates wfb on the implementation's forest. *)
Definition wfbc (t : stree) (fo : forest) : bool :=
  forallb (wf_node t) (fo_roots fo)
  && forallb (fun h => negb (is_gene h)) (fo_tops fo)
  && forallb is_gene (fo_singles fo)
  && nodup_nat (oids_of fo)
  && nodupb (gene_ids_of fo).

Definition wfb (t : stree) (fo : forest) : bool :=
  wfbc t fo && nodup_nat (dup_ids_of fo).

(* family lineages crossing a taxon T: the HOGs placed at T, plus the parent -> child links that pass T without a
   HOG there (the parent strictly above T, the child strictly below).  Property C04: an ancestral genome lists as
   many genes as family lineages cross its taxon - i.e. no link skips a level. *)
Definition strictly_between (a T c : taxon) : bool :=
  anc_or_self a T && negb (taxon_eqb a T) && anc_or_self T c && negb (taxon_eqb T c).

Fixpoint skips (T : taxon) (h : hog) : nat :=
  match h with
  | HGene _ _ => 0
  | HHog _ p _ ks =>
      list_sum (map (fun k => (if strictly_between p T (htax (snd k)) then 1 else 0) + skips T (snd k)) ks)
  end.

Definition crossing (T : taxon) (h : hog) : nat :=
  List.length (filter (fun x => taxon_eqb (htax x) T) (hogs_of h)) + skips T h.
