(* C14 — results do not depend on how the file happens to be written. *)
From Coq Require Import List Arith Bool String Permutation.
From PyHam Require Import Tax Ortho Loader Mapper Preds Hist Filter Spell.
From PyHam Require Import Whole.
From PyHam.proofs Require Import LoaderFacts ExplicitFacts FilterFacts NamingFacts SpellFacts HpermFacts WholeFacts DeclOrderFacts LookupFacts.
Import ListNotations.

(* The listed rewritings are covered as follows.
   Proved (c14_any_two_spellings): two files that spell the same histories - whichever single-member
   levels each of them omits or spells out, with TaxRange labels added or removed, group ids relabelled,
   a multi-copy duplication written as nested or as flat paralogGroups in any bracketing, species-level
   wrappers or bare geneRefs - both load, and their top-level HOGs match the same histories: same taxon for
   every HOG, same members, same duplication grouping (`matches` is stated up to the order of children).
   Re-ordering members, lineages and families: the theorem holds for every ordered history, every
   re-ordering of a history is a history (hperm: lineages, copies and members permuted at any depth), and a
   hierarchy that matches a re-ordered history matches the original one (c14_order_irrelevant), so two files
   listing the members in different orders load to hierarchies matching one and the same history
   (c14_reordered_files); re-ordering the families with respect to a filter is c14_family_order; the member
   genes of every family are independent of the spelling altogether (c14_members_any_spelling).
   Re-ordering the <species> blocks and the <gene> declarations inside them: the re-ordered document is
   consistent for the same histories, so both orders load and their top-level HOGs match the same histories
   (c14_declaration_order).
   Python's hash seed and set iteration order do not exist in the model (the only remaining PARTIAL aspect):
   every place where the code iterates a set is compared order-free, and the check re-runs the real code
   under several PYTHONHASHSEED values. *)
Theorem c14_any_two_spellings : forall t d d' hs,
  Forall (species_sane t) (d_species d) -> NoDup (declared d) ->
  d_species d' = d_species d ->
  NoDup (flat_map refs_of (d_groups d)) -> NoDup (flat_map refs_of (d_groups d')) ->
  Forall2 (spells_top t) hs (d_groups d) -> Forall2 (spells_top t) hs (d_groups d') ->
  (forall genes, map fst genes = declared d ->
     (forall g p, In (g, p) genes -> exists sp, In sp (d_species d) /\ In g (map gd_id (sp_genes sp)) /\ species_resolves t sp p) ->
     Forall (WFh t genes) hs) ->
  exists l l', load t d = Ok l /\ load t d' = Ok l' /\
    Forall2 (fun h top => matches h (snd top) /\ htax (snd top) = xtax h /\ wf_node t (snd top) = true) hs (l_tops l) /\
    Forall2 (fun h top => matches h (snd top) /\ htax (snd top) = xtax h /\ wf_node t (snd top) = true) hs (l_tops l').
Proof.
  intros t d d' hs Hsp Hnd Hs Hrf Hrf' Hg Hg' Hwf.
  destruct (spelt_load t d hs Hsp Hnd Hrf Hg Hwf) as (l & El & Fl).
  assert (Hdecl : declared d' = declared d) by (unfold declared; rewrite Hs; reflexivity).
  destruct (spelt_load t d' hs) as (l' & El' & Fl').
  - rewrite Hs. exact Hsp.
  - rewrite Hdecl. exact Hnd.
  - exact Hrf'.
  - exact Hg'.
  - intros genes Hm Hr. apply Hwf; [rewrite <- Hdecl; exact Hm|]. intros g p Hin. rewrite <- Hs. apply Hr. exact Hin.
  - exists l, l'. auto.
Qed.
Print Assumptions c14_any_two_spellings.

Theorem c14_order_irrelevant : forall h h', hperm h h' -> forall x, matches h x -> matches h' x.
Proof. exact matches_hperm. Qed.
Print Assumptions c14_order_irrelevant.

Theorem c14_reordered_files : forall h h' x x', hperm h h' -> matches h x -> matches h' x' -> matches h x /\ matches h x'.
Proof. exact reordered_same. Qed.
Print Assumptions c14_reordered_files.

Theorem c14_declaration_order : forall t d d' hs,
  sp_sim d d' -> d_groups d' = d_groups d -> consistent t d hs ->
  exists l l', load t d = Ok l /\ load t d' = Ok l' /\
    Forall2 (fun h top => matches h (snd top) /\ htax (snd top) = xtax h /\ wf_node t (snd top) = true) hs (l_tops l) /\
    Forall2 (fun h top => matches h (snd top) /\ htax (snd top) = xtax h /\ wf_node t (snd top) = true) hs (l_tops l').
Proof. exact declaration_order_same_result. Qed.
Print Assumptions c14_declaration_order.

Theorem c14_explicit_any_order : forall t genes h,
  WFh t genes h ->
  forall pg fr s, dups_dom s ->
    exists x s', eval_item t genes (enc h) pg fr s = Ok (add_kids fr [(pg, x)], s') /\
                 matches h x /\ (htax x = xtax h /\ wf_node t x = true) /\ ext s s' /\ dups_dom s'.
Proof. exact enc_evaluates. Qed.
Print Assumptions c14_explicit_any_order.

Theorem c14_family_order : forall f direct gs gs',
  Permutation gs gs' ->
  Permutation (flat_map group_id (filter (selected f direct) gs)) (flat_map group_id (filter (selected f direct) gs')).
Proof. exact selection_position_independent. Qed.
Print Assumptions c14_family_order.

Theorem c14_members_any_spelling : forall t genes it s i h s',
  eval_top t genes it s = Ok ((i, h), s') -> Permutation (genes_of h) (refs_of it).
Proof.
  intros t genes it s i h s' H. apply eval_top_spec in H as (id & og & body & _ & _ & Hp & _). exact Hp.
Qed.
Print Assumptions c14_members_any_spelling.

Local Open Scope string_scope.
Definition tr : stree := SNode "R" [SNode "A" []; SNode "B" []; SNode "C" []].
Definition genes0 : list (string * taxon) := [("a1", [0]); ("a2", [0]); ("b1", [1]); ("c1", [2])].
(* the same history with lineages and copies in another order is again a well-formed history *)
(* set iteration order: wherever the code takes the common ancestor of a *set* of genomes (the genomes of a group's
   children in the parser, of a duplication's copies in DuplicationNode.set_MRCA, of the arguments of a lateral
   comparison: ham.py _get_ancestral_genome_by_mrca_of_genome_set, abstractgene.py set_MRCA) the model enumerates the
   set in one particular order (Loader.dedup_tax, then fold_left lcs); any other enumeration of the same elements -
   whatever the hash seed makes of it - yields the same node, and a one-element set stays a one-element set *)
Theorem c14_set_iteration_order : forall l l',
  Permutation l l' -> mrca_of l = mrca_of l' /\ List.length l = List.length l' /\ (forall x, l = [x] -> l' = [x]).
Proof.
  intros l l' HP. split; [apply mrca_of_perm; exact HP|]. split; [apply Permutation_length; exact HP|].
  intros x ->. apply Permutation_length_1_inv. exact HP.
Qed.
Print Assumptions c14_set_iteration_order.

Example c14_nonvacuous :
  WFh tr genes0 (XH [] [[XG "a1" [0]; XG "a2" [0]]; [XG "b1" [1]]; [XG "c1" [2]]]) /\
  WFh tr genes0 (XH [] [[XG "c1" [2]]; [XG "a2" [0]; XG "a1" [0]]; [XG "b1" [1]]]).
Proof. cbn. repeat split; try discriminate; try reflexivity; repeat constructor; simpl; intuition discriminate. Qed.

Example c14_hperm_nonvacuous :
  hperm (XH [] [[XG "a1" [0]; XG "a2" [0]]; [XG "b1" [1]]; [XG "c1" [2]]]) (XH [] [[XG "c1" [2]]; [XG "a2" [0]; XG "a1" [0]]; [XG "b1" [1]]]).
Proof.
  eapply hp_trans.
  - apply (hp_copies [] [] [XG "a1" [0]; XG "a2" [0]] [XG "a2" [0]; XG "a1" [0]] [[XG "b1" [1]]; [XG "c1" [2]]]). apply perm_swap.
  - apply hp_lins. simpl.
    apply (Permutation_trans (l' := [[XG "a2" [0]; XG "a1" [0]]; [XG "c1" [2]]; [XG "b1" [1]]])).
    + constructor. apply perm_swap.
    + apply perm_swap.
Qed.
