"""Running the real pyham (from /repo's working tree) and dumping what it built, through the public
API and public attributes only."""
import sys
import os
import logging

REPO = os.environ.get('PYHAM_REPO', '/repo')
if REPO not in sys.path:
    sys.path.insert(0, REPO)
logging.disable(logging.CRITICAL)

import pyham  # noqa: E402
from pyham import abstractgene  # noqa: E402
from sx import Q  # noqa: E402

assert os.path.realpath(pyham.__file__).startswith(os.path.realpath(REPO)), pyham.__file__


def load_impl(case, newick=None, xml=None, **kw):
    """returns ('ok', ham) or ('err', exception class name, message)"""
    nw = newick if newick is not None else case.newick()
    x = xml if xml is not None else case.xml()
    args = dict(use_internal_name=case.use_internal, orthoXML_as_string=True)
    if getattr(case, 'oma', False):
        args['species_resolve_mode'] = 'OMA'
    args.update(kw)
    try:
        ham = pyham.Ham(nw, x, **args)
    except Exception as e:  # noqa
        return ('err', type(e).__name__, str(e)[:200])
    return ('ok', ham)


def node_path(node):
    p = []
    while node.up is not None:
        p.append(node.up.children.index(node))
        node = node.up
    return tuple(p)


class Dump(object):
    """observation of a loaded Ham object"""

    def __init__(self, ham):
        self.ham = ham
        self.tree = ham.taxonomy.tree
        self.path = {}
        for n in self.tree.traverse():
            self.path[n] = node_path(n)
        self.node_at = {p: n for n, p in self.path.items()}
        self.oid = {}          # id(HOG) -> serial
        self.obj = {}          # serial -> HOG
        self.dupid = {}        # id(DuplicationNode) -> serial
        self.dupobj = {}
        self.anomalies = []
        self.tops = list(ham.top_level_hogs.items())
        self.singles = [g for g in ham.extant_gene_map.values() if g.parent is None]
        self._seen = set()
        self.top_sx = [self._hog(h, None) for _, h in self.tops]
        self.single_sx = [self._hog(g, None) for g in self.singles]
        self._genomes()

    # ---- ids
    def oid_of(self, h):
        k = id(h)
        if k not in self.oid:
            self.oid[k] = len(self.oid)
            self.obj[self.oid[k]] = h
        return self.oid[k]

    def dup_of(self, d):
        k = id(d)
        if k not in self.dupid:
            self.dupid[k] = len(self.dupid)
            self.dupobj[self.dupid[k]] = d
        return self.dupid[k]

    def ref(self, x):
        if isinstance(x, abstractgene.Gene):
            return ('g', x.unique_id)
        return ('h', self.oid_of(x))

    def ref_sx(self, x):
        r = self.ref(x)
        return ['g', Q(r[1])] if r[0] == 'g' else ['h', r[1]]

    def tax(self, x):
        g = x.genome
        if g is None or g.taxon is None:
            self.anomalies.append('no genome/taxon on %r' % (x,))
            return ()
        return self.path[g.taxon]

    # ---- forest by following .children
    def _hog(self, h, parent):
        if h.parent is not parent:
            self.anomalies.append('parent link of %r is %r, reached from %r' % (h, h.parent, parent))
        if id(h) in self._seen:
            self.anomalies.append('%r reached twice' % (h,))
        self._seen.add(id(h))
        if isinstance(h, abstractgene.Gene):
            if h.genome is not None and h not in h.genome.genes:
                self.anomalies.append('%r not registered in its genome' % (h,))
            return ['G', Q(h.unique_id), list(self.tax(h))]
        o = self.oid_of(h)
        kids = []
        for c in h.children:
            d = c.arose_by_duplication
            if d is False:
                fl = []
            else:
                fl = [self.dup_of(d)]
                if c not in d.children:
                    self.anomalies.append('%r flagged by a duplication that does not list it' % (c,))
                if d.parent is not h:
                    self.anomalies.append('%r flagged by a duplication whose parent is %r, not %r' % (c, d.parent, h))
            kids.append([fl, self._hog(c, h)])
        for d in h.duplications:
            if d.parent is not h:
                self.anomalies.append('duplication listed by %r has parent %r' % (h, d.parent))
            for c in d.children:
                if c.parent is not h:
                    self.anomalies.append('duplication of %r lists %r whose parent is %r' % (h, c, c.parent))
                if c.arose_by_duplication is not d:
                    self.anomalies.append('duplication of %r lists %r which is not flagged by it' % (h, c))
        if len(set(id(d) for d in h.duplications)) != len(h.duplications):
            self.anomalies.append('%r lists a duplication twice' % (h,))
        props = [[Q(str(k)), Q(str(v))] for k, v in h._properties.items()]
        scores = [[Q(str(k)), Q(repr(float(v)))] for k, v in getattr(h, 'scores', {}).items()]
        meta = ['meta', [Q(str(h.hog_id))] if h.hog_id is not None else [],
                [Q(str(h.og))] if h.og is not None else [], props, scores,
                hasattr(h, '_missing_in_xml')]
        return ['H', o, list(self.tax(h)), meta, kids]

    def forest_sx(self):
        return ['forest', ['tops'] + self.top_sx, ['singles'] + self.single_sx]

    # ---- genomes
    def _genomes(self):
        self.genome_at = {}        # path -> genome object
        for n, p in self.path.items():
            if 'genome' in n.features:
                g = n.genome
                self.genome_at[p] = g
                if g.taxon is not n:
                    self.anomalies.append('genome at %s points back to another node' % (n.name,))
        self.leaves = set(self.path[n] for n in self.ham.taxonomy.leaves)
        self.internals = set(self.path[n] for n in self.ham.taxonomy.internal_nodes)

    def genome_table(self):
        """path -> (kind, name, [refs of registered genes])"""
        out = {}
        for p, g in self.genome_at.items():
            kind = 'extant' if isinstance(g, pyham.genome.ExtantGenome) else 'ancestral'
            out[p] = (kind, g.name, [self.ref(x) for x in g.genes])
        return out

    def named_tree_sx(self):
        def go(n):
            return [Q(n.name)] + [go(c) for c in n.children]
        return go(self.tree)


# ---- canonical (order- and id-free) form of a forest given as s-expression lists
def canon_hog(h, with_meta=False):
    """h: ['G', id, path] | ['H', oid, path, meta, [[flag, hog]...]]"""
    if h[0] == 'G':
        return ('G', str(h[1]))
    plain = []
    groups = {}
    for fl, c in h[4]:
        cc = canon_hog(c, with_meta)
        if fl:
            groups.setdefault(str(fl[0]), []).append(cc)
        else:
            plain.append(cc)
    dups = sorted(tuple(sorted(v)) for v in groups.values())
    base = ('H', tuple(int(x) for x in h[2]), tuple(sorted(plain)), tuple(dups))
    if with_meta:
        m = h[3]
        synth = str(m[5]) in ('1', 'True', 'true')
        mid = (str(m[1][0]) if m[1] else None)
        props = tuple(sorted(dict((str(k), str(v)) for k, v in m[3]).items()))
        scores = tuple(sorted(dict((str(k), float(v)) for k, v in m[4]).items()))
        base = base + ((synth, None if synth else mid, (str(m[2][0]) if m[2] else None), props, scores),)
    return base


def hist_of_forest(h):
    """forest s-expression -> history tuple of gen.py (for comparison through gen.h_canon)"""
    if h[0] == 'G':
        return ('G', str(h[1]), tuple(int(x) for x in h[2]))
    lins = []
    groups = {}
    order = []
    for fl, c in h[4]:
        if fl:
            k = str(fl[0])
            if k not in groups:
                groups[k] = []
                order.append(k)
            groups[k].append(hist_of_forest(c))
        else:
            lins.append(('O', hist_of_forest(c)))
    for k in order:
        lins.append(('P', groups[k]))
    return ('H', tuple(int(x) for x in h[2]), lins)
