(* LoaderFacts.v — the loader conserves genes: what an element adds to the open group is a
   rearrangement of the genes it references (C01), and failures propagate (C20). *)
From Coq Require Import List Arith Bool String Lia Permutation.
From PyHam Require Import Tax Ortho Loader Filter.
From PyHam.proofs Require Import TaxFacts MapperFacts ForestFacts.
Import ListNotations.

(* ---------- induction principle for items ---------- *)
Fixpoint item_ind' (P : item -> Prop)
  (Hg : forall g l, P (IGene g l))
  (Ho : forall id og body, Forall P body -> P (IOG id og body))
  (Hp : forall og body, Forall P body -> P (IPG og body))
  (Hpr : forall n v, P (IProp n v))
  (Hs : forall n v, P (IScore n v))
  (it : item) : P it :=
  match it with
  | IGene g l => Hg g l
  | IOG id og body =>
      Ho id og body ((fix go (l : list item) : Forall P l :=
                        match l with [] => Forall_nil _ | x :: r => Forall_cons x (item_ind' P Hg Ho Hp Hpr Hs x) (go r) end) body)
  | IPG og body =>
      Hp og body ((fix go (l : list item) : Forall P l :=
                     match l with [] => Forall_nil _ | x :: r => Forall_cons x (item_ind' P Hg Ho Hp Hpr Hs x) (go r) end) body)
  | IProp n v => Hpr n v
  | IScore n v => Hs n v
  end.

(* ---------- monad inversion ---------- *)
Lemma bind_ok {A B} (m : M A) (f : A -> M B) s b s' :
  bind m f s = Ok (b, s') -> exists a s1, m s = Ok (a, s1) /\ f a s1 = Ok (b, s').
Proof.
  unfold bind. destruct (m s) as [[a s1]|e]; [|discriminate]. intros H. eauto.
Qed.

Lemma ret_ok {A} (a b : A) s s' : ret a s = Ok (b, s') -> a = b /\ s = s'.
Proof. unfold ret. intros H. inversion H. auto. Qed.

Lemma chk_ok (b : bool) s u s' : (if b then fail ValueError else ret tt) s = Ok (u, s') -> s' = s /\ b = false.
Proof. destruct b; [discriminate|]. intros H. apply ret_ok in H as [_ <-]. auto. Qed.

Ltac inv_bind H :=
  let a := fresh "a" in let s1 := fresh "s" in let H1 := fresh "Hm" in let H2 := fresh "Hk" in
  apply bind_ok in H as (a & s1 & H1 & H2).
Ltac inv_bind_as H a s1 H1 H2 := apply bind_ok in H as (a & s1 & H1 & H2).

(* ---------- genes of the children of a frame ---------- *)
Definition kgenes (ks : list kid) : list string := flat_map (fun k => genes_of (snd k)) ks.

Lemma kgenes_app a b : kgenes (a ++ b) = kgenes a ++ kgenes b.
Proof. unfold kgenes. apply flat_map_app. Qed.

(* the chain built for missing levels contains the same genes *)
Lemma chain_genes hid path : forall fl c s h s',
  chain hid path fl c s = Ok (h, s') -> genes_of h = genes_of c.
Proof.
  induction path as [|tx r IH]; intros fl c s h s' H.
  - apply ret_ok in H as [<- _]. reflexivity.
  - cbn [chain] in H. inv_bind H. inv_bind Hk. inv_bind Hk0.
    apply IH in Hk. rewrite Hk. simpl. now rewrite app_nil_r.
Qed.

Lemma filter_partition_perm {X} (p : X -> bool) (l : list X) :
  Permutation l (filter (fun x => negb (p x)) l ++ filter p l).
Proof.
  induction l as [|x r IH]; simpl; [constructor|].
  destruct (p x); simpl.
  - apply Permutation_cons_app. exact IH.
  - constructor. exact IH.
Qed.

Lemma members_rest_perm k ks :
  Permutation (kgenes ks) (kgenes (filter (not_member k) ks) ++ flat_map genes_of (members_of k ks)).
Proof.
  unfold members_of, kgenes.
  set (p := fun kd : kid => match fst kd with Some k' => Nat.eqb k k' | None => false end).
  assert (E : forall kd, not_member k kd = negb (p kd)).
  { intros [[k'|] c]; unfold not_member, p; simpl; reflexivity. }
  rewrite (filter_ext _ _ E). rewrite flat_map_concat_map with (l := map snd _). rewrite map_map.
  rewrite <- flat_map_concat_map. rewrite <- flat_map_app.
  apply Permutation_flat_map. apply filter_partition_perm.
Qed.

Lemma mapM_genes {X} (f : X -> M kid) (G : X -> list string) :
  (forall c s kd s', f c s = Ok (kd, s') -> genes_of (snd kd) = G c) ->
  forall l s rs s', mapM f l s = Ok (rs, s') -> kgenes rs = flat_map G l.
Proof.
  intros Hf. induction l as [|c r IH]; intros s rs s' H.
  - apply ret_ok in H as [<- _]. reflexivity.
  - cbn [mapM] in H. inv_bind H. inv_bind Hk. apply ret_ok in Hk0 as [<- _].
    unfold kgenes in *. simpl. rewrite (Hf _ _ _ _ Hm). f_equal. eapply IH; eauto.
Qed.

Lemma lift_member_genes hid target k c s kd s' :
  lift_member hid target k c s = Ok (kd, s') -> genes_of (snd kd) = genes_of c.
Proof.
  unfold lift_member. intros H. inv_bind H. inv_bind Hk. apply ret_ok in Hk0 as [<- _]. simpl.
  eapply chain_genes; eauto.
Qed.

Lemma rehome_genes hid hoid lvl ks k s ks' s' :
  rehome hid hoid lvl ks k s = Ok (ks', s') -> Permutation (kgenes ks') (kgenes ks).
Proof.
  unfold rehome. intros H. inv_bind H. destruct a as [a|]; [|discriminate].
  rewrite (members_rest_perm k ks).
  destruct (negb (taxon_eqb a lvl)).
  - inv_bind_as Hk u1 t1 E1 K1. inv_bind_as K1 mo t2 E2 K2. inv_bind_as K2 u3 t3 E3 K3.
    inv_bind_as K3 lifted t4 E4 K4. inv_bind_as K4 u5 t5 E5 K5. apply ret_ok in K5 as [<- _].
    rewrite kgenes_app. apply Permutation_app_head. unfold kgenes at 1. simpl. rewrite app_nil_r.
    fold (kgenes lifted). erewrite (mapM_genes _ genes_of); [apply Permutation_refl| |exact E4].
    intros c s0' kd s0'' Hc. eapply lift_member_genes; eauto.
  - inv_bind_as Hk u1 t1 E1 K1. inv_bind_as K1 lifted t2 E2 K2. apply ret_ok in K2 as [<- _].
    rewrite kgenes_app. apply Permutation_app_head.
    erewrite (mapM_genes _ genes_of); [apply Permutation_refl| |exact E2].
    intros c s0' kd s0'' Hc. eapply lift_member_genes; eauto.
Qed.

Lemma foldM_rehome_genes hid hoid lvl keys : forall ks s ks' s',
  foldM (rehome hid hoid lvl) keys ks s = Ok (ks', s') -> Permutation (kgenes ks') (kgenes ks).
Proof.
  induction keys as [|k r IH]; intros ks s ks' s' H.
  - apply ret_ok in H as [<- _]. apply Permutation_refl.
  - cbn [foldM] in H. inv_bind H. apply IH in Hk. apply rehome_genes in Hm. eapply Permutation_trans; eauto.
Qed.

Lemma lift_generic_genes hid lvl kd s kd' s' :
  lift_generic hid lvl kd s = Ok (kd', s') -> genes_of (snd kd') = genes_of (snd kd).
Proof.
  unfold lift_generic. intros H. inv_bind H. destruct (path_up (htax (snd kd)) lvl) as [|tx r].
  - apply ret_ok in Hk as [<- _]. reflexivity.
  - inv_bind Hk. apply ret_ok in Hk0 as [<- _]. simpl. eapply chain_genes; eauto.
Qed.

Lemma generic_pass_genes hid lvl ks s ks' s' :
  generic_pass hid lvl ks s = Ok (ks', s') -> Permutation (kgenes ks') (kgenes ks).
Proof.
  unfold generic_pass. intros H. inv_bind_as H lifted t1 E1 K1. apply ret_ok in K1 as [<- _].
  assert (E : kgenes lifted = kgenes (filter (fun kd => negb (adjacent lvl kd)) ks)).
  { eapply (mapM_genes _ (fun kd => genes_of (snd kd))); [|exact E1].
    intros c s0 kd s0' Hc. eapply lift_generic_genes; eauto. }
  rewrite kgenes_app, E.
  eapply Permutation_trans; [apply Permutation_app_comm|]. apply Permutation_sym.
  unfold kgenes. rewrite <- flat_map_app. apply Permutation_flat_map. apply filter_partition_perm.
Qed.

Lemma close_og_genes t top id og fr s c s' :
  close_og t top id og fr s = Ok (c, s') ->
  match c with
  | Node h => Permutation (genes_of h) (kgenes (f_kids fr)) /\ f_kids fr <> []
  | Collapsed ks => ks = f_kids fr /\ f_kids fr <> []
  end.
Proof.
  unfold close_og. destruct (dedup_tax (map (fun kd => htax (snd kd)) (f_kids fr))) as [|x more] eqn:Ed; [discriminate|].
  assert (Hne : f_kids fr <> []) by (intros E; rewrite E in Ed; discriminate).
  match goal with |- context [if ?b then _ else _] => destruct b end.
  - destruct top; [discriminate|]. intros H. apply ret_ok in H as [<- _]. auto.
  - intros H. inv_bind_as H lvl0 t1 E1 K1. inv_bind_as K1 lvl t2 E2 K2. inv_bind_as K2 u3 t3 E3 K3.
    inv_bind_as K3 o t4 E4 K4. inv_bind_as K4 u5 t5 E5 K5. inv_bind_as K5 ks1 t6 E6 K6. inv_bind_as K6 ks2 t7 E7 K7.
    apply ret_ok in K7 as [<- _]. split; auto. cbn [genes_of]. fold (kgenes ks2).
    apply generic_pass_genes in E7. apply foldM_rehome_genes in E6. eapply Permutation_trans; eauto.
Qed.

(* ---------- what one element adds to the open group ---------- *)
Definition grows (fr fr' : frame) (new : list kid) : Prop :=
  f_kids fr' = f_kids fr ++ new.

Lemma find_gene_spec g genes :
  (fix find (l : list (string * taxon)) : option taxon :=
     match l with
     | [] => None
     | (g', p) :: r => if String.eqb g g' then Some p else find r
     end) genes = None -> ~ In g (map fst genes).
Proof.
  induction genes as [|[g' p] r IH]; intros H Hin; [contradiction|]. simpl in *.
  destruct (String.eqb g g') eqn:E; [discriminate|]. destruct Hin as [->|Hin]; [rewrite String.eqb_refl in E; discriminate|].
  apply IH; auto.
Qed.

Lemma find_gene_in g genes p :
  (fix find (l : list (string * taxon)) : option taxon :=
     match l with
     | [] => None
     | (g', p) :: r => if String.eqb g g' then Some p else find r
     end) genes = Some p -> In (g, p) genes.
Proof.
  induction genes as [|[g' p'] r IH]; intros H; [discriminate|]. simpl in *.
  destruct (String.eqb g g') eqn:E.
  - apply String.eqb_eq in E. inversion H. subst. left. reflexivity.
  - right. apply IH. exact H.
Qed.

Lemma kgenes_reflag (pg : option nat) ks : kgenes (map (fun kd : kid => (pg, snd kd)) ks) = kgenes ks.
Proof. unfold kgenes. induction ks as [|k r IH]; simpl; [reflexivity|]. now rewrite IH. Qed.

(* does the element contribute a member to the innermost open orthologGroup? *)
Fixpoint yields (it : item) : bool :=
  match it with
  | IGene _ _ => true
  | IOG _ _ _ => true
  | IPG _ body => existsb yields body
  | _ => false
  end.

(* no orthologGroup and no paralogGroup anywhere inside is empty *)
Fixpoint item_ok (it : item) : Prop :=
  match it with
  | IOG _ _ body => existsb yields body = true /\
                    (fix all (l : list item) : Prop := match l with [] => True | x :: r => item_ok x /\ all r end) body
  | IPG _ body => existsb yields body = true /\
                  (fix all (l : list item) : Prop := match l with [] => True | x :: r => item_ok x /\ all r end) body
  | _ => True
  end.

Lemma item_ok_all l :
  (fix all (l : list item) : Prop := match l with [] => True | x :: r => item_ok x /\ all r end) l <-> Forall item_ok l.
Proof.
  induction l as [|x r IH].
  - split; intros; [constructor|exact I].
  - split.
    + intros [H1 H2]. constructor; [exact H1|apply IH; exact H2].
    + intros H. inversion H; subst. split; [assumption|apply IH; assumption].
Qed.

Definition item_spec (genes : list (string * taxon)) (refs : list string) (ok : Prop) (y : bool)
  (fr fr' : frame) : Prop :=
  exists new, grows fr fr' new /\ Permutation (kgenes new) refs /\
              (forall g, In g refs -> In g (map fst genes)) /\ ok /\ (y = false -> new = []).

Lemma body_spec t genes pg l : forall acc s0 acc' s0',
  Forall (fun it => forall pg fr s fr' s', eval_item t genes it pg fr s = Ok (fr', s') ->
                    item_spec genes (refs_of it) (item_ok it) (yields it) fr fr') l ->
  (fix go (l : list item) (acc : frame) : M frame :=
     match l with
     | [] => ret acc
     | x :: r => bind (eval_item t genes x pg acc) (fun acc' => go r acc')
     end) l acc s0 = Ok (acc', s0') ->
  item_spec genes (flat_map refs_of l) (Forall item_ok l) (existsb yields l) acc acc'.
Proof.
  induction l as [|x r IHr]; intros acc s0 acc' s0' HF Hgo.
  - apply ret_ok in Hgo as [<- _]. exists []. unfold grows. rewrite app_nil_r. repeat split; auto. contradiction.
  - inversion HF as [|? ? Hx Hr]; subst. inv_bind_as Hgo acc1 t1 E1 K1.
    destruct (Hx _ _ _ _ _ E1) as (n1 & G1 & P1 & D1 & O1 & Y1).
    destruct (IHr _ _ _ _ Hr K1) as (n2 & G2 & P2 & D2 & O2 & Y2).
    exists (n1 ++ n2). unfold grows in *. split; [rewrite G2, G1, app_assoc; reflexivity|]. split; [|split; [|split]].
    + rewrite kgenes_app. simpl. apply Permutation_app; auto.
    + intros g Hg. simpl in Hg. apply in_app_or in Hg as [Hg|Hg]; auto.
    + constructor; auto.
    + simpl. intros Hy. apply orb_false_iff in Hy as [Hy1 Hy2]. rewrite (Y1 Hy1), (Y2 Hy2). reflexivity.
Qed.

(* the element-level invariant: children only grow, by a rearrangement of the referenced genes;
   every referenced gene is declared; no nested orthologGroup is empty *)
Lemma eval_item_spec t genes it : forall pg fr s fr' s',
  eval_item t genes it pg fr s = Ok (fr', s') ->
  item_spec genes (refs_of it) (item_ok it) (yields it) fr fr'.
Proof.
  induction it as [g l|id og body IH|og body IH|n v|n v] using item_ind'; intros pg fr s fr' s' H.
  - (* geneRef *)
    cbn [eval_item] in H.
    match type of H with context [match ?f with _ => _ end] => destruct f as [p|] eqn:Ef end; [|discriminate].
    inv_bind_as H u1 t1 E1 K1. apply ret_ok in K1 as [<- _]. exists [(pg, HGene g p)]. split; [reflexivity|].
    split; [simpl; apply Permutation_refl|]. split; [|split; [exact I|discriminate]].
    intros g' [<-|[]]. apply find_gene_in in Ef. apply in_map_iff. exists (g, p). auto.
  - (* orthologGroup *)
    cbn [eval_item] in H. inv_bind_as H inner t1 Einner K1. inv_bind_as K1 cl t2 Eclose K2.
    destruct (body_spec t genes None body empty_frame s inner t1 IH Einner) as (n0 & G0 & P0 & D0 & O0 & Y0).
    unfold grows in G0. simpl in G0.
    apply close_og_genes in Eclose.
    assert (Hok : item_ok (IOG id og body)).
    { cbn [item_ok]. split; [|apply item_ok_all; exact O0].
      destruct (existsb yields body) eqn:Ey; auto. exfalso.
      assert (f_kids inner <> []) by (destruct cl; destruct Eclose; auto).
      rewrite G0, (Y0 eq_refl) in H. auto. }
    destruct cl as [ks|h].
    + destruct Eclose as [-> _]. apply ret_ok in K2 as [<- _].
      eexists. split; [reflexivity|]. split; [|split; [exact D0|split; [exact Hok|discriminate]]].
      rewrite G0. destruct pg; [rewrite kgenes_reflag|]; exact P0.
    + destruct Eclose as [Hp _]. apply ret_ok in K2 as [<- _].
      exists [(pg, h)]. split; [reflexivity|]. split; [|split; [exact D0|split; [exact Hok|discriminate]]].
      unfold kgenes at 1. simpl. rewrite app_nil_r. rewrite G0 in Hp. eapply Permutation_trans; eauto.
  - (* paralogGroup *)
    cbn [eval_item] in H. inv_bind_as H k t1 Ek K1. inv_bind_as K1 fr1 t2 Ebody K2. inv_bind_as K2 uc tc Ec Kc.
    inv_bind_as Kc u3 t3 E3 K3. apply ret_ok in K3 as [<- _].
    destruct (body_spec t genes (Some k) body fr t1 fr1 t2 IH Ebody) as (n0 & G0 & P0 & D0 & O0 & Y0).
    assert (Hy : existsb yields body = true).
    { destruct (existsb yields body) eqn:Ey; [reflexivity|]. exfalso. rewrite (Y0 eq_refl) in G0. unfold grows in G0.
      rewrite app_nil_r in G0. rewrite G0, Nat.eqb_refl in Ec. discriminate. }
    exists n0. split; auto. split; auto. split; auto. split; [cbn [item_ok]; split; [exact Hy|apply item_ok_all; exact O0]|].
    cbn [yields]. intros E. congruence.
  - cbn [eval_item] in H. apply ret_ok in H as [<- _]. exists []. unfold grows. simpl. rewrite app_nil_r.
    repeat split; auto. contradiction.
  - cbn [eval_item] in H. apply ret_ok in H as [<- _]. exists []. unfold grows. simpl. rewrite app_nil_r.
    repeat split; auto. contradiction.
Qed.

(* ---------- top level ---------- *)
Lemma eval_body_eq t genes body pg fr :
  eval_body t genes body pg fr =
  (fix go (l : list item) (acc : frame) : M frame :=
     match l with
     | [] => ret acc
     | x :: r => bind (eval_item t genes x pg acc) (fun acc' => go r acc')
     end) body fr.
Proof. reflexivity. Qed.

Lemma eval_top_spec t genes it s i h s' :
  eval_top t genes it s = Ok ((i, h), s') ->
  exists id og body, it = IOG id og body /\ i = (match id with Some x => Some x | None => og end) /\
    Permutation (genes_of h) (refs_of it) /\ (forall g, In g (refs_of it) -> In g (map fst genes)) /\ item_ok it.
Proof.
  destruct it as [g l|id og body|og body|n v|n v]; try discriminate.
  cbn [eval_top]. intros H. inv_bind_as H inner t1 Einner K1. inv_bind_as K1 cl t2 Eclose K2.
  rewrite eval_body_eq in Einner.
  assert (IH : Forall (fun it => forall pg fr s fr' s', eval_item t genes it pg fr s = Ok (fr', s') ->
                          item_spec genes (refs_of it) (item_ok it) (yields it) fr fr') body).
  { apply Forall_forall. intros x _. apply eval_item_spec. }
  destruct (body_spec t genes None body empty_frame s inner t1 IH Einner) as (n0 & G0 & P0 & D0 & O0 & Y0).
  unfold grows in G0. simpl in G0. apply close_og_genes in Eclose. rewrite G0 in Eclose.
  destruct cl as [ks|h0]; [discriminate|]. apply ret_ok in K2 as [E _]. inversion E as [[Ei Eh]].
  destruct Eclose as [Hp Hne]. exists id, og, body.
  assert (Hy : existsb yields body = true).
  { apply not_false_is_true. intros Ey. apply Hne. apply Y0. exact Ey. }
  split; [reflexivity|]. split; [auto|]. split; [rewrite <- Eh; eapply Permutation_trans; eauto|].
  split; [exact D0|]. cbn [item_ok]. split; [exact Hy|apply item_ok_all; exact O0].
Qed.

Lemma mapM_Forall2 {X Y} (f : X -> M Y) (R : X -> Y -> Prop) :
  (forall x s y s', f x s = Ok (y, s') -> R x y) ->
  forall l s ys s', mapM f l s = Ok (ys, s') -> Forall2 R l ys.
Proof.
  intros Hf. induction l as [|x r IH]; intros s ys s' H.
  - apply ret_ok in H as [<- _]. constructor.
  - cbn [mapM] in H. inv_bind_as H y t1 E1 K1. inv_bind_as K1 ys' t2 E2 K2. apply ret_ok in K2 as [<- _].
    constructor; eauto.
Qed.

Lemma NavFacts_NoDup_snoc {X} (l : list X) x : NoDup l -> ~ In x l -> NoDup (l ++ [x]).
Proof.
  intros Hl Hx. induction Hl as [|y l Hy Hl IH]; simpl.
  - constructor; auto. constructor.
  - constructor.
    + rewrite in_app_iff. intros [H|[H|[]]]; [contradiction|]. subst. apply Hx. left. reflexivity.
    + apply IH. intros H. apply Hx. right. exact H.
Qed.

(* ---------- the species section ---------- *)
Definition declared (d : doc) : list string := flat_map (fun sp => map gd_id (sp_genes sp)) (d_species d).

Lemma load_species_spec t sp : forall genes s genes' s',
  load_species t sp genes s = Ok (genes', s') ->
  exists p, search t (sp_name sp) = [p] /\ is_leaf t p = true /\
            genes' = genes ++ map (fun g => (gd_id g, p)) (sp_genes sp) /\
            (NoDup (map fst genes) -> NoDup (map fst genes')).
Proof.
  intros genes s genes' s' H. unfold load_species in H.
  destruct (search t (sp_name sp)) as [|p [|q r]] eqn:Es; try discriminate.
  destruct (is_leaf t p) eqn:El; simpl in H; [|discriminate].
  inv_bind_as H u1 t1 E1 K1. exists p. split; auto. split; auto.
  clear E1 Es El. revert genes t1 genes' s' K1. induction (sp_genes sp) as [|g r IH]; intros genes t1 genes' s' K1.
  - apply ret_ok in K1 as [<- _]. simpl. rewrite app_nil_r. auto.
  - cbn [foldM] in K1. inv_bind_as K1 acc1 t2 E2 K2.
    destruct (existsb (fun x => String.eqb (gd_id g) (fst x)) genes) eqn:Ee; [discriminate|].
    inv_bind_as E2 u3 t3 E3 K3. apply ret_ok in K3 as [<- _].
    destruct (IH _ _ _ _ K2) as [Hg Hn]. split.
    + rewrite Hg, <- app_assoc. reflexivity.
    + intros Hnd. apply Hn. rewrite map_app. simpl. apply NavFacts_NoDup_snoc; auto.
      intros Hin. apply in_map_iff in Hin as (x & Ex & Hx).
      assert (existsb (fun x => String.eqb (gd_id g) (fst x)) genes = true).
      { apply existsb_exists. exists x. split; auto. rewrite Ex. apply String.eqb_refl. }
      congruence.
Qed.

Definition species_resolves (t : stree) (sp : species) (p : taxon) : Prop :=
  search t (sp_name sp) = [p] /\ is_leaf t p = true.

Lemma species_fold_spec t sps : forall acc s acc' s',
  foldM (fun acc sp => load_species t sp acc) sps acc s = Ok (acc', s') ->
  map fst acc' = map fst acc ++ flat_map (fun sp => map gd_id (sp_genes sp)) sps /\
  (NoDup (map fst acc) -> NoDup (map fst acc')) /\
  (forall sp, In sp sps -> exists p, species_resolves t sp p) /\
  (forall g p, In (g, p) acc' -> In (g, p) acc \/
     exists sp, In sp sps /\ In g (map gd_id (sp_genes sp)) /\ species_resolves t sp p).
Proof.
  induction sps as [|sp r IH]; intros acc s acc' s' H.
  - apply ret_ok in H as [<- _]. simpl. rewrite app_nil_r. repeat split; auto. intros sp [].
  - cbn [foldM] in H. inv_bind_as H acc1 t1 E1 K1.
    apply load_species_spec in E1 as (p & Hs & Hl & Hg & Hn).
    destruct (IH _ _ _ _ K1) as (I1 & I2 & I3 & I4). split; [|split; [|split]].
    + rewrite I1, Hg, map_app, map_map. simpl. rewrite <- app_assoc. reflexivity.
    + intros Hnd. apply I2. apply Hn. exact Hnd.
    + intros sp' [<-|Hin]; [exists p; split; auto|apply I3; auto].
    + intros g q Hin. apply I4 in Hin as [Hin|(sp' & Hsp & Hg' & Hr)].
      * rewrite Hg in Hin. apply in_app_or in Hin as [Hin|Hin]; [left; exact Hin|].
        right. exists sp. split; [left; reflexivity|]. apply in_map_iff in Hin as (gd & Egd & Hgd).
        inversion Egd; subst. split; [apply in_map; exact Hgd|split; auto].
      * right. exists sp'. split; [right; exact Hsp|auto].
Qed.

Definition top_ok (genes : list (string * taxon)) (it : item) (top : option string * hog) : Prop :=
  exists id og body, it = IOG id og body /\
    fst top = (match id with Some x => Some x | None => og end) /\
    Permutation (genes_of (snd top)) (refs_of it) /\
    (forall g, In g (refs_of it) -> In g (map fst genes)) /\ item_ok it.

Theorem load_spec t d l :
  load t d = Ok l ->
  map fst (l_genes l) = declared d /\ NoDup (declared d) /\
  (forall sp, In sp (d_species d) -> exists p, species_resolves t sp p) /\
  (forall g p, In (g, p) (l_genes l) ->
     exists sp, In sp (d_species d) /\ In g (map gd_id (sp_genes sp)) /\ species_resolves t sp p) /\
  Forall2 (top_ok (l_genes l)) (d_groups d) (l_tops l).
Proof.
  unfold load. intros H.
  match type of H with context [match ?m init_state with _ => _ end] => destruct (m init_state) as [[[genes tops] s]|e] eqn:Em end; [|discriminate].
  inversion H; subst. clear H. cbn [l_genes l_tops].
  inv_bind_as Em genes0 t1 E1 K1. inv_bind_as K1 tops0 t2 E2 K2. apply ret_ok in K2 as [E _]. inversion E; subst.
  destruct (species_fold_spec t _ _ _ _ _ E1) as (I1 & I2 & I3 & I4). simpl in I1.
  split; [exact I1|]. split; [unfold declared; rewrite <- I1; apply I2; constructor|]. split; [exact I3|]. split.
  - intros g p Hin. apply I4 in Hin as [[]|Hin]. exact Hin.
  - eapply mapM_Forall2; [|exact E2]. intros x s0 [i h] s0' Hx. apply eval_top_spec in Hx. exact Hx.
Qed.

(* ---------- corollaries used by C01 / C20 ---------- *)
Lemma tops_genes_perm genes groups tops :
  Forall2 (top_ok genes) groups tops ->
  Permutation (flat_map (fun top => genes_of (snd top)) tops) (flat_map refs_of groups).
Proof.
  induction 1 as [|it top gs ts Hok HF IH]; simpl; [constructor|].
  destruct Hok as (id & og & body & _ & _ & Hp & _). apply Permutation_app; auto.
Qed.

Theorem families_disjoint t d l :
  load t d = Ok l -> NoDup (flat_map refs_of (d_groups d)) ->
  NoDup (flat_map (fun top => genes_of (snd top)) (l_tops l)).
Proof.
  intros H Hn. apply load_spec in H as (_ & _ & _ & _ & HF).
  eapply Permutation_NoDup; [apply Permutation_sym; eapply tops_genes_perm; eauto|exact Hn].
Qed.

Theorem singles_spec l g p :
  In (HGene g p) (singles_of l) <->
  In (g, p) (l_genes l) /\ ~ In g (flat_map (fun top => genes_of (snd top)) (l_tops l)).
Proof.
  unfold singles_of. rewrite in_map_iff. split.
  - intros ([g' p'] & E & Hin). inversion E; subst. apply filter_In in Hin as [Hin Hb]. split; auto.
    apply negb_true_iff in Hb. intros Hu. simpl in Hb.
    assert (existsb (String.eqb g) (flat_map (fun top => genes_of (snd top)) (l_tops l)) = true).
    { apply existsb_exists. exists g. split; auto. apply String.eqb_refl. }
    congruence.
  - intros [Hin Hn]. exists (g, p). split; auto. apply filter_In. split; auto. apply negb_true_iff. simpl.
    destruct (existsb _ _) eqn:E; auto. apply existsb_exists in E as (x & Hx & Ex). apply String.eqb_eq in Ex. subst. contradiction.
Qed.

Theorem refs_declared t d l :
  load t d = Ok l -> forall g, In g (flat_map refs_of (d_groups d)) -> In g (declared d).
Proof.
  intros H g Hg. apply load_spec in H as (E & _ & _ & _ & HF). rewrite <- E.
  clear E. induction HF as [|it top gs ts Hok HF IH]; [contradiction|]. simpl in Hg.
  apply in_app_or in Hg as [Hg|Hg]; auto. destruct Hok as (id & og & body & _ & _ & _ & Hd & _). auto.
Qed.

Theorem groups_ok t d l : load t d = Ok l -> Forall item_ok (d_groups d).
Proof.
  intros H. apply load_spec in H as (_ & _ & _ & _ & HF).
  induction HF as [|it top gs ts Hok HF IH]; constructor; auto.
  destruct Hok as (id & og & body & _ & _ & _ & _ & Hok). exact Hok.
Qed.

(* a fault anywhere makes the load fail: contrapositives of the above, for the record *)
Theorem fault_rejected t d :
  (exists sp, In sp (d_species d) /\ forall p, ~ species_resolves t sp p) \/
  (exists g, In g (flat_map refs_of (d_groups d)) /\ ~ In g (declared d)) \/
  ~ Forall item_ok (d_groups d) ->
  exists e, load t d = Err e.
Proof.
  intros Hf. destruct (load t d) as [l|e] eqn:E; [|eauto]. exfalso.
  destruct Hf as [(sp & Hsp & Hn)|[(g & Hg & Hn)|Hn]].
  - apply load_spec in E as (_ & _ & Hs & _). destruct (Hs sp Hsp) as [p Hp]. eapply Hn; eauto.
  - apply Hn. eapply refs_declared; eauto.
  - apply Hn. eapply groups_ok; eauto.
Qed.
