(* ChainFacts.v — Ham._add_missing_taxon (Loader.chain): the single-child HOGs it inserts are exactly the
   omitted single-lineage levels of the history. *)
From Coq Require Import List Arith Bool String Lia Permutation.
From PyHam Require Import Tax Ortho Loader Mapper Preds Hist Spell.
From PyHam.proofs Require Import TaxFacts MapperFacts ForestFacts LoaderFacts ExplicitFacts.
Import ListNotations.

(* ---------- the chain as a pure function of the first fresh object id ---------- *)
Fixpoint chain_pure (o : nat) (hid : option string) (path : list taxon) (fl : option nat) (c : hog) : hog :=
  match path with
  | [] => c
  | tx :: r => chain_pure (S o) hid r None (HHog o tx (synth_meta hid) [(fl, c)])
  end.

Lemma chain_spec hid path : forall fl c s,
  exists s', chain hid path fl c s = Ok (chain_pure (s_oid s) hid path fl c, s') /\
             s_oid s' = s_oid s + List.length path /\ s_dup s' = s_dup s /\ s_dups s' = s_dups s /\ s_lofts s' = s_lofts s.
Proof.
  induction path as [|tx r IH]; intros fl c s.
  - exists s. simpl. repeat split; auto.
  - cbn [chain chain_pure].
    destruct (ensure_spec tx s) as (s1 & E1 & O1 & D1 & DS1). unfold bind at 1. rewrite E1.
    destruct (fresh_oid_spec s1) as (s2 & E2 & O2 & D2 & DS2). unfold bind at 1. rewrite E2.
    destruct (register_spec tx (RHog (s_oid s1)) s2) as (s3 & E3 & O3 & D3 & DS3). unfold bind at 1. rewrite E3.
    destruct (IH None (HHog (s_oid s1) tx (synth_meta hid) [(fl, c)]) s3) as (s4 & E4 & O4 & D4 & DS4 & L4).
    exists s4. rewrite E4. rewrite O3, O2, O1. split; [reflexivity|]. split; [simpl; lia|]. split; [congruence|]. split; [congruence|].
    rewrite L4. unfold ensure_genome in E1. unfold fresh_oid in E2. unfold register in E3.
    destruct (mem_tax tx (s_genomes s)); inversion E1; inversion E2; inversion E3; subst; reflexivity.
Qed.

Lemma chain_pure_app hid l1 : forall o l2 c,
  chain_pure o hid (l1 ++ l2) None c = chain_pure (o + List.length l1) hid l2 None (chain_pure o hid l1 None c).
Proof.
  induction l1 as [|tx r IH]; intros o l2 c; simpl.
  - now rewrite Nat.add_0_r.
  - rewrite IH. f_equal. lia.
Qed.

(* ---------- taxon facts ---------- *)
Lemma between_snoc s b q : s <> [] -> between (s ++ [b]) q = between s (b :: q) ++ [b :: q].
Proof.
  induction s as [|a s IH]; intros Hs; [contradiction|].
  destruct s as [|a' s'].
  - reflexivity.
  - change (between ((a :: a' :: s') ++ [b]) q) with ((((a' :: s') ++ [b]) ++ q) :: between ((a' :: s') ++ [b]) q).
    rewrite IH by discriminate.
    change (between (a :: a' :: s') (b :: q)) with (((a' :: s') ++ b :: q) :: between (a' :: s') (b :: q)).
    rewrite <- app_assoc. reflexivity.
Qed.

Lemma path_up_snoc s b q : s <> [] -> path_up (s ++ b :: q) q = path_up (s ++ b :: q) (b :: q) ++ [b :: q].
Proof.
  intros Hs. change (s ++ b :: q) with (s ++ [b] ++ q) at 1. rewrite app_assoc.
  rewrite (path_up_spec (s ++ [b]) q) by (destruct s; discriminate).
  rewrite (path_up_spec s (b :: q) Hs). apply between_snoc. exact Hs.
Qed.

(* ---------- histories: descending keeps the clade ---------- *)
Lemma WFh_member_tax t genes p lins l c :
  WFh t genes (XH p lins) -> In l lins -> In c l ->
  WFh t genes c /\ exists b, xtax c = b :: p /\ lin_tax l = b :: p.
Proof.
  intros Hwf Hl Hc. apply WFh_inv in Hwf as (_ & _ & _ & _ & Hmem). rewrite Forall_forall in Hmem.
  destruct (Hmem l Hl) as [_ Hm]. rewrite Forall_forall in Hm. destruct (Hm c Hc) as (Hw & Hn & Ht & Hlt).
  split; [exact Hw|]. destruct (xtax c) as [|b q] eqn:E; [contradiction|]. simpl in Ht. subst q. exists b. split; [reflexivity|]. now rewrite <- Hlt.
Qed.

Lemma below_WF t genes h h' : below h h' -> WFh t genes h -> WFh t genes h' /\ exists s, xtax h' = s ++ xtax h.
Proof.
  induction 1 as [h|p c h' Hb IH]; intros Hwf.
  - split; [exact Hwf|]. exists []. reflexivity.
  - destruct (WFh_member_tax t genes p [[c]] [c] c Hwf (or_introl eq_refl) (or_introl eq_refl)) as (Hwc & b & Hb' & _).
    destruct (IH Hwc) as (Hw' & s & Hs). split; [exact Hw'|]. exists (s ++ [b]). rewrite Hs, Hb', <- app_assoc. reflexivity.
Qed.

(* ---------- what a spelt member leaves in the frame: a representative of the history ---------- *)
Definition rep (t : stree) (h : hist) (y : hog) : Prop :=
  exists h', below h h' /\ matches h' y /\ htax y = xtax h' /\ wf_node t y = true.

Lemma matches_single p c o m y :
  matches c y -> matches (XH p [[c]]) (HHog o p m [(None, y)]).
Proof.
  intros Hm. cbn [matches]. split; [reflexivity|]. exists [(None, [y])]. simpl.
  split; [apply Permutation_refl|]. split; [reflexivity|]. split; [constructor|]. auto.
Qed.

Lemma wf_single t o p m y b :
  valid t p = true -> is_leaf t p = false -> htax y = b :: p -> wf_node t y = true ->
  wf_node t (HHog o p m [(None, y)]) = true.
Proof.
  intros Hv Hl Ht Hw. cbn [wf_node]. rewrite Hv, Hl. cbn [negb andb forallb siblings_ok dup_ok fst snd].
  rewrite Ht. cbn [child_of]. rewrite taxon_eqb_refl, Hw. reflexivity.
Qed.

(* lifting a representative to just below q builds the omitted levels *)
Lemma chain_completes t genes hid h : forall y q b o,
  WFh t genes h -> rep t h y -> xtax h = b :: q ->
  let top := chain_pure o hid (path_up (htax y) q) None y in
  matches h top /\ htax top = xtax h /\ wf_node t top = true.
Proof.
  intros y q b o Hwf (h' & Hb & Hm & Ht & Hw). revert q b o Hwf. induction Hb as [h|p c h' Hb IH]; intros q b o Hwf Hx.
  - rewrite Ht, Hx, path_up_child. simpl. rewrite <- Hx, <- Ht. auto.
  - cbn [xtax] in Hx. subst p.
    pose proof Hwf as Hwf0. apply WFh_inv in Hwf0 as (Hv & Hl & _).
    destruct (WFh_member_tax t genes (b :: q) [[c]] [c] c Hwf (or_introl eq_refl) (or_introl eq_refl)) as (Hwc & b' & Hb' & _).
    destruct (below_WF t genes c h' Hb Hwc) as (_ & s & Hs).
    specialize (IH Hm Ht (b :: q) b' o Hwc Hb'). cbv zeta in IH. destruct IH as (M1 & T1 & W1).
    assert (Hy : htax y = (s ++ [b']) ++ b :: q) by (rewrite Ht, Hs, Hb', <- app_assoc; reflexivity).
    cbv zeta. rewrite Hy, path_up_snoc by (destruct s; discriminate). rewrite <- Hy.
    rewrite chain_pure_app. cbn [chain_pure xtax].
    split; [apply matches_single; exact M1|]. split; [reflexivity|].
    eapply wf_single; eauto. rewrite T1. exact Hb'.
Qed.
