(* AdditiveFacts.v — C10, additivity: on every branch of the species tree the whole-dataset profile is the
   sum over all families (and singletons) of the per-family profiles. *)
From Coq Require Import List Arith Bool String Lia Permutation.
From PyHam Require Import Tax Ortho Mapper Preds Profile.
From PyHam.proofs Require Import TaxFacts MapperFacts ForestFacts ClusterFacts PartitionFacts ProfileFacts FamilyProfileFacts.
Import ListNotations.

(* ---------- small list facts ---------- *)
Lemma length_flat_map {X Y} (f : X -> list Y) l :
  List.length (flat_map f l) = list_sum (map (fun x => List.length (f x)) l).
Proof. induction l as [|x r IH]; simpl; [reflexivity|]. now rewrite app_length, IH. Qed.

Lemma list_sum_ext {X} (f g : X -> nat) l : (forall x, In x l -> f x = g x) -> list_sum (map f l) = list_sum (map g l).
Proof.
  induction l as [|x r IH]; intros H; simpl; [reflexivity|].
  rewrite (H x (or_introl eq_refl)), IH; [reflexivity|]. intros y Hy. apply H. right. exact Hy.
Qed.

Lemma list_sum_flat_map {X Y} (f : Y -> nat) (g : X -> list Y) l :
  list_sum (map f (flat_map g l)) = list_sum (map (fun x => list_sum (map f (g x))) l).
Proof. induction l as [|x r IH]; simpl; [reflexivity|]. now rewrite map_app, list_sum_app, IH. Qed.

Lemma filter_length_flat_map {X Y} (p : Y -> bool) (g : X -> list Y) l :
  List.length (filter p (flat_map g l)) = list_sum (map (fun x => List.length (filter p (g x))) l).
Proof. induction l as [|x r IH]; simpl; [reflexivity|]. now rewrite filter_app, app_length, IH. Qed.

Definition posb (n : nat) : bool := match n with 0 => false | S _ => true end.

Lemma sum_minus_filter {X} (c : X -> nat) l :
  list_sum (map c l) = list_sum (map (fun x => c x - 1) l) + List.length (filter (fun x => posb (c x)) l).
Proof.
  induction l as [|x r IH]; [reflexivity|]. cbn [map list_sum fold_right filter]. fold (list_sum (map c r)).
  fold (list_sum (map (fun x => c x - 1) r)). rewrite IH.
  destruct (c x) as [|n]; cbn [posb List.length]; lia.
Qed.

(* ---------- the per-ancestor counts ---------- *)
Definition cf (D : taxon) (ho : hog) : nat := nfalse (dn D false ho).
Definition ct (D : taxon) (ho : hog) : nat := ntrue (dn D false ho).
Definition no_desc (D : taxon) (ho : hog) : bool := match dn D false ho with [] => true | _ => false end.

Lemma length_retP_retK (R : list entry) : List.length (flat_map retP R) = List.length (flat_map retK R).
Proof. induction R as [|[hy [[ho|] [|]]] R IH]; simpl; auto. Qed.
Lemma length_dupS_dupK (R : list entry) : List.length (flat_map dupS R) = List.length (flat_map dupK R).
Proof. induction R as [|[hy [[ho|] [|]]] R IH]; simpl; auto. Qed.
Lemma length_gainS_none l : List.length (flat_map gainS (map tag_none l)) = List.length l.
Proof. induction l as [|[x b] r IH]; simpl; auto. Qed.

Lemma length_repeat_flat_map (l : list hog) (c : hog -> nat) :
  List.length (flat_map (fun ho => repeat (href ho) (c ho)) l) = list_sum (map c l).
Proof. rewrite length_flat_map. apply list_sum_ext. intros x _. apply repeat_length. Qed.

Lemma three_way (l : list hog) (f tr : hog -> nat) (e : hog -> bool) :
  (forall ho, In ho l -> f ho <= 1 /\ (1 <= f ho -> tr ho = 0) /\ (e ho = true <-> f ho = 0 /\ tr ho = 0)) ->
  List.length l = List.length (filter e l) + list_sum (map f l) + List.length (filter (fun x => posb (tr x)) l).
Proof.
  induction l as [|x r IH]; intros H; [reflexivity|]. cbn [map list_sum fold_right filter List.length].
  fold (list_sum (map f r)).
  rewrite IH by (intros ho Hho; apply H; right; exact Hho).
  destruct (H x (or_introl eq_refl)) as (H1 & H2 & H3).
  destruct (e x) eqn:Ee.
  - destruct (proj1 H3 eq_refl) as [Hf Ht]. rewrite Hf, Ht. cbn [posb List.length]. lia.
  - destruct (tr x) as [|n] eqn:Et; cbn [posb List.length].
    + assert (f x <> 0). { intros Hf. assert (false = true) by (apply H3; auto). discriminate. } lia.
    + assert (f x = 0) by (destruct (f x) as [|k]; [reflexivity|]; assert (S n = 0) by (apply H2; lia); lia). lia.
Qed.

Lemma counts_nil_iff l : l = [] <-> nfalse l = 0 /\ ntrue l = 0.
Proof.
  split; [intros ->; auto|]. intros [H1 H2]. apply counts_nil; auto.
Qed.

(* ---------- the whole-dataset side, for any ancestor/descendant pair ---------- *)
Theorem full_counts t fo A D :
  wfbc t fo = true -> A <> D ->
  let m := hogmap fo A D in
  List.length (hm_gain m) = list_sum (map (fun r => List.length (gains A D false r)) (fo_roots fo)) /\
  List.length (hm_retained m) = list_sum (map (cf D) (ANs A fo)) /\
  sum_lengths (hm_dup m) = list_sum (map (ct D) (ANs A fo)) /\
  hm_ndup m = list_sum (map (fun ho => ct D ho - 1) (ANs A fo)) /\
  List.length (hm_loss m) = List.length (filter (no_desc D) (ANs A fo)).
Proof.
  intros Hwf HAD m.
  pose proof (sizes t fo A D Hwf HAD) as [_ Hsize]. fold m in Hsize.
  pose proof (hogmap_dup_nonempty fo A D) as Hne. fold m in Hne.
  pose proof (meaning t fo A D Hwf HAD) as (_ & _ & _ & _ & Hnd). fold m in Hnd.
  revert Hsize Hne Hnd. subst m. unfold hogmap. rewrite clusters_unfold.
  set (R := upmap fo A D).
  pose proof (upmap_decomp t fo A D Hwf HAD) as Hdec. fold R in Hdec.
  assert (HretK : Permutation (flat_map retK R)
                    (flat_map (fun ho => repeat (href ho) (cf D ho)) (ANs A fo))).
  { rewrite (Permutation_flat_map retK Hdec), flat_map_app, flat_map_retK_Rnone, flat_map_retK_Rsome. apply Permutation_refl. }
  assert (HdupK : Permutation (flat_map dupK R)
                    (flat_map (fun ho => repeat (href ho) (ct D ho)) (ANs A fo))).
  { rewrite (Permutation_flat_map dupK Hdec), flat_map_app, flat_map_dupK_Rnone, flat_map_dupK_Rsome. apply Permutation_refl. }
  assert (HAN : NoDup (map href (ANs A fo))).
  { rewrite <- (genome_refs_ANs t); auto. eapply genome_refs_nodup; eauto. }
  assert (Hsot : forall ho, In ho (ANs A fo) -> cf D ho <= 1 /\ (1 <= cf D ho -> ct D ho = 0)).
  { intros ho Hho. apply sot_counts. eapply dn_sot. eapply ANs_wf; eauto. }
  assert (HretNoDup : NoDup (flat_map retK R)).
  { eapply Permutation_NoDup; [apply Permutation_sym; exact HretK|].
    apply nodup_repeat_flat_map; auto. intros ho Hho. apply Hsot. exact Hho. }
  pose proof (fold_cstep R [] [] [] []) as Hf. simpl in Hf. specialize (Hf HretNoDup (NoDup_nil _)).
  destruct (fold_left cstep R ([], [], [], [])) as [[[g rt] du] comp].
  destruct Hf as (H1 & Hp & Hq & H2 & H3 & H4 & H5 & H6 & H7).
  cbn [hm_gain hm_retained hm_dup hm_loss hm_ndup]. intros Hsize Hne Hnd.
  (* gains *)
  assert (Eg : List.length g = list_sum (map (fun r => List.length (gains A D false r)) (fo_roots fo))).
  { rewrite H1. rewrite (Permutation_length (Permutation_flat_map gainS Hdec)), flat_map_app, app_length.
    assert (Es : flat_map gainS (Rsome A D fo) = []).
    { unfold Rsome. rewrite flat_map_flat_map'. apply flat_map_nil_all. intros ho _. apply gainS_tag. }
    rewrite Es. simpl. rewrite Nat.add_0_r. unfold Rnone. rewrite flat_map_flat_map', length_flat_map.
    apply list_sum_ext. intros r _. apply length_gainS_none. }
  (* retained *)
  assert (Er : List.length rt = list_sum (map (cf D) (ANs A fo))).
  { rewrite Hp, length_retP_retK, (Permutation_length HretK). apply length_repeat_flat_map. }
  (* duplicated copies *)
  assert (Ed : sum_lengths du = list_sum (map (ct D) (ANs A fo))).
  { rewrite sum_lengths_spec, <- (map_map snd (@List.length ref)), <- concat_length, (Permutation_length H4). simpl.
    rewrite length_dupS_dupK, (Permutation_length HdupK). apply length_repeat_flat_map. }
  (* duplicated ancestors *)
  assert (Ek : List.length du = List.length (filter (fun ho => posb (ct D ho)) (ANs A fo))).
  { rewrite <- (map_length fst du). fold (keys du).
    rewrite <- (map_length href (filter _ (ANs A fo))). apply Permutation_length. apply NoDup_Permutation; auto.
    - apply NoDup_map_filter. exact HAN.
    - intros a. rewrite H6. simpl. rewrite in_map_iff. split.
      + intros [[]|Ha]. apply (Permutation_in _ HdupK) in Ha. apply in_repeat_flat_map in Ha as (ho & Hho & -> & C).
        exists ho. split; auto. apply filter_In. split; auto. destruct (ct D ho); [lia|reflexivity].
      + intros (ho & <- & Hin). apply filter_In in Hin as [Hho C]. right.
        assert (1 <= ct D ho) by (destruct (ct D ho); [discriminate|lia]).
        apply (Permutation_in _ (Permutation_sym HdupK)). apply in_repeat_flat_map. eauto. }
  split; [exact Eg|]. split; [exact Er|]. split; [exact Ed|]. split.
  - rewrite Hnd. rewrite sum_lengths_spec in Ed. rewrite (sum_minus_one du Hne) in Ed.
    rewrite (sum_minus_filter (ct D) (ANs A fo)) in Ed. lia.
  - rewrite (genome_refs_ANs t) in Hsize |- * by auto. rewrite map_length in Hsize.
    rewrite (three_way (ANs A fo) (cf D) (ct D) (no_desc D)) in Hsize.
    + lia.
    + intros ho Hho. destruct (Hsot ho Hho) as [S1 S2]. split; [exact S1|]. split; [exact S2|].
      unfold no_desc, cf, ct. destruct (dn D false ho) as [|e l] eqn:E.
      * simpl. tauto.
      * split; [discriminate|]. intros [Z1 Z2]. pose proof (counts_nil (e :: l) Z1 Z2). discriminate.
Qed.

(* ---------- adjacent levels: D = a :: A ---------- *)
Definition kidsD (D : taxon) (h : hog) : list kid := filter (fun k => at_tax D (snd k)) (hkids h).
Definition kflags (D : taxon) (h : hog) : list (hog * bool) := map (fun k => (snd k, flagged (fst k))) (kidsD D h).

Lemma adj_suffix (a b : nat) (A s : list nat) : a :: A = s ++ b :: A -> s = [] /\ a = b.
Proof.
  intros H. assert (Hl := f_equal (@List.length nat) H). rewrite app_length in Hl. simpl in Hl.
  destruct s as [|x s]; [|simpl in Hl; lia]. simpl in H. inversion H. auto.
Qed.

Lemma longer_suffix (b : nat) (D s : list nat) : D <> s ++ b :: D.
Proof. intros H. apply (f_equal (@List.length nat)) in H. rewrite app_length in H. simpl in H. lia. Qed.

Lemma no_D_in t c D : wf_node t c = true -> (forall s, D <> s ++ htax c) ->
  forall x, In x (all_of c) -> htax x <> D.
Proof. intros Hwf Hs x Hx E. destruct (wf_desc t c x Hwf Hx) as (s & Hxs). apply (Hs s). congruence. Qed.

Lemma child_tax t h k : wf_node t h = true -> In k (hkids h) -> exists b, htax (snd k) = b :: htax h.
Proof.
  destruct h as [g p|o p m ks]; [contradiction|]. intros Hwf Hk.
  apply wf_node_inv in Hwf as (_ & _ & _ & Hc & _). rewrite Forall_forall in Hc. specialize (Hc k Hk).
  unfold child_of in Hc. destruct (htax (snd k)) as [|b q]; [discriminate|]. apply taxon_eqb_eq in Hc. subst q. eauto.
Qed.

Lemma dn_off t D c acc : wf_node t c = true -> (forall s, D <> s ++ htax c) -> dn D acc c = [].
Proof. intros Hwf Hs. apply dn_none. eapply no_D_in; eauto. Qed.

Lemma dn_at t D c acc : wf_node t c = true -> htax c = D -> dn D acc c = [(c, acc)].
Proof.
  intros Hwf HD. destruct c as [g p|o p m ks]; simpl in *; subst p; rewrite taxon_eqb_refl; [reflexivity|].
  simpl. f_equal. apply flat_map_nil_all. intros k Hk.
  destruct (child_tax t (HHog o D m ks) k Hwf Hk) as (b & Hb). simpl in Hb.
  eapply dn_off; [eapply (wf_kids t (HHog o D m ks)); eauto|]. intros s. rewrite Hb. apply longer_suffix.
Qed.

Lemma flat_map_if {X Y} (p : X -> bool) (g : X -> Y) (f : X -> list Y) l :
  (forall x, In x l -> f x = if p x then [g x] else []) -> flat_map f l = map g (filter p l).
Proof.
  induction l as [|x r IH]; intros H; simpl; [reflexivity|].
  rewrite (H x (or_introl eq_refl)), IH by (intros y Hy; apply H; right; exact Hy).
  destruct (p x); reflexivity.
Qed.

Lemma kid_cases t a A ho k : wf_node t ho = true -> htax ho = A -> In k (hkids ho) ->
  (at_tax (a :: A) (snd k) = true /\ htax (snd k) = a :: A) \/
  (at_tax (a :: A) (snd k) = false /\ forall s, a :: A <> s ++ htax (snd k)).
Proof.
  intros Hwf HA Hk. destruct (child_tax t ho k Hwf Hk) as (b & Hb). rewrite HA in Hb.
  unfold at_tax. destruct (taxon_eqb (htax (snd k)) (a :: A)) eqn:E.
  - left. split; auto. now apply taxon_eqb_eq.
  - right. split; auto. intros s Hs. rewrite Hb in Hs. apply adj_suffix in Hs as [_ ->].
    rewrite Hb, taxon_eqb_refl in E. discriminate.
Qed.

Lemma dn_adjacent t a A ho : wf_node t ho = true -> htax ho = A -> dn (a :: A) false ho = kflags (a :: A) ho.
Proof.
  intros Hwf HA. destruct ho as [g p|o p m ks].
  - simpl in *. subst p. assert (E : taxon_eqb A (a :: A) = false) by (apply taxon_eqb_neq; intros H; symmetry in H; revert H; apply tl_neq).
    rewrite E. reflexivity.
  - cbn [dn htax] in *. subst p.
    assert (E : taxon_eqb A (a :: A) = false) by (apply taxon_eqb_neq; intros H; symmetry in H; revert H; apply tl_neq).
    rewrite E. simpl. unfold kflags, kidsD. cbn [hkids]. apply flat_map_if. intros k Hk.
    destruct (kid_cases t a A (HHog o A m ks) k Hwf eq_refl Hk) as [[E1 E2]|[E1 E2]]; rewrite E1.
    + rewrite orb_false_r. eapply dn_at; eauto. eapply (wf_kids t (HHog o A m ks)); eauto.
    + eapply dn_off; eauto. eapply (wf_kids t (HHog o A m ks)); eauto.
Qed.

(* the family-side enumeration *)
Lemma at_level_nil_of_filter X h ch f : filter (at_tax X) (all_of h) = [] -> at_level X ch f h = [].
Proof. intros H. rewrite <- (at_level_filter X h ch f) in H. now apply map_eq_nil in H. Qed.

Lemma at_level_off t D c ch f : wf_node t c = true -> (forall s, D <> s ++ htax c) -> at_level D ch f c = [].
Proof.
  intros Hwf Hs. apply at_level_nil_of_filter.
  destruct (filter (at_tax D) (all_of c)) as [|x l] eqn:E; [reflexivity|]. exfalso.
  assert (Hx : In x (filter (at_tax D) (all_of c))) by (rewrite E; left; reflexivity).
  apply filter_In in Hx as [Hx Hp]. unfold at_tax in Hp. apply taxon_eqb_eq in Hp.
  eapply (no_D_in t c D); eauto.
Qed.

Lemma at_level_at t D c ch f : wf_node t c = true -> htax c = D -> at_level D ch f c = [(c, f, ch)].
Proof.
  intros Hwf HD. destruct c as [g p|o p m ks]; simpl in *; subst p; rewrite taxon_eqb_refl; [reflexivity|].
  simpl. f_equal. apply flat_map_nil_all. intros k Hk.
  destruct (child_tax t (HHog o D m ks) k Hwf Hk) as (b & Hb). simpl in Hb.
  eapply at_level_off; [eapply (wf_kids t (HHog o D m ks)); eauto|]. intros s. rewrite Hb. apply longer_suffix.
Qed.

Definition e3 := (hog * bool * list ref)%type.
Definition proj3 (e : hog * bool * list anc) : e3 :=
  (fst (fst e), snd (fst e), match snd e with (pa, _) :: _ => [href pa] | [] => [] end).
Definition fam_entries (D A : taxon) (h : hog) : list e3 :=
  flat_map (fun ho => map (fun k => (snd k, flagged (fst k), [href ho])) (kidsD D ho)) (anodes A h).

Lemma at_level_adjacent t a A h : wf_node t h = true -> htax h <> a :: A -> forall ch f,
  map proj3 (at_level (a :: A) ch f h) = fam_entries (a :: A) A h.
Proof.
  unfold fam_entries.
  induction h as [g p|o p m ks IH] using hog_ind'; intros Hwf Hne ch f.
  - simpl in *. apply taxon_eqb_neq in Hne. rewrite Hne. simpl. destruct (taxon_eqb p A); reflexivity.
  - cbn [at_level anodes htax] in *. assert (E : taxon_eqb p (a :: A) = false) by (now apply taxon_eqb_neq).
    rewrite E. cbn [app]. destruct (taxon_eqb p A) eqn:EA.
    + apply taxon_eqb_eq in EA. subst p. cbn [flat_map]. rewrite app_nil_r. unfold kidsD. cbn [hkids].
      rewrite (flat_map_if (fun k => at_tax (a :: A) (snd k)) (fun k => (snd k, flagged (fst k), (HHog o A m ks, f) :: ch))).
      * rewrite map_map. reflexivity.
      * intros k Hk. destruct (kid_cases t a A (HHog o A m ks) k Hwf eq_refl Hk) as [[E1 E2]|[E1 E2]]; rewrite E1.
        -- eapply at_level_at; eauto. eapply (wf_kids t (HHog o A m ks)); eauto.
        -- eapply at_level_off; eauto. eapply (wf_kids t (HHog o A m ks)); eauto.
    + rewrite map_flat_map', flat_map_flat_map'. apply flat_map_Forall_ext. rewrite Forall_forall in *.
      intros k Hk. apply IH; auto.
      * eapply (wf_kids t (HHog o p m ks)); eauto.
      * destruct (child_tax t (HHog o p m ks) k Hwf Hk) as (b & Hb). simpl in Hb. rewrite Hb. intros H. inversion H; subst.
        rewrite taxon_eqb_refl in EA. discriminate.
Qed.

(* ---------- counting the family-side enumeration ---------- *)
Definition flag3 (e : e3) : bool := snd (fst e).

Lemma filter_map_comm {X Y} (p : Y -> bool) (f : X -> Y) l : filter p (map f l) = map f (filter (fun x => p (f x)) l).
Proof. induction l as [|x r IH]; simpl; [reflexivity|]. rewrite IH. destruct (p (f x)); reflexivity. Qed.

Lemma nfalse_ntrue_length l : nfalse l + ntrue l = List.length l.
Proof. induction l as [|[x b] r IH]; simpl; [reflexivity|]. destruct b; simpl; lia. Qed.

Lemma ntrue_kflags D ho :
  List.length (filter flag3 (map (fun k : kid => (snd k, flagged (fst k), [href ho])) (kidsD D ho))) = ntrue (kflags D ho).
Proof.
  unfold kflags. induction (kidsD D ho) as [|k r IH]; simpl; [reflexivity|].
  unfold flag3 at 1. simpl. destruct (flagged (fst k)); simpl; rewrite IH; reflexivity.
Qed.

Lemma fam_entries_length D A h : List.length (fam_entries D A h) = list_sum (map (fun ho => List.length (kflags D ho)) (anodes A h)).
Proof. unfold fam_entries. rewrite length_flat_map. apply list_sum_ext. intros ho _. unfold kflags. now rewrite !map_length. Qed.

Lemma fam_entries_flagged D A h :
  List.length (filter flag3 (fam_entries D A h)) = list_sum (map (fun ho => ntrue (kflags D ho)) (anodes A h)).
Proof. unfold fam_entries. rewrite filter_length_flat_map. apply list_sum_ext. intros ho _. apply ntrue_kflags. Qed.

Lemma fam_entries_parents D A h :
  flat_map (fun e : e3 => snd e) (filter flag3 (fam_entries D A h)) =
  flat_map (fun ho => repeat (href ho) (ntrue (kflags D ho))) (anodes A h).
Proof.
  unfold fam_entries. rewrite filter_flat_map, flat_map_flat_map'. apply flat_map_Forall_ext. apply Forall_forall.
  intros ho _. unfold kflags. induction (kidsD D ho) as [|k r IH]; simpl; [reflexivity|].
  unfold flag3 at 1. simpl. destruct (flagged (fst k)); simpl; rewrite IH; reflexivity.
Qed.

(* dedup_ref keeps one copy of each *)
Lemma mem_ref_repeat_app x n tail : mem_ref x (repeat x (S n) ++ tail) = true.
Proof. simpl. unfold mem_ref. simpl. assert (ref_eqb x x = true) by (now apply ref_eqb_eq). now rewrite H. Qed.

Lemma dedup_repeat x n tail : ~ In x tail -> dedup_ref (repeat x (S n) ++ tail) = x :: dedup_ref tail.
Proof.
  intros Hx. induction n as [|n IH].
  - simpl. destruct (mem_ref x tail) eqn:E; [|reflexivity]. apply mem_ref_in in E. contradiction.
  - change (repeat x (S (S n)) ++ tail) with (x :: (repeat x (S n) ++ tail)). cbn [dedup_ref].
    rewrite mem_ref_repeat_app. exact IH.
Qed.

Lemma dedup_repeat_flat_map (l : list hog) (c : hog -> nat) :
  NoDup (map href l) ->
  List.length (dedup_ref (flat_map (fun ho => repeat (href ho) (c ho)) l)) = List.length (filter (fun ho => posb (c ho)) l).
Proof.
  induction l as [|x r IH]; intros Hn; [reflexivity|]. inversion Hn as [|? ? Hx Hr]; subst.
  cbn [flat_map filter]. destruct (c x) as [|n] eqn:E; cbn [posb].
  - simpl. apply IH. exact Hr.
  - rewrite dedup_repeat.
    + cbn [List.length]. f_equal. apply IH. exact Hr.
    + intros Hin. apply in_flat_map in Hin as (y & Hy & Hin). apply repeat_spec in Hin. apply Hx. rewrite Hin. now apply in_map.
Qed.

Lemma NoDup_app_l {X} (a b : list X) : NoDup (a ++ b) -> NoDup a.
Proof. induction a as [|x a IH]; intros H; [constructor|]. inversion H; subst. constructor; [|auto]. intros Hin. apply H2. apply in_or_app. auto. Qed.
Lemma NoDup_app_r {X} (a b : list X) : NoDup (a ++ b) -> NoDup b.
Proof. induction a as [|x a IH]; intros H; [exact H|]. inversion H; subst. auto. Qed.

Lemma NoDup_flat_map_in {X Y} (f : X -> list Y) l x : NoDup (flat_map f l) -> In x l -> NoDup (f x).
Proof.
  induction l as [|y r IH]; intros Hn Hin; [contradiction|]. simpl in Hn.
  destruct Hin as [->|Hin]; [eapply NoDup_app_l; eauto|]. apply IH; auto. eapply NoDup_app_r; eauto.
Qed.

Lemma family_refs_nodup t fo r : wfbc t fo = true -> In r (fo_roots fo) -> NoDup (map href (all_of r)).
Proof.
  intros Hwf Hr. pose proof (wfb_refs t fo Hwf) as Hn. unfold all_nodes_of in Hn.
  rewrite map_flat_map' in Hn. eapply (NoDup_flat_map_in (fun h => map href (all_of h))); eauto.
Qed.

(* no descendant at D <-> no child at D, for a node at A *)
Lemma no_desc_adjacent t a A ho : wf_node t ho = true -> htax ho = A ->
  no_desc (a :: A) ho = negb (has_child_at (a :: A) ho).
Proof.
  intros Hwf HA. unfold no_desc. rewrite (dn_adjacent t a A ho Hwf HA). unfold kflags, kidsD, has_child_at.
  induction (hkids ho) as [|k r IH]; simpl; [reflexivity|]. unfold at_tax at 1.
  destruct (taxon_eqb (htax (snd k)) (a :: A)); simpl; [reflexivity|exact IH].
Qed.

(* a family rooted at D has no node at the parent level *)
Lemma anodes_root_at_D t a A r : wf_node t r = true -> htax r = a :: A -> anodes A r = [].
Proof.
  intros Hwf HD. rewrite (anodes_filter t) by auto.
  destruct (filter (at_tax A) (all_of r)) as [|x l] eqn:E; [reflexivity|]. exfalso.
  assert (Hx : In x (filter (at_tax A) (all_of r))) by (rewrite E; left; reflexivity).
  apply filter_In in Hx as [Hx Hp]. unfold at_tax in Hp. apply taxon_eqb_eq in Hp.
  destruct (wf_desc t r x Hwf Hx) as (s & Hs). rewrite HD, Hp in Hs.
  apply (f_equal (@List.length nat)) in Hs. rewrite app_length in Hs. simpl in Hs. lia.
Qed.

(* gains between adjacent levels are exactly the roots at D *)
Lemma gains_adjacent t a A r : wf_node t r = true -> forall acc,
  gains A (a :: A) acc r = if taxon_eqb (htax r) (a :: A) then [(r, acc)] else [].
Proof.
  induction r as [g p|o p m ks IH] using hog_ind'; intros Hwf acc.
  - simpl. destruct (taxon_eqb p A) eqn:EA.
    + apply taxon_eqb_eq in EA. subst p.
      assert (E : taxon_eqb A (a :: A) = false) by (apply taxon_eqb_neq; intros H; symmetry in H; revert H; apply tl_neq).
      now rewrite E.
    + now rewrite app_nil_r.
  - cbn [gains htax]. destruct (taxon_eqb p A) eqn:EA.
    + apply taxon_eqb_eq in EA. subst p.
      assert (E : taxon_eqb A (a :: A) = false) by (apply taxon_eqb_neq; intros H; symmetry in H; revert H; apply tl_neq).
      now rewrite E.
    + assert (Hk : flat_map (fun k => gains A (a :: A) (flagged (fst k) || acc) (snd k)) ks = []).
      { apply flat_map_nil_all. intros k Hk. rewrite Forall_forall in IH.
        rewrite IH; auto; [|eapply (wf_kids t (HHog o p m ks)); eauto].
        destruct (child_tax t (HHog o p m ks) k Hwf Hk) as (b & Hb). simpl in Hb. rewrite Hb.
        destruct (taxon_eqb (b :: p) (a :: A)) eqn:E; [|reflexivity].
        apply taxon_eqb_eq in E. inversion E; subst. rewrite taxon_eqb_refl in EA. discriminate. }
      rewrite Hk, app_nil_r. reflexivity.
Qed.

Lemma flat_map_map {X Y Z} (f : Y -> list Z) (g : X -> Y) l : flat_map f (map g l) = flat_map (fun x => f (g x)) l.
Proof. induction l as [|x r IH]; simpl; [reflexivity|]. now rewrite IH. Qed.

Lemma filter_ext_in' {X} (p q : X -> bool) l : (forall x, In x l -> p x = q x) -> filter p l = filter q l.
Proof.
  induction l as [|x r IH]; intros H; simpl; [reflexivity|].
  rewrite (H x (or_introl eq_refl)), IH by (intros y Hy; apply H; right; exact Hy). reflexivity.
Qed.

Lemma anodes_in_ANs A fo r ho : In r (fo_roots fo) -> In ho (anodes A r) -> In ho (ANs A fo).
Proof. intros Hr Hho. unfold ANs. apply in_flat_map. eauto. Qed.

Lemma anodes_tax t A r ho : wf_node t r = true -> In ho (anodes A r) -> htax ho = A.
Proof.
  intros Hwf Hho. rewrite (anodes_filter t) in Hho by auto. apply filter_In in Hho as [_ Hp].
  unfold at_tax in Hp. now apply taxon_eqb_eq.
Qed.

(* ---------- the per-family side ---------- *)
Theorem family_counts t fo r a A :
  wfbc t fo = true -> In r (fo_roots fo) -> htax r <> a :: A ->
  exists hf, hog_node r (a :: A) = (a :: A, List.length (members_at r (a :: A)), Some hf) /\
    hf_retained hf = list_sum (map (cf (a :: A)) (anodes A r)) /\
    hf_dupl hf = list_sum (map (ct (a :: A)) (anodes A r)) /\
    hf_lost hf = List.length (filter (no_desc (a :: A)) (anodes A r)) /\
    hf_duplication hf = list_sum (map (fun ho => ct (a :: A) ho - 1) (anodes A r)) /\
    hf_events hf = hf_lost hf + hf_duplication hf.
Proof.
  intros Hwf Hr Hne.
  pose proof (wfb_roots _ _ Hwf) as Hroots. rewrite Forall_forall in Hroots. pose proof (Hroots r Hr) as Hwr.
  assert (Hho : forall ho, In ho (anodes A r) -> wf_node t ho = true /\ htax ho = A).
  { intros ho Hin. split; [eapply ANs_wf; eauto; eapply anodes_in_ANs; eauto|eapply anodes_tax; eauto]. }
  assert (Hkf : forall ho, In ho (anodes A r) -> kflags (a :: A) ho = dn (a :: A) false ho).
  { intros ho Hin. destruct (Hho ho Hin). symmetry. eapply dn_adjacent; eauto. }
  unfold hog_node.
  assert (E0 : taxon_eqb (a :: A) (htax r) = false) by (apply taxon_eqb_neq; congruence). rewrite E0.
  set (here := at_level (a :: A) [] false r).
  pose proof (at_level_adjacent t a A r Hwr Hne [] false) as Eadj. fold here in Eadj.
  (* sizes *)
  assert (Lhere : List.length here = list_sum (map (fun ho => List.length (kflags (a :: A) ho)) (anodes A r))).
  { rewrite <- (map_length proj3 here), Eadj. apply fam_entries_length. }
  assert (Efl : map proj3 (filter (fun x => snd (fst x)) here) = filter flag3 (fam_entries (a :: A) A r)).
  { rewrite <- Eadj, filter_map_comm. reflexivity. }
  assert (Lfl : List.length (filter (fun x => snd (fst x)) here) = list_sum (map (ct (a :: A)) (anodes A r))).
  { rewrite <- (map_length proj3), Efl, fam_entries_flagged. apply list_sum_ext. intros ho Hin. unfold ct. now rewrite Hkf. }
  assert (Lpar : List.length (dedup_ref (flat_map (fun x : hog * bool * list anc => match snd x with
                                                 | (pa, _) :: _ => [href pa]
                                                 | [] => []
                                                 end) (filter (fun x => snd (fst x)) here)))
                 = List.length (filter (fun ho => posb (ct (a :: A) ho)) (anodes A r))).
  { replace (flat_map _ (filter (fun x => snd (fst x)) here))
      with (flat_map (fun e : e3 => snd e) (map proj3 (filter (fun x => snd (fst x)) here)))
      by (rewrite flat_map_map; reflexivity).
    rewrite Efl, fam_entries_parents.
    rewrite (flat_map_Forall_ext _ (fun ho => repeat (href ho) (ct (a :: A) ho))).
    - apply dedup_repeat_flat_map. rewrite (anodes_filter t) by auto. apply NoDup_map_filter. eapply family_refs_nodup; eauto.
    - apply Forall_forall. intros ho Hin. unfold ct. now rewrite Hkf. }
  assert (Lall : List.length here = list_sum (map (cf (a :: A)) (anodes A r)) + list_sum (map (ct (a :: A)) (anodes A r))).
  { rewrite Lhere. clear - Hkf. induction (anodes A r) as [|ho l IH]; simpl; [reflexivity|].
    rewrite IH by (intros x Hx; apply Hkf; right; exact Hx). unfold cf, ct.
    rewrite (Hkf ho (or_introl eq_refl)). pose proof (nfalse_ntrue_length (dn (a :: A) false ho)). lia. }
  assert (Llost : List.length (filter (fun x : hog * bool * list anc => negb (has_child_at (a :: A) (fst (fst x)))) (at_level A [] false r))
                  = List.length (filter (no_desc (a :: A)) (anodes A r))).
  { rewrite <- (map_length (fun e : hog * bool * list anc => fst (fst e))), (filter_map_comm (fun x => negb (has_child_at (a :: A) x))) || idtac.
    replace (List.length (filter (fun x : hog * bool * list anc => negb (has_child_at (a :: A) (fst (fst x)))) (at_level A [] false r)))
      with (List.length (filter (fun x => negb (has_child_at (a :: A) x)) (map (fun e : hog * bool * list anc => fst (fst e)) (at_level A [] false r)))).
    - rewrite at_level_filter, <- (anodes_filter t) by auto. f_equal. apply filter_ext_in'. intros ho Hin.
      destruct (Hho ho Hin). symmetry. eapply no_desc_adjacent; eauto.
    - rewrite filter_map_comm, map_length. reflexivity. }
  eexists. split; [rewrite <- (at_level_members r (a :: A)), map_length; reflexivity|].
  cbn [hf_retained hf_dupl hf_lost hf_duplication hf_events up]. repeat split.
  - fold here. rewrite Lfl, Lall. lia.
  - fold here. exact Lfl.
  - exact Llost.
  - fold here. unfold anc in *. rewrite Lpar, Lfl. rewrite (sum_minus_filter (ct (a :: A)) (anodes A r)). lia.
Qed.

(* ---------- summing the families ---------- *)
Definition feat_zero : feat :=
  {| ft_retained := 0; ft_dupl := 0; ft_gain := 0; ft_lost := 0; ft_duplication := 0; ft_events := 0 |}.
Definition feat_add (x y : feat) : feat :=
  {| ft_retained := ft_retained x + ft_retained y; ft_dupl := ft_dupl x + ft_dupl y; ft_gain := ft_gain x + ft_gain y;
     ft_lost := ft_lost x + ft_lost y; ft_duplication := ft_duplication x + ft_duplication y;
     ft_events := ft_events x + ft_events y |}.
Definition feat_sum (l : list feat) : feat := fold_right feat_add feat_zero l.

(* what one family (or singleton) contributes to the branch above lvl: its root is a gain at its own
   taxon; elsewhere the branch features of its per-family profile (TreeProfile(ham, hog=h)) *)
Definition fam_feat (h : hog) (lvl : taxon) : feat :=
  if taxon_eqb lvl (htax h) then
    {| ft_retained := 0; ft_dupl := 0; ft_gain := 1; ft_lost := 0; ft_duplication := 0; ft_events := 1 |}
  else match hog_node h lvl with
       | (_, _, Some hf) =>
           {| ft_retained := hf_retained hf; ft_dupl := hf_dupl hf; ft_gain := 0; ft_lost := hf_lost hf;
              ft_duplication := hf_duplication hf; ft_events := hf_events hf |}
       | (_, _, None) => feat_zero
       end.

Lemma feat_sum_fields l :
  ft_retained (feat_sum l) = list_sum (map ft_retained l) /\ ft_dupl (feat_sum l) = list_sum (map ft_dupl l) /\
  ft_gain (feat_sum l) = list_sum (map ft_gain l) /\ ft_lost (feat_sum l) = list_sum (map ft_lost l) /\
  ft_duplication (feat_sum l) = list_sum (map ft_duplication l) /\ ft_events (feat_sum l) = list_sum (map ft_events l).
Proof.
  induction l as [|x r (I1 & I2 & I3 & I4 & I5 & I6)]; [repeat split|].
  cbn [feat_sum fold_right feat_add map list_sum ft_retained ft_dupl ft_gain ft_lost ft_duplication ft_events].
  fold (feat_sum r). fold (list_sum (map ft_retained r)). fold (list_sum (map ft_dupl r)). fold (list_sum (map ft_gain r)).
  fold (list_sum (map ft_lost r)). fold (list_sum (map ft_duplication r)). fold (list_sum (map ft_events r)).
  rewrite I1, I2, I3, I4, I5, I6. repeat split.
Qed.

Lemma feat_eta x : x = {| ft_retained := ft_retained x; ft_dupl := ft_dupl x; ft_gain := ft_gain x; ft_lost := ft_lost x;
                          ft_duplication := ft_duplication x; ft_events := ft_events x |}.
Proof. destruct x; reflexivity. Qed.

Lemma fam_feat_spec t fo r a A :
  wfbc t fo = true -> In r (fo_roots fo) ->
  let D := a :: A in
  ft_retained (fam_feat r D) = list_sum (map (cf D) (anodes A r)) /\
  ft_dupl (fam_feat r D) = list_sum (map (ct D) (anodes A r)) /\
  ft_gain (fam_feat r D) = List.length (gains A D false r) /\
  ft_lost (fam_feat r D) = List.length (filter (no_desc D) (anodes A r)) /\
  ft_duplication (fam_feat r D) = list_sum (map (fun ho => ct D ho - 1) (anodes A r)) /\
  ft_events (fam_feat r D) = ft_lost (fam_feat r D) + ft_duplication (fam_feat r D) + ft_gain (fam_feat r D).
Proof.
  intros Hwf Hr D. subst D.
  pose proof (wfb_roots _ _ Hwf) as Hroots. rewrite Forall_forall in Hroots. pose proof (Hroots r Hr) as Hwr.
  rewrite (gains_adjacent t a A r Hwr). unfold fam_feat. rewrite (taxon_eqb_sym (htax r) (a :: A)).
  destruct (taxon_eqb (a :: A) (htax r)) eqn:E.
  - apply taxon_eqb_eq in E. rewrite (anodes_root_at_D t a A r Hwr) by congruence. simpl. repeat split.
  - assert (Hne : htax r <> a :: A) by (apply taxon_eqb_neq in E; congruence).
    destruct (family_counts t fo r a A Hwf Hr Hne) as (hf & Hn & H1 & H2 & H3 & H4 & H5).
    rewrite Hn. cbn [ft_retained ft_dupl ft_gain ft_lost ft_duplication ft_events List.length].
    repeat split; auto. lia.
Qed.

Lemma list_sum_plus3 {X} (f g h : X -> nat) l :
  list_sum (map (fun x => f x + g x + h x) l) = list_sum (map f l) + list_sum (map g l) + list_sum (map h l).
Proof.
  induction l as [|x r IH]; [reflexivity|]. cbn [map list_sum fold_right].
  fold (list_sum (map (fun x => f x + g x + h x) r)). fold (list_sum (map f r)). fold (list_sum (map g r)). fold (list_sum (map h r)).
  rewrite IH. lia.
Qed.

(* ---------- C10, additivity ---------- *)
Theorem additive t fo a A :
  wfbc t fo = true ->
  full_node fo (a :: A) =
    (a :: A, list_sum (map (fun r => List.length (members_at r (a :: A))) (fo_roots fo)),
     Some (feat_sum (map (fun r => fam_feat r (a :: A)) (fo_roots fo)))).
Proof.
  intros Hwf. unfold full_node. cbn [up]. rewrite genome_nodes_length, nbr_genes_additive.
  assert (HAD : A <> a :: A) by (intros H; symmetry in H; revert H; apply tl_neq).
  destruct (full_counts t fo A (a :: A) Hwf HAD) as (F1 & F2 & F3 & F4 & F5).
  set (m := hogmap fo A (a :: A)) in *.
  assert (Hspec : forall r, In r (fo_roots fo) -> _) by (intros r Hr; exact (fam_feat_spec t fo r a A Hwf Hr)).
  cbv zeta in Hspec.
  destruct (feat_sum_fields (map (fun r => fam_feat r (a :: A)) (fo_roots fo))) as (S1 & S2 & S3 & S4 & S5 & S6).
  rewrite map_map in S1, S2, S3, S4, S5, S6.
  f_equal. f_equal. rewrite (feat_eta (feat_sum _)). rewrite S1, S2, S3, S4, S5, S6.
  unfold ANs in F2, F3, F4, F5.
  rewrite list_sum_flat_map in F2, F3, F4. rewrite filter_length_flat_map in F5.
  f_equal.
  - rewrite F2. apply list_sum_ext. intros r Hr. symmetry. apply (Hspec r Hr).
  - rewrite F3. apply list_sum_ext. intros r Hr. symmetry. apply (Hspec r Hr).
  - rewrite F1. apply list_sum_ext. intros r Hr. symmetry. apply (Hspec r Hr).
  - rewrite F5. apply list_sum_ext. intros r Hr. symmetry. apply (Hspec r Hr).
  - rewrite F4. apply list_sum_ext. intros r Hr. symmetry. apply (Hspec r Hr).
  - rewrite (list_sum_ext (fun r => ft_events (fam_feat r (a :: A)))
                          (fun r => ft_lost (fam_feat r (a :: A)) + ft_duplication (fam_feat r (a :: A)) + ft_gain (fam_feat r (a :: A))))
      by (intros r Hr; apply (Hspec r Hr)).
    rewrite list_sum_plus3. rewrite F1, F4, F5.
    rewrite (list_sum_ext _ _ _ (fun r Hr => proj1 (proj2 (proj2 (proj2 (Hspec r Hr)))))).
    rewrite (list_sum_ext _ _ _ (fun r Hr => proj1 (proj2 (proj2 (proj2 (proj2 (Hspec r Hr))))))).
    rewrite (list_sum_ext _ _ _ (fun r Hr => proj1 (proj2 (proj2 (Hspec r Hr))))).
    lia.
Qed.

(* outside the clade of the family's taxon a family contributes nothing: the sum may be restricted to
   the families whose per-family profile (which only covers that clade) has the node *)
Lemma fam_feat_outside t r a A :
  wf_node t r = true -> anc_or_self (htax r) (a :: A) = false -> fam_feat r (a :: A) = feat_zero.
Proof.
  intros Hwf Hout.
  assert (HoutD : forall s, a :: A <> s ++ htax r).
  { intros s Hs. assert (anc_or_self (htax r) (a :: A) = true) by (apply anc_or_self_iff; eauto). congruence. }
  assert (HoutA : forall s, A <> s ++ htax r).
  { intros s Hs. apply (HoutD (a :: s)). simpl. now rewrite <- Hs. }
  unfold fam_feat.
  assert (E : taxon_eqb (a :: A) (htax r) = false).
  { apply taxon_eqb_neq. intros H. apply (HoutD []). simpl. exact H. }
  rewrite E. unfold hog_node. rewrite E. cbn [up].
  rewrite (at_level_off t (a :: A) r [] false Hwf HoutD), (at_level_off t A r [] false Hwf HoutA). reflexivity.
Qed.

Definition covers (lvl : taxon) (r : hog) : bool := anc_or_self (htax r) lvl.

Lemma feat_add_zero_l x : feat_add feat_zero x = x.
Proof. destruct x; reflexivity. Qed.

Lemma feat_sum_filter_zero (f : hog -> feat) (p : hog -> bool) l :
  (forall r, In r l -> p r = false -> f r = feat_zero) ->
  feat_sum (map f l) = feat_sum (map f (filter p l)).
Proof.
  induction l as [|x r IH]; intros H; [reflexivity|]. cbn [map filter feat_sum fold_right]. fold (feat_sum (map f r)).
  rewrite IH by (intros y Hy; apply H; right; exact Hy).
  destruct (p x) eqn:E; [reflexivity|]. rewrite (H x (or_introl eq_refl) E).
  apply feat_add_zero_l.
Qed.

Theorem additive_covering t fo a A :
  wfbc t fo = true ->
  full_node fo (a :: A) =
    (a :: A, list_sum (map (fun r => List.length (members_at r (a :: A))) (fo_roots fo)),
     Some (feat_sum (map (fun r => fam_feat r (a :: A)) (filter (covers (a :: A)) (fo_roots fo))))).
Proof.
  intros Hwf. rewrite (additive t fo a A Hwf). f_equal. f_equal. apply feat_sum_filter_zero.
  intros r Hr Hc. pose proof (wfb_roots _ _ Hwf) as Hroots. rewrite Forall_forall in Hroots.
  eapply fam_feat_outside; eauto.
Qed.
