(* Oma.v — Ham._get_extant_genome_by_name under species_resolve_mode="OMA" (pyham/ham.py): a species
   name that maps to an internal node is redirected to that node's only child whose name looks like
   an OMA species code ([A-Z][A-Z0-9]{4}, five characters); everything else is as in Loader.load.
   Names are taken to be ASCII (len() counts characters, the model counts bytes).
   Model only: no proofs in this file. *)
From Coq Require Import List Arith Bool String Ascii.
From PyHam Require Import Tax Ortho Loader.
Import ListNotations.

Definition is_upper (c : ascii) : bool :=
  let n := nat_of_ascii c in Nat.leb 65 n && Nat.leb n 90.
Definition is_digit (c : ascii) : bool :=
  let n := nat_of_ascii c in Nat.leb 48 n && Nat.leb n 57.

Definition is_code (s : string) : bool :=
  match list_ascii_of_string s with
  | [a; b; c; d; e] => is_upper a && forallb (fun x => is_upper x || is_digit x) [b; c; d; e]
  | _ => false
  end.

(* indices of the children whose name is code-like *)
Fixpoint code_kids (k : nat) (l : list stree) : list nat :=
  match l with
  | [] => []
  | c :: r => (if is_code (sname c) then [k] else []) ++ code_kids (S k) r
  end.

Definition oma_resolve (t : stree) (p : taxon) : taxon :=
  match sub t p with
  | Some s => match code_kids 0 (skids s) with [k] => k :: p | _ => p end
  | None => p
  end.

(* the node the species block is attached to *)
Definition oma_target (t : stree) (p : taxon) : taxon :=
  if is_leaf t p then p else oma_resolve t p.

(* the part of load_species after the node has been chosen (same text as in Loader.load_species) *)
Definition species_body (p : taxon) (sp : species) (genes : list (string * taxon)) : M (list (string * taxon)) :=
  ensure_genome p ;;;
  foldM (fun acc g =>
           if existsb (fun x => String.eqb (gd_id g) (fst x)) acc then fail Unmodelled
           else register p (RGene (gd_id g)) ;;; ret (acc ++ [(gd_id g, p)]))
        (sp_genes sp) genes.

Definition load_species_oma (t : stree) (sp : species) (genes : list (string * taxon)) : M (list (string * taxon)) :=
  match search t (sp_name sp) with
  | [p] =>
      let q := oma_target t p in
      if negb (is_leaf t q) then fail TypeError else species_body q sp genes
  | _ => fail KeyError
  end.

Definition load_oma (t : stree) (d : doc) : result loaded :=
  let m :=
    genes <- foldM (fun acc sp => load_species_oma t sp acc) (d_species d) [] ;;
    tops <- mapM (eval_top t genes) (d_groups d) ;;
    ret (genes, tops) in
  match m init_state with
  | Ok ((genes, tops), s) => Ok {| l_genes := genes; l_tops := tops; l_state := s |}
  | Err e => Err e
  end.

(* the same document with every species block renamed to the node it is attached to *)
Definition oma_species (t : stree) (sp : species) : species :=
  match search t (sp_name sp) with
  | [p] => match name_of t (oma_target t p) with
           | Some n => {| sp_name := n; sp_genes := sp_genes sp |}
           | None => sp
           end
  | _ => sp
  end.
Definition oma_doc (t : stree) (d : doc) : doc :=
  {| d_species := map (oma_species t) (d_species d); d_groups := d_groups d |}.
