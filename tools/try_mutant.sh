#!/bin/sh
# usage: tools/try_mutant.sh <patch.diff> <tier> Cxx [Cyy ...]  — apply to /repo, run the checks, always revert
P="$1"; T="$2"; shift 2
cd /verif
git -C /repo apply "$P" || exit 9
for c in "$@"; do ./check "$c" --no-build --tier "$T" 2>/dev/null | grep -E "^VIOLATION|^KNOWN|quick:|thorough:" | head -4; done
git -C /repo checkout -- .
git -C /repo status --short | grep -v egg-info
