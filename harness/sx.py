"""Tiny s-expression reader/writer shared with driver/driver.ml.
Atoms are Python str; quoted strings are Q instances (a str subclass) so that they print quoted."""


class Q(str):
    """a string that is written quoted"""
    __slots__ = ()


def dumps(x, out=None):
    top = out is None
    if top:
        out = []
    if isinstance(x, Q):
        out.append('"' + x.replace('\\', '\\\\').replace('"', '\\"') + '"')
    elif isinstance(x, bool):
        out.append('1' if x else '0')
    elif isinstance(x, (str, int)):
        out.append(str(x))
    elif x is None:
        out.append('()')
    else:
        out.append('(')
        first = True
        for y in x:
            if not first:
                out.append(' ')
            first = False
            dumps(y, out)
        out.append(')')
    if top:
        return ''.join(out)


def loads(s):
    """parse one s-expression; lists -> Python lists, quoted strings -> Q, atoms -> str"""
    pos = 0
    n = len(s)
    stack = [[]]
    while pos < n:
        c = s[pos]
        if c in ' \n\t\r':
            pos += 1
        elif c == '(':
            stack.append([])
            pos += 1
        elif c == ')':
            l = stack.pop()
            stack[-1].append(l)
            pos += 1
        elif c == '"':
            pos += 1
            b = []
            while s[pos] != '"':
                if s[pos] == '\\':
                    pos += 1
                b.append(s[pos])
                pos += 1
            pos += 1
            stack[-1].append(Q(''.join(b)))
        else:
            st = pos
            while pos < n and s[pos] not in ' \n\t\r()':
                pos += 1
            stack[-1].append(s[st:pos])
    assert len(stack) == 1 and len(stack[0]) == 1, s[:200]
    return stack[0][0]
