(* C16 — navigation inside a family is self-consistent. *)
From Coq Require Import List Arith Bool String Permutation.
From PyHam Require Import Tax Ortho Loader Mapper Preds Nav Whole.
From PyHam.proofs Require Import PartitionFacts NavFacts WholeFacts.
Import ListNotations.

(* every descendant gene once; the per-species clustering lists the same genes, each under its
   species; the HOG list and the level list describe the same nodes in the same order *)
Theorem c16_views : forall t fo r h,
  wfbc t fo = true -> In r (fo_roots fo) -> In h (all_of r) ->
  NoDup (desc_genes h) /\
  Permutation (flat_map (fun e => map (fun x => (x, fst e)) (snd e)) (genes_by_species h)) (gene_nodes h) /\
  map fst (gene_nodes h) = genes_of h /\
  desc_levels h = map htax (hogs_of h) /\ desc_hogs h = map href (hogs_of h) /\
  subseq (hogs_of h) (all_of h).
Proof.
  intros t fo r h Hwf Hr Hh. split; [eapply desc_genes_nodup; eauto|].
  split; [apply genes_by_species_spec|]. split; [apply gene_nodes_genes|].
  destruct (levels_match h). split; auto. split; auto. apply hogs_sub_all.
Qed.
Print Assumptions c16_views.

(* every member reports the same top-level HOG: the root of its family *)
Theorem c16_top_level : forall t fo r x,
  wfbc t fo = true -> In r (fo_roots fo) -> In x (all_of r) -> top_level_of fo (href x) = Some r.
Proof. exact top_level_unique. Qed.
Print Assumptions c16_top_level.

(* asking a member x of family r for genome g returns exactly the family's members living in g;
   KeyError when there are none, or when the answer would contain the member itself *)
Theorem c16_get_at_level : forall t fo r x g,
  wfbc t fo = true -> In r (fo_roots fo) -> In x (all_of r) -> is_gene r = false ->
  get_at_level fo (href x) g =
    (if match family_at r g with [] => true | _ => false end then Err KeyError
     else if mem_ref (href x) (family_at r g) then Err KeyError
     else Ok (family_at r g)) /\
  (In (href x) (family_at r g) <-> htax x = g).
Proof.
  intros t fo r x g Hwf Hr Hx Hg. split; [apply (get_at_level_spec t); auto|apply (self_in_family_at t fo); auto].
Qed.
Print Assumptions c16_get_at_level.

(* the ancestral clustering maps each HOG of the genome to its genes; the gene sets are pairwise disjoint *)
Theorem c16_clustering : forall t fo A,
  wfbc t fo = true ->
  ancestral_clustering fo A = map (fun ho => (href ho, genes_of ho)) (ANs A fo) /\
  NoDup (flat_map genes_of (ANs A fo)).
Proof. intros t fo A Hwf. split; [apply (clustering_spec t); auto|apply (clustering_disjoint t); auto]. Qed.
Print Assumptions c16_clustering.

(* end to end: for every consistent input, every member of every family of the loaded forest is mapped back to
   its family, and the ancestral clusterings are disjoint *)
Theorem c16_every_consistent_input : forall t d hs,
  consistent t d hs ->
  exists l, load t d = Ok l /\
    (forall r x, In r (fo_roots (forest_of l)) -> In x (all_of r) -> top_level_of (forest_of l) (href x) = Some r) /\
    (forall A, NoDup (flat_map genes_of (ANs A (forest_of l)))).
Proof.
  intros t d hs Hc. destruct (consistent_forest t d hs Hc) as (l & El & Hw & _). exists l. split; [exact El|]. split.
  - intros r x Hr Hx. exact (top_level_unique t (forest_of l) r x Hw Hr Hx).
  - intros A. exact (clustering_disjoint t (forest_of l) A Hw).
Qed.
Print Assumptions c16_every_consistent_input.

Definition m0 : hmeta := {| m_id := None; m_og := None; m_props := []; m_scores := []; m_synth := false |}.
Definition tr : stree :=
  SNode "R" [SNode "X" []; SNode "M" [SNode "E" [SNode "H" []; SNode "P" []]; SNode "C" []]].
Definition fam : hog :=
  HHog 0 [1] m0 [(Some 0, HHog 2 [0; 1] m0 [(None, HGene "h1" [0; 0; 1])]);
                 (Some 0, HHog 3 [0; 1] m0 [(None, HGene "h2" [0; 0; 1]); (None, HGene "p2" [1; 0; 1])]);
                 (None, HGene "c1" [1; 1])].
Definition fo0 : forest := {| fo_tops := [fam]; fo_singles := [HGene "h9" [0; 0; 1]] |}.
Example c16_nonvacuous :
  wfbc tr fo0 = true /\
  get_at_level fo0 (RGene "c1") [0; 1] = Ok [RHog 2; RHog 3] /\
  get_at_level fo0 (RHog 2) [0; 1] = Err KeyError /\
  get_at_level fo0 (RHog 2) [0] = Err KeyError /\
  genes_by_species fam = [([0; 0; 1], ["h1"; "h2"]); ([1; 0; 1], ["p2"]); ([1; 1], ["c1"])]%string.
Proof. vm_compute. repeat split; reflexivity. Qed.
