(* ForestFacts.v — structure of the up-map over an aligned forest: entries below an ancestral
   gene, gains, and the "one unflagged descendant or only flagged ones" lemma. *)
From Coq Require Import List Arith Bool String Lia Permutation.
From PyHam Require Import Tax Ortho Mapper Preds.
From PyHam.proofs Require Import TaxFacts MapperFacts.
Import ListNotations.

(* nodes at D in the subtree of h (h included) with the OR of acc and the edge flags below h *)
Fixpoint dn (D : taxon) (acc : bool) (h : hog) : list (hog * bool) :=
  (if taxon_eqb (htax h) D then [(h, acc)] else []) ++
  match h with
  | HGene _ _ => []
  | HHog _ _ _ ks => flat_map (fun k => dn D (flagged (fst k) || acc) (snd k)) ks
  end.

(* entries not below any node at A *)
Fixpoint gains (A D : taxon) (acc : bool) (h : hog) : list (hog * bool) :=
  if taxon_eqb (htax h) A then []
  else (if taxon_eqb (htax h) D then [(h, acc)] else []) ++
       match h with
       | HGene _ _ => []
       | HHog _ _ _ ks => flat_map (fun k => gains A D (flagged (fst k) || acc) (snd k)) ks
       end.

(* topmost nodes at A *)
Fixpoint anodes (A : taxon) (h : hog) : list hog :=
  if taxon_eqb (htax h) A then [h]
  else match h with
       | HGene _ _ => []
       | HHog _ _ _ ks => flat_map (fun k => anodes A (snd k)) ks
       end.

Definition tag (ho : hog) (e : hog * bool) : hog * (option hog * bool) := (fst e, (Some ho, snd e)).
Definition tag_none (e : hog * bool) : hog * (option hog * bool) := (fst e, (None, snd e)).

(* ---------- depth facts under alignment ---------- *)
Lemma wf_strict_desc t h : wf_node t h = true ->
  forall k x, In k (hkids h) -> In x (all_of (snd k)) -> exists s, s <> [] /\ htax x = s ++ htax h.
Proof.
  induction h as [g p|o p m ks IH] using hog_ind'; intros Hwf k x Hk Hx; [contradiction|].
  apply wf_node_inv in Hwf as (_ & _ & _ & Hc & _ & _ & Hw). simpl in Hk.
  rewrite Forall_forall in IH, Hc, Hw. specialize (Hc k Hk). apply child_of_spec in Hc as [Hne Htl].
  destruct (htax (snd k)) as [|a q] eqn:Ek; [contradiction|]. simpl in Htl. subst q.
  destruct (snd k) as [g' p'|o' p' m' ks'] eqn:Esk.
  - simpl in Hx. destruct Hx as [<-|[]]. exists [a]. split; [discriminate|]. simpl in *. now rewrite Ek.
  - cbn [all_of] in Hx. destruct Hx as [<-|Hx].
    + exists [a]. split; [discriminate|]. simpl in *. now rewrite Ek.
    + apply in_flat_map in Hx as (k' & Hk' & Hx').
      specialize (IH k Hk). rewrite Esk in IH. specialize (Hw k Hk). rewrite Esk in Hw.
      destruct (IH Hw k' x Hk' Hx') as (s & Hs & Hxs). exists (s ++ [a]). split.
      * destruct s; discriminate.
      * rewrite Hxs. simpl. simpl in Ek. rewrite Ek. now rewrite <- app_assoc.
Qed.

Lemma wf_desc t h x : wf_node t h = true -> In x (all_of h) -> exists s, htax x = s ++ htax h.
Proof.
  intros Hwf Hx. destruct h as [g p|o p m ks].
  - simpl in Hx. destruct Hx as [<-|[]]. exists []. reflexivity.
  - cbn [all_of] in Hx. destruct Hx as [<-|Hx]; [exists []; reflexivity|].
    apply in_flat_map in Hx as (k & Hk & Hx). destruct (wf_strict_desc t _ Hwf k x Hk Hx) as (s & _ & Hs). eauto.
Qed.

Lemma wf_kids t h k : wf_node t h = true -> In k (hkids h) -> wf_node t (snd k) = true.
Proof.
  destruct h as [g p|o p m ks]; [contradiction|]. intros Hwf Hk.
  apply wf_node_inv in Hwf as (_ & _ & _ & _ & _ & _ & Hw). rewrite Forall_forall in Hw. auto.
Qed.

Lemma no_A_below t h A : wf_node t h = true -> htax h = A ->
  forall k x, In k (hkids h) -> In x (all_of (snd k)) -> htax x <> A.
Proof.
  intros Hwf HA k x Hk Hx E. destruct (wf_strict_desc t h Hwf k x Hk Hx) as (s & Hs & Hxs).
  rewrite E, HA in Hxs. symmetry in Hxs. now apply app_neq_self in Hxs.
Qed.

Lemma map_flat_map_alt {X Y Z} (g : Y -> Z) (f : X -> list Y) l :
  map g (flat_map f l) = flat_map (fun x => map g (f x)) l.
Proof. induction l as [|x r IH]; simpl; [reflexivity|]. now rewrite map_app, IH. Qed.

(* ---------- td below a node at A ---------- *)
Lemma td_under A D ho c : forall a, (forall x, In x (all_of c) -> htax x <> A) ->
  td A D (Some ho, a) c = map (tag ho) (dn D a c).
Proof.
  induction c as [g p|o p m ks IH] using hog_ind'; intros a Hno.
  - simpl. destruct (taxon_eqb p D); reflexivity.
  - cbn [td dn]. rewrite map_app. f_equal.
    + destruct (taxon_eqb _ D); reflexivity.
    + rewrite map_flat_map_alt. apply flat_map_Forall_ext. rewrite Forall_forall in *. intros k Hk.
      assert (Hn : taxon_eqb (htax (HHog o p m ks)) A = false).
      { apply taxon_eqb_neq. apply Hno. cbn [all_of]. left. reflexivity. }
      unfold step_w. rewrite Hn. cbn [fst snd]. apply IH; auto.
      intros x Hx. apply Hno. cbn [all_of]. right. apply in_flat_map. eauto.
Qed.

Lemma td_at_A t A D w h : wf_node t h = true -> htax h = A -> A <> D ->
  td A D w h = map (tag h) (dn D false h).
Proof.
  intros Hwf HA HAD. destruct h as [g p|o p m ks].
  - simpl in *. subst p. apply taxon_eqb_neq in HAD. now rewrite HAD.
  - cbn [td dn]. cbn [htax] in *. subst p. apply taxon_eqb_neq in HAD as HAD'. rewrite HAD'. simpl app.
    rewrite map_flat_map_alt. apply flat_map_Forall_ext. apply Forall_forall. intros k Hk.
    unfold step_w. cbn [htax]. rewrite taxon_eqb_refl, orb_false_r.
    apply td_under. intros x Hx. eapply (no_A_below t (HHog o A m ks)); eauto.
Qed.

(* ---------- decomposition of the up-map ---------- *)
Lemma Permutation_flat_map_app {X Y} (f g : X -> list Y) l :
  Permutation (flat_map (fun x => f x ++ g x) l) (flat_map f l ++ flat_map g l).
Proof.
  induction l as [|x r IH]; simpl; [constructor|].
  rewrite IH. rewrite <- !app_assoc. apply Permutation_app_head.
  rewrite !app_assoc. apply Permutation_app_tail. apply Permutation_app_comm.
Qed.

Lemma Permutation_flat_map_ext {X Y} (f g : X -> list Y) l :
  Forall (fun x => Permutation (f x) (g x)) l -> Permutation (flat_map f l) (flat_map g l).
Proof. induction 1; simpl; [constructor|]. now apply Permutation_app. Qed.

Lemma map_flat_map' {X Y Z} (g : Y -> Z) (f : X -> list Y) l :
  map g (flat_map f l) = flat_map (fun x => map g (f x)) l.
Proof. induction l as [|x r IH]; simpl; [reflexivity|]. now rewrite map_app, IH. Qed.

Lemma flat_map_flat_map' {X Y Z} (g : Y -> list Z) (f : X -> list Y) l :
  flat_map g (flat_map f l) = flat_map (fun x => flat_map g (f x)) l.
Proof. induction l as [|x r IH]; simpl; [reflexivity|]. now rewrite flat_map_app, IH. Qed.

Definition some_part (A D : taxon) (h : hog) : list (hog * (option hog * bool)) :=
  flat_map (fun ho => map (tag ho) (dn D false ho)) (anodes A h).

Lemma td_decomp t A D h : A <> D -> wf_node t h = true -> forall acc,
  Permutation (td A D (None, acc) h) (map tag_none (gains A D acc h) ++ some_part A D h).
Proof.
  intros HAD. induction h as [g p|o p m ks IH] using hog_ind'; intros Hwf acc.
  - unfold some_part. simpl. destruct (taxon_eqb p A) eqn:EA.
    + apply taxon_eqb_eq in EA. subst p. apply taxon_eqb_neq in HAD. rewrite HAD. simpl. rewrite HAD. simpl. apply Permutation_refl.
    + simpl. rewrite !app_nil_r. destruct (taxon_eqb p D); simpl; apply Permutation_refl.
  - destruct (taxon_eqb p A) eqn:EA.
    + apply taxon_eqb_eq in EA as EA'.
      rewrite (td_at_A t A D _ _ Hwf EA' HAD). unfold some_part. cbn [gains anodes htax].
      rewrite EA. simpl. rewrite app_nil_r. apply Permutation_refl.
    + unfold some_part. cbn [td gains anodes htax]. rewrite EA.
      rewrite map_app, <- app_assoc. apply Permutation_app.
      { destruct (taxon_eqb p D); apply Permutation_refl. }
      rewrite map_flat_map', flat_map_flat_map'.
      eapply Permutation_trans; [|apply Permutation_flat_map_app].
      apply Permutation_flat_map_ext. rewrite Forall_forall in *. intros k Hk.
      unfold step_w. cbn [htax]. rewrite EA. cbn [fst snd].
      apply IH; auto. eapply (wf_kids t (HHog o p m ks)); eauto.
Qed.

(* ---------- one unflagged descendant, or only flagged ones ---------- *)
Definition sot (l : list bool) : Prop := List.length l <= 1 \/ forallb (fun b => b) l = true.

Lemma dn_in D c : forall a x f, In (x, f) (dn D a c) -> In x (all_of c) /\ htax x = D.
Proof.
  induction c as [g p|o p m ks IH] using hog_ind'; intros a x f Hin.
  - simpl in Hin. rewrite app_nil_r in Hin. destruct (taxon_eqb p D) eqn:E; [|contradiction].
    destruct Hin as [Hin|[]]. inversion Hin; subst. split; [left; reflexivity|now apply taxon_eqb_eq].
  - cbn [dn] in Hin. apply in_app_or in Hin as [Hin|Hin].
    + cbn [htax] in Hin. destruct (taxon_eqb p D) eqn:E; [|contradiction].
      destruct Hin as [Hin|[]]. inversion Hin; subst. split; [left; reflexivity|now apply taxon_eqb_eq].
    + apply in_flat_map in Hin as (k & Hk & Hin). rewrite Forall_forall in IH.
      destruct (IH k Hk _ _ _ Hin) as [H1 H2]. split; auto. cbn [all_of]. right. apply in_flat_map. eauto.
Qed.

Lemma dn_acc_true D c : forallb (fun b => b) (map snd (dn D true c)) = true.
Proof.
  induction c as [g p|o p m ks IH] using hog_ind'.
  - simpl. destruct (taxon_eqb p D); reflexivity.
  - cbn [dn]. rewrite map_app, forallb_app. apply andb_true_iff. split.
    + destruct (taxon_eqb _ D); reflexivity.
    + induction IH as [|k r Hk Hr IHr]; [reflexivity|]. simpl. rewrite map_app, forallb_app, orb_true_r, Hk. exact IHr.
Qed.

Lemma app_eq_tail {X} (l1 l2 r1 r2 : list X) :
  l1 ++ r1 = l2 ++ r2 -> List.length r1 = List.length r2 -> r1 = r2.
Proof.
  revert l2; induction l1 as [|a l1 IH]; intros l2 H Hl.
  - destruct l2 as [|b l2]; [exact H|]. simpl in H. apply (f_equal (@List.length X)) in H.
    simpl in H. rewrite app_length in H. lia.
  - destruct l2 as [|b l2].
    + simpl in H. apply (f_equal (@List.length X)) in H. simpl in H. rewrite app_length in H. lia.
    + simpl in H. inversion H. eapply IH; eauto.
Qed.

(* two children with descendants at D sit at the same taxon *)
Lemma kids_same_taxon t D h k1 k2 a1 a2 :
  wf_node t h = true -> In k1 (hkids h) -> In k2 (hkids h) ->
  dn D a1 (snd k1) <> [] -> dn D a2 (snd k2) <> [] -> htax (snd k1) = htax (snd k2).
Proof.
  intros Hwf H1 H2 N1 N2.
  assert (Hx : forall k a, In k (hkids h) -> dn D a (snd k) <> [] ->
                 exists s b, D = s ++ htax (snd k) /\ htax (snd k) = b :: htax h).
  { intros k a Hk Hn. destruct (dn D a (snd k)) as [|[x f] l] eqn:E; [contradiction|].
    destruct (dn_in D (snd k) a x f) as [Hin HD]; [rewrite E; left; reflexivity|].
    destruct (wf_desc t (snd k) x (wf_kids t h k Hwf Hk) Hin) as [s Hs].
    destruct h as [g p|o p m ks]; [contradiction|].
    apply wf_node_inv in Hwf as (_ & _ & _ & Hc & _). rewrite Forall_forall in Hc. specialize (Hc k Hk).
    apply child_of_spec in Hc as [Hne Htl]. destruct (htax (snd k)) as [|b q] eqn:Ek; [contradiction|].
    simpl in Htl. subst q. exists s, b. split; [congruence|reflexivity]. }
  destruct (Hx k1 a1 H1 N1) as (s1 & b1 & HD1 & E1). destruct (Hx k2 a2 H2 N2) as (s2 & b2 & HD2 & E2).
  rewrite HD1 in HD2 at 1. apply app_eq_tail in HD2; auto. rewrite E1, E2. reflexivity.
Qed.

Lemma siblings_later ks : siblings_ok ks = true -> forall f c r,
  ks = (f, c) :: r -> forall k', In k' r -> htax (snd k') = htax c -> flagged f = true /\ fst k' = f.
Proof.
  intros Hs f c r -> k' Hk' Ht. simpl in Hs. apply andb_true_iff in Hs as [Hs _].
  rewrite forallb_forall in Hs. specialize (Hs k' Hk'). rewrite Ht, taxon_eqb_refl in Hs.
  apply andb_true_iff in Hs as [Hf He]. split; auto.
  destruct f as [x|], (fst k') as [y|]; simpl in He; try discriminate; auto.
  apply Nat.eqb_eq in He. now subst.
Qed.

Lemma sot_kids t D h : wf_node t h = true ->
  (forall k, In k (hkids h) -> forall acc, sot (map snd (dn D acc (snd k)))) ->
  forall ks, (exists pre, hkids h = pre ++ ks) -> siblings_ok ks = true ->
  sot (map snd (flat_map (fun k => dn D (flagged (fst k) || false) (snd k)) ks)).
Proof.
  intros Hwf HIH ks. induction ks as [|[f c] r IHr]; intros [pre Hpre] Hs.
  - left. simpl. lia.
  - assert (Hin : forall k, In k ((f, c) :: r) -> In k (hkids h)).
    { intros k Hk. rewrite Hpre. apply in_or_app. right. exact Hk. }
    assert (Hr : sot (map snd (flat_map (fun k => dn D (flagged (fst k) || false) (snd k)) r))).
    { apply IHr.
      - exists (pre ++ [(f, c)]). rewrite <- app_assoc. exact Hpre.
      - simpl in Hs. apply andb_true_iff in Hs as [_ Hs]. exact Hs. }
    simpl flat_map. rewrite map_app. cbn [fst snd].
    destruct (dn D (flagged f || false) c) as [|e1 l1] eqn:E1; [exact Hr|].
    destruct (flat_map (fun k => dn D (flagged (fst k) || false) (snd k)) r) as [|e2 l2] eqn:E2.
    + rewrite app_nil_r. rewrite <- E1. apply (HIH (f, c)). apply Hin. left. reflexivity.
    + (* both non-empty: every contributing child is a flagged copy *)
      right. rewrite <- E1, <- E2. rewrite forallb_app. apply andb_true_iff.
      assert (Hk' : exists k', In k' r /\ dn D (flagged (fst k') || false) (snd k') <> []).
      { clear - E2. induction r as [|k r IH]; [discriminate|]. simpl in E2.
        destruct (dn D (flagged (fst k) || false) (snd k)) eqn:E.
        - destruct (IH E2) as (k' & H1 & H2). exists k'. split; [right; exact H1|exact H2].
        - exists k. split; [left; reflexivity|]. rewrite E. discriminate. }
      destruct Hk' as (k' & Hk'r & Hk'n).
      assert (Hf : flagged f = true).
      { assert (Ht : htax (snd k') = htax c).
        { apply (kids_same_taxon t D h k' (f, c) (flagged (fst k') || false) (flagged f || false) Hwf); auto.
          - apply Hin. right. exact Hk'r.
          - apply Hin. left. reflexivity.
          - simpl. rewrite E1. discriminate. }
        destruct (siblings_later _ Hs f c r eq_refl k' Hk'r Ht) as [Hf _]. exact Hf. }
      split.
      * rewrite Hf. simpl. apply dn_acc_true.
      * clear E2 Hr IHr. assert (Hall : forall k'', In k'' r -> dn D (flagged (fst k'') || false) (snd k'') <> [] ->
                                          flagged (fst k'') = true).
        { intros k'' Hk'' Hn.
          assert (Ht : htax (snd k'') = htax c).
          { apply (kids_same_taxon t D h k'' (f, c) (flagged (fst k'') || false) (flagged f || false) Hwf); auto.
            - apply Hin. right. exact Hk''.
            - apply Hin. left. reflexivity.
            - simpl. rewrite E1. discriminate. }
          destruct (siblings_later _ Hs f c r eq_refl k'' Hk'' Ht) as [_ He]. rewrite He. exact Hf. }
        clear - Hall. induction r as [|k r IH]; [reflexivity|]. simpl. rewrite map_app, forallb_app.
        apply andb_true_iff. split.
        -- destruct (dn D (flagged (fst k) || false) (snd k)) eqn:E; [reflexivity|].
           rewrite <- E. rewrite (Hall k); [|left; reflexivity|rewrite E; discriminate]. simpl. apply dn_acc_true.
        -- apply IH. intros k'' Hk'' Hn. apply Hall; auto. right. exact Hk''.
Qed.

Lemma flat_map_nil_all {X Y} (f : X -> list Y) l : (forall x, In x l -> f x = []) -> flat_map f l = [].
Proof. induction l as [|x r IH]; intros H; simpl; [reflexivity|]. rewrite H by (left; reflexivity). apply IH. intros y Hy. apply H. right. exact Hy. Qed.

Lemma dn_none D c : (forall x, In x (all_of c) -> htax x <> D) -> forall a, dn D a c = [].
Proof.
  intros Hno a. destruct (dn D a c) as [|[x f] l] eqn:E; [reflexivity|].
  destruct (dn_in D c a x f) as [Hin HD]; [rewrite E; left; reflexivity|]. exfalso. eapply Hno; eauto.
Qed.

Lemma dn_sot t D h : wf_node t h = true -> forall acc, sot (map snd (dn D acc h)).
Proof.
  induction h as [g p|o p m ks IH] using hog_ind'; intros Hwf acc.
  - left. simpl. destruct (taxon_eqb p D); simpl; lia.
  - destruct acc; [right; apply dn_acc_true|].
    cbn [dn htax]. destruct (taxon_eqb p D) eqn:E.
    + apply taxon_eqb_eq in E. left.
      assert (H0 : flat_map (fun k => dn D (flagged (fst k) || false) (snd k)) ks = []).
      { apply flat_map_nil_all. intros k Hk. apply dn_none. intros x Hx.
        eapply (no_A_below t (HHog o p m ks)); eauto. }
      rewrite H0. simpl. lia.
    + simpl app. apply (sot_kids t D (HHog o p m ks) Hwf).
      * intros k Hk a. rewrite Forall_forall in IH. apply IH; auto. eapply (wf_kids t (HHog o p m ks)); eauto.
      * exists []. reflexivity.
      * apply wf_node_inv in Hwf as (_ & _ & _ & _ & Hs & _). exact Hs.
Qed.
