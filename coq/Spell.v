(* Spell.v — the permitted orthoXML spellings of a duplication/loss history (what the properties call a
   "consistent" input), as an inductive relation between (ordered) histories and element lists:
   any single-lineage level may be left out, a HOG whose only content is one duplication may be spelt as
   that duplication's paralogGroup nest inside the enclosing group, the copies of a duplication may be
   bracketed into nested paralogGroups in any way, genes may carry the species-level wrapper group,
   groups may carry any ids, annotations anywhere and a TaxRange label that does not name the taxon
   all their members share.  Histories are ordered here; since every order of lineages and copies is
   a history too, quantifying over all of them covers every order in which a file can list members.
   geneRefs may carry a LOFT attribute (each gene is referenced once, so the id is assigned once).
   Definitions only: no proofs in this file. *)
From Coq Require Import List Arith Bool String.
From PyHam Require Import Tax Ortho Loader Hist.
Import ListNotations.
Local Open Scope string_scope.

(* h' is reached from h by descending through levels that have a single plain-ortholog lineage *)
Inductive below : hist -> hist -> Prop :=
| below_refl h : below h h
| below_step p c h' : below c h' -> below (XH p [[c]]) h'.

Definition is_annot (it : item) : Prop :=
  match it with IProp _ _ | IScore _ _ => True | _ => False end.

(* the <property> elements that end up on the enclosing orthologGroup: those written directly in its
   body and those written inside its paralogGroups *)
Fixpoint item_props (it : item) : list (string * string) :=
  match it with
  | IProp n v => [(n, v)]
  | IPG _ b => flat_map item_props b
  | _ => []
  end.
Fixpoint item_scores (it : item) : list (string * string) :=
  match it with
  | IScore n v => [(n, v)]
  | IPG _ b => flat_map item_scores b
  | _ => []
  end.

Definition single (lins : list (list hist)) : bool := match lins with [_] => true | _ => false end.

(* a TaxRange label must not name the taxon that all members of the group share (the loader would
   take the group for a species-level wrapper and splice it into its parent) *)
Definition label_ok (t : stree) (lins : list (list hist)) (body : list item) : Prop :=
  match assoc_last "TaxRange" (flat_map item_props body) with
  | None => True
  | Some v => forall l, lins = [l] -> name_of t (lin_tax l) <> Some v
  end.

(* the spelt levels of the copies of one duplication at child taxon X: all exactly X, or at least two
   different ones whose common ancestor is X *)
Definition levels_ok (X : taxon) (lvls : list taxon) : Prop :=
  Forall (fun l => l = X) lvls \/
  (exists x r, dedup_tax lvls = x :: r /\ r <> [] /\ fold_left lcs r x = X).

(* sp_member t mp h its lv : `its` spells history h as a member of an enclosing group (or as a copy
   inside a paralogGroup); lv = Some l: it contributes one element whose own level is l;
   lv = None (only when mp = true, i.e. not inside a paralogGroup): it contributes the
   paralogGroup nest of a HOG that consists of one duplication only.
   sp_body t sgl p lins body : body spells the lineages lins of a HOG at p, in order.
   sp_units t cs body lvls : body spells the copies cs of one duplication, in order, in any
   bracketing; lvls are the levels of the spelt copies. *)
Inductive sp_member (t : stree) : bool -> hist -> list item -> option taxon -> Prop :=
| sm_gene mp g p loft : sp_member t mp (XG g p) [IGene g loft] (Some p)
| sm_wrap mp g p n id og loft :
    name_of t p = Some n ->
    sp_member t mp (XG g p) [IOG id og [IProp "TaxRange" n; IGene g loft]] (Some p)
| sm_explicit mp p lins id og body :
    sp_body t (single lins) p lins body -> label_ok t lins body ->
    sp_member t mp (XH p lins) [IOG id og body] (Some p)
| sm_omit mp p c its lv :
    sp_member t mp c its lv -> sp_member t mp (XH p [[c]]) its lv
| sm_omit_para p cs og body lvls :
    2 <= List.length cs -> sp_units t cs body lvls -> levels_ok (lin_tax cs) lvls ->
    sp_member t true (XH p [cs]) [IPG og body] None
with sp_body (t : stree) : bool -> taxon -> list (list hist) -> list item -> Prop :=
| sb_nil sgl p : sp_body t sgl p [] []
| sb_annot sgl p it lins body :
    is_annot it -> sp_body t sgl p lins body -> sp_body t sgl p lins (it :: body)
| sb_orth sgl p c lr its lv body :
    sp_member t true c its lv -> (sgl = true -> lv = Some (xtax c)) ->
    sp_body t sgl p lr body -> sp_body t sgl p ([c] :: lr) (its ++ body)
| sb_dup sgl p cs lr og pgbody lvls body :
    2 <= List.length cs -> sp_units t cs pgbody lvls -> levels_ok (lin_tax cs) lvls ->
    sp_body t sgl p lr body -> sp_body t sgl p (cs :: lr) (IPG og pgbody :: body)
with sp_units (t : stree) : list hist -> list item -> list taxon -> Prop :=
| su_nil : sp_units t [] [] []
| su_annot it cs body lvls :
    is_annot it -> sp_units t cs body lvls -> sp_units t cs (it :: body) lvls
| su_copy c cr its l body lvls :
    sp_member t false c its (Some l) -> sp_units t cr body lvls ->
    sp_units t (c :: cr) (its ++ body) (l :: lvls)
| su_nest og cs1 cs2 inner body lv1 lv2 :
    cs1 <> [] -> sp_units t cs1 inner lv1 -> sp_units t cs2 body lv2 ->
    sp_units t (cs1 ++ cs2) (IPG og inner :: body) (lv1 ++ lv2).

(* a top-level orthologGroup spelling family h *)
Definition spells_top (t : stree) (h : hist) (it : item) : Prop :=
  exists p lins id og body,
    h = XH p lins /\ it = IOG id og body /\ sp_body t (single lins) p lins body /\ label_ok t lins body.
