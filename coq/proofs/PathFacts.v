(* composition and depth laws of the path query (Taxonomy.get_path_up) *)
From Coq Require Import List Arith Lia.
From PyHam Require Import Tax.
From PyHam.proofs Require Import TaxFacts.
Import ListNotations.

Lemma between_compose s1 s2 anc : s1 <> [] -> s2 <> [] ->
  between (s1 ++ s2) anc = between s1 (s2 ++ anc) ++ (s2 ++ anc) :: between s2 anc.
Proof.
  induction s1 as [|a s1 IH]; intros H1 H2; [contradiction|].
  destruct s1 as [|b s1'].
  - simpl. destruct s2 as [|c s2']; [contradiction|]. reflexivity.
  - specialize (IH ltac:(discriminate) H2).
    change (between ((a :: b :: s1') ++ s2) anc)
      with ((((b :: s1') ++ s2) ++ anc) :: between ((b :: s1') ++ s2) anc).
    change (between (a :: b :: s1') (s2 ++ anc))
      with (((b :: s1') ++ s2 ++ anc) :: between (b :: s1') (s2 ++ anc)).
    rewrite IH, <- app_assoc. reflexivity.
Qed.

(* a walk over two stretches is the lower walk, the middle node, the upper walk *)
Lemma path_up_compose s1 s2 anc : s1 <> [] -> s2 <> [] ->
  path_up (s1 ++ s2 ++ anc) anc =
  path_up (s1 ++ s2 ++ anc) (s2 ++ anc) ++ (s2 ++ anc) :: path_up (s2 ++ anc) anc.
Proof.
  intros H1 H2. rewrite app_assoc.
  rewrite (path_up_spec (s1 ++ s2) anc) by (destruct s1; [contradiction|discriminate]).
  rewrite <- app_assoc. rewrite (path_up_spec s1 (s2 ++ anc) H1), (path_up_spec s2 anc H2).
  apply between_compose; assumption.
Qed.

(* every node of the path lies strictly between the two ends in depth *)
Lemma path_up_depths s anc q : s <> [] -> In q (path_up (s ++ anc) anc) ->
  List.length anc < List.length q < List.length (s ++ anc).
Proof.
  intros Hs Hq. rewrite (path_up_spec s anc Hs) in Hq. apply between_in in Hq as (s1 & s2 & -> & H1 & H2 & ->).
  rewrite !app_length. destruct s1; [contradiction|]. destruct s2; [contradiction|]. simpl. lia.
Qed.
