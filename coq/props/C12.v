(* C12 — the iHam orthoXML export describes the same HOG. *)
From Coq Require Import List Arith Bool String Permutation.
From PyHam Require Import Tax Ortho Loader Mapper Preds Nav Export Filter Hist Spell Whole Page.
From PyHam.proofs Require Import ExplicitFacts ExportFacts LoftFacts SpellFacts WholeFacts RoundTripFacts DocRoundTripFacts PageFacts NamesFacts.
Import ListNotations.

(* Proved for every loaded HOG (any shape, no alignment hypothesis): the exported groups reference exactly
   the HOG's member genes, each once, and the exported species blocks declare exactly those genes
   (c12_references, c12_declarations).
   The round trip, for every aligned HOG (wf_node, property C02) over a tree whose node names are pairwise
   different: the groups the exporter writes (elision rules of findings F5/F11 included) are a permitted
   spelling (Spell.v) of the history read off the HOG (c12_export_is_a_spelling), that history is well formed
   and is matched by the HOG itself; hence (C03) evaluating the exported group again - in any loader state,
   with any gene table that places the member genes at their species, the member genes being pairwise different
   and not yet carrying a LOFT id in that state - yields a HOG that matches the same
   history: same members, same taxon for every sub-HOG, same duplication grouping (c12_roundtrip).
   Whole document (c12_document_roundtrip): for an aligned HOG whose member genes are pairwise different, over a
   tree with pairwise different node names, the exported document (species blocks and groups) is a consistent
   input; loading it with the same species tree succeeds and yields exactly one top-level HOG, which matches the
   history of the original HOG, and the re-loaded forest satisfies wfbc.
   The page (Page.v; c12_page_always_built, c12_page_embeds, c12_page_one_record_per_member,
   c12_page_records_match_export): for every aligned HOG the page is built; what it embeds is the exported
   document above, the species subtree below the HOG's taxon and one record per member gene, in the order of
   get_all_descendant_genes, each naming the species under which the exported document declares that gene.
   Not modelled (checked on the implementation only): the text of the page, i.e. the html template the three
   values are substituted into and their serialisation (lxml, ete3 newick writer, json); the correspondence
   check reads the three values back out of the real page and compares them with the model's. *)
Theorem c12_references : forall t h ce, Permutation (flat_map refs_of (export t ce h)) (genes_of h).
Proof. intros t h ce. exact (export_refs t h ce). Qed.
Print Assumptions c12_references.

Theorem c12_declarations : forall t protid h,
  Permutation (flat_map (fun sp => map gd_id (sp_genes sp)) (export_species t protid h)) (genes_of h).
Proof. exact export_declared. Qed.
Print Assumptions c12_declarations.

Theorem c12_export_is_a_spelling : forall t o p m ks,
  names_inj t -> wf_node t (HHog o p m ks) = true ->
  exists it, export_groups t (HHog o p m ks) = [it] /\ spells_top t (hist_of (HHog o p m ks)) it.
Proof. exact export_spells_top. Qed.
Print Assumptions c12_export_is_a_spelling.

Theorem c12_history_well_formed : forall t genes x,
  wf_node t x = true -> (forall g p, In (HGene g p) (all_of x) -> find_gene g genes = Some p) ->
  WFh t genes (hist_of x) /\ matches (hist_of x) x.
Proof. intros t genes x Hwf Hg. split; [apply WFh_hist_of; assumption|apply (matches_hist_of t); assumption]. Qed.
Print Assumptions c12_history_well_formed.

Theorem c12_roundtrip : forall t genes o p m ks s,
  names_inj t -> wf_node t (HHog o p m ks) = true ->
  (forall g q, In (HGene g q) (all_of (HHog o p m ks)) -> find_gene g genes = Some q) -> dups_dom s ->
  NoDup (genes_of (HHog o p m ks)) -> lfresh s (genes_of (HHog o p m ks)) ->
  let x := HHog o p m ks in
  exists it i x' s', export_groups t x = [it] /\ eval_top t genes it s = Ok ((i, x'), s') /\
    matches (hist_of x) x /\ matches (hist_of x) x' /\ htax x' = htax x /\ wf_node t x' = true.
Proof. exact export_roundtrip. Qed.
Print Assumptions c12_roundtrip.

Theorem c12_document_roundtrip : forall t protid o p m ks,
  names_inj t -> wf_node t (HHog o p m ks) = true -> NoDup (genes_of (HHog o p m ks)) ->
  let x := HHog o p m ks in
  exists l top, load t (export_doc t protid x) = Ok l /\ l_tops l = [top] /\
    matches (hist_of x) x /\ matches (hist_of x) (snd top) /\ htax (snd top) = htax x /\ wf_node t (snd top) = true /\
    wfbc t (forest_of l) = true.
Proof. exact export_doc_roundtrip. Qed.
Print Assumptions c12_document_roundtrip.

Local Open Scope string_scope.
Definition m0 : hmeta := {| m_id := Some "f"; m_og := None; m_props := []; m_scores := []; m_synth := false |}.
Definition tr : stree :=
  SNode "R" [SNode "X" []; SNode "M" [SNode "E" [SNode "H" []; SNode "P" []]; SNode "C" []]].
Definition fam : hog :=
  HHog 0 [1] m0 [(Some 0, HHog 2 [0; 1] m0 [(None, HGene "h1" [0; 0; 1])]);
                 (Some 0, HHog 3 [0; 1] m0 [(None, HGene "h2" [0; 0; 1]); (None, HGene "p2" [1; 0; 1])]);
                 (None, HGene "c1" [1; 1])].
(* a copy with a single child is written as its own group (its parent element is the paralogGroup) *)
Example c12_nonvacuous :
  export_groups tr fam =
  [IOG (Some "f") None [IProp "TaxRange" "M";
     IPG None [IOG (Some "f") None [IProp "TaxRange" "E"; IGene "h1" None];
               IOG (Some "f") None [IProp "TaxRange" "E"; IGene "h2" None; IGene "p2" None]];
     IGene "c1" None]].
Proof. vm_compute. reflexivity. Qed.

(* the round trip on the example: the exported group, evaluated again, gives a HOG of the same shape *)
Definition genes12 : list (string * taxon) := [("h1", [0; 0; 1]); ("h2", [0; 0; 1]); ("p2", [1; 0; 1]); ("c1", [1; 1])].
Example c12_roundtrip_nonvacuous :
  wf_node tr fam = true /\
  match mapM (eval_top tr genes12) (export_groups tr fam) init_state with
  | Ok (tops, _) => map (fun top => (htax (snd top), wf_node tr (snd top), List.length (hogs_of (snd top)), genes_of (snd top))) tops
                    = [([1], true, 3, ["c1"; "h1"; "h2"; "p2"])]
  | Err _ => False
  end.
Proof. vm_compute. split; reflexivity. Qed.

(* the same for every taxonomy the library accepts: build_taxonomy = Ok makes the node names pairwise different
   (c15_unambiguous, finding F12 repaired), which is the only hypothesis on the tree the round trip needs *)
Theorem c12_document_roundtrip_accepted_taxonomy : forall ui t0 t protid o p m ks,
  build_taxonomy ui t0 = Ok t -> wf_node t (HHog o p m ks) = true -> NoDup (genes_of (HHog o p m ks)) ->
  let x := HHog o p m ks in
  exists l top, load t (export_doc t protid x) = Ok l /\ l_tops l = [top] /\
    matches (hist_of x) x /\ matches (hist_of x) (snd top) /\ htax (snd top) = htax x /\ wf_node t (snd top) = true /\
    wfbc t (forest_of l) = true.
Proof.
  intros ui t0 t protid o p m ks Hb Hwf Hnd. apply export_doc_roundtrip; [|exact Hwf|exact Hnd].
  exact (built_all_names_inj ui t0 t Hb).
Qed.
Print Assumptions c12_document_roundtrip_accepted_taxonomy.

(* ---------- the iHam page ---------- *)
Theorem c12_page_always_built : forall t protid o p m ks,
  wf_node t (HHog o p m ks) = true -> exists pg, iham_page t protid (HHog o p m ks) = Ok pg.
Proof. exact page_built. Qed.
Print Assumptions c12_page_always_built.

Theorem c12_page_embeds : forall t protid h pg,
  iham_page t protid h = Ok pg ->
  pg_doc pg = export_doc t protid h /\ sub t (htax h) = Some (pg_tree pg) /\ pg_fam pg = fam_data t protid h.
Proof. exact page_embeds. Qed.
Print Assumptions c12_page_embeds.

Theorem c12_page_one_record_per_member : forall t protid h pg,
  iham_page t protid h = Ok pg ->
  map fr_id (pg_fam pg) = genes_of h /\ map fr_protid (pg_fam pg) = map protid (genes_of h) /\
  List.length (pg_fam pg) = List.length (genes_of h).
Proof. exact page_records. Qed.
Print Assumptions c12_page_one_record_per_member.

Theorem c12_page_records_match_export : forall t protid h r,
  In r (fam_data t protid h) ->
  exists sp, In sp (export_species t protid h) /\ sp_name sp = fr_species r /\
             In {| gd_id := fr_id r; gd_xrefs := [("protId"%string, fr_protid r)] |} (sp_genes sp).
Proof. exact page_record_declared. Qed.
Print Assumptions c12_page_records_match_export.

Example c12_page_nonvacuous :
  match iham_page tr (fun g => append "P_" g) fam with
  | Ok pg => pg_tree pg = SNode "M" [SNode "E" [SNode "H" []; SNode "P" []]; SNode "C" []] /\
             map (fun r => (fr_species r, fr_protid r, fr_id r)) (pg_fam pg) =
               [("H", "P_h1", "h1"); ("H", "P_h2", "h2"); ("P", "P_p2", "p2"); ("C", "P_c1", "c1")]
  | Err _ => False
  end.
Proof. vm_compute. split; reflexivity. Qed.
