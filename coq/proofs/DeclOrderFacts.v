(* DeclOrderFacts.v — C14: the order of the <species> blocks and of the <gene> declarations inside them does not
   matter: a document with the blocks permuted and the genes of each block permuted is consistent exactly when
   the original is, for the same histories. *)
From Coq Require Import List Arith Bool String Lia Permutation.
From PyHam Require Import Tax Ortho Loader Mapper Preds Filter Hist Spell Whole.
From PyHam.proofs Require Import TaxFacts MapperFacts ForestFacts ClusterFacts LoaderFacts ExplicitFacts FilterFacts
  SpellFacts WholeFacts FilterSpellFacts SpellCheckFacts.
Import ListNotations.

Definition same_block (a b : species) : Prop := sp_name a = sp_name b /\ Permutation (sp_genes a) (sp_genes b).
Definition sp_sim (d d' : doc) : Prop :=
  exists l, Permutation (d_species d) l /\ Forall2 same_block l (d_species d').

Lemma Forall2_declared l l' :
  Forall2 same_block l l' ->
  Permutation (flat_map (fun sp => map gd_id (sp_genes sp)) l) (flat_map (fun sp => map gd_id (sp_genes sp)) l').
Proof.
  induction 1 as [|a b r r' [_ Hp] HF IH]; simpl; [constructor|]. apply Permutation_app; [apply Permutation_map; exact Hp|exact IH].
Qed.

Lemma sp_sim_declared d d' : sp_sim d d' -> Permutation (declared d) (declared d').
Proof.
  intros (l & HP & HF). unfold declared. eapply Permutation_trans; [apply Permutation_flat_map; exact HP|apply Forall2_declared; exact HF].
Qed.

Lemma Forall2_in_l {X Y} (R : X -> Y -> Prop) l l' a : Forall2 R l l' -> In a l -> exists b, In b l' /\ R a b.
Proof.
  induction 1 as [|x y r r' Hxy HF IH]; intros Hin; [contradiction|]. destruct Hin as [<-|Hin].
  - exists y. split; [left; reflexivity|exact Hxy].
  - destruct (IH Hin) as (b & Hb & Hr). exists b. split; [right; exact Hb|exact Hr].
Qed.

Lemma sp_sim_block_back d d' sp' :
  sp_sim d d' -> In sp' (d_species d') -> exists sp, In sp (d_species d) /\ same_block sp sp'.
Proof.
  intros (l & HP & HF) Hin. destruct (Forall2_in_r _ _ _ _ HF Hin) as (a & Ha & Hr).
  exists a. split; [eapply Permutation_in; [apply Permutation_sym; exact HP|exact Ha]|exact Hr].
Qed.

Lemma sp_sim_block_fwd d d' sp :
  sp_sim d d' -> In sp (d_species d) -> exists sp', In sp' (d_species d') /\ same_block sp sp'.
Proof.
  intros (l & HP & HF) Hin. apply (Permutation_in _ HP) in Hin. exact (Forall2_in_l _ _ _ _ HF Hin).
Qed.

Lemma species_sane_block t a b : same_block a b -> species_sane t a -> species_sane t b.
Proof. intros [Hn _] (p & Hs & Hl). exists p. rewrite <- Hn. auto. Qed.

(* gene tables of the two documents agree *)
Lemma tables_sim t d d' genes genes' :
  sp_sim d d' -> NoDup (declared d) ->
  map fst genes = declared d ->
  (forall g p, In (g, p) genes -> exists sp, In sp (d_species d) /\ In g (map gd_id (sp_genes sp)) /\ species_resolves t sp p) ->
  map fst genes' = declared d' ->
  (forall g p, In (g, p) genes' -> exists sp, In sp (d_species d') /\ In g (map gd_id (sp_genes sp)) /\ species_resolves t sp p) ->
  forall g, find_gene g genes' = find_gene g genes.
Proof.
  intros Hsim Hnd Hm Hr Hm' Hr' g.
  pose proof (sp_sim_declared d d' Hsim) as Hperm.
  assert (Hn : NoDup (map fst genes)) by (rewrite Hm; exact Hnd).
  assert (Hn' : NoDup (map fst genes')) by (rewrite Hm'; eapply Permutation_NoDup; eauto).
  destruct (in_dec string_dec g (declared d)) as [Hin|Hout].
  - assert (Hin' : In g (declared d')) by (eapply Permutation_in; eauto).
    rewrite <- Hm in Hin. rewrite <- Hm' in Hin'.
    apply in_map_iff in Hin as ([g0 p] & Eg & Hgp). simpl in Eg. subst g0.
    apply in_map_iff in Hin' as ([g0 p'] & Eg & Hgp'). simpl in Eg. subst g0.
    destruct (Hr g p Hgp) as (sp & Hsp & Hg & (Hs & _)). destruct (Hr' g p' Hgp') as (sp' & Hsp' & Hg' & (Hs' & _)).
    destruct (sp_sim_block_back d d' sp' Hsim Hsp') as (sp1 & Hsp1 & [Hname Hgenes]).
    assert (Hg1 : In g (map gd_id (sp_genes sp1))).
    { eapply Permutation_in; [apply Permutation_sym; apply Permutation_map; exact Hgenes|exact Hg']. }
    assert (sp = sp1) by (eapply (unique_block (fun sp => map gd_id (sp_genes sp))); eauto). subst sp1.
    rewrite <- Hname, Hs in Hs'. inversion Hs'; subst p'.
    rewrite (proj2 (find_gene_in genes' g p Hn') Hgp'), (proj2 (find_gene_in genes g p Hn) Hgp). reflexivity.
  - rewrite !find_gene_none; [reflexivity| |].
    + rewrite Hm. exact Hout.
    + rewrite Hm'. intros Hin'. apply Hout. eapply Permutation_in; [apply Permutation_sym; exact Hperm|exact Hin'].
Qed.

Theorem declaration_order_irrelevant t d d' hs :
  sp_sim d d' -> d_groups d' = d_groups d -> consistent t d hs -> consistent t d' hs.
Proof.
  intros Hsim Hg (H1 & H2 & H3 & H4 & H5).
  assert (H1' : Forall (species_sane t) (d_species d')).
  { apply Forall_forall. intros sp' Hin. destruct (sp_sim_block_back d d' sp' Hsim Hin) as (sp & Hsp & Hb).
    rewrite Forall_forall in H1. eapply species_sane_block; eauto. }
  assert (H2' : NoDup (declared d')) by (eapply Permutation_NoDup; [apply sp_sim_declared; exact Hsim|exact H2]).
  split; [exact H1'|]. split; [exact H2'|]. rewrite Hg. split; [exact H3|]. split; [exact H4|].
  intros genes' Hm' Hr'.
  destruct (species_fold_ok t (d_species d) [] init_state H1 H2) as (genes & s0 & E0 & _).
  pose proof (species_fold_spec t _ _ _ _ _ E0) as (I1 & _ & _ & I4). simpl in I1.
  assert (I4' : forall g p, In (g, p) genes -> exists sp, In sp (d_species d) /\ In g (map gd_id (sp_genes sp)) /\ species_resolves t sp p).
  { intros g p Hin. apply I4 in Hin as [[]|Hin]. exact Hin. }
  pose proof (H5 genes I1 I4') as Hwf. eapply Forall_impl; [|exact Hwf]. intros h Hh.
  eapply (WFh_ext t genes genes'); [|exact Hh]. intros g _. eapply tables_sim; eauto.
Qed.

(* both orders load, and their top-level HOGs match the same histories *)
Theorem declaration_order_same_result t d d' hs :
  sp_sim d d' -> d_groups d' = d_groups d -> consistent t d hs ->
  exists l l', load t d = Ok l /\ load t d' = Ok l' /\
    Forall2 (fun h top => matches h (snd top) /\ htax (snd top) = xtax h /\ wf_node t (snd top) = true) hs (l_tops l) /\
    Forall2 (fun h top => matches h (snd top) /\ htax (snd top) = xtax h /\ wf_node t (snd top) = true) hs (l_tops l').
Proof.
  intros Hsim Hg Hc. destruct (consistent_forest t d hs Hc) as (l & El & _ & Fl).
  destruct (consistent_forest t d' hs (declaration_order_irrelevant t d d' hs Hsim Hg Hc)) as (l' & El' & _ & Fl').
  exists l, l'. auto.
Qed.
