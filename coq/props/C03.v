(* C03 — levels and duplication events are reconstructed by the MRCA rule. *)
From Coq Require Import List Arith Bool String Permutation.
From PyHam Require Import Tax Ortho Loader Mapper Preds Filter Hist Spell.
From PyHam.proofs Require Import LoaderFacts ExplicitFacts ChainFacts SpellFacts.
Import ListNotations.

(* "The loaded hierarchy equals the simulated true history", for every species tree, every well-formed
   history and every permitted spelling of it (Spell.v), without bound.  `matches h x` says: x sits at the
   taxon of h and its children are, up to order, one unflagged child per plain lineage and one
   duplication node (flag shared by >= 2 children) per duplication of h, each child matching the
   corresponding member recursively.  The clauses of the statement are instances: an orthologGroup is
   placed at the MRCA of its members (one level above when they share a taxon, never below a duplication
   it contains: close_level in SpellFacts.v); a maximal nest of paralogGroups becomes one duplication whose
   copies sit at their common-ancestor taxon under a HOG one level above (nest_eval, rehome_spec); every
   skipped level is materialised as a single-child HOG (ChainFacts.chain_completes).
   geneRefs may carry LOFT attributes; every gene is referenced at most once. *)
Theorem c03_any_spelling : forall t d hs,
  Forall (species_sane t) (d_species d) -> NoDup (declared d) -> NoDup (flat_map refs_of (d_groups d)) ->
  Forall2 (spells_top t) hs (d_groups d) ->
  (forall genes, map fst genes = declared d ->
     (forall g p, In (g, p) genes -> exists sp, In sp (d_species d) /\ In g (map gd_id (sp_genes sp)) /\ species_resolves t sp p) ->
     Forall (WFh t genes) hs) ->
  exists l, load t d = Ok l /\
    Forall2 (fun h top => matches h (snd top) /\ htax (snd top) = xtax h /\ wf_node t (snd top) = true) hs (l_tops l).
Proof. exact spelt_load. Qed.
Print Assumptions c03_any_spelling.

(* element-level form: a spelt member, at any depth, inside or outside a paralogGroup, leaves in the
   open group either one element representing the history (a node matching the history itself or the
   first spelt-out level below it, the levels in between being single-lineage ones), or - for a level that
   consists of one duplication - that duplication's copies under one fresh flag whose level is known *)
Theorem c03_spelt_member : forall t genes h,
  WFh t genes h -> forall mp its lv, sp_member t mp h its lv -> member_claim t genes h its lv.
Proof. intros t genes h. exact (spelt_evaluates t genes h). Qed.
Print Assumptions c03_spelt_member.

(* every level the file skips between a HOG and a member is materialised as a single-child HOG *)
Theorem c03_skipped_levels : forall t genes hid h y q b o,
  WFh t genes h -> rep t h y -> xtax h = b :: q ->
  let top := chain_pure o hid (path_up (htax y) q) None y in
  matches h top /\ htax top = xtax h /\ wf_node t top = true.
Proof. intros t genes hid h y q b o. exact (chain_completes t genes hid h y q b o). Qed.
Print Assumptions c03_skipped_levels.

(* the fully explicit encoding is one of the spellings *)
Theorem c03_explicit_is_a_spelling : forall t genes p lins,
  WFh t genes (XH p lins) -> spells_top t (XH p lins) (enc (XH p lins)).
Proof. exact enc_spells_top. Qed.
Print Assumptions c03_explicit_is_a_spelling.

Theorem c03_explicit : forall t d hs,
  Forall (species_sane t) (d_species d) -> NoDup (declared d) -> d_groups d = map enc hs ->
  (forall genes, map fst genes = declared d ->
     (forall g p, In (g, p) genes -> exists sp, In sp (d_species d) /\ In g (map gd_id (sp_genes sp)) /\ species_resolves t sp p) ->
     Forall (fun h => WFh t genes h /\ is_group h) hs) ->
  exists l, load t d = Ok l /\
    Forall2 (fun h top => matches h (snd top) /\ htax (snd top) = xtax h /\ wf_node t (snd top) = true) hs (l_tops l).
Proof. exact explicit_load. Qed.
Print Assumptions c03_explicit.

Theorem c03_member : forall t genes h,
  WFh t genes h ->
  forall pg fr s, dups_dom s ->
    exists x s', eval_item t genes (enc h) pg fr s = Ok (add_kids fr [(pg, x)], s') /\
                 matches h x /\ (htax x = xtax h /\ wf_node t x = true) /\ ext s s' /\ dups_dom s'.
Proof. exact enc_evaluates. Qed.
Print Assumptions c03_member.

(* the level rule itself, for the children of one group: all children at child taxa of p (as in every
   consistent input once the children are closed) gives level p - the MRCA when they sit in several
   child clades, one level above when they share a taxon *)
Theorem c03_level_rule : forall p l,
  l <> [] -> Forall (is_child_of p) l ->
  match dedup_tax l with
  | [] => False
  | x :: more => match more with [] => up x = Some p | _ => fold_left lcs more x = p end
  end.
Proof. exact level_of_children. Qed.
Print Assumptions c03_level_rule.

Local Open Scope string_scope.
Definition tr : stree :=
  SNode "R" [SNode "X" []; SNode "M" [SNode "E" [SNode "H" []; SNode "P" []]; SNode "C" []]].
Definition h0 : hist :=
  XH [] [[XG "x1" [0]];
         [XH [1] [[XH [0; 1] [[XG "h1" [0; 0; 1]]; [XG "p1" [1; 0; 1]]]; XH [0; 1] [[XG "h2" [0; 0; 1]]]];
                  [XG "c1" [1; 1]]]]].
Definition doc0 : doc :=
  {| d_species := [ {| sp_name := "H"; sp_genes := [ {| gd_id := "h1"; gd_xrefs := [] |}; {| gd_id := "h2"; gd_xrefs := [] |} ] |};
                    {| sp_name := "P"; sp_genes := [ {| gd_id := "p1"; gd_xrefs := [] |} ] |};
                    {| sp_name := "C"; sp_genes := [ {| gd_id := "c1"; gd_xrefs := [] |} ] |};
                    {| sp_name := "X"; sp_genes := [ {| gd_id := "x1"; gd_xrefs := [] |} ] |} ];
     d_groups := [enc h0] |}.
Example c03_nonvacuous :
  match load tr doc0 with
  | Ok l => map (fun top => (htax (snd top), wf_node tr (snd top), List.length (hogs_of (snd top)))) (l_tops l) = [([], true, 4)]
  | Err _ => False
  end.
Proof. vm_compute. reflexivity. Qed.

(* a spelling that leaves out two levels and spells a one-duplication level as its paralogGroup, with one
   copy two levels below the other: it is a permitted spelling, and it loads to the history *)
Definition genes1 : list (string * taxon) := [("h1", [0; 0; 1]); ("h2", [0; 0; 1]); ("p1", [1; 0; 1]); ("c1", [1; 1]); ("x1", [0])].
Definition h1 : hist :=
  XH [] [[XG "x1" [0]];
         [XH [1] [[XH [0; 1] [[XG "h1" [0; 0; 1]]; [XG "p1" [1; 0; 1]]]; XH [0; 1] [[XG "h2" [0; 0; 1]]]]]]].
Definition it1 : item :=
  IOG (Some "fam") None
      [IGene "x1" None;
       IPG None [IOG None None [IGene "h1" None; IProp "TaxRange" "E"; IGene "p1" None];
                 IPG None [IGene "h2" None]]].
Example c03_spelling_nonvacuous : spells_top tr h1 it1 /\ WFh tr genes1 h1.
Proof.
  split.
  - exists [], [[XG "x1" [0]]; [XH [1] [[XH [0; 1] [[XG "h1" [0; 0; 1]]; [XG "p1" [1; 0; 1]]]; XH [0; 1] [[XG "h2" [0; 0; 1]]]]]]],
      (Some "fam"), None, [IGene "x1" None;
       IPG None [IOG None None [IGene "h1" None; IProp "TaxRange" "E"; IGene "p1" None]; IPG None [IGene "h2" None]]].
    split; [reflexivity|]. split; [reflexivity|]. split.
    + apply (sb_orth tr false [] (XG "x1" [0]) _ [IGene "x1" None] (Some [0])); [constructor|discriminate|].
      apply (sb_orth tr false [] _ [] [IPG None _] None _); [|discriminate|constructor].
      apply (sm_omit_para tr [1] _ None _ [[0; 1]; [0; 0; 1]]); [simpl; auto| |].
      * apply (su_copy tr _ _ [IOG None None _] [0; 1]).
        -- apply sm_explicit.
           ++ apply (sb_orth tr false [0; 1] _ _ [IGene "h1" None] (Some [0; 0; 1])); [constructor|discriminate|].
              apply sb_annot; [exact I|].
              apply (sb_orth tr false [0; 1] _ [] [IGene "p1" None] (Some [1; 0; 1])); [constructor|discriminate|constructor].
           ++ unfold label_ok. simpl. intros l H. discriminate.
        -- apply (su_nest tr None [XH [0; 1] [[XG "h2" [0; 0; 1]]]] [] [IGene "h2" None] [] [[0; 0; 1]] []); [discriminate| |constructor].
           apply (su_copy tr _ [] [IGene "h2" None] [0; 0; 1] [] []); [|constructor].
           apply sm_omit. constructor.
      * right. exists [0; 1], [[0; 0; 1]]. split; [reflexivity|]. split; [discriminate|reflexivity].
    + unfold label_ok. simpl. exact I.
  - cbn. repeat split; try discriminate; try reflexivity; repeat constructor; simpl; intuition discriminate.
Qed.

Definition doc1 : doc :=
  {| d_species := d_species doc0; d_groups := [it1] |}.
Example c03_spelling_loads :
  match load tr doc1 with
  | Ok l => map (fun top => (htax (snd top), wf_node tr (snd top), List.length (hogs_of (snd top)))) (l_tops l) = [([], true, 4)]
  | Err _ => False
  end.
Proof. vm_compute. reflexivity. Qed.
