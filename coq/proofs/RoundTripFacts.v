(* RoundTripFacts.v — C12, the round trip: the groups the iHam exporter writes for an aligned HOG are a
   permitted spelling (Spell.v) of the history that the HOG itself represents; re-loading them therefore
   reproduces a HOG with the same members, the same taxon for every sub-HOG and the same duplication grouping. *)
From Coq Require Import List Arith Bool String Lia Permutation.
From PyHam Require Import Tax Ortho Loader Mapper Preds Nav Export Filter Hist Spell.
From PyHam.proofs Require Import TaxFacts MapperFacts ForestFacts ClusterFacts LoaderFacts LoftFacts ExplicitFacts ExportFacts ChainFacts CladeFacts SpellFacts ProfileFacts AdditiveFacts.
Import ListNotations.
Local Open Scope string_scope.
Local Open Scope list_scope.

(* ---------- the history an aligned HOG represents, lineages in the order the exporter writes them ---------- *)
Fixpoint hist_of (x : hog) : hist :=
  match x with
  | HGene g p => XG g p
  | HHog _ p _ ks =>
      XH p (map (fun k => flat_map (fun kd => if is_member k kd then [hist_of (snd kd)] else []) ks) (dup_keys ks [])
            ++ flat_map (fun kd => if flagged (fst kd) then [] else [[hist_of (snd kd)]]) ks)
  end.

Lemma xtax_hist_of x : xtax (hist_of x) = htax x.
Proof. destruct x; reflexivity. Qed.

Definition copies_of (k : nat) (ks : list kid) : list hist :=
  flat_map (fun kd => if is_member k kd then [hist_of (snd kd)] else []) ks.
Definition hl_dups (ks : list kid) (K : list nat) : list (list hist) := map (fun k => copies_of k ks) K.
Definition hl_plain (ks : list kid) : list (list hist) :=
  flat_map (fun kd => if flagged (fst kd) then [] else [[hist_of (snd kd)]]) ks.

Definition ex_copies (t : stree) (k : nat) (ks : list kid) : list item :=
  flat_map (fun kd => if is_member k kd then export t false (snd kd) else []) ks.
Definition ex_dups (t : stree) (ks : list kid) (K : list nat) : list item := map (fun k => IPG None (ex_copies t k ks)) K.
Definition ex_plain (t : stree) (wide : bool) (ks : list kid) : list item :=
  flat_map (fun kd => if flagged (fst kd) then [] else export t wide (snd kd)) ks.
Definition nplain (ks : list kid) : nat := List.length (filter (fun kd => negb (flagged (fst kd))) ks).
Definition elides (ce : bool) (ks : list kid) : bool :=
  ce && (Nat.eqb (List.length ks) 1 ||
         (negb (Nat.eqb (List.length ks) 1) && Nat.eqb (List.length (dup_keys ks [])) 1 && Nat.eqb (nplain ks) 0)).

Lemma hist_of_hog o p m ks : hist_of (HHog o p m ks) = XH p (hl_dups ks (dup_keys ks []) ++ hl_plain ks).
Proof. reflexivity. Qed.

Lemma export_hog t ce o p m ks :
  export t ce (HHog o p m ks) =
  let wide := if elides ce ks then true else Nat.leb 2 (List.length (dup_keys ks []) + nplain ks) in
  let body := ex_dups t ks (dup_keys ks []) ++ ex_plain t wide ks in
  if elides ce ks then body else [IOG (Some (id_text m)) None (IProp "TaxRange" (tax_name t p) :: body)].
Proof. reflexivity. Qed.

(* ---------- the exporter writes no <property> that would reach an enclosing group ---------- *)
Lemma export_no_props t x : forall ce, flat_map item_props (export t ce x) = [].
Proof.
  induction x as [g p|o p m ks IH] using hog_ind'; intros ce; [reflexivity|].
  rewrite export_hog. cbv zeta.
  assert (Hb : forall wide, flat_map item_props (ex_dups t ks (dup_keys ks []) ++ ex_plain t wide ks) = []).
  { intros wide. rewrite flat_map_app.
    assert (E1 : flat_map item_props (ex_dups t ks (dup_keys ks [])) = []).
    { unfold ex_dups. induction (dup_keys ks []) as [|k K IHK]; [reflexivity|]. cbn [map flat_map]. rewrite IHK, app_nil_r.
      cbn [item_props]. unfold ex_copies. clear - IH. induction IH as [|kd r Hkd Hr IHr]; [reflexivity|].
      cbn [flat_map]. rewrite flat_map_app, IHr, app_nil_r. destruct (is_member k kd); [apply Hkd|reflexivity]. }
    assert (E2 : flat_map item_props (ex_plain t wide ks) = []).
    { unfold ex_plain. clear - IH. induction IH as [|kd r Hkd Hr IHr]; [reflexivity|].
      cbn [flat_map]. rewrite flat_map_app, IHr, app_nil_r. destruct (flagged (fst kd)); [reflexivity|apply Hkd]. }
    rewrite E1, E2. reflexivity. }
  destruct (elides ce ks); [apply Hb|reflexivity].
Qed.

(* ---------- facts about the children of an aligned HOG ---------- *)
Lemma is_member_opt k kd : is_member k kd = opt_nat_eqb (Some k) (fst kd).
Proof. destruct kd as [[k'|] c]; reflexivity. Qed.

Lemma copies_length k ks : List.length (copies_of k ks) = List.length (filter (is_member k) ks).
Proof. unfold copies_of. induction ks as [|kd r IH]; [reflexivity|]. simpl. destruct (is_member k kd); simpl; rewrite IH; reflexivity. Qed.

Lemma filter_member_opt k ks : filter (is_member k) ks = filter (fun k' => opt_nat_eqb (Some k) (fst k')) ks.
Proof. apply filter_ext. intros kd. apply is_member_opt. Qed.

Lemma dup_facts t o p m ks k c :
  wf_node t (HHog o p m ks) = true -> In (Some k, c) ks ->
  2 <= List.length (filter (is_member k) ks) /\ Forall (fun kd => htax (snd kd) = htax c) (filter (is_member k) ks).
Proof.
  intros Hwf Hin. apply wf_node_inv in Hwf as (_ & _ & _ & _ & _ & Hd & _). rewrite Forall_forall in Hd.
  specialize (Hd _ Hin). unfold dup_ok in Hd. cbn [fst snd] in Hd. apply andb_true_iff in Hd as [H2 Hall].
  rewrite filter_member_opt. split; [apply Nat.leb_le; exact H2|].
  apply Forall_forall. intros kd Hkd. rewrite forallb_forall in Hall. specialize (Hall kd Hkd). now apply taxon_eqb_eq in Hall.
Qed.

Lemma single_length (l : list (list hist)) : single l = true <-> List.length l = 1.
Proof. destruct l as [|a [|b r]]; simpl; split; intros H; try discriminate; try reflexivity. Qed.

Lemma hl_plain_length ks : List.length (hl_plain ks) = nplain ks.
Proof.
  unfold hl_plain, nplain. induction ks as [|kd r IH]; [reflexivity|]. simpl. destruct (flagged (fst kd)); simpl; rewrite IH; reflexivity.
Qed.

(* ---------- what is proved for every child, by induction ---------- *)
Definition Q (t : stree) (c : hog) : Prop :=
  forall ce mp, (ce = true -> mp = true) ->
  exists lv, sp_member t mp (hist_of c) (export t ce c) lv /\ (ce = false -> lv = Some (htax c)).

(* the copies of one duplication, each written out in full *)
Lemma units_of_copies t k ks :
  Forall (fun kd => Q t (snd kd)) ks ->
  sp_units t (copies_of k ks) (ex_copies t k ks)
           (flat_map (fun kd => if is_member k kd then [htax (snd kd)] else []) ks).
Proof.
  unfold copies_of, ex_copies. induction 1 as [|kd r Hkd Hr IH]; [constructor|].
  cbn [flat_map]. destruct (is_member k kd); [|exact IH].
  destruct (Hkd false false) as (lv & Hsp & Hlv); [discriminate|]. rewrite (Hlv eq_refl) in Hsp.
  cbn [app]. apply su_copy; assumption.
Qed.

Lemma levels_of_copies k ks X :
  Forall (fun kd => htax (snd kd) = X) (filter (is_member k) ks) ->
  Forall (fun l => l = X) (flat_map (fun kd => if is_member k kd then [htax (snd kd)] else []) ks).
Proof.
  induction ks as [|kd r IH]; intros H; [constructor|]. cbn [flat_map filter] in *.
  destruct (is_member k kd); [|apply IH; exact H]. inversion H; subst. constructor; auto.
Qed.

Lemma lin_tax_copies k ks X :
  filter (is_member k) ks <> [] -> Forall (fun kd => htax (snd kd) = X) (filter (is_member k) ks) ->
  lin_tax (copies_of k ks) = X.
Proof.
  unfold copies_of. induction ks as [|kd r IH]; intros Hne H; [contradiction|]. cbn [flat_map filter] in *.
  destruct (is_member k kd).
  - inversion H; subst. simpl. apply xtax_hist_of.
  - apply IH; assumption.
Qed.

(* the plain lineages, each written with the flag `wide` *)
Lemma body_of_plains t sgl p wide ks :
  Forall (fun kd => Q t (snd kd)) ks -> (sgl = true -> wide = false) ->
  sp_body t sgl p (hl_plain ks) (ex_plain t wide ks).
Proof.
  intros HQ Hs. unfold hl_plain, ex_plain. induction HQ as [|kd r Hkd Hr IH]; [constructor|].
  cbn [flat_map]. destruct (flagged (fst kd)); [exact IH|].
  destruct (Hkd wide true (fun _ => eq_refl)) as (lv & Hsp & Hlv).
  cbn [app]. eapply sb_orth; [exact Hsp| |exact IH].
  intros E. rewrite (Hs E) in Hlv. rewrite (Hlv eq_refl), xtax_hist_of. reflexivity.
Qed.

(* the duplications first, then the plain lineages *)
Lemma body_of_children t sgl p o m wide ks K :
  wf_node t (HHog o p m ks) = true -> Forall (fun kd => Q t (snd kd)) ks -> (sgl = true -> wide = false) ->
  (forall k, In k K -> exists c, In (Some k, c) ks) ->
  sp_body t sgl p (hl_dups ks K ++ hl_plain ks) (ex_dups t ks K ++ ex_plain t wide ks).
Proof.
  intros Hwf HQ Hs. induction K as [|k K IH]; intros HK.
  - simpl. apply body_of_plains; assumption.
  - destruct (HK k (or_introl eq_refl)) as [c Hc].
    destruct (dup_facts t o p m ks k c Hwf Hc) as [H2 Hall].
    cbn [hl_dups ex_dups map app]. fold (hl_dups ks K). fold (ex_dups t ks K).
    eapply sb_dup.
    + rewrite copies_length. exact H2.
    + apply units_of_copies. exact HQ.
    + left. rewrite (lin_tax_copies k ks (htax c)); [|destruct (filter (is_member k) ks); [simpl in H2; lia|discriminate]|exact Hall].
      apply levels_of_copies. exact Hall.
    + apply IH. intros k' Hk'. apply HK. right. exact Hk'.
Qed.

Lemma body_no_props t ks K wide : flat_map item_props (ex_dups t ks K ++ ex_plain t wide ks) = [].
Proof.
  rewrite flat_map_app.
  assert (E1 : flat_map item_props (ex_dups t ks K) = []).
  { unfold ex_dups. induction K as [|k K IHK]; [reflexivity|]. cbn [map flat_map]. rewrite IHK, app_nil_r.
    cbn [item_props]. unfold ex_copies. clear IHK. induction ks as [|kd r IHr]; [reflexivity|].
    cbn [flat_map]. rewrite flat_map_app, IHr, app_nil_r. destruct (is_member k kd); [apply export_no_props|reflexivity]. }
  assert (E2 : flat_map item_props (ex_plain t wide ks) = []).
  { unfold ex_plain. clear E1. induction ks as [|kd r IHr]; [reflexivity|].
    cbn [flat_map]. rewrite flat_map_app, IHr, app_nil_r. destruct (flagged (fst kd)); [reflexivity|apply export_no_props]. }
  rewrite E1, E2. reflexivity.
Qed.

Definition names_inj (t : stree) : Prop :=
  forall p q n, name_of t p = Some n -> name_of t q = Some n -> p = q.

Lemma kid_tax t o p m ks kd : wf_node t (HHog o p m ks) = true -> In kd ks -> exists b, htax (snd kd) = b :: p.
Proof. intros Hwf Hin. exact (child_tax t (HHog o p m ks) kd Hwf Hin). Qed.

Lemma lins_child_taxa t o p m ks l :
  wf_node t (HHog o p m ks) = true ->
  In l (hl_dups ks (dup_keys ks []) ++ hl_plain ks) -> exists b, lin_tax l = b :: p.
Proof.
  intros Hwf Hin. apply in_app_or in Hin as [Hin|Hin].
  - unfold hl_dups in Hin. apply in_map_iff in Hin as (k & <- & Hk). apply dup_keys_spec in Hk as [_ [c Hc]].
    destruct (dup_facts t o p m ks k c Hwf Hc) as [H2 Hall].
    rewrite (lin_tax_copies k ks (htax c)); [|destruct (filter (is_member k) ks); [simpl in H2; lia|discriminate]|exact Hall].
    exact (kid_tax t o p m ks (Some k, c) Hwf Hc).
  - unfold hl_plain in Hin. apply in_flat_map in Hin as (kd & Hkd & Hin). destruct (flagged (fst kd)); [contradiction|].
    destruct Hin as [<-|[]]. simpl. rewrite xtax_hist_of. exact (kid_tax t o p m ks kd Hwf Hkd).
Qed.

Lemma valid_name t p : valid t p = true -> name_of t p = Some (tax_name t p).
Proof. unfold valid, tax_name, name_of. destruct (sub t p); [reflexivity|discriminate]. Qed.

Lemma child_valid t o p m ks kd : wf_node t (HHog o p m ks) = true -> In kd ks -> valid t (htax (snd kd)) = true.
Proof.
  intros Hwf Hin. pose proof (wf_kids t (HHog o p m ks) kd Hwf Hin) as Hw. destruct (snd kd) as [g q|o' q m' ks']; cbn [htax].
  - cbn [wf_node] in Hw. unfold is_leaf in Hw. unfold valid. destruct (sub t q); [reflexivity|discriminate].
  - apply wf_node_inv in Hw as (Hv & _). exact Hv.
Qed.

Lemma lins_valid t o p m ks l :
  wf_node t (HHog o p m ks) = true ->
  In l (hl_dups ks (dup_keys ks []) ++ hl_plain ks) -> valid t (lin_tax l) = true.
Proof.
  intros Hwf Hin. apply in_app_or in Hin as [Hin|Hin].
  - unfold hl_dups in Hin. apply in_map_iff in Hin as (k & <- & Hk). apply dup_keys_spec in Hk as [_ [c Hc]].
    destruct (dup_facts t o p m ks k c Hwf Hc) as [H2 Hall].
    rewrite (lin_tax_copies k ks (htax c)); [|destruct (filter (is_member k) ks); [simpl in H2; lia|discriminate]|exact Hall].
    exact (child_valid t o p m ks (Some k, c) Hwf Hc).
  - unfold hl_plain in Hin. apply in_flat_map in Hin as (kd & Hkd & Hin). destruct (flagged (fst kd)); [contradiction|].
    destruct Hin as [<-|[]]. simpl. rewrite xtax_hist_of. exact (child_valid t o p m ks kd Hwf Hkd).
Qed.

Lemma nplain_zero_all_flagged ks : nplain ks = 0 -> forall kd, In kd ks -> flagged (fst kd) = true.
Proof.
  unfold nplain. induction ks as [|kd r IH]; intros H kd' Hin; [contradiction|]. simpl in H.
  destruct (flagged (fst kd)) eqn:E; simpl in H.
  - destruct Hin as [<-|Hin]; [exact E|apply IH; assumption].
  - discriminate.
Qed.

Lemma export_written t o p m ks :
  names_inj t -> wf_node t (HHog o p m ks) = true -> Forall (fun kd => Q t (snd kd)) ks ->
  let lins := hl_dups ks (dup_keys ks []) ++ hl_plain ks in
  let body := IProp "TaxRange" (tax_name t p) ::
              (ex_dups t ks (dup_keys ks []) ++ ex_plain t (Nat.leb 2 (List.length (dup_keys ks []) + nplain ks)) ks) in
  sp_body t (single lins) p lins body /\ label_ok t lins body.
Proof.
  intros Hinj Hwf HQ lins body.
  assert (HK : forall k, In k (dup_keys ks []) -> exists c, In (Some k, c) ks).
  { intros k Hk. apply dup_keys_spec in Hk as [_ H]. exact H. }
  pose proof Hwf as Hwf0. apply wf_node_inv in Hwf0 as (Hv & _).
  split.
  - apply sb_annot; [exact I|]. eapply body_of_children; eauto.
    intros Hs. apply single_length in Hs. unfold lins in Hs. rewrite app_length in Hs. unfold hl_dups in Hs. rewrite map_length, hl_plain_length in Hs.
    apply Nat.leb_gt. lia.
  - unfold label_ok, body. cbn [flat_map item_props app]. rewrite body_no_props.
    assert (Ea : assoc_last "TaxRange" [("TaxRange", tax_name t p)] = Some (tax_name t p)) by reflexivity.
    rewrite Ea. intros l El' Hn.
    assert (Hin : In l (hl_dups ks (dup_keys ks []) ++ hl_plain ks)) by (fold lins; rewrite El'; left; reflexivity).
    destruct (lins_child_taxa t o p m ks l Hwf Hin) as [b Hb].
    pose proof (Hinj _ _ _ Hn (valid_name t p Hv)) as E. rewrite Hb in E. exact (tl_neq p b E).
Qed.

(* ---------- the exporter writes a permitted spelling of the history the HOG represents ---------- *)
Theorem export_spells t x : names_inj t -> wf_node t x = true -> Q t x.
Proof.
  intros Hinj. induction x as [g p|o p m ks IH] using hog_ind'; intros Hwf ce mp Hce.
  - exists (Some p). split; [constructor|reflexivity].
  - assert (HQ : Forall (fun kd => Q t (snd kd)) ks).
    { rewrite Forall_forall in *. intros kd Hkd. apply IH; [exact Hkd|]. eapply (wf_kids t (HHog o p m ks)); eauto. }
    assert (HK : forall k, In k (dup_keys ks []) -> exists c, In (Some k, c) ks).
    { intros k Hk. apply dup_keys_spec in Hk as [_ H]. exact H. }
    pose proof Hwf as Hwf0. apply wf_node_inv in Hwf0 as (Hv & Hl & Hne & _).
    rewrite export_hog, hist_of_hog. cbv zeta. destruct (elides ce ks) eqn:El.
    + (* the group itself is not written *)
      unfold elides in El. apply andb_true_iff in El as [Ece El]. subst ce. rewrite (Hce eq_refl).
      apply orb_true_iff in El as [E1|E2].
      * (* a single child *)
        apply Nat.eqb_eq in E1. destruct ks as [|[f c] [|kd2 r]]; simpl in E1; try lia.
        destruct f as [k|].
        -- exfalso. destruct (dup_facts t o p m [(Some k, c)] k c Hwf (or_introl eq_refl)) as [H2 _].
           cbn [filter is_member fst] in H2. destruct (Nat.eqb k k); cbn [List.length] in H2; lia.
        -- inversion HQ as [|? ? Hc _]; subst. destruct (Hc true true (fun _ => eq_refl)) as (lv & Hsp & _).
           exists lv. split; [|discriminate]. cbn [dup_keys hl_dups ex_dups map app hl_plain ex_plain flat_map flagged fst snd].
           rewrite app_nil_r. apply sm_omit. exact Hsp.
      * (* one duplication and nothing else *)
        apply andb_true_iff in E2 as [E2 E3]. apply andb_true_iff in E2 as [_ E2].
        apply Nat.eqb_eq in E2. apply Nat.eqb_eq in E3.
        destruct (dup_keys ks []) as [|k [|k2 K]] eqn:EK; simpl in E2; try lia.
        assert (Hpl : hl_plain ks = []).
        { pose proof (hl_plain_length ks) as HL. rewrite E3 in HL. destruct (hl_plain ks); [reflexivity|discriminate]. }
        assert (Hep : ex_plain t true ks = []).
        { unfold ex_plain. apply flat_map_nil_all. intros kd Hkd. rewrite (nplain_zero_all_flagged ks E3 kd Hkd). reflexivity. }
        rewrite Hpl, Hep. cbn [hl_dups ex_dups map app].
        destruct (HK k (or_introl eq_refl)) as [c Hc].
        destruct (dup_facts t o p m ks k c Hwf Hc) as [H2 Hall].
        exists None. split; [|discriminate]. eapply sm_omit_para.
        -- rewrite copies_length. exact H2.
        -- apply units_of_copies. exact HQ.
        -- left. rewrite (lin_tax_copies k ks (htax c)); [|destruct (filter (is_member k) ks); [simpl in H2; lia|discriminate]|exact Hall].
           apply levels_of_copies. exact Hall.
    + (* the group is written, with its TaxRange label *)
      exists (Some p). split; [|reflexivity]. destruct (export_written t o p m ks Hinj Hwf HQ) as [Hb Hlab]. apply sm_explicit; assumption.
Qed.

(* ---------- the HOG matches the history read off it ---------- *)
Lemma rel_app l1 g1 : forall l2 g2, rel l1 g1 -> rel l2 g2 -> rel (l1 ++ l2) (g1 ++ g2).
Proof.
  revert g1. induction l1 as [|l lr IH]; intros [|[f cs] gr] l2 g2 H1 H2; simpl in *; try contradiction; auto.
  destruct H1 as (Hf & Hm & Hr). auto.
Qed.

Lemma relm_copies k ks :
  Forall (fun kd => matches (hist_of (snd kd)) (snd kd)) ks -> relm (copies_of k ks) (members_of k ks).
Proof.
  unfold copies_of, members_of. induction 1 as [|kd r Hkd Hr IH]; [exact I|].
  cbn [flat_map filter]. rewrite is_member_opt. destruct kd as [[k'|] c]; cbn [fst snd opt_nat_eqb is_member] in *.
  - destruct (Nat.eqb k k'); [simpl; split; [exact Hkd|exact IH]|exact IH].
  - exact IH.
Qed.

Lemma members_filter_length k ks : List.length (members_of k ks) = List.length (filter (is_member k) ks).
Proof. unfold members_of. rewrite map_length. f_equal. Qed.

Lemma gkids_dups ks K :
  gkids (map (fun k => (Some k, members_of k ks)) K) =
  flat_map (fun k => flat_map (fun kd : kid => if is_member k kd then [kd] else []) ks) K.
Proof.
  induction K as [|k K IH]; [reflexivity|]. cbn [map flat_map]. rewrite gkids_cons, IH. f_equal.
  rewrite members_pairs. clear. induction ks as [|[[k'|] c] r IHr]; [reflexivity| |]; cbn [filter flat_map is_member fst].
  - destruct (Nat.eqb k k'); simpl; rewrite IHr; reflexivity.
  - exact IHr.
Qed.

Lemma gkids_plains ks :
  gkids (flat_map (fun kd : kid => if flagged (fst kd) then [] else [(None, [snd kd])]) ks) =
  flat_map (fun kd : kid => if flagged (fst kd) then [] else [kd]) ks.
Proof.
  induction ks as [|[[k|] c] r IH]; [reflexivity| |]; cbn [flat_map flagged fst snd app].
  - exact IH.
  - rewrite gkids_cons, IH. reflexivity.
Qed.

Theorem matches_hist_of t x : wf_node t x = true -> matches (hist_of x) x.
Proof.
  induction x as [g p|o p m ks IH] using hog_ind'; intros Hwf; [simpl; auto|].
  assert (HM : Forall (fun kd => matches (hist_of (snd kd)) (snd kd)) ks).
  { rewrite Forall_forall in *. intros kd Hkd. apply IH; [exact Hkd|]. eapply (wf_kids t (HHog o p m ks)); eauto. }
  rewrite hist_of_hog. cbn [matches]. split; [reflexivity|].
  set (K := dup_keys ks []).
  exists (map (fun k => (Some k, members_of k ks)) K ++ flat_map (fun kd : kid => if flagged (fst kd) then [] else [(None, [snd kd])]) ks).
  split; [|split; [|split]].
  - fold (gkids (map (fun k => (Some k, members_of k ks)) K ++ flat_map (fun kd : kid => if flagged (fst kd) then [] else [(None, [snd kd])]) ks)).
    rewrite gkids_app, gkids_dups, gkids_plains. apply Permutation_sym.
    eapply Permutation_trans; [apply (regroup_by_keys (fun kd => [kd]) K ks (dup_keys_nodup ks []))|].
    + intros k c Hin. apply dup_keys_spec. split; [intros []|eauto].
    + clear. induction ks as [|kd r IH]; [constructor|]. simpl. constructor. exact IH.
  - rewrite !app_length. unfold hl_dups. rewrite !map_length. f_equal.
    unfold hl_plain. clear. induction ks as [|kd r IH]; [reflexivity|]. simpl. destruct (flagged (fst kd)); simpl; rewrite IH; reflexivity.
  - fold (gflags (map (fun k => (Some k, members_of k ks)) K ++ flat_map (fun kd : kid => if flagged (fst kd) then [] else [(None, [snd kd])]) ks)).
    rewrite gflags_app.
    assert (E1 : gflags (map (fun k => (Some k, members_of k ks)) K) = K).
    { clear. induction K as [|k K IH]; [reflexivity|]. cbn [map]. rewrite gflags_cons_some, IH. reflexivity. }
    assert (E2 : gflags (flat_map (fun kd : kid => if flagged (fst kd) then [] else [(None, [snd kd])]) ks) = []).
    { clear. induction ks as [|[[k|] c] r IH]; [reflexivity| |]; cbn [flat_map flagged fst app]; [exact IH|]. rewrite gflags_cons_none. exact IH. }
    rewrite E1, E2, app_nil_r. apply dup_keys_nodup.
  - apply (rel_app (hl_dups ks K)).
    + assert (HK : forall k, In k K -> exists c, In (Some k, c) ks).
      { intros k Hk. apply dup_keys_spec in Hk as [_ H]. exact H. }
      clearbody K. induction K as [|k K IHK]; [exact I|]. cbn [hl_dups map rel].
      destruct (HK k (or_introl eq_refl)) as [c Hc]. destruct (dup_facts t o p m ks k c Hwf Hc) as [H2 _].
      split; [|split; [apply relm_copies; exact HM|apply IHK; intros k' Hk'; apply HK; right; exact Hk']].
      rewrite <- copies_length in H2. destruct (copies_of k ks) as [|c1 [|c2 cr]]; simpl in H2; try lia. discriminate.
    + clear - HM. unfold hl_plain. induction HM as [|kd r Hkd Hr IHr]; [exact I|].
      cbn [flat_map]. destruct (flagged (fst kd)); [exact IHr|]. cbn [app rel]. split; [reflexivity|]. split; [simpl; auto|exact IHr].
Qed.

(* ---------- the history read off an aligned HOG is well formed ---------- *)
Lemma FOP_all {X} (R : X -> X -> Prop) l :
  ForallOrdPairs R l -> (forall a b, R a b -> R b a) ->
  forall i j a b, i <> j -> nth_error l i = Some a -> nth_error l j = Some b -> R a b.
Proof.
  intros H Hsym. induction H as [|x r Hx Hr IH]; intros i j a b Hij Hi Hj.
  - destruct i; discriminate.
  - destruct i as [|i], j as [|j]; simpl in Hi, Hj.
    + contradiction.
    + inversion Hi; subst. rewrite Forall_forall in Hx. apply Hx. eapply nth_error_In; eauto.
    + inversion Hj; subst. apply Hsym. rewrite Forall_forall in Hx. apply Hx. eapply nth_error_In; eauto.
    + apply (IH i j a b); auto.
Qed.

Lemma sib_flags t o p m ks a b :
  wf_node t (HHog o p m ks) = true -> In a ks -> In b ks -> htax (snd a) = htax (snd b) -> fst a = fst b.
Proof.
  intros Hwf Ha Hb E. apply wf_node_inv in Hwf as (_ & _ & _ & _ & Hs & _). apply siblings_ok_iff in Hs.
  apply In_nth_error in Ha as [i Hi]. apply In_nth_error in Hb as [j Hj].
  destruct (Nat.eq_dec i j) as [->|Hij]; [congruence|].
  destruct (FOP_all sibR ks Hs sibR_sym i j a b Hij Hi Hj E) as [_ Hf]. exact Hf.
Qed.

Lemma sib_flagged t o p m ks i j a b :
  wf_node t (HHog o p m ks) = true -> i <> j -> nth_error ks i = Some a -> nth_error ks j = Some b ->
  htax (snd a) = htax (snd b) -> flagged (fst a) = true.
Proof.
  intros Hwf Hij Hi Hj E. apply wf_node_inv in Hwf as (_ & _ & _ & _ & Hs & _). apply siblings_ok_iff in Hs.
  destruct (FOP_all sibR ks Hs sibR_sym i j a b Hij Hi Hj E) as [Hf _]. exact Hf.
Qed.

Definition plain_taxa (ks : list kid) : list taxon :=
  flat_map (fun kd : kid => if flagged (fst kd) then [] else [htax (snd kd)]) ks.

Lemma lin_tax_plains ks : map lin_tax (hl_plain ks) = plain_taxa ks.
Proof.
  unfold hl_plain, plain_taxa. induction ks as [|kd r IH]; [reflexivity|]. cbn [flat_map].
  destruct (flagged (fst kd)); [exact IH|]. cbn [app map lin_tax]. rewrite xtax_hist_of, IH. reflexivity.
Qed.

Lemma plain_taxa_in ks q : In q (plain_taxa ks) -> exists kd, In kd ks /\ flagged (fst kd) = false /\ htax (snd kd) = q.
Proof.
  unfold plain_taxa. intros H. apply in_flat_map in H as (kd & Hkd & Hin). destruct (flagged (fst kd)) eqn:E; [contradiction|].
  destruct Hin as [<-|[]]. eauto.
Qed.

Lemma plain_taxa_nodup ks : ForallOrdPairs sibR ks -> NoDup (plain_taxa ks).
Proof.
  induction 1 as [|kd r Hkd Hr IH]; [constructor|]. unfold plain_taxa in *. cbn [flat_map].
  destruct (flagged (fst kd)) eqn:E; [exact IH|]. cbn [app]. constructor; [|exact IH].
  intros Hin. apply (plain_taxa_in r) in Hin as (kd' & Hkd' & _ & Ht). rewrite Forall_forall in Hkd.
  destruct (Hkd kd' Hkd') as [Hf _]; [congruence|]. congruence.
Qed.

Theorem WFh_hist_of t genes x :
  wf_node t x = true -> (forall g p, In (HGene g p) (all_of x) -> find_gene g genes = Some p) ->
  WFh t genes (hist_of x).
Proof.
  induction x as [g p|o p m ks IH] using hog_ind'; intros Hwf Hg.
  - simpl. split; [apply Hg; left; reflexivity|exact Hwf].
  - assert (HW : Forall (fun kd => WFh t genes (hist_of (snd kd))) ks).
    { rewrite Forall_forall in *. intros kd Hkd. apply IH; [exact Hkd|eapply (wf_kids t (HHog o p m ks)); eauto|].
      intros g q Hin. apply Hg. simpl. right. apply in_flat_map. eauto. }
    pose proof Hwf as Hwf0. apply wf_node_inv in Hwf0 as (Hv & Hl & Hne & _ & Hs & _).
    rewrite hist_of_hog. set (K := dup_keys ks []).
    assert (HK : forall k, In k K -> exists c, In (Some k, c) ks).
    { intros k Hk. apply dup_keys_spec in Hk as [_ H]. exact H. }
    assert (Htk : forall k c, In (Some k, c) ks -> lin_tax (copies_of k ks) = htax c).
    { intros k c Hc. destruct (dup_facts t o p m ks k c Hwf Hc) as [H2 Hall].
      apply lin_tax_copies; [destruct (filter (is_member k) ks); [simpl in H2; lia|discriminate]|exact Hall]. }
    cbn [WFh]. split; [exact Hv|]. split; [exact Hl|]. split; [|split].
    + (* at least one lineage *)
      destruct ks as [|[[k|] c] r]; [contradiction| |].
      * assert (Hin : In k K) by (apply dup_keys_spec; split; [intros []|exists c; left; reflexivity]).
        destruct K; [contradiction|discriminate].
      * unfold hl_plain. cbn [flat_map flagged fst]. intros E. apply app_eq_nil in E as [_ E]. discriminate.
    + (* lineages at pairwise different child taxa *)
      rewrite map_app, lin_tax_plains. apply nodup_app_intro.
      * unfold hl_dups. rewrite map_map. pose proof (dup_keys_nodup ks []) as HnK. fold K in HnK.
        clearbody K. induction HnK as [|k K' Hk HnK' IHn]; [constructor|]. cbn [map]. constructor.
        -- intros Hin. apply in_map_iff in Hin as (k' & Ek' & Hk').
           destruct (HK k (or_introl eq_refl)) as [c Hc]. destruct (HK k' (or_intror Hk')) as [c' Hc'].
           rewrite (Htk k c Hc), (Htk k' c' Hc') in Ek'.
           pose proof (sib_flags t o p m ks (Some k', c') (Some k, c) Hwf Hc' Hc Ek') as Ef. simpl in Ef. inversion Ef; subst. contradiction.
        -- apply IHn. intros k' Hk'. apply HK. right. exact Hk'.
      * apply plain_taxa_nodup. apply siblings_ok_iff. exact Hs.
      * intros q Hq1 Hq2. unfold hl_dups in Hq1. rewrite map_map in Hq1. apply in_map_iff in Hq1 as (k & Ek & Hk).
        destruct (HK k Hk) as [c Hc]. rewrite (Htk k c Hc) in Ek.
        apply plain_taxa_in in Hq2 as (kd' & Hkd' & Hf' & Ht').
        pose proof (sib_flags t o p m ks (Some k, c) kd' Hwf Hc Hkd') as Ef. simpl in Ef.
        rewrite <- Ef in Hf' by congruence. discriminate.
    + (* members *)
      apply allP_Forall. apply Forall_app. split.
      * unfold hl_dups. apply Forall_forall. intros l Hl'. apply in_map_iff in Hl' as (k & <- & Hk).
        destruct (HK k Hk) as [c Hc]. destruct (dup_facts t o p m ks k c Hwf Hc) as [H2 Hall].
        split; [rewrite <- copies_length in H2; destruct (copies_of k ks); [simpl in H2; lia|discriminate]|].
        apply allP_Forall. rewrite (Htk k c Hc). unfold copies_of. apply Forall_forall. intros h Hh.
        apply in_flat_map in Hh as (kd & Hkd & Hin). destruct (is_member k kd) eqn:Em; [|contradiction]. destruct Hin as [<-|[]].
        rewrite xtax_hist_of. rewrite Forall_forall in HW, Hall.
        destruct (kid_tax t o p m ks kd Hwf Hkd) as [b Hb].
        assert (Et : htax (snd kd) = htax c) by (apply Hall; apply filter_In; auto).
        split; [apply HW; exact Hkd|]. rewrite Hb. split; [discriminate|]. split; [reflexivity|]. rewrite <- Hb. exact Et.
      * unfold hl_plain. apply Forall_forall. intros l Hl'. apply in_flat_map in Hl' as (kd & Hkd & Hin).
        destruct (flagged (fst kd)); [contradiction|]. destruct Hin as [<-|[]]. split; [discriminate|].
        apply allP_Forall. constructor; [|constructor]. rewrite xtax_hist_of. rewrite Forall_forall in HW.
        destruct (kid_tax t o p m ks kd Hwf Hkd) as [b Hb].
        split; [apply HW; exact Hkd|]. rewrite Hb. split; [discriminate|]. split; [reflexivity|]. simpl. rewrite xtax_hist_of. symmetry. exact Hb.
Qed.

(* ---------- the round trip, for one family ---------- *)
Lemma elides_false ks : elides false ks = false.
Proof. reflexivity. Qed.

Theorem export_spells_top t o p m ks :
  names_inj t -> wf_node t (HHog o p m ks) = true ->
  exists it, export_groups t (HHog o p m ks) = [it] /\ spells_top t (hist_of (HHog o p m ks)) it.
Proof.
  intros Hinj Hwf.
  assert (HQ : Forall (fun kd => Q t (snd kd)) ks).
  { apply Forall_forall. intros kd Hkd. apply export_spells; [exact Hinj|]. eapply (wf_kids t (HHog o p m ks)); eauto. }
  destruct (export_written t o p m ks Hinj Hwf HQ) as [Hb Hlab].
  unfold export_groups. rewrite export_hog. cbv zeta. rewrite elides_false.
  eexists. split; [reflexivity|]. rewrite hist_of_hog. eexists p, _, _, _, _. split; [reflexivity|]. split; [reflexivity|]. split; [exact Hb|exact Hlab].
Qed.

Theorem export_roundtrip t genes o p m ks s :
  names_inj t -> wf_node t (HHog o p m ks) = true ->
  (forall g q, In (HGene g q) (all_of (HHog o p m ks)) -> find_gene g genes = Some q) -> dups_dom s ->
  NoDup (genes_of (HHog o p m ks)) -> lfresh s (genes_of (HHog o p m ks)) ->
  let x := HHog o p m ks in
  exists it i x' s', export_groups t x = [it] /\ eval_top t genes it s = Ok ((i, x'), s') /\
    matches (hist_of x) x /\ matches (hist_of x) x' /\ htax x' = htax x /\ wf_node t x' = true.
Proof.
  intros Hinj Hwf Hg Hdom Hnd Hfr x.
  destruct (export_spells_top t o p m ks Hinj Hwf) as (it & Eit & Hsp).
  pose proof (WFh_hist_of t genes x Hwf Hg) as HW.
  pose proof (export_refs t x false) as Hperm. unfold export_groups in Eit. subst x. rewrite Eit in Hperm. cbn [flat_map] in Hperm. rewrite app_nil_r in Hperm.
  assert (Hnd' : NoDup (refs_of it)) by (eapply Permutation_NoDup; [apply Permutation_sym; exact Hperm|exact Hnd]).
  assert (Hfr' : lfresh s (refs_of it)).
  { intros g Hin. apply Hfr. eapply Permutation_in; [exact Hperm|exact Hin]. }
  destruct (spelt_top_evaluates t genes _ it s HW Hsp Hdom Hnd' Hfr') as (i & x' & s' & E & M & T & W & _).
  exists it, i, x', s'. split; [exact Eit|]. split; [exact E|]. split; [apply (matches_hist_of t); exact Hwf|].
  split; [exact M|]. split; [rewrite T; apply xtax_hist_of|exact W].
Qed.
