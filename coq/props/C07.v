(* C07 — comparisons compose along a lineage. *)
From Coq Require Import List Arith Bool String.
From PyHam Require Import Tax Ortho Loader Mapper Preds Whole.
From PyHam.proofs Require Import TaxFacts MapperFacts WholeFacts.
Import ListNotations.

(* For genomes A above B above C on one lineage (B = sA ++ A, C = sB ++ B) and a gene c of C with
   flag fc and ancestor chain ch (an entry of the enumeration of genome C, whose up-map entry for an
   ancestral genome X is  walk X fc ch):
   - if c is reported under y in B with flag f1, then y is a gene of B, and c is reported for A
     exactly as y is (same ancestor x or none), flagged iff f1 or y's own flag between A and B;
   - if c has no ancestor in B, it has none in A, with the same flag. *)
Theorem c07_compose : forall t fo A B C sA sB c fc ch,
  wfbc t fo = true -> B = sA ++ A -> sA <> [] -> C = sB ++ B -> sB <> [] ->
  In (c, fc, ch) (genome_nodes fo C) ->
  match walk B fc ch with
  | (Some y, f1) =>
      exists fy chy, In (y, fy, chy) (genome_nodes fo B) /\
                     walk A fc ch = (fst (walk A fy chy), f1 || snd (walk A fy chy))
  | (None, f1) => walk A fc ch = (None, f1)
  end.
Proof. exact compose_forest. Qed.
Print Assumptions c07_compose.

(* the up-map is this walk applied to every gene of the descendant genome *)
Theorem c07_upmap_is_walk : forall fo A D,
  upmap fo A D = map (fun x => match x with (hy, fl, ch) => (hy, walk A fl ch) end) (genome_nodes fo D).
Proof. reflexivity. Qed.
Print Assumptions c07_upmap_is_walk.

(* non-vacuity: a family with a duplication, three levels *)

(* end to end: for every consistent input the composition law holds on the loaded forest *)
Theorem c07_every_consistent_input : forall t d hs,
  consistent t d hs ->
  exists l, load t d = Ok l /\ forall A B C sA sB c fc ch,
    B = sA ++ A -> sA <> [] -> C = sB ++ B -> sB <> [] -> In (c, fc, ch) (genome_nodes (forest_of l) C) ->
    match walk B fc ch with
    | (Some y, f1) =>
        exists fy chy, In (y, fy, chy) (genome_nodes (forest_of l) B) /\
                       walk A fc ch = (fst (walk A fy chy), f1 || snd (walk A fy chy))
    | (None, f1) => walk A fc ch = (None, f1)
    end.
Proof.
  intros t d hs Hc. destruct (consistent_forest t d hs Hc) as (l & El & Hw & _). exists l. split; [exact El|].
  intros A B C sA sB c fc ch HB HsA HC HsB Hin. exact (compose_forest t (forest_of l) A B C sA sB c fc ch Hw HB HsA HC HsB Hin).
Qed.
Print Assumptions c07_every_consistent_input.

Definition m0 : hmeta := {| m_id := None; m_og := None; m_props := []; m_scores := []; m_synth := false |}.
Definition tr : stree :=
  SNode "R" [SNode "X" []; SNode "M" [SNode "E" [SNode "H" []; SNode "P" []]; SNode "C" []]].
Definition fam : hog :=
  HHog 0 [] m0 [(None, HGene "x1" [0]);
                (None, HHog 1 [1] m0 [(Some 0, HHog 2 [0; 1] m0 [(None, HGene "h1" [0; 0; 1])]);
                                      (Some 0, HHog 3 [0; 1] m0 [(None, HGene "h2" [0; 0; 1]); (None, HGene "p2" [1; 0; 1])]);
                                      (None, HGene "c1" [1; 1])])].
Definition fo0 : forest := {| fo_tops := [fam]; fo_singles := [] |}.
Example c07_nonvacuous :
  wfbc tr fo0 = true /\
  map (fun e => (href (fst e), option_map href (fst (snd e)), snd (snd e))) (upmap fo0 [] [0; 0; 1])
    = [(RGene "h1", Some (RHog 0), true); (RGene "h2", Some (RHog 0), true)] /\
  map (fun e => (href (fst e), option_map href (fst (snd e)), snd (snd e))) (upmap fo0 [1] [0; 0; 1])
    = [(RGene "h1", Some (RHog 1), true); (RGene "h2", Some (RHog 1), true)] /\
  map (fun e => (href (fst e), option_map href (fst (snd e)), snd (snd e))) (upmap fo0 [] [1])
    = [(RHog 1, Some (RHog 0), false)].
Proof. vm_compute. repeat split; reflexivity. Qed.
