(* driver.ml — text <-> extracted model values.  No logic: every decision printed here is
   computed by functions extracted from the Coq development (module Model). *)

(* ---------- s-expressions ---------- *)
type sx = A of string | L of sx list

let parse_all (s : string) : sx list =
  let n = String.length s in
  let pos = ref 0 in
  let rec skip () =
    if !pos < n then
      match s.[!pos] with
      | ' ' | '\n' | '\t' | '\r' -> incr pos; skip ()
      | _ -> () in
  let rec one () : sx =
    skip ();
    if !pos >= n then failwith "eof";
    match s.[!pos] with
    | '(' ->
        incr pos;
        let items = ref [] in
        let rec loop () =
          skip ();
          if !pos >= n then failwith "unclosed";
          if s.[!pos] = ')' then incr pos
          else (items := one () :: !items; loop ()) in
        loop ();
        L (List.rev !items)
    | '"' ->
        incr pos;
        let b = Buffer.create 16 in
        let rec loop () =
          if !pos >= n then failwith "unclosed string";
          match s.[!pos] with
          | '"' -> incr pos
          | '\\' -> Buffer.add_char b s.[!pos + 1]; pos := !pos + 2; loop ()
          | c -> Buffer.add_char b c; incr pos; loop () in
        loop ();
        A (Buffer.contents b)
    | _ ->
        let st = !pos in
        while !pos < n && (match s.[!pos] with ' ' | '\n' | '\t' | '\r' | '(' | ')' -> false | _ -> true) do incr pos done;
        A (String.sub s st (!pos - st)) in
  let res = ref [] in
  let rec top () = skip (); if !pos < n then (res := one () :: !res; top ()) in
  top ();
  List.rev !res

let buf = Buffer.create 65536
let rec out (x : sx) : unit =
  match x with
  | A s -> Buffer.add_string buf s
  | L l ->
      Buffer.add_char buf '(';
      List.iteri (fun i y -> if i > 0 then Buffer.add_char buf ' '; out y) l;
      Buffer.add_char buf ')'

let quote (s : string) : sx =
  let b = Buffer.create (String.length s + 2) in
  Buffer.add_char b '"';
  String.iter (fun c -> if c = '"' || c = '\\' then Buffer.add_char b '\\'; Buffer.add_char b c) s;
  Buffer.add_char b '"';
  A (Buffer.contents b)

(* ---------- conversions ---------- *)
open Model

let rec nat_of_int (i : int) : nat = if i <= 0 then O else S (nat_of_int (i - 1))
let rec int_of_nat (n : nat) : int = match n with O -> 0 | S m -> 1 + int_of_nat m

let ascii_of_char (c : char) : ascii =
  let k = Char.code c in
  let b i = (k lsr i) land 1 = 1 in
  Ascii (b 0, b 1, b 2, b 3, b 4, b 5, b 6, b 7)
let char_of_ascii (a : ascii) : char =
  match a with
  | Ascii (b0, b1, b2, b3, b4, b5, b6, b7) ->
      let v b i = if b then 1 lsl i else 0 in
      Char.chr (v b0 0 + v b1 1 + v b2 2 + v b3 3 + v b4 4 + v b5 5 + v b6 6 + v b7 7)
let cstr (s : Stdlib.String.t) : Model.string =
  let r = ref EmptyString in
  for i = String.length s - 1 downto 0 do r := String (ascii_of_char s.[i], !r) done;
  !r
let ostr (s : Model.string) : Stdlib.String.t =
  let b = Buffer.create 16 in
  let rec go = function EmptyString -> () | String (a, r) -> Buffer.add_char b (char_of_ascii a); go r in
  go s; Buffer.contents b

let atom = function A s -> s | L _ -> failwith "atom expected"
let lst = function L l -> l | A a -> failwith ("list expected, got " ^ a)
let int_of_sx x = int_of_string (atom x)
let nat_of_sx x = nat_of_int (int_of_sx x)
let str_of_sx x = cstr (atom x)
let opt f = function L [] -> None | L [x] -> Some (f x) | _ -> failwith "option expected"
let path_of_sx x : taxon = List.map nat_of_sx (lst x)
let bool_of_sx x = match atom x with "1" | "true" -> true | _ -> false

let rec tree_of_sx (x : sx) : stree =
  match x with
  | L (name :: kids) -> SNode (str_of_sx name, List.map tree_of_sx kids)
  | _ -> failwith "tree"

let pair_of_sx = function L [a; b] -> (str_of_sx a, str_of_sx b) | _ -> failwith "pair"

let rec item_of_sx (x : sx) : item =
  match x with
  | L [A "g"; id] -> IGene (str_of_sx id, None)
  | L [A "g"; id; loft] -> IGene (str_of_sx id, Some (str_of_sx loft))
  | L (A "og" :: id :: og :: body) -> IOG (opt str_of_sx id, opt str_of_sx og, List.map item_of_sx body)
  | L (A "pg" :: og :: body) -> IPG (opt str_of_sx og, List.map item_of_sx body)
  | L [A "prop"; n; v] -> IProp (str_of_sx n, str_of_sx v)
  | L [A "score"; n; v] -> IScore (str_of_sx n, str_of_sx v)
  | _ -> failwith "item"

let species_of_sx = function
  | L (name :: genes) ->
      { sp_name = str_of_sx name;
        sp_genes = List.map (function
            | L [A "gene"; id; L xr] -> { gd_id = str_of_sx id; gd_xrefs = List.map pair_of_sx xr }
            | _ -> failwith "gene") genes }
  | _ -> failwith "species"

let doc_of_sx = function
  | L [A "doc"; L (A "species" :: sps); L (A "groups" :: gs)] ->
      { d_species = List.map species_of_sx sps; d_groups = List.map item_of_sx gs }
  | _ -> failwith "doc"

let meta_of_sx = function
  | L [A "meta"; id; og; L props; L scores; synth] ->
      { m_id = opt str_of_sx id; m_og = opt str_of_sx og; m_props = List.map pair_of_sx props;
        m_scores = List.map pair_of_sx scores; m_synth = bool_of_sx synth }
  | _ -> failwith "meta"

let rec hog_of_sx (x : sx) : hog =
  match x with
  | L [A "G"; id; p] -> HGene (str_of_sx id, path_of_sx p)
  | L [A "H"; oid; p; meta; L kids] ->
      HHog (nat_of_sx oid, path_of_sx p, meta_of_sx meta,
            List.map (function L [fl; h] -> (opt nat_of_sx fl, hog_of_sx h) | _ -> failwith "kid") kids)
  | _ -> failwith "hog"

let forest_of_sx = function
  | L [A "forest"; L (A "tops" :: ts); L (A "singles" :: ss)] ->
      { fo_tops = List.map hog_of_sx ts; fo_singles = List.map hog_of_sx ss }
  | _ -> failwith "forest"

(* ---------- printers ---------- *)
let sx_int i = A (string_of_int i)
let sx_nat n = sx_int (int_of_nat n)
let sx_str s = quote (ostr s)
let sx_opt f = function None -> L [] | Some x -> L [f x]
let sx_path (p : taxon) = L (List.map sx_nat p)
let sx_bool b = A (if b then "1" else "0")
let sx_pair (a, b) = L [sx_str a; sx_str b]
let sx_err = function
  | KeyError -> A "KeyError" | TypeError -> A "TypeError" | ValueError -> A "ValueError"
  | IndexError -> A "IndexError" | AttributeError -> A "AttributeError" | Unmodelled -> A "Unmodelled"
let sx_ref = function RGene g -> L [A "g"; sx_str g] | RHog o -> L [A "h"; sx_nat o]
let rec sx_tree (SNode (n, ks)) = L (sx_str n :: List.map sx_tree ks)
let sx_meta m =
  L [A "meta"; sx_opt sx_str m.m_id; sx_opt sx_str m.m_og; L (List.map sx_pair m.m_props);
     L (List.map sx_pair m.m_scores); sx_bool m.m_synth]
let rec sx_hog = function
  | HGene (g, p) -> L [A "G"; sx_str g; sx_path p]
  | HHog (o, p, m, ks) ->
      L [A "H"; sx_nat o; sx_path p; sx_meta m;
         L (List.map (fun (f, h) -> L [sx_opt sx_nat f; sx_hog h]) ks)]

let sx_hmap (m : hmap) =
  L [A "hmap";
     L (A "gain" :: List.map sx_ref m.hm_gain);
     L (A "retained" :: List.map (fun (a, b) -> L [sx_ref a; sx_ref b]) m.hm_retained);
     L (A "dup" :: List.map (fun (a, bs) -> L [sx_ref a; L (List.map sx_ref bs)]) m.hm_dup);
     L (A "loss" :: List.map sx_ref m.hm_loss);
     L [A "ndup"; sx_nat m.hm_ndup]]

let sx_result f = function Ok a -> L [A "ok"; f a] | Err e -> L [A "err"; sx_err e]

let sx_feat (f : feat) =
  L [sx_nat f.ft_retained; sx_nat f.ft_dupl; sx_nat f.ft_gain; sx_nat f.ft_lost;
     sx_nat f.ft_duplication; sx_nat f.ft_events]
let sx_hfeat (f : hfeat) =
  L [sx_nat f.hf_retained; sx_nat f.hf_dupl; sx_nat f.hf_lost; sx_nat f.hf_duplication; sx_nat f.hf_events]

let rec sx_item = function
  | IGene (g, l) -> L ([A "g"; sx_str g] @ (match l with Some x -> [sx_str x] | None -> []))
  | IOG (i, o, b) -> L (A "og" :: sx_opt sx_str i :: sx_opt sx_str o :: List.map sx_item b)
  | IPG (o, b) -> L (A "pg" :: sx_opt sx_str o :: List.map sx_item b)
  | IProp (n, v) -> L [A "prop"; sx_str n; sx_str v]
  | IScore (n, v) -> L [A "score"; sx_str n; sx_str v]
let sx_doc (d : doc) =
  L [A "doc";
     L (A "species" :: List.map (fun sp ->
         L (sx_str sp.sp_name :: List.map (fun g -> L [A "gene"; sx_str g.gd_id; L (List.map sx_pair g.gd_xrefs)]) sp.sp_genes))
         d.d_species);
     L (A "groups" :: List.map sx_item d.d_groups)]

let rec hist_of_sx (x : sx) : hist =
  match x with
  | L [A "G"; g; p] -> XG (str_of_sx g, path_of_sx p)
  | L [A "H"; p; L lins] -> XH0 (path_of_sx p, List.map (fun l -> List.map hist_of_sx (lst l)) lins)
  | _ -> failwith "hist"

(* ---------- requests ---------- *)
let find_hog (fo : forest) (oid : int) : hog option =
  let all = List.concat_map all_of (fo_roots fo) in
  List.find_opt (function HHog (o, _, _, _) -> int_of_nat o = oid | _ -> false) all

let ref_of_sx = function
  | L [A "g"; g] -> RGene (str_of_sx g)
  | L [A "h"; o] -> RHog (nat_of_sx o)
  | _ -> failwith "ref"

let do_load ?(oma = false) (use_internal : bool) (t : stree) (d : doc) (flt : pfilter option) : sx =
  match build_taxonomy use_internal t with
  | Err e -> L [A "taxerr"; sx_err e]
  | Ok t' ->
      match (match flt with None -> if oma then load_oma t' d else load t' d | Some f -> load_filtered t' f d) with
      | Err e -> L [A "err"; sx_err e; L [A "tree"; sx_tree t']]
      | Ok l ->
          let s = l.l_state in
          L [A "ok";
             L [A "tree"; sx_tree t'];
             L (A "genes" :: List.map (fun (g, p) -> L [sx_str g; sx_path p]) l.l_genes);
             L (A "tops" :: List.map (fun (i, h) -> L [sx_opt sx_str i; sx_hog h]) l.l_tops);
             L (A "genomes" :: List.map sx_path s.s_genomes);
             L (A "regs" :: List.map (fun (p, r) -> L [sx_path p; sx_ref r]) s.s_regs);
             L (A "dups" :: List.map (fun (k, d) ->
                 L [sx_nat k; sx_opt sx_str d.di_og; sx_opt sx_path d.di_mrca; sx_opt sx_nat d.di_parent]) s.s_dups);
             L (A "lofts" :: List.map sx_pair s.s_lofts)]

let do_cmd (t : stree) (fo : forest) (c : sx) : sx =
  match c with
  | L [A "vertical"; p1; p2] ->
      sx_result (fun ((a, d), m) -> L [sx_path a; sx_path d; sx_hmap m]) (vertical fo (path_of_sx p1) (path_of_sx p2))
  | L [A "hogmap"; a; d] -> sx_hmap (hogmap fo (path_of_sx a) (path_of_sx d))
  | L [A "upmap"; a; d] ->
      L (List.map (fun (hy, (ho, f)) -> L [sx_ref (href hy); sx_opt (fun h -> sx_ref (href h)) ho; sx_bool f])
           (upmap fo (path_of_sx a) (path_of_sx d)))
  | L [A "lateral"; p1; p2] ->
      let (a, ms) = lateral fo (path_of_sx p1) (path_of_sx p2) in
      L [sx_path a;
         L (List.map (fun (g, m) -> L [sx_path g; sx_hmap m]) ms);
         L (A "loss" :: List.map (fun (r, g) -> L [sx_ref r; sx_path g]) (lat_loss ms));
         L (A "gain" :: List.map (fun (g, rs) -> L [sx_path g; L (List.map sx_ref rs)]) (lat_gain ms));
         L (A "retained" :: List.map (fun ((r, g), y) -> L [sx_ref r; sx_path g; sx_ref y]) (lat_retained ms));
         L (A "dup" :: List.map (fun ((r, g), ys) -> L [sx_ref r; sx_path g; L (List.map sx_ref ys)]) (lat_dup ms))]
  | L [A "profile_full"] ->
      sx_result (fun ns -> L (List.map (fun ((p, n), f) -> L [sx_path p; sx_nat n; sx_opt sx_feat f]) ns))
        (profile_full t fo)
  | L [A "profile_hog"; oid] ->
      (match find_hog fo (int_of_sx oid) with
       | None -> A "nohog"
       | Some h ->
           sx_opt (fun ns -> L (List.map (fun ((p, n), f) -> L [sx_path p; sx_nat n; sx_opt sx_hfeat f]) ns))
             (profile_hog t h))
  | L [A "nav"; oid] ->
      (match find_hog fo (int_of_sx oid) with
       | None -> A "nohog"
       | Some h ->
           L [L (List.map sx_ref (desc_genes h));
              L (List.map (fun (p, gs) -> L [sx_path p; L (List.map sx_str gs)]) (genes_by_species h));
              L (List.map sx_ref (desc_hogs h));
              L (List.map sx_path (desc_levels h))])
  | L [A "top_of"; r] -> sx_opt (fun h -> sx_ref (href h)) (top_level_of fo (ref_of_sx r))
  | L [A "at_level"; r; p] -> sx_result (fun rs -> L (List.map sx_ref rs)) (get_at_level fo (ref_of_sx r) (path_of_sx p))
  | L [A "clustering"; p] ->
      L (List.map (fun (r, gs) -> L [sx_ref r; L (List.map sx_str gs)]) (ancestral_clustering fo (path_of_sx p)))
  | L [A "genome_refs"; p] -> L (List.map sx_ref (genome_refs fo (path_of_sx p)))
  | L [A "wf"] -> sx_bool (wfb t fo)
  | L [A "export"; oid; L prot] ->
      (match find_hog fo (int_of_sx oid) with
       | None -> A "nohog"
       | Some h ->
           let tbl = List.map pair_of_sx prot in
           let protid g = (match List.find_opt (fun (k, _) -> ostr k = ostr g) tbl with Some (_, v) -> v | None -> cstr "None") in
           sx_doc (export_doc t protid h))
  | L [A "page"; oid; L prot] ->
      (match find_hog fo (int_of_sx oid) with
       | None -> A "nohog"
       | Some h ->
           let tbl = List.map pair_of_sx prot in
           let protid g = (match List.find_opt (fun (k, _) -> ostr k = ostr g) tbl with Some (_, v) -> v | None -> cstr "None") in
           sx_result (fun pg -> L [sx_tree pg.pg_tree; sx_doc pg.pg_doc;
                                   L (List.map (fun r -> L [sx_str r.fr_species; sx_str r.fr_protid; sx_str r.fr_id]) pg.pg_fam)])
             (iham_page t protid h))
  | _ -> A "badcmd"

let handle (x : sx) : sx =
  match x with
  | L [A "load"; ui; t; d] -> do_load (bool_of_sx ui) (tree_of_sx t) (doc_of_sx d) None
  | L [A "load_oma"; ui; t; d] -> do_load ~oma:true (bool_of_sx ui) (tree_of_sx t) (doc_of_sx d) None
  | L [A "loadf"; ui; t; d; L [A "filter"; L hs; L es; L is]] ->
      do_load (bool_of_sx ui) (tree_of_sx t) (doc_of_sx d)
        (Some { pf_hogs = List.map str_of_sx hs; pf_ext = List.map str_of_sx es; pf_int = List.map str_of_sx is })
  | L (A "analyze" :: t :: fo :: cmds) ->
      let t = tree_of_sx t and fo = forest_of_sx fo in
      L (A "results" :: List.map (do_cmd t fo) cmds)
  | L [A "taxonomy"; ui; t] ->
      (match build_taxonomy (bool_of_sx ui) (tree_of_sx t) with
       | Err e -> L [A "err"; sx_err e]
       | Ok t' ->
           L [A "ok"; sx_tree t'; sx_str (write8 t');
              L (List.map (fun (p, d) -> L [sx_path p; sx_nat d]) (annot_depth O [] t'))])
  | L [A "lookups"; t; d; L (A "ext" :: ks); L (A "names" :: ns)] ->
      let t = tree_of_sx t and d = doc_of_sx d in
      L [L (List.map (fun k -> sx_result (fun gs -> L (List.map sx_str gs)) (get_genes_by_external_id d (str_of_sx k))) ks);
         L (List.map (fun n -> sx_result sx_path (get_taxon_by_name t (str_of_sx n))) ns)]
  | L [A "session"; t; fo; L (A "genomes" :: gs); L (A "ops" :: ops)] ->
      let t = tree_of_sx t and fo = forest_of_sx fo in
      let op_of = function
        | L [A "vertical"; a; b] -> OVertical (path_of_sx a, path_of_sx b)
        | L [A "lateral"; a; b] -> OLateral (path_of_sx a, path_of_sx b)
        | L [A "profile_full"] -> OProfileFull
        | L [A "clustering"; p] -> OClustering (path_of_sx p)
        | L [A "iham"; o] -> OIham (nat_of_sx o)
        | L [A "profile_hog"; o] -> OProfileHog (nat_of_sx o)
        | L [A "nav"; o] -> ONav (nat_of_sx o)
        | L [A "at_level"; r; p] -> OAtLevel (ref_of_sx r, path_of_sx p)
        | _ -> failwith "op" in
      let s = srun t fo (List.map op_of ops) (sinit (List.map path_of_sx gs)) in
      L [L (A "genomes" :: List.map sx_path s.ss_genomes); L [A "maps"; sx_int (List.length s.ss_maps)];
         L (A "extant" :: List.map sx_path (extant_listing t s)); L (A "ancestral" :: List.map sx_path (ancestral_listing t s));
         L (A "byname" :: List.map (fun (_, n) -> L [sx_str (sname n); sx_result sx_path (s_anc_by_name t s (sname n));
                                                      sx_result sx_path (s_ext_by_name t s (sname n))]) (all_nodes t))]
  | L [A "consistent"; ui; t; d; L hs] ->
      (match build_taxonomy (bool_of_sx ui) (tree_of_sx t) with
       | Err e -> L [A "taxerr"; sx_err e]
       | Ok t' -> L [A "ok"; sx_bool (consistentb t' (doc_of_sx d) (List.map hist_of_sx hs))])
  | L [A "path_up"; lo; an] -> L (List.map sx_path (path_up (path_of_sx lo) (path_of_sx an)))
  | _ -> A "badrequest"

let () =
  let ic = if Array.length Sys.argv > 1 then open_in_bin Sys.argv.(1) else stdin in
  let b = Buffer.create 65536 in
  (try while true do Buffer.add_channel b ic 1 done with End_of_file -> ());
  let s = Buffer.contents b in
  let reqs = parse_all s in
  List.iter (fun r ->
      Buffer.clear buf;
      (try out (handle r) with
       | Failure m -> Buffer.clear buf; out (L [A "driver_error"; quote m])
       | Stack_overflow -> Buffer.clear buf; out (A "stack_overflow"));
      print_string (Buffer.contents buf); print_newline ()) reqs
