(* ClusterFacts.v — HOGsMap._build_event_clusters (dict semantics) as a partition. *)
From Coq Require Import List Arith Bool String Lia Permutation.
From PyHam Require Import Tax Ortho Mapper Preds.
From PyHam.proofs Require Import TaxFacts MapperFacts.
Import ListNotations.

Definition entry := (hog * (option hog * bool))%type.

Definition gainS (e : entry) : list ref := match e with (hy, (None, _)) => [href hy] | _ => [] end.
Definition retS (e : entry) : list ref := match e with (hy, (Some _, false)) => [href hy] | _ => [] end.
Definition retK (e : entry) : list ref := match e with (_, (Some ho, false)) => [href ho] | _ => [] end.
Definition dupS (e : entry) : list ref := match e with (hy, (Some _, true)) => [href hy] | _ => [] end.
Definition dupK (e : entry) : list ref := match e with (_, (Some ho, true)) => [href ho] | _ => [] end.

Definition retP (e : entry) : list (ref * ref) := match e with (hy, (Some ho, false)) => [(href ho, href hy)] | _ => [] end.
Definition dupP (e : entry) : list (ref * ref) := match e with (hy, (Some ho, true)) => [(href ho, href hy)] | _ => [] end.
(* the (ancestor, copy) pairs of a DUPLICATE dictionary *)
Definition dpairs (d : list (ref * list ref)) : list (ref * ref) :=
  flat_map (fun e => map (pair (fst e)) (snd e)) d.

Definition keys {V} (d : list (ref * V)) : list ref := map fst d.

Lemma ref_eqb_eq a b : ref_eqb a b = true <-> a = b.
Proof.
  destruct a as [x|x], b as [y|y]; simpl; split; intros H; try discriminate; try congruence.
  - apply String.eqb_eq in H. now subst.
  - inversion H. apply String.eqb_refl.
  - apply Nat.eqb_eq in H. now subst.
  - inversion H. apply Nat.eqb_refl.
Qed.

Lemma ref_eqb_false a b : ref_eqb a b = false <-> a <> b.
Proof.
  split.
  - intros H E. apply ref_eqb_eq in E. congruence.
  - intros H. destruct (ref_eqb a b) eqn:E; auto. apply ref_eqb_eq in E. contradiction.
Qed.

(* ---------- dict_set ---------- *)
Lemma dict_set_fresh k v d : ~ In k (keys d) -> dict_set k v d = d ++ [(k, v)].
Proof.
  induction d as [|[k' v'] r IH]; intros Hn; simpl; [reflexivity|].
  assert (E : ref_eqb k k' = false).
  { apply ref_eqb_false. intros ->. apply Hn. left. reflexivity. }
  rewrite E. f_equal. apply IH. intros H. apply Hn. right. exact H.
Qed.

(* ---------- dict_append ---------- *)
Lemma dict_append_values k v d :
  Permutation (List.concat (map snd (dict_append k v d))) (v :: List.concat (map snd d)).
Proof.
  induction d as [|[k' vs] r IH]; simpl; [apply Permutation_refl|].
  destruct (ref_eqb k k').
  - simpl. rewrite <- app_assoc. simpl.
    apply Permutation_sym. apply Permutation_middle.
  - simpl. rewrite IH. apply Permutation_sym. apply (Permutation_middle vs (List.concat (map snd r)) v).
Qed.

Lemma dict_append_pairs k v d : Permutation (dpairs (dict_append k v d)) ((k, v) :: dpairs d).
Proof.
  induction d as [|[k' vs] r IH]; simpl; [apply Permutation_refl|].
  destruct (ref_eqb k k') eqn:E.
  - apply ref_eqb_eq in E. subst k'. unfold dpairs. simpl. rewrite map_app. simpl. rewrite <- app_assoc. simpl.
    apply Permutation_sym. apply Permutation_middle.
  - unfold dpairs in *. simpl. rewrite IH. apply Permutation_sym.
    apply (Permutation_middle (map (pair k') vs) _ (k, v)).
Qed.

Lemma dict_append_keys k v d :
  keys (dict_append k v d) = if existsb (ref_eqb k) (keys d) then keys d else keys d ++ [k].
Proof.
  induction d as [|[k' vs] r IH]; simpl; [reflexivity|].
  destruct (ref_eqb k k') eqn:E; simpl; [reflexivity|].
  unfold keys in *. rewrite IH. destruct (existsb (ref_eqb k) (map fst r)); reflexivity.
Qed.

Lemma existsb_ref_in k l : existsb (ref_eqb k) l = true <-> In k l.
Proof.
  rewrite existsb_exists. split.
  - intros (x & Hx & E). apply ref_eqb_eq in E. now subst.
  - intros H. exists k. split; auto. now apply ref_eqb_eq.
Qed.

Lemma dict_append_keys_in k v d a : In a (keys (dict_append k v d)) <-> In a (keys d) \/ a = k.
Proof.
  rewrite dict_append_keys. destruct (existsb (ref_eqb k) (keys d)) eqn:E.
  - apply existsb_ref_in in E. split; [auto|]. intros [H| ->]; auto.
  - rewrite in_app_iff. simpl. split; intros [H|H]; auto. destruct H; auto. contradiction.
Qed.


Lemma NoDup_snoc {X} (l : list X) x : NoDup l -> ~ In x l -> NoDup (l ++ [x]).
Proof.
  intros Hl Hx. induction Hl as [|y l Hy Hl IH]; simpl.
  - constructor; auto. constructor.
  - constructor.
    + rewrite in_app_iff. intros [H|[H|[]]]; [contradiction|]. subst. apply Hx. left. reflexivity.
    + apply IH. intros H. apply Hx. right. exact H.
Qed.

Lemma dict_append_keys_nodup k v d : NoDup (keys d) -> NoDup (keys (dict_append k v d)).
Proof.
  intros H. rewrite dict_append_keys. destruct (existsb (ref_eqb k) (keys d)) eqn:E; auto.
  apply NoDup_snoc; auto. intros Hin. apply existsb_ref_in in Hin. congruence.
Qed.

(* ---------- the fold ---------- *)
Definition cstep (acc : list ref * list (ref * ref) * list (ref * list ref) * list ref) (e : entry) :=
  match acc, e with
  | (g, rt, du, comp), (hy, (None, _)) => (g ++ [href hy], rt, du, comp)
  | (g, rt, du, comp), (hy, (Some ho, true)) => (g, rt, dict_append (href ho) (href hy) du, href ho :: comp)
  | (g, rt, du, comp), (hy, (Some ho, false)) => (g, dict_set (href ho) (href hy) rt, du, href ho :: comp)
  end.

Lemma clusters_unfold anc_genes um :
  clusters anc_genes um =
  match fold_left cstep um ([], [], [], []) with
  | (g, rt, du, comp) =>
      {| hm_gain := g; hm_retained := rt; hm_dup := du;
         hm_loss := filter (fun r => negb (mem_ref r comp)) anc_genes;
         hm_ndup := fold_left (fun n e => n + (List.length (snd e) - 1)) du 0 |}
  end.
Proof. reflexivity. Qed.

Lemma fold_cstep R : forall g rt du comp,
  NoDup (keys rt ++ flat_map retK R) -> NoDup (keys du) ->
  match fold_left cstep R (g, rt, du, comp) with
  | (g', rt', du', comp') =>
      g' = g ++ flat_map gainS R /\
      rt' = rt ++ flat_map retP R /\
      Permutation (dpairs du') (dpairs du ++ flat_map dupP R) /\
      map snd rt' = map snd rt ++ flat_map retS R /\
      keys rt' = keys rt ++ flat_map retK R /\
      Permutation (List.concat (map snd du')) (List.concat (map snd du) ++ flat_map dupS R) /\
      NoDup (keys du') /\
      (forall a, In a (keys du') <-> In a (keys du) \/ In a (flat_map dupK R)) /\
      (forall a, In a comp' <-> In a comp \/ In a (flat_map retK R) \/ In a (flat_map dupK R))
  end.
Proof.
  induction R as [|[hy [[ho|] f]] R IH]; intros g rt du comp Hrt Hdu.
  - simpl. rewrite !app_nil_r. repeat split; auto; try (intros; tauto).
  - destruct f.
    + (* duplicated *)
      cbn [fold_left cstep]. simpl flat_map in Hrt.
      specialize (IH g rt (dict_append (href ho) (href hy) du) (href ho :: comp) Hrt (dict_append_keys_nodup _ _ _ Hdu)).
      destruct (fold_left cstep R _) as [[[g' rt'] du'] comp'].
      destruct IH as (H1 & Hp & Hq & H2 & H3 & H4 & H5 & H6 & H7). simpl flat_map.
      split; [exact H1|]. split; [exact Hp|]. split; [|split; [exact H2|split; [exact H3|split; [|split; [exact H5|split]]]]].
      * rewrite Hq. rewrite dict_append_pairs. simpl. apply Permutation_middle.
      * rewrite H4. rewrite dict_append_values. simpl. apply Permutation_middle.
      * intros a. rewrite H6, dict_append_keys_in. simpl. intuition congruence.
      * intros a. rewrite H7. simpl. intuition congruence.
    + (* retained *)
      cbn [fold_left cstep]. simpl flat_map in Hrt.
      assert (Hfresh : ~ In (href ho) (keys rt)).
      { intros Hin. apply NoDup_remove_2 in Hrt. apply Hrt. apply in_or_app. left. exact Hin. }
      rewrite (dict_set_fresh _ _ _ Hfresh).
      assert (Hrt' : NoDup (keys (rt ++ [(href ho, href hy)]) ++ flat_map retK R)).
      { unfold keys. rewrite map_app. simpl. rewrite <- app_assoc. exact Hrt. }
      specialize (IH g (rt ++ [(href ho, href hy)]) du (href ho :: comp) Hrt' Hdu).
      destruct (fold_left cstep R _) as [[[g' rt'] du'] comp'].
      destruct IH as (H1 & Hp & Hq & H2 & H3 & H4 & H5 & H6 & H7). simpl flat_map.
      split; [exact H1|]. split; [|split; [exact Hq|split; [|split; [|split; [exact H4|split; [exact H5|split; [exact H6|]]]]]]].
      * rewrite Hp, <- app_assoc. reflexivity.
      * rewrite H2, map_app, <- app_assoc. reflexivity.
      * rewrite H3. unfold keys. rewrite map_app, <- app_assoc. reflexivity.
      * intros a. rewrite H7. simpl. intuition congruence.
  - (* gain *)
    cbn [fold_left cstep]. simpl flat_map in Hrt.
    specialize (IH (g ++ [href hy]) rt du comp Hrt Hdu).
    destruct (fold_left cstep R _) as [[[g' rt'] du'] comp'].
    destruct IH as (H1 & Hp & Hq & H2 & H3 & H4 & H5 & H6 & H7). simpl flat_map.
    split; [|repeat split; auto; try apply H6; try apply H7].
    rewrite H1, <- app_assoc. reflexivity.
Qed.

Lemma dict_append_nonempty k v d : Forall (fun e : ref * list ref => snd e <> []) d ->
  Forall (fun e : ref * list ref => snd e <> []) (dict_append k v d).
Proof.
  induction 1 as [|[k' vs] r Hk Hr IH]; simpl.
  - constructor; [discriminate|constructor].
  - destruct (ref_eqb k k'); constructor; auto. simpl. destruct vs; discriminate.
Qed.

Lemma fold_cstep_nonempty R : forall g rt du comp,
  Forall (fun e : ref * list ref => snd e <> []) du ->
  match fold_left cstep R (g, rt, du, comp) with
  | (_, _, du', _) => Forall (fun e : ref * list ref => snd e <> []) du'
  end.
Proof.
  induction R as [|[hy [[ho|] f]] R IH]; intros g rt du comp H; simpl; [exact H|..].
  - destruct f; apply IH; auto. apply dict_append_nonempty. exact H.
  - apply IH. exact H.
Qed.

Lemma sum_minus_one (du : list (ref * list ref)) :
  Forall (fun e => snd e <> []) du ->
  list_sum (map (fun e => List.length (snd e)) du) =
  list_sum (map (fun e => List.length (snd e) - 1) du) + List.length du.
Proof.
  induction 1 as [|[k vs] r Hk Hr IH]; simpl; [reflexivity|].
  simpl in Hk. destruct vs; [contradiction|]. simpl. lia.
Qed.

(* every entry goes to exactly one of the three descendant-side clusters *)
Lemma entries_partition (R : list entry) :
  Permutation (map (fun e => href (fst e)) R) (flat_map gainS R ++ flat_map retS R ++ flat_map dupS R).
Proof.
  induction R as [|[hy [[ho|] f]] R IH]; simpl; [constructor|..].
  - destruct f; simpl.
    + rewrite IH. rewrite !app_assoc. apply Permutation_middle.
    + rewrite IH. apply Permutation_middle.
  - constructor. exact IH.
Qed.

Lemma ndup_sum du : forall n,
  fold_left (fun n (e : ref * list ref) => n + (List.length (snd e) - 1)) du n =
  n + list_sum (map (fun e => List.length (snd e) - 1) du).
Proof.
  induction du as [|e r IH]; intros n; simpl; [lia|]. rewrite IH. lia.
Qed.

(* the ancestor side: lost = not computed; a NoDup list splits into a NoDup sublist and the rest *)
Lemma nodup_app_intro {X} (a b : list X) :
  NoDup a -> NoDup b -> (forall x, In x a -> ~ In x b) -> NoDup (a ++ b).
Proof.
  intros Ha Hb Hd. induction Ha as [|x a Hx Ha IH]; simpl; [exact Hb|].
  constructor.
  - rewrite in_app_iff. intros [H|H]; [contradiction|]. apply (Hd x); [left; reflexivity|exact H].
  - apply IH. intros y Hy. apply Hd. right. exact Hy.
Qed.

Lemma nodup_filter {X} (p : X -> bool) (l : list X) : NoDup l -> NoDup (filter p l).
Proof.
  induction 1 as [|x l Hx Hl IH]; simpl; [constructor|].
  destruct (p x); auto. constructor; auto. intros H. apply filter_In in H as [H _]. contradiction.
Qed.

Lemma mem_ref_in r l : mem_ref r l = true <-> In r l.
Proof. apply existsb_ref_in. Qed.

Lemma split_by_membership (L K : list ref) :
  NoDup L -> NoDup K -> (forall a, In a K -> In a L) ->
  Permutation L (filter (fun r => negb (mem_ref r K)) L ++ K).
Proof.
  intros HL HK Hsub. apply NoDup_Permutation; auto.
  - apply nodup_app_intro; auto.
    + apply nodup_filter. exact HL.
    + intros x Hx Hk. apply filter_In in Hx as [_ Hx]. apply negb_true_iff in Hx.
      apply mem_ref_in in Hk. congruence.
  - intros x. rewrite in_app_iff, filter_In. split.
    + intros Hx. destruct (mem_ref x K) eqn:E.
      * right. now apply mem_ref_in.
      * left. split; auto.
    + intros [[Hx _]|Hx]; auto.
Qed.
