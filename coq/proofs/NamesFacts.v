(* NamesFacts.v — what an accepted taxonomy guarantees about names: leaf names pairwise different, internal names
   pairwise different (Taxonomy._check_consistency_names), stated on nodes (paths) rather than on name lists. *)
From Coq Require Import List Arith Bool String Lia.
From PyHam Require Import Tax Ortho Loader Export Session.
From PyHam.proofs Require Import TaxFacts NewickFacts SessionFacts.
Import ListNotations.

Definition nm (pn : taxon * stree) : string := sname (snd pn).
Definition lf (pn : taxon * stree) : bool := sleaf (snd pn).

Lemma leaf_names_unfold n ks : leaf_names (SNode n ks) = match ks with [] => [n] | _ => flat_map leaf_names ks end.
Proof. destruct ks; reflexivity. Qed.

Lemma internal_names_unfold n ks :
  internal_names (SNode n ks) = match ks with [] => [] | _ => n :: flat_map internal_names ks end.
Proof. destruct ks; reflexivity. Qed.

Lemma leaf_names_nodes t : forall p, leaf_names t = map nm (filter lf (nodes p t)).
Proof.
  induction t as [n ks IH] using stree_ind'. intros p. rewrite nodes_unfold, leaf_names_unfold.
  assert (Hl : forall k, flat_map leaf_names ks = map nm (filter lf (nodes_list k p ks))).
  { clear - IH. induction ks as [|c r IHr]; intros k; [reflexivity|]. inversion IH as [|? ? Hc Hr]; subst.
    cbn [flat_map nodes_list]. rewrite filter_app, map_app, <- (Hc (k :: p)), <- (IHr Hr (S k)). reflexivity. }
  destruct ks as [|c r]; [reflexivity|]. cbn [filter]. unfold lf at 1. cbn [snd sleaf skids]. apply Hl.
Qed.

Lemma internal_names_nodes t : forall p, internal_names t = map nm (filter (fun pn => negb (lf pn)) (nodes p t)).
Proof.
  induction t as [n ks IH] using stree_ind'. intros p. rewrite nodes_unfold, internal_names_unfold.
  assert (Hl : forall k, flat_map internal_names ks = map nm (filter (fun pn => negb (lf pn)) (nodes_list k p ks))).
  { clear - IH. induction ks as [|c r IHr]; intros k; [reflexivity|]. inversion IH as [|? ? Hc Hr]; subst.
    cbn [flat_map nodes_list]. rewrite filter_app, map_app, <- (Hc (k :: p)), <- (IHr Hr (S k)). reflexivity. }
  destruct ks as [|c r]; [reflexivity|]. cbn [filter]. unfold lf at 1. cbn [snd sleaf skids negb map]. unfold nm at 1. cbn [snd sname].
  f_equal. apply Hl.
Qed.

Lemma NoDup_map_inj {A B} (f : A -> B) l a b : NoDup (map f l) -> In a l -> In b l -> f a = f b -> a = b.
Proof.
  induction l as [|x r IH]; intros Hnd Ha Hb E; [contradiction|]. cbn [map] in Hnd. inversion Hnd as [|? ? Hx Hr]; subst.
  destruct Ha as [<-|Ha], Hb as [<-|Hb]; auto.
  - exfalso. apply Hx. rewrite E. apply in_map. exact Hb.
  - exfalso. apply Hx. rewrite <- E. apply in_map. exact Ha.
Qed.

Lemma valid_node t p : valid t p = true -> exists s, In (p, s) (all_nodes t) /\ sub t p = Some s.
Proof.
  unfold valid. destruct (sub t p) as [s|] eqn:Es; [|discriminate]. intros _. exists s. split; [|reflexivity].
  apply nodes_spec. exists (rev p). rewrite rev_involutive, app_nil_r. split; [reflexivity|exact Es].
Qed.

(* the taxonomies build_taxonomy accepts *)
Theorem accepted_names_inj t : NoDup (leaf_names t) -> NoDup (internal_names t) -> kind_names_inj t.
Proof.
  intros Hl Hi p q Hp Hq Ek En.
  destruct (valid_node t p Hp) as (sp & Inp & Esp), (valid_node t q Hq) as (sq & Inq & Esq).
  unfold is_leaf in Ek. rewrite Esp, Esq in Ek. unfold tax_name, name_of in En. rewrite Esp, Esq in En. cbn in En.
  assert (E : (p, sp) = (q, sq)); [|congruence].
  destruct (sleaf sp) eqn:Lp.
  - rewrite (leaf_names_nodes t []) in Hl. apply (NoDup_map_inj nm (filter lf (all_nodes t))); auto;
      apply filter_In; split; auto; unfold lf; cbn; congruence.
  - rewrite (internal_names_nodes t []) in Hi. apply (NoDup_map_inj nm (filter (fun pn => negb (lf pn)) (all_nodes t))); auto;
      apply filter_In; split; auto; unfold lf; cbn; try rewrite <- Ek; try rewrite Lp; reflexivity.
Qed.

Theorem built_names_inj ui t t' : build_taxonomy ui t = Ok t' -> kind_names_inj t'.
Proof. intros H. apply build_taxonomy_ok in H as (_ & H1 & H2). apply accepted_names_inj; assumption. Qed.

(* with finding F12 repaired an accepted taxonomy has no name on two nodes at all *)
Lemma name_of_valid t p n : name_of t p = Some n -> valid t p = true /\ tax_name t p = n.
Proof.
  unfold name_of, valid, tax_name, name_of. destruct (sub t p) as [s|]; cbn; [|discriminate].
  intros H. inversion H. auto.
Qed.

Theorem all_names_inj t :
  NoDup (leaf_names t) -> NoDup (internal_names t) -> no_shared_name t ->
  forall p q n, name_of t p = Some n -> name_of t q = Some n -> p = q.
Proof.
  intros Hl Hi Hs p q n Hp Hq.
  apply name_of_valid in Hp as (Vp & Np), Hq as (Vq & Nq).
  destruct (Bool.bool_dec (is_leaf t p) (is_leaf t q)) as [Ek|Ek].
  - apply (accepted_names_inj t Hl Hi p q Vp Vq Ek). congruence.
  - exfalso.
    assert (W : forall a b, valid t a = true -> valid t b = true -> is_leaf t a = true -> is_leaf t b = false ->
                tax_name t a = tax_name t b -> False).
    { intros a b Va Vb La Lb En.
      destruct (valid_node t a Va) as (sa & Ina & Esa), (valid_node t b Vb) as (sb & Inb & Esb).
      unfold is_leaf in La, Lb. rewrite Esa in La. rewrite Esb in Lb.
      unfold tax_name, name_of in En. rewrite Esa, Esb in En. cbn in En.
      apply (Hs (sname sb)).
      - rewrite (internal_names_nodes t []). apply in_map_iff. exists (b, sb). split; [reflexivity|].
        apply filter_In. split; [exact Inb|]. unfold lf. cbn. rewrite Lb. reflexivity.
      - rewrite <- En. rewrite (leaf_names_nodes t []). apply in_map_iff. exists (a, sa). split; [reflexivity|].
        apply filter_In. split; [exact Ina|]. unfold lf. cbn. exact La. }
    destruct (is_leaf t p) eqn:Lp, (is_leaf t q) eqn:Lq; try congruence.
    + apply (W p q); auto. congruence.
    + apply (W q p); auto. congruence.
Qed.

Theorem built_all_names_inj ui t t' :
  build_taxonomy ui t = Ok t' -> forall p q n, name_of t' p = Some n -> name_of t' q = Some n -> p = q.
Proof.
  intros H. pose proof (build_taxonomy_no_shared ui t t' H) as Hs. apply build_taxonomy_ok in H as (_ & H1 & H2).
  apply all_names_inj; assumption.
Qed.
