(* SpellCheckFacts.v — soundness of the executable consistency check: consistentb t d hs = true implies
   WholeFacts.consistent t d hs (and therefore every theorem about consistent inputs). *)
From Coq Require Import List Arith Bool String Lia Permutation.
From PyHam Require Import Tax Ortho Loader Mapper Preds Filter Hist Spell Whole SpellCheck.
From PyHam.proofs Require Import TaxFacts MapperFacts ForestFacts ClusterFacts PartitionFacts LoaderFacts ExplicitFacts
  SpellFacts WholeFacts FilterSpellFacts.
Import ListNotations.
Local Open Scope string_scope.
Local Open Scope list_scope.

Lemma is_annotb_ok it : is_annotb it = true -> is_annot it.
Proof. destruct it; simpl; intros H; try discriminate; exact I. Qed.

Lemma opt_tax_eqb_eq a b : opt_tax_eqb a b = true -> a = b.
Proof. destruct a, b; simpl; intros H; try discriminate; [apply taxon_eqb_eq in H; now subst|reflexivity]. Qed.

Lemma label_okb_ok t lins body : label_okb t lins body = true -> label_ok t lins body.
Proof.
  unfold label_okb, label_ok. destruct (assoc_last "TaxRange" (flat_map item_props body)) as [v|]; [|auto].
  intros H l -> Hn. rewrite Hn in H. apply negb_true_iff in H. rewrite String.eqb_refl in H. discriminate.
Qed.

Lemma levels_okb_ok X lvls : levels_okb X lvls = true -> levels_ok X lvls.
Proof.
  unfold levels_okb, levels_ok. intros H. apply orb_true_iff in H as [H|H].
  - left. apply Forall_forall. intros l Hl. rewrite forallb_forall in H. specialize (H l Hl). now apply taxon_eqb_eq in H.
  - right. destruct (dedup_tax lvls) as [|x [|y r']]; try discriminate. exists x, (y :: r'). split; [reflexivity|]. split; [discriminate|].
    now apply taxon_eqb_eq in H.
Qed.

Theorem chk_sound t : forall n,
  (forall mp h it lv, chk_member n t mp h it = Some lv -> sp_member t mp h [it] lv) /\
  (forall sgl p lins body, chk_body n t sgl p lins body = true -> sp_body t sgl p lins body) /\
  (forall cs body cs' lvls, chk_units n t cs body = Some (cs', lvls) -> exists cs1, cs = cs1 ++ cs' /\ sp_units t cs1 body lvls).
Proof.
  induction n as [|n (IHm & IHb & IHu)]; [split; [|split]; intros; discriminate|].
  split; [|split].
  - (* members *)
    intros mp h it lv H. cbn [chk_member] in H. destruct it as [g lf|id og body|og body|k v|k v]; try discriminate.
    + destruct h as [g' p|p lins].
      * destruct (String.eqb g g') eqn:E; [|discriminate]. apply String.eqb_eq in E. subst g'. inversion H. constructor.
      * destruct lins as [|[|c [|c2 cr]] [|l2 lr]]; try discriminate. apply sm_omit. apply IHm. exact H.
    + destruct h as [g p|p lins].
      * destruct body as [|[| | |k nm|] [|[g' lf'| | | |] [|x r]]]; try discriminate.
        destruct (String.eqb k "TaxRange") eqn:Ek; [|discriminate]. destruct (String.eqb g g') eqn:Eg; [|discriminate].
        destruct (name_of t p) as [n0|] eqn:En; [|discriminate]. destruct (String.eqb n0 nm) eqn:En0; [|discriminate].
        apply String.eqb_eq in Ek, Eg, En0. subst. inversion H. apply sm_wrap. exact En.
      * destruct (chk_body n t (single lins) p lins body && label_okb t lins body) eqn:E.
        -- apply andb_true_iff in E as [Eb El]. inversion H. apply sm_explicit; [apply IHb; exact Eb|apply label_okb_ok; exact El].
        -- destruct lins as [|[|c [|c2 cr]] [|l2 lr]]; try discriminate. apply sm_omit. apply IHm. exact H.
    + destruct h as [g p|p lins]; [discriminate|]. destruct lins as [|cs [|l2 lr]]; try discriminate.
      destruct cs as [|c [|c2 cr]].
      * simpl in H. destruct mp; discriminate.
      * apply sm_omit. apply IHm. exact H.
      * set (cs := c :: c2 :: cr) in *. destruct (mp && Nat.leb 2 (List.length cs)) eqn:E; [|discriminate].
        apply andb_true_iff in E as [-> E2]. apply Nat.leb_le in E2.
        destruct (chk_units n t cs body) as [[[|x r] lvls]|] eqn:Eu; try discriminate.
        destruct (levels_okb (lin_tax cs) lvls) eqn:El; [|discriminate]. inversion H.
        destruct (IHu _ _ _ _ Eu) as (cs1 & Ecs & Hu). rewrite app_nil_r in Ecs. subst cs1.
        eapply sm_omit_para; [exact E2|exact Hu|apply levels_okb_ok; exact El].
  - (* bodies *)
    intros sgl p lins body H. cbn [chk_body] in H. destruct body as [|it r].
    + destruct lins; [constructor|discriminate].
    + destruct (is_annotb it) eqn:Ea.
      * apply sb_annot; [apply is_annotb_ok; exact Ea|apply IHb; exact H].
      * destruct lins as [|l lr]; [discriminate|]. destruct l as [|c [|c2 cr]].
        -- simpl in H. discriminate.
        -- destruct (chk_member n t true c it) as [lv|] eqn:Em; [|discriminate]. apply andb_true_iff in H as [Hs Hr].
           change (it :: r) with ([it] ++ r). eapply sb_orth; [apply IHm; exact Em| |apply IHb; exact Hr].
           intros ->. apply opt_tax_eqb_eq in Hs. exact Hs.
        -- set (cs := c :: c2 :: cr) in *. apply andb_true_iff in H as [H2 H]. apply Nat.leb_le in H2.
           destruct it as [| |og pgbody| |]; try discriminate.
           destruct (chk_units n t cs pgbody) as [[[|x r'] lvls]|] eqn:Eu; try discriminate.
           apply andb_true_iff in H as [El Hr].
           destruct (IHu _ _ _ _ Eu) as (cs1 & Ecs & Hu). rewrite app_nil_r in Ecs. subst cs1.
           eapply sb_dup; [exact H2|exact Hu|apply levels_okb_ok; exact El|apply IHb; exact Hr].
  - (* copies *)
    intros cs body cs' lvls H. cbn [chk_units] in H. destruct body as [|it r].
    + inversion H; subst. exists []. split; [reflexivity|constructor].
    + destruct (is_annotb it) eqn:Ea.
      * destruct (IHu _ _ _ _ H) as (cs1 & E & Hu). exists cs1. split; [exact E|]. apply su_annot; [apply is_annotb_ok; exact Ea|exact Hu].
      * assert (Hcopy : forall c cr, cs = c :: cr ->
                  match chk_member n t false c it with
                  | Some (Some l) => match chk_units n t cr r with Some (cs'', lv) => Some (cs'', l :: lv) | None => None end
                  | _ => None
                  end = Some (cs', lvls) -> exists cs1, cs = cs1 ++ cs' /\ sp_units t cs1 (it :: r) lvls).
        { intros c cr -> Hc. destruct (chk_member n t false c it) as [[l|]|] eqn:Em; try discriminate.
          destruct (chk_units n t cr r) as [[cs'' lv]|] eqn:Eu; [|discriminate]. inversion Hc; subst.
          destruct (IHu _ _ _ _ Eu) as (cs1 & E & Hu). exists (c :: cs1). split; [simpl; now rewrite E|].
          change (it :: r) with ([it] ++ r). apply su_copy; [apply IHm; exact Em|exact Hu]. }
        destruct it as [g lf|id og b|og inner|k v|k v]; try discriminate;
          try (destruct cs as [|c cr]; [discriminate|]; eapply Hcopy; [reflexivity|exact H]).
        destruct (chk_units n t cs inner) as [[cs1' lv1]|] eqn:E1; [|discriminate].
        destruct (Nat.ltb (List.length cs1') (List.length cs)) eqn:Elt; [|discriminate]. apply Nat.ltb_lt in Elt.
        destruct (chk_units n t cs1' r) as [[cs'' lv2]|] eqn:E2; [|discriminate]. inversion H; subst.
        destruct (IHu _ _ _ _ E1) as (a & Ea' & Hua). destruct (IHu _ _ _ _ E2) as (b & Eb & Hub).
        exists (a ++ b). split; [rewrite Ea', Eb, app_assoc; reflexivity|].
        apply su_nest; [|exact Hua|exact Hub]. intros ->. simpl in Ea'. subst cs. lia.
Qed.

Theorem spells_topb_sound t h it : spells_topb t h it = true -> spells_top t h it.
Proof.
  unfold spells_topb. destruct h as [g p|p lins]; [discriminate|]. destruct it as [| id og body| | |]; try discriminate.
  intros H. apply andb_true_iff in H as [Hb Hl]. exists p, lins, id, og, body.
  split; [reflexivity|]. split; [reflexivity|]. split; [|apply label_okb_ok; exact Hl].
  destruct (chk_sound t (2 * (isize (IOG id og body) + hsize (XH p lins)) + 8)) as (_ & Hs & _). apply Hs. exact Hb.
Qed.

(* ---------- well-formedness ---------- *)
Lemma nodup_tax_NoDup l : nodup_tax l = true -> NoDup l.
Proof.
  induction l as [|x r IH]; simpl; [constructor|]. rewrite andb_true_iff, negb_true_iff. intros [Hx Hr].
  constructor; [|apply IH; exact Hr]. intros Hin.
  assert (mem_tax x r = true); [|congruence]. unfold mem_tax. apply existsb_exists. exists x. split; [exact Hin|apply taxon_eqb_refl].
Qed.

Theorem wfhb_sound t genes h : wfhb t genes h = true -> WFh t genes h.
Proof.
  induction h as [g p|p lins IH] using hist_ind'; intros H.
  - cbn [wfhb] in H. apply andb_true_iff in H as [H1 H2]. apply opt_tax_eqb_eq in H1. split; assumption.
  - cbn [wfhb] in H. apply andb_true_iff in H as [H Hall]. apply andb_true_iff in H as [H Hnd].
    apply andb_true_iff in H as [H Hne]. apply andb_true_iff in H as [H Hl].
    cbn [WFh]. split; [exact H|]. split; [apply negb_true_iff; exact Hl|]. split; [destruct lins; [discriminate|discriminate]|].
    split; [apply nodup_tax_NoDup; exact Hnd|].
    apply allP_Forall. rewrite Forall_forall in *. rewrite forallb_forall in Hall. intros l Hlin.
    specialize (Hall l Hlin). apply andb_true_iff in Hall as [Hlne Hm].
    split; [destruct l; [discriminate|discriminate]|]. apply allP_Forall. rewrite forallb_forall in Hm.
    specialize (IH l Hlin). rewrite Forall_forall in *. intros c Hc. specialize (Hm c Hc).
    repeat (apply andb_true_iff in Hm as [Hm ?]).
    split; [apply (IH c Hc); exact Hm|]. split; [destruct (xtax c); [discriminate|discriminate]|].
    split; [apply taxon_eqb_eq; assumption|apply taxon_eqb_eq; assumption].
Qed.

(* ---------- the whole document ---------- *)
Lemma forall2b_sound {X Y} (f : X -> Y -> bool) (R : X -> Y -> Prop) :
  (forall a b, f a b = true -> R a b) -> forall l1 l2, forall2b f l1 l2 = true -> Forall2 R l1 l2.
Proof.
  intros Hf. induction l1 as [|a r1 IH]; intros [|b r2] H; simpl in H; try discriminate; constructor.
  - apply Hf. apply andb_true_iff in H as [H _]. exact H.
  - apply IH. apply andb_true_iff in H as [_ H]. exact H.
Qed.

Lemma declared_of_eq d : declared_of d = declared d.
Proof. reflexivity. Qed.

Lemma find_gene_none genes g : ~ In g (map fst genes) -> find_gene g genes = None.
Proof.
  induction genes as [|[g' p] r IH]; intros H; simpl; [reflexivity|]. destruct (String.eqb g g') eqn:E.
  - apply String.eqb_eq in E. subst. exfalso. apply H. left. reflexivity.
  - apply IH. intros Hin. apply H. right. exact Hin.
Qed.

(* two gene tables for the same species section agree *)
Lemma tables_unique t d genes genes' :
  NoDup (declared d) ->
  map fst genes = declared d ->
  (forall g p, In (g, p) genes -> exists sp, In sp (d_species d) /\ In g (map gd_id (sp_genes sp)) /\ species_resolves t sp p) ->
  map fst genes' = declared d ->
  (forall g p, In (g, p) genes' -> exists sp, In sp (d_species d) /\ In g (map gd_id (sp_genes sp)) /\ species_resolves t sp p) ->
  forall g, find_gene g genes' = find_gene g genes.
Proof.
  intros Hnd Hm Hr Hm' Hr' g.
  assert (Hn : NoDup (map fst genes)) by (rewrite Hm; exact Hnd).
  assert (Hn' : NoDup (map fst genes')) by (rewrite Hm'; exact Hnd).
  destruct (in_dec string_dec g (declared d)) as [Hin|Hout].
  - pose proof Hin as Hin'. rewrite <- Hm in Hin. rewrite <- Hm' in Hin'.
    apply in_map_iff in Hin as ([g0 p] & Eg & Hgp). simpl in Eg. subst g0.
    apply in_map_iff in Hin' as ([g0 p'] & Eg & Hgp'). simpl in Eg. subst g0.
    destruct (Hr g p Hgp) as (sp & Hsp & Hg & (Hs & _)). destruct (Hr' g p' Hgp') as (sp' & Hsp' & Hg' & (Hs' & _)).
    assert (sp = sp') by (eapply (unique_block (fun sp => map gd_id (sp_genes sp))); eauto). subst sp'.
    rewrite Hs in Hs'. inversion Hs'; subst p'.
    rewrite (proj2 (find_gene_in genes' g p Hn') Hgp'), (proj2 (find_gene_in genes g p Hn) Hgp). reflexivity.
  - rewrite !find_gene_none; [reflexivity| |]; [rewrite Hm|rewrite Hm']; exact Hout.
Qed.

Theorem consistentb_sound t d hs : consistentb t d hs = true -> consistent t d hs.
Proof.
  unfold consistentb. intros H. repeat (apply andb_true_iff in H as [H ?]).
  match goal with Hx : match gene_table t d with _ => _ end = true |- _ => rename Hx into Hwf end.
  match goal with Hx : forall2b _ _ _ = true |- _ => rename Hx into Hsp end.
  match goal with Hx : nodupb (flat_map refs_of _) = true |- _ => rename Hx into Hrefs end.
  match goal with Hx : nodupb (declared_of d) = true |- _ => rename Hx into Hdecl end.
  assert (Hsane : Forall (species_sane t) (d_species d)).
  { apply Forall_forall. intros sp Hin. rewrite forallb_forall in H. specialize (H sp Hin). unfold species_saneb in H.
    destruct (search t (sp_name sp)) as [|p [|q r]] eqn:Es; try discriminate. exists p. auto. }
  assert (Hnd : NoDup (declared d)) by (apply nodupb_NoDup'; exact Hdecl).
  split; [exact Hsane|]. split; [exact Hnd|]. split; [apply nodupb_NoDup'; exact Hrefs|].
  split; [eapply forall2b_sound; [|exact Hsp]; intros a b; apply spells_topb_sound|].
  intros genes' Hm' Hr'. unfold gene_table in Hwf.
  destruct (foldM (fun acc sp => load_species t sp acc) (d_species d) [] init_state) as [[genes s0]|e] eqn:E0; [|discriminate].
  pose proof (species_fold_spec t _ _ _ _ _ E0) as (I1 & _ & _ & I4). simpl in I1.
  assert (I4' : forall g p, In (g, p) genes -> exists sp, In sp (d_species d) /\ In g (map gd_id (sp_genes sp)) /\ species_resolves t sp p).
  { intros g p Hin. apply I4 in Hin as [[]|Hin]. exact Hin. }
  apply Forall_forall. intros h Hh. rewrite forallb_forall in Hwf. specialize (Hwf h Hh). apply wfhb_sound in Hwf.
  eapply (WFh_ext t genes genes'); [|exact Hwf]. intros g _. eapply tables_unique; eauto.
Qed.
