(* DocRoundTripFacts.v — C12, whole document: the orthoXML the exporter writes for an aligned HOG (species blocks
   and groups) is a consistent input; loading it with the same species tree gives one top-level HOG that matches
   the history read off the original HOG. *)
From Coq Require Import List Arith Bool String Lia Permutation.
From PyHam Require Import Tax Ortho Loader Mapper Preds Nav Export Filter Hist Spell Whole.
From PyHam.proofs Require Import TaxFacts MapperFacts ForestFacts ClusterFacts PartitionFacts LoaderFacts LoftFacts ExplicitFacts ExportFacts
  NavFacts ChainFacts CladeFacts SpellFacts WholeFacts FilterSpellFacts RoundTripFacts.
Import ListNotations.
Local Open Scope string_scope.
Local Open Scope list_scope.

(* ---------- every node of the tree is listed once ---------- *)
Lemma path_longer (rr : list nat) (i : nat) (p : taxon) : rev rr ++ i :: p <> p.
Proof. intros H. apply (f_equal (@List.length nat)) in H. rewrite app_length in H. simpl in H. lia. Qed.

Lemma nodes_nodup t : forall p, NoDup (map fst (nodes p t)).
Proof.
  induction t as [n ks IH] using stree_ind'. intros p. rewrite nodes_unfold. cbn [map fst]. constructor.
  - intros Hin. apply in_map_iff in Hin as ([q s] & Eq & Hin). simpl in Eq. subst q.
    apply nodes_list_in in Hin as (i & c & Hn & Hin). apply nodes_spec in Hin as (rr & Hq & _). exact (path_longer rr (0 + i) p (eq_sym Hq)).
  - generalize 0 as k. induction ks as [|c r IHr]; intros k; [constructor|]. inversion IH as [|? ? Hc Hr]; subst.
    cbn [nodes_list]. rewrite map_app. apply nodup_app_intro; [apply Hc|apply IHr; exact Hr|].
    intros q H1 H2. apply in_map_iff in H1 as ([q1 s1] & E1 & H1). apply in_map_iff in H2 as ([q2 s2] & E2 & H2). simpl in E1, E2. subst q1 q2.
    apply nodes_spec in H1 as (rr1 & Hq1 & _). apply nodes_list_in in H2 as (i & c' & Hn & H2). apply nodes_spec in H2 as (rr2 & Hq2 & _).
    rewrite Hq1 in Hq2. apply app_eq_tail in Hq2; [|reflexivity]. inversion Hq2. lia.
Qed.

Lemma all_nodes_nodup t : NoDup (map fst (all_nodes t)).
Proof. apply nodes_nodup. Qed.

(* with pairwise different node names, a valid node is found by its name *)
Lemma search_unique t p : names_inj t -> valid t p = true -> search t (tax_name t p) = [p].
Proof.
  intros Hinj Hv. unfold search.
  assert (Hin : In p (map fst (filter (fun pn => String.eqb (sname (snd pn)) (tax_name t p)) (all_nodes t)))).
  { apply all_nodes_valid in Hv. apply in_map_iff in Hv as ([q s] & Eq & Hin). simpl in Eq. subst q.
    apply in_map_iff. exists (p, s). split; [reflexivity|]. apply filter_In. split; [exact Hin|].
    unfold all_nodes in Hin. apply nodes_spec in Hin as (rr & Hq & Hs). rewrite app_nil_r in Hq.
    unfold tax_name, name_of, sub. rewrite Hq, rev_involutive, Hs. simpl. apply String.eqb_refl. }
  assert (Hall : forall q, In q (map fst (filter (fun pn => String.eqb (sname (snd pn)) (tax_name t p)) (all_nodes t))) -> q = p).
  { intros q Hq. apply in_map_iff in Hq as ([q0 s] & Eq & Hq). simpl in Eq. subst q0. apply filter_In in Hq as [Hq Hn]. simpl in Hn.
    apply String.eqb_eq in Hn. unfold all_nodes in Hq. apply nodes_spec in Hq as (rr & Eq & Hs). rewrite app_nil_r in Eq.
    apply (Hinj q p (tax_name t p)); [|apply valid_name; exact Hv].
    unfold name_of, sub. rewrite Eq, rev_involutive, Hs. simpl. now rewrite Hn. }
  assert (Hnd : NoDup (map fst (filter (fun pn => String.eqb (sname (snd pn)) (tax_name t p)) (all_nodes t)))).
  { apply NoDup_map_filter. apply all_nodes_nodup. }
  destruct (map fst (filter _ (all_nodes t))) as [|a [|b r]]; [contradiction| |].
  - f_equal. apply Hall. left. reflexivity.
  - exfalso. assert (a = p) by (apply Hall; left; reflexivity). assert (b = p) by (apply Hall; right; left; reflexivity).
    subst. inversion Hnd as [|? ? Hx _]. apply Hx. left. reflexivity.
Qed.

(* ---------- the species blocks of the export ---------- *)
Lemma gene_nodes_in x g q : In (g, q) (gene_nodes x) <-> In (HGene g q) (all_of x).
Proof.
  induction x as [g' p|o p m ks IH] using hog_ind'.
  - simpl. split; intros [H|[]]; left; congruence.
  - cbn [gene_nodes all_of]. rewrite in_flat_map. split.
    + intros (k & Hk & Hin). right. apply in_flat_map. exists k. split; [exact Hk|]. rewrite Forall_forall in IH. apply (IH k Hk). exact Hin.
    + intros [H|H]; [discriminate|]. apply in_flat_map in H as (k & Hk & Hin). exists k. split; [exact Hk|]. rewrite Forall_forall in IH. apply (IH k Hk). exact Hin.
Qed.

Lemma export_species_blocks t protid x sp g :
  In sp (export_species t protid x) -> In g (map gd_id (sp_genes sp)) ->
  exists q, sp_name sp = tax_name t q /\ In (HGene g q) (all_of x).
Proof.
  unfold export_species. intros Hsp Hg. apply in_map_iff in Hsp as ([q gs] & <- & Hin). cbn [sp_name sp_genes fst snd] in *.
  rewrite map_map in Hg. cbn [gd_id] in Hg. rewrite map_id in Hg. exists q. split; [reflexivity|].
  apply gene_nodes_in. eapply Permutation_in; [apply genes_by_species_spec|]. apply in_flat_map. exists (q, gs).
  split; [apply in_rev; exact Hin|]. apply in_map_iff. exists g. auto.
Qed.

Lemma gene_leaf t x g q : wf_node t x = true -> In (HGene g q) (all_of x) -> is_leaf t q = true.
Proof.
  induction x as [g' p|o p m ks IH] using hog_ind'; intros Hwf Hin.
  - simpl in Hin. destruct Hin as [H|[]]. inversion H; subst. exact Hwf.
  - cbn [all_of] in Hin. destruct Hin as [H|Hin]; [discriminate|]. apply in_flat_map in Hin as (k & Hk & Hin).
    rewrite Forall_forall in IH. apply (IH k Hk); [eapply (wf_kids t (HHog o p m ks)); eauto|exact Hin].
Qed.

Lemma leaf_valid t q : is_leaf t q = true -> valid t q = true.
Proof. unfold is_leaf, valid. destruct (sub t q); [reflexivity|discriminate]. Qed.

Theorem export_doc_consistent t protid o p m ks :
  names_inj t -> wf_node t (HHog o p m ks) = true -> NoDup (genes_of (HHog o p m ks)) ->
  consistent t (export_doc t protid (HHog o p m ks)) [hist_of (HHog o p m ks)].
Proof.
  intros Hinj Hwf Hnd. set (x := HHog o p m ks) in *.
  destruct (export_spells_top t o p m ks Hinj Hwf) as (it & Eit & Hsp). fold x in Eit, Hsp.
  pose proof (export_refs t x false) as Hrefs. fold (export_groups t x) in Hrefs.
  pose proof (export_declared t protid x) as Hdecl.
  unfold consistent, export_doc. cbn [d_species d_groups].
  split; [|split; [|split; [|split]]].
  - apply Forall_forall. intros sp Hin.
    pose proof Hin as Hin0. unfold export_species in Hin. apply in_map_iff in Hin as ([q gs] & <- & Hq). cbn [sp_name].
    (* a block is written only for a species that has a gene *)
    assert (Hg : exists g, In (HGene g q) (all_of x) \/ gs = []).
    { destruct gs as [|g gr]; [exists ""; right; reflexivity|]. exists g. left.
      apply gene_nodes_in. eapply Permutation_in; [apply genes_by_species_spec|]. apply in_flat_map. exists (q, g :: gr).
      split; [apply in_rev; exact Hq|]. left. reflexivity. }
    destruct Hg as (g & [Hg|Hg]).
    + pose proof (gene_leaf t x g q Hwf Hg) as Hl. exists q. split; [apply search_unique; [exact Hinj|apply leaf_valid; exact Hl]|exact Hl].
    + (* cluster_add never creates an empty block *)
      exfalso. subst gs. apply in_rev in Hq. unfold genes_by_species in Hq.
      assert (Hne : forall l d, (forall e, In e d -> snd e <> []) ->
                    forall e, In e (fold_left (fun d gp => cluster_add (snd gp) (fst gp) d) l d) -> snd e <> []).
      { induction l as [|[g0 p0] l IHl]; intros d Hd e He; [apply Hd; exact He|]. simpl in He. eapply IHl; [|exact He].
        intros e' He'. clear - Hd He'. induction d as [|[p' gs'] r IHr]; simpl in He'.
        - destruct He' as [<-|[]]. discriminate.
        - destruct (taxon_eqb p0 p'); destruct He' as [<-|He']; simpl; try (destruct gs'; discriminate); try (apply (Hd _ (or_introl eq_refl))).
          + apply Hd. right. exact He'.
          + apply IHr; [intros e0 He0; apply Hd; right; exact He0|exact He']. }
      apply (Hne (gene_nodes x) [] (fun e H => match H with end) (q, []) Hq). reflexivity.
  - unfold declared. cbn [d_species]. eapply Permutation_NoDup; [apply Permutation_sym; exact Hdecl|exact Hnd].
  - eapply Permutation_NoDup; [apply Permutation_sym; exact Hrefs|exact Hnd].
  - rewrite Eit. constructor; [exact Hsp|constructor].
  - intros genes Hm Hr. constructor; [|constructor]. apply WFh_hist_of; [exact Hwf|].
    intros g q Hgq.
    assert (Hin : In g (map fst genes)).
    { rewrite Hm. unfold declared. cbn [d_species]. eapply Permutation_in; [apply Permutation_sym; exact Hdecl|].
      rewrite <- (gene_nodes_genes x). apply in_map_iff. exists (g, q). split; [reflexivity|apply gene_nodes_in; exact Hgq]. }
    apply in_map_iff in Hin as ([g0 q'] & Eg & Hgq'). simpl in Eg. subst g0.
    assert (Hndk : NoDup (map fst genes)).
    { rewrite Hm. unfold declared. cbn [d_species]. eapply Permutation_NoDup; [apply Permutation_sym; exact Hdecl|exact Hnd]. }
    destruct (Hr g q' Hgq') as (sp & Hsp' & Hgs & (Hs & _)). cbn [d_species] in Hsp'.
    destruct (export_species_blocks t protid x sp g Hsp' Hgs) as (q2 & Hname & Hq2).
    (* the gene occurs once in x, so q2 = q *)
    assert (q2 = q).
    { assert (H1 : In (g, q2) (gene_nodes x)) by (apply gene_nodes_in; exact Hq2).
      assert (H2 : In (g, q) (gene_nodes x)) by (apply gene_nodes_in; exact Hgq).
      assert (Hk : NoDup (map fst (gene_nodes x))) by (rewrite gene_nodes_genes; exact Hnd).
      clear - H1 H2 Hk. induction (gene_nodes x) as [|[g0 q0] r IHr]; [contradiction|]. simpl in Hk. inversion Hk as [|? ? Hx Hr]; subst.
      destruct H1 as [E1|H1], H2 as [E2|H2]; try congruence.
      - inversion E1; subst. exfalso. apply Hx. apply in_map_iff. exists (g, q). auto.
      - inversion E2; subst. exfalso. apply Hx. apply in_map_iff. exists (g, q2). auto.
      - apply IHr; auto. }
    subst q2. rewrite Hname in Hs.
    rewrite (search_unique t q Hinj (leaf_valid t q (gene_leaf t x g q Hwf Hgq))) in Hs. inversion Hs; subst q'.
    apply (find_gene_in genes g q Hndk). exact Hgq'.
Qed.

Theorem export_doc_roundtrip t protid o p m ks :
  names_inj t -> wf_node t (HHog o p m ks) = true -> NoDup (genes_of (HHog o p m ks)) ->
  let x := HHog o p m ks in
  exists l top, load t (export_doc t protid x) = Ok l /\ l_tops l = [top] /\
    matches (hist_of x) x /\ matches (hist_of x) (snd top) /\ htax (snd top) = htax x /\ wf_node t (snd top) = true /\
    wfbc t (forest_of l) = true.
Proof.
  intros Hinj Hwf Hnd x.
  destruct (consistent_forest t _ _ (export_doc_consistent t protid o p m ks Hinj Hwf Hnd)) as (l & El & Hw & Fl).
  inversion Fl as [|h top hr tr (M & T & W) Fr E1 E2]; subst. inversion Fr; subst.
  exists l, top. split; [exact El|]. split; [symmetry; assumption|]. split; [apply (matches_hist_of t); exact Hwf|].
  split; [exact M|]. split; [rewrite T; reflexivity|]. split; [exact W|exact Hw].
Qed.
