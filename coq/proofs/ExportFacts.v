(* ExportFacts.v — the iHam export declares and references exactly the member genes (C12). *)
From Coq Require Import List Arith Bool String Lia Permutation.
From PyHam Require Import Tax Ortho Loader Mapper Nav Export Filter.
From PyHam.proofs Require Import TaxFacts MapperFacts ForestFacts LoaderFacts NavFacts.
Import ListNotations.

(* grouping the children by duplication key and listing the unflagged ones covers each child once *)
Definition flag_is (k : nat) (kd : kid) : bool := is_member k kd.

Lemma dup_keys_spec ks : forall seen k,
  In k (dup_keys ks seen) <-> (~ In k seen /\ exists c, In (Some k, c) ks).
Proof.
  induction ks as [|[[k'|] c] r IH]; intros seen k; simpl.
  - split; [contradiction|intros [_ [c []]]].
  - destruct (existsb (Nat.eqb k') seen) eqn:E.
    + rewrite IH. apply existsb_exists in E as (x & Hx & Ex). apply Nat.eqb_eq in Ex. subst x. split.
      * intros [Hn [c' Hc']]. split; auto. exists c'. auto.
      * intros [Hn [c' [Hc'|Hc']]]; [inversion Hc'; subst; contradiction|split; eauto].
    + simpl. rewrite IH. split.
      * intros [<-|[Hn [c' Hc']]].
        -- split; [|exists c; auto]. intros Hin. assert (existsb (Nat.eqb k') seen = true); [|congruence].
           apply existsb_exists. exists k'. split; auto. apply Nat.eqb_refl.
        -- split; [intros H; apply Hn; right; exact H|exists c'; auto].
      * intros [Hn [c' [Hc'|Hc']]]; [inversion Hc'; subst; left; reflexivity|].
        destruct (Nat.eq_dec k' k) as [->|Hne]; [left; reflexivity|]. right. split; [|eauto].
        intros [->|H]; [contradiction|contradiction].
  - rewrite IH. split; intros [Hn [c' Hc']]; split; auto; [exists c'; auto|].
    destruct Hc' as [Hc'|Hc']; [discriminate|eauto].
Qed.

Lemma dup_keys_nodup ks : forall seen, NoDup (dup_keys ks seen).
Proof.
  induction ks as [|[[k'|] c] r IH]; intros seen; simpl; [constructor| |apply IH].
  destruct (existsb (Nat.eqb k') seen); [apply IH|]. constructor; [|apply IH].
  intros H. apply dup_keys_spec in H as [Hn _]. apply Hn. left. reflexivity.
Qed.

Lemma single_hit {Y : Type} (x : list Y) k (K : list nat) :
  NoDup K -> In k K -> flat_map (fun k0 => if Nat.eqb k0 k then x else []) K = x.
Proof.
  induction K as [|k0 K' IH]; intros Hn Hin; [contradiction|]. inversion Hn as [|? ? Hk0 HnK]; subst. simpl.
  destruct (Nat.eqb k0 k) eqn:E.
  - apply Nat.eqb_eq in E. subst k0.
    assert (Hz : flat_map (fun k1 => if Nat.eqb k1 k then x else []) K' = []).
    { apply flat_map_nil_all. intros k1 Hk1. destruct (Nat.eqb k1 k) eqn:E1; [apply Nat.eqb_eq in E1; subst; contradiction|reflexivity]. }
    rewrite Hz. apply app_nil_r.
  - destruct Hin as [->|Hin]; [rewrite Nat.eqb_refl in E; discriminate|]. simpl. apply IH; auto.
Qed.

Lemma no_hit {Y : Type} (x : list Y) (K : list nat) : flat_map (fun _ : nat => @nil Y) K = [].
Proof. induction K; simpl; auto. Qed.

(* for any duplicate-free key list K covering the flags that occur *)
Lemma regroup_by_keys {Y : Type} (G : kid -> list Y) (K : list nat) : forall ks,
  NoDup K -> (forall k c, In (Some k, c) ks -> In k K) ->
  Permutation (flat_map (fun k => flat_map (fun kd => if is_member k kd then G kd else []) ks) K ++
               flat_map (fun kd => if flagged (fst kd) then [] else G kd) ks)
              (flat_map G ks).
Proof.
  intros ks Hn Hcov. induction ks as [|kd r IH].
  - simpl. rewrite app_nil_r. rewrite (no_hit (@nil Y)). constructor.
  - assert (IHr := IH (fun k c H => Hcov k c (or_intror H))). clear IH.
    set (f := fun k0 => flat_map (fun kd0 => if is_member k0 kd0 then G kd0 else []) r) in *.
    destruct kd as [[k|] c].
    + assert (Hk : In k K) by (apply (Hcov k c); left; reflexivity).
      assert (E : flat_map (fun k0 => flat_map (fun kd0 => if is_member k0 kd0 then G kd0 else []) ((Some k, c) :: r)) K
                  = flat_map (fun k0 => (if Nat.eqb k0 k then G (Some k, c) else []) ++ f k0) K).
      { apply flat_map_Forall_ext. apply Forall_forall. intros k0 _. reflexivity. }
      rewrite E. cbn [flat_map flagged fst]. simpl app.
      eapply Permutation_trans; [apply Permutation_app_tail; apply Permutation_flat_map_app|].
      rewrite (single_hit (G (Some k, c)) k K Hn Hk). rewrite <- app_assoc. apply Permutation_app_head. exact IHr.
    + assert (E : flat_map (fun k0 => flat_map (fun kd0 => if is_member k0 kd0 then G kd0 else []) ((None, c) :: r)) K
                  = flat_map f K).
      { apply flat_map_Forall_ext. apply Forall_forall. intros k0 _. reflexivity. }
      rewrite E. cbn [flat_map flagged fst].
      eapply Permutation_trans; [|apply Permutation_app_head; exact IHr].
      rewrite !app_assoc. apply Permutation_app_tail. apply Permutation_app_comm.
Qed.

(* geneRefs of the exported groups = member genes, each once *)
Lemma refs_pg body : flat_map refs_of [IPG None body] = flat_map refs_of body.
Proof. simpl. apply app_nil_r. Qed.

Theorem export_refs t h : forall ce, Permutation (flat_map refs_of (export t ce h)) (genes_of h).
Proof.
  induction h as [g p|o p m ks IH] using hog_ind'; intros ce; [simpl; apply Permutation_refl|].
  assert (Hb : forall w,
    Permutation (flat_map refs_of
                   (map (fun k => IPG None (flat_map (fun kd => if is_member k kd then export t false (snd kd) else []) ks)) (dup_keys ks [])
                    ++ flat_map (fun kd => if flagged (fst kd) then [] else export t w (snd kd)) ks))
                (genes_of (HHog o p m ks))).
  { intros w. rewrite flat_map_app. cbn [genes_of].
    assert (E1 : flat_map refs_of (map (fun k => IPG None (flat_map (fun kd => if is_member k kd then export t false (snd kd) else []) ks)) (dup_keys ks []))
                 = flat_map (fun k => flat_map (fun kd => if is_member k kd then flat_map refs_of (export t false (snd kd)) else []) ks) (dup_keys ks [])).
    { rewrite flat_map_concat_map, map_map, <- flat_map_concat_map. apply flat_map_Forall_ext. apply Forall_forall. intros k _.
      cbn [refs_of]. rewrite flat_map_flat_map'. apply flat_map_Forall_ext. apply Forall_forall. intros kd _.
      destruct (is_member k kd); reflexivity. }
    assert (E2 : flat_map refs_of (flat_map (fun kd => if flagged (fst kd) then [] else export t w (snd kd)) ks)
                 = flat_map (fun kd => if flagged (fst kd) then [] else flat_map refs_of (export t w (snd kd))) ks).
    { rewrite flat_map_flat_map'. apply flat_map_Forall_ext. apply Forall_forall. intros kd _. destruct (flagged (fst kd)); reflexivity. }
    rewrite E1, E2.
    assert (P1 : Permutation
              (flat_map (fun k => flat_map (fun kd => if is_member k kd then flat_map refs_of (export t false (snd kd)) else []) ks) (dup_keys ks []))
              (flat_map (fun k => flat_map (fun kd => if is_member k kd then genes_of (snd kd) else []) ks) (dup_keys ks []))).
    { apply Permutation_flat_map_ext. apply Forall_forall. intros k _. apply Permutation_flat_map_ext.
      eapply Forall_impl; [|exact IH]. intros kd Hkd. destruct (is_member k kd); [apply Hkd|apply Permutation_refl]. }
    assert (P2 : Permutation
              (flat_map (fun kd => if flagged (fst kd) then [] else flat_map refs_of (export t w (snd kd))) ks)
              (flat_map (fun kd => if flagged (fst kd) then [] else genes_of (snd kd)) ks)).
    { apply Permutation_flat_map_ext. eapply Forall_impl; [|exact IH]. intros kd Hkd. destruct (flagged (fst kd)); [apply Permutation_refl|apply Hkd]. }
    rewrite P1, P2. apply (regroup_by_keys (fun kd => genes_of (snd kd)) (dup_keys ks []) ks (dup_keys_nodup ks [])).
    intros k c Hin. apply dup_keys_spec. split; [intros []|eauto]. }
  cbn [export]. cbv zeta.
  match goal with |- context [if ?e then _ else [IOG _ _ _]] => destruct e end.
  - apply Hb.
  - cbn [flat_map refs_of]. rewrite app_nil_r. simpl. apply Hb.
Qed.

(* the species blocks declare exactly the member genes *)
Theorem export_declared t protid h :
  Permutation (flat_map (fun sp => map gd_id (sp_genes sp)) (export_species t protid h)) (genes_of h).
Proof.
  unfold export_species. rewrite flat_map_concat_map, map_map. cbn [sp_genes]. rewrite <- flat_map_concat_map.
  assert (E : flat_map (fun pg : taxon * list string => map gd_id (map (fun g => {| gd_id := g; gd_xrefs := [("protId"%string, protid g)] |}) (snd pg))) (rev (genes_by_species h))
              = flat_map snd (rev (genes_by_species h))).
  { apply flat_map_Forall_ext. apply Forall_forall. intros pg _. rewrite map_map. simpl. apply map_id. }
  rewrite E. rewrite <- (gene_nodes_genes h).
  pose proof (genes_by_species_spec h) as Hs. apply (Permutation_map fst) in Hs.
  eapply Permutation_trans; [|exact Hs]. rewrite map_flat_map_alt.
  eapply Permutation_trans; [apply Permutation_flat_map; apply Permutation_sym; apply Permutation_rev|].
  apply Permutation_flat_map_ext. apply Forall_forall. intros e _. rewrite map_map. simpl. rewrite map_id. apply Permutation_refl.
Qed.
