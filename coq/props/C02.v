(* C02 — the HOG hierarchy is a forest aligned level-by-level with the species tree. *)
From Coq Require Import List Arith Bool String Permutation.
From PyHam Require Import Tax Ortho Loader Mapper Preds Hist.
From PyHam.proofs Require Import LoaderFacts ExplicitFacts.
Import ListNotations.

(* PARTIAL (see DESIGN.md, C02): the alignment theorem is proved for the fully explicit encodings
   (Hist.enc: every HOG an orthologGroup, every duplication one paralogGroup, nothing omitted) of all
   well-formed histories (Hist.WFh) over all trees - any arity, any depth, any number of families and
   duplications, no bound.  For encodings with omitted levels, species-level wrapper groups, nested
   paralogGroups and TaxRange labels the same statement is checked on the implementation (extracted
   wfb on the dumped forest) and tied to the model by the parser-layer correspondence only.

   Statement: the document loads, and every top-level HOG satisfies wf_node: every HOG has a child;
   each child lives at a direct child taxon of its parent's taxon; genes at leaves, HOGs at internal
   nodes; two children at one taxon are copies of one duplication; every duplication groups at least
   two children of the HOG it is attached to, all at one taxon; a child is flagged exactly when it
   belongs to such an event. *)
Theorem c02_aligned_explicit : forall t d hs,
  Forall (species_sane t) (d_species d) -> NoDup (declared d) -> d_groups d = map enc hs ->
  (forall genes, map fst genes = declared d ->
     (forall g p, In (g, p) genes -> exists sp, In sp (d_species d) /\ In g (map gd_id (sp_genes sp)) /\ species_resolves t sp p) ->
     Forall (fun h => WFh t genes h /\ is_group h) hs) ->
  exists l, load t d = Ok l /\
    Forall2 (fun h top => matches h (snd top) /\ htax (snd top) = xtax h /\ wf_node t (snd top) = true) hs (l_tops l).
Proof. exact explicit_load. Qed.
Print Assumptions c02_aligned_explicit.

(* unconditional part (any document that loads): every group that closes has at least one child and
   its member genes are exactly the genes referenced inside it - no node is orphaned or shared *)
Theorem c02_no_empty_hog : forall t d l, load t d = Ok l -> Forall item_ok (d_groups d).
Proof. exact groups_ok. Qed.
Print Assumptions c02_no_empty_hog.

Local Open Scope string_scope.
Definition tr : stree :=
  SNode "R" [SNode "X" []; SNode "M" [SNode "E" [SNode "H" []; SNode "P" []]; SNode "C" []]].
Definition genes0 : list (string * taxon) := [("h1", [0; 0; 1]); ("h2", [0; 0; 1]); ("p1", [1; 0; 1]); ("c1", [1; 1]); ("x1", [0])].
(* a family with a duplication on the branch M -> E: the history is well formed, its encoding loads aligned *)
Definition h0 : hist :=
  XH [] [[XG "x1" [0]];
         [XH [1] [[XH [0; 1] [[XG "h1" [0; 0; 1]]; [XG "p1" [1; 0; 1]]]; XH [0; 1] [[XG "h2" [0; 0; 1]]]];
                  [XG "c1" [1; 1]]]]].
Example c02_nonvacuous : WFh tr genes0 h0.
Proof.
  cbn. repeat split; try discriminate; try reflexivity; repeat constructor; simpl; intuition discriminate.
Qed.
