(* C13 — equivalent ways of supplying the same data give isomorphic analyses. *)
From Coq Require Import List Arith Bool String.
From PyHam Require Import Tax Ortho Loader.
From PyHam.proofs Require Import NamingFacts.
Import ListNotations.

(* PARTIAL (see DESIGN.md, C13).  What a model can carry is proved: ancestral names are irrelevant.
   The loader consults node names in two places only - resolving a species name to a node, and the
   TaxRange collapse test.  For two namings t1, t2 of one tree that agree on leaf-ness of every path and
   on the resolution of every declared species (species_agree), and every TaxRange value of the document
   comparing equally with the names of both trees at every node (labels_agree: true of every value that is
   a leaf name in both or an internal name in neither, in particular of the labels of a consistent file
   whose leaves are named alike), the two loads are EQUAL - families, levels as paths, duplications,
   registrations.  All later layers (mapper, navigation, profiles of the model) take paths, not names.
   What a model cannot carry - that Newick string / file / PhyloXML with three name tags give the same
   tree, that file / gzip / string / chunking give the same event stream, that the progress flag is
   inert - is runtime behaviour of ete3, expat, gzip and tqdm; it is covered by running the real code
   under the configuration product and comparing analysis signatures (correspondence only). *)
Theorem c13_names_irrelevant : forall t1 t2 d,
  species_agree t1 t2 d -> Forall (labels_agree t1 t2) (d_groups d) -> load t1 d = load t2 d.
Proof. exact names_irrelevant. Qed.
Print Assumptions c13_names_irrelevant.

Local Open Scope string_scope.
Definition t_named : stree :=
  SNode "Vertebrata" [SNode "X" []; SNode "Mammalia" [SNode "H" []; SNode "C" []]].
Definition d0 : doc :=
  {| d_species := [ {| sp_name := "H"; sp_genes := [ {| gd_id := "h1"; gd_xrefs := [] |} ] |};
                    {| sp_name := "C"; sp_genes := [ {| gd_id := "c1"; gd_xrefs := [] |} ] |} ];
     d_groups := [ IOG (Some "f") None [IGene "h1" None; IOG None None [IProp "TaxRange" "C"; IGene "c1" None]] ] |}.
(* the tree's own names vs the synthesised ones: same load *)
Example c13_nonvacuous : load t_named d0 = load (synth t_named) d0 /\ exists l, load t_named d0 = Ok l.
Proof. vm_compute. split; [reflexivity|eexists; reflexivity]. Qed.
