(* Page.v — what Ham.create_iHam / IHAM.__init__ (pyham/ham.py, pyham/iham.py) put into the iHam page of a
   loaded HOG: the species subtree below the HOG's taxon (Taxonomy.get_newick_from_tree), the exported
   orthoXML (Export.v) and one record per member gene (IHAM._get_famdata).  The page text itself - the html
   template with its placeholders - is not modelled: the correspondence check reads the three embedded values
   back out of the real page.  Model only: no proofs in this file. *)
From Coq Require Import List Arith Bool String.
From PyHam Require Import Tax Ortho Loader Mapper Nav Export.
Import ListNotations.

Record famrec := { fr_species : string; fr_protid : string; fr_id : string }.

Record page := { pg_tree : stree; pg_doc : doc; pg_fam : list famrec }.

(* _get_famdata: one record per gene of get_all_descendant_genes(), visit order *)
Definition fam_data (t : stree) (protid : string -> string) (h : hog) : list famrec :=
  map (fun gp => {| fr_species := tax_name t (snd gp); fr_protid := protid (fst gp); fr_id := fst gp |})
      (gene_nodes h).

Definition iham_page (t : stree) (protid : string -> string) (h : hog) : result page :=
  match h with
  | HGene _ _ => Err AttributeError                 (* a Gene has no get_hog_vis *)
  | HHog _ p _ _ =>
      match sub t p with
      | Some s => Ok {| pg_tree := s; pg_doc := export_doc t protid h; pg_fam := fam_data t protid h |}
      | None => Err Unmodelled                      (* a HOG whose taxon is not a node of the tree: never built *)
      end
  end.
