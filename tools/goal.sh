#!/bin/sh
# usage: tools/goal.sh proofs/File.v LINE  — prints the proof state after LINE lines of the file
cd /verif/coq
head -n "$2" "$1" > /tmp/_goal_tmp.v
echo "Show." >> /tmp/_goal_tmp.v
cp /tmp/_goal_tmp.v proofs/_GoalTmp.v
timeout 300 coqc -Q . PyHam proofs/_GoalTmp.v 2>&1 | head -${3:-60}
rm -f proofs/_GoalTmp.v proofs/_GoalTmp.vo proofs/_GoalTmp.glob proofs/._GoalTmp.aux /tmp/_goal_tmp.v
