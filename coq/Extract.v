(* Extract.v — extraction of the executable model to OCaml.  ExtrOcamlBasic only:
   bool, option, unit, list, prod, sumbool, comparison map to OCaml's; nat, string, ascii stay
   the extracted inductive types.  No Extract Constant. *)
From Coq Require Import Extraction ExtrOcamlBasic.
From PyHam Require Import Tax Ortho Loader Mapper Profile Nav Preds Export Filter Lookup Session Oma SpellCheck Page.
Extraction Language OCaml.
Extraction "../driver/model.ml" build_taxonomy load vertical lateral hogmap upmap profile_full profile_hog
  lat_loss lat_gain lat_retained lat_dup
  desc_genes desc_hogs desc_levels genes_by_species top_level_of get_at_level ancestral_clustering
  write8 annot_depth path_up all_nodes search lcs genome_refs
  wfb wf_node export_doc load_filtered pass1
  get_genes_by_external_id get_taxon_by_name get_gene_by_id singles_of
  srun sinit sstep load_oma consistentb iham_page extant_listing ancestral_listing s_anc_by_name s_ext_by_name s_anc_by_taxon.
