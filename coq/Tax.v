(* Tax.v — species trees, taxa as paths to the root, the taxonomy-building logic of
   pyham/taxonomy.py (names, depth, path_up, uniqueness checks) and the ete3 calls pyham relies on
   (get_common_ancestor, search_nodes, leaf iteration).  Model only: no proofs in this file. *)
From Coq Require Import List Arith Bool String Ascii.
Import ListNotations.
Open Scope list_scope.

(* ---------- results with Python exception kinds ---------- *)
Inductive err := KeyError | TypeError | ValueError | IndexError | AttributeError | Unmodelled.
Inductive result (A : Type) := Ok (a : A) | Err (e : err).
Arguments Ok {A} a.
Arguments Err {A} e.

Definition err_eqb (a b : err) : bool :=
  match a, b with
  | KeyError, KeyError | TypeError, TypeError | ValueError, ValueError
  | IndexError, IndexError | AttributeError, AttributeError | Unmodelled, Unmodelled => true
  | _, _ => false
  end.

(* ---------- species tree ---------- *)
Inductive stree := SNode (name : string) (kids : list stree).

Definition sname (t : stree) : string := match t with SNode n _ => n end.
Definition skids (t : stree) : list stree := match t with SNode _ k => k end.
Definition sleaf (t : stree) : bool := match skids t with [] => true | _ => false end.

(* A taxon is the path from the node towards the root, nearest edge first:
   child number k of the node with path p has path k :: p; the root is []. *)
Definition taxon := list nat.

Fixpoint taxon_eqb (p q : taxon) : bool :=
  match p, q with
  | [], [] => true
  | a :: p', b :: q' => Nat.eqb a b && taxon_eqb p' q'
  | _, _ => false
  end.

(* descend along a root-first path *)
Fixpoint sub_rev (t : stree) (rp : list nat) : option stree :=
  match rp with
  | [] => Some t
  | k :: r => match nth_error (skids t) k with
              | Some c => sub_rev c r
              | None => None
              end
  end.
Definition sub (t : stree) (p : taxon) : option stree := sub_rev t (rev p).
Definition valid (t : stree) (p : taxon) : bool := match sub t p with Some _ => true | None => false end.
Definition name_of (t : stree) (p : taxon) : option string := option_map sname (sub t p).
Definition is_leaf (t : stree) (p : taxon) : bool :=
  match sub t p with Some s => sleaf s | None => false end.

Definition depth (p : taxon) : nat := List.length p.          (* Taxonomy._add_depth *)
Definition up (p : taxon) : option taxon := match p with [] => None | _ :: q => Some q end.

(* all nodes, preorder, with their paths *)
Fixpoint nodes (p : taxon) (t : stree) {struct t} : list (taxon * stree) :=
  match t with
  | SNode _ ks =>
      (p, t) :: (fix go (k : nat) (l : list stree) {struct l} : list (taxon * stree) :=
                   match l with
                   | [] => []
                   | c :: r => nodes (k :: p) c ++ go (S k) r
                   end) 0 ks
  end.
Definition all_nodes (t : stree) := nodes [] t.

(* the recursion of Taxonomy._add_depth: every node paired with the depth it is annotated with *)
Fixpoint annot_depth (d : nat) (p : taxon) (t : stree) {struct t} : list (taxon * nat) :=
  match t with
  | SNode _ ks =>
      (p, d) :: (fix go (k : nat) (l : list stree) {struct l} : list (taxon * nat) :=
                   match l with
                   | [] => []
                   | c :: r => annot_depth (S d) (k :: p) c ++ go (S k) r
                   end) 0 ks
  end.

(* leaf names in tree order (ete3: `for leaf in node`) *)
Fixpoint leaf_names (t : stree) : list string :=
  match t with
  | SNode n [] => [n]
  | SNode _ ks => flat_map leaf_names ks
  end.

(* search_nodes(name=n) *)
Definition search (t : stree) (n : string) : list taxon :=
  map fst (filter (fun pn => String.eqb (sname (snd pn)) n) (all_nodes t)).

(* ---------- MRCA: longest common suffix of the two paths ---------- *)
Fixpoint lcp (a b : list nat) : list nat :=
  match a, b with
  | x :: a', y :: b' => if Nat.eqb x y then x :: lcp a' b' else []
  | _, _ => []
  end.
Definition lcs (p q : taxon) : taxon := rev (lcp (rev p) (rev q)).

(* a is an ancestor-or-self of p  (a is a suffix of p) *)
Definition anc_or_self (a p : taxon) : bool := taxon_eqb (lcs a p) a.
Definition proper_anc (a p : taxon) : bool := anc_or_self a p && negb (taxon_eqb a p).

(* ete3 get_common_ancestor on a collection of >= 2 nodes *)
Definition mrca_list (l : list taxon) : option taxon :=
  match l with
  | [] => None
  | p :: r => Some (fold_left lcs r p)
  end.

(* Taxonomy.get_path_up: the loop over iter_ancestors with its break *)
Fixpoint path_up (lo anc : taxon) : list taxon :=
  match lo with
  | [] => []
  | _ :: p => if taxon_eqb p anc then [] else p :: path_up p anc
  end.

(* ---------- name synthesis (Taxonomy.set_taxon_name in a post-order pass) ---------- *)
Fixpoint join (sep : string) (l : list string) : string :=
  match l with
  | [] => ""%string
  | [x] => x
  | x :: r => (x ++ sep ++ join sep r)%string
  end.

Fixpoint synth (t : stree) : stree :=
  match t with
  | SNode n [] => SNode n []
  | SNode _ ks => SNode (join "/"%string (leaf_names t)) (map synth ks)
  end.

Fixpoint internal_names (t : stree) : list string :=
  match t with
  | SNode _ [] => []
  | SNode n ks => n :: flat_map internal_names ks
  end.

Fixpoint nodupb (l : list string) : bool :=
  match l with
  | [] => true
  | x :: r => negb (existsb (String.eqb x) r) && nodupb r
  end.

(* a name carried by a leaf and by an internal node *)
Definition shared_names (t : stree) : bool :=
  existsb (fun n => existsb (String.eqb n) (leaf_names t)) (internal_names t).

(* Taxonomy.__init__ for Newick input: naming mode, then _check_consistency_names
   (with the internal-name comparison repaired, finding F6, and names shared between a leaf and an internal
   node rejected, finding F12). *)
Definition build_taxonomy (use_internal : bool) (t : stree) : result stree :=
  let t' := if use_internal then t else synth t in
  if negb (nodupb (leaf_names t')) then Err KeyError
  else if negb (nodupb (internal_names t')) then Err KeyError
  else if shared_names t' then Err KeyError
  else Ok t'.

(* ---------- ete3 format-8 writer (Taxonomy.tree_str / get_newick_from_tree) ---------- *)
(* ete3 writes an empty name as "NoName" *)
Definition name_text (n : string) : string :=
  match n with EmptyString => "NoName"%string | _ => n end.

Fixpoint write_node (t : stree) : string :=
  match t with
  | SNode n [] => name_text n
  | SNode n (c :: r) =>
      ("(" ++ write_node c ++
      (fix go (l : list stree) : string :=
         match l with
         | [] => ""
         | x :: r' => "," ++ write_node x ++ go r'
         end) r ++ ")" ++ name_text n)%string
  end.
Definition write8 (t : stree) : string := (write_node t ++ ";")%string.
