(* Hist.v — duplication/loss histories along a species tree (the meaning of a "consistent" orthoXML)
   and their fully explicit orthoXML encoding.  Definitions only: no proofs in this file. *)
From Coq Require Import List Arith Bool String Permutation.
From PyHam Require Import Tax Ortho Loader.
Import ListNotations.

(* A HOG at taxon p with its lineages; a lineage is the list of its members: one member = a plain
   ortholog, two or more = the copies of one duplication. *)
Inductive hist :=
| XG (g : string) (p : taxon)
| XH (p : taxon) (lins : list (list hist)).

Definition xtax (h : hist) : taxon := match h with XG _ p => p | XH p _ => p end.

Definition lin_tax (l : list hist) : taxon := match l with [] => [] | c :: _ => xtax c end.

Fixpoint find_gene (g : string) (genes : list (string * taxon)) : option taxon :=
  match genes with
  | [] => None
  | (g', p) :: r => if String.eqb g g' then Some p else find_gene g r
  end.

(* well-formed history over tree t: genes at the leaf that declares them; every HOG at an internal
   node, with at least one lineage; the members of a lineage all sit at one direct child taxon of the
   HOG's taxon; distinct lineages sit in distinct child clades *)
Definition allP {X} (P : X -> Prop) : list X -> Prop :=
  fix go (l : list X) : Prop :=
    match l with
    | [] => True
    | x :: r => P x /\ go r
    end.

Fixpoint WFh (t : stree) (genes : list (string * taxon)) (h : hist) {struct h} : Prop :=
  match h with
  | XG g p => find_gene g genes = Some p /\ is_leaf t p = true
  | XH p lins =>
      valid t p = true /\ is_leaf t p = false /\ lins <> [] /\ NoDup (map lin_tax lins) /\
      allP (fun l => l <> [] /\
                     allP (fun c => WFh t genes c /\ xtax c <> [] /\ tl (xtax c) = p /\ xtax c = lin_tax l) l) lins
  end.

(* the fully explicit spelling: every HOG an orthologGroup, every gene a geneRef, every duplication
   one flat paralogGroup, no TaxRange labels, nothing omitted *)
Fixpoint enc (h : hist) : item :=
  match h with
  | XG g _ => IGene g None
  | XH _ lins =>
      IOG None None
          (map (fun l => match l with
                         | [c] => enc c
                         | cs => IPG None (map enc cs)
                         end) lins)
  end.

(* the loaded hierarchy describes the history: same taxon, and the children are, up to order, one
   unflagged child per plain lineage and one duplication node per multi-member lineage *)
Fixpoint matches (h : hist) (x : hog) : Prop :=
  match h, x with
  | XG g p, HGene g' p' => g = g' /\ p = p'
  | XH p lins, HHog _ p' _ ks =>
      p = p' /\
      exists (groups : list (option nat * list hog)),
        (* the children, regrouped: flag and members of each lineage *)
        Permutation ks (flat_map (fun fg => map (fun c => (fst fg, c)) (snd fg)) groups) /\
        List.length groups = List.length lins /\
        NoDup (flat_map (fun fg => match fst fg with Some k => [k] | None => [] end) groups) /\
        (fix rel (ls : list (list hist)) (gs : list (option nat * list hog)) : Prop :=
           match ls, gs with
           | [], [] => True
           | l :: lr, (f, cs) :: gr =>
               (match l with [_] => f = None | _ => f <> None end) /\
               (fix relm (ms : list hist) (xs : list hog) : Prop :=
                  match ms, xs with
                  | [], [] => True
                  | m :: mr, y :: yr => matches m y /\ relm mr yr
                  | _, _ => False
                  end) l cs /\
               rel lr gr
           | _, _ => False
           end) lins groups
  | _, _ => False
  end.

(* the same history with lineages, copies and members (recursively) listed in another order *)
Inductive hperm : hist -> hist -> Prop :=
| hp_refl h : hperm h h
| hp_trans a b c : hperm a b -> hperm b c -> hperm a c
| hp_lins p l l' : Permutation l l' -> hperm (XH p l) (XH p l')
| hp_copies p pre cs cs' post :
    Permutation cs cs' -> hperm (XH p (pre ++ cs :: post)) (XH p (pre ++ cs' :: post))
| hp_member p pre cpre c c' cpost post :
    hperm c c' ->
    hperm (XH p (pre ++ (cpre ++ c :: cpost) :: post)) (XH p (pre ++ (cpre ++ c' :: cpost) :: post)).
