(* FilterSpellFacts.v — C11 for consistent inputs: the document the building pass sees under a filter is again
   a consistent input, spelling the histories of exactly the selected families; so every selected family is
   loaded with the same members, levels and duplications as in the unfiltered load, and everything proved for
   consistent inputs holds for the filtered analysis. *)
From Coq Require Import List Arith Bool String Lia Permutation.
From PyHam Require Import Tax Ortho Loader Mapper Preds Filter Hist Spell Whole.
From PyHam.proofs Require Import TaxFacts MapperFacts ForestFacts ClusterFacts LoaderFacts ExplicitFacts FilterFacts
  ChainFacts CladeFacts SpellFacts WholeFacts.
Import ListNotations.

(* ---------- the genes of a history, and what its spellings reference ---------- *)
Fixpoint hgids (h : hist) : list string :=
  match h with
  | XG g _ => [g]
  | XH _ lins => flat_map (flat_map hgids) lins
  end.

Scheme sp_member_mut := Induction for sp_member Sort Prop
  with sp_body_mut := Induction for sp_body Sort Prop
  with sp_units_mut := Induction for sp_units Sort Prop.
Combined Scheme sp_mutind from sp_member_mut, sp_body_mut, sp_units_mut.

Lemma spelling_refs t :
  (forall mp h its lv, sp_member t mp h its lv -> incl (hgids h) (flat_map refs_of its)) /\
  (forall sgl p lins body, sp_body t sgl p lins body -> incl (flat_map (flat_map hgids) lins) (flat_map refs_of body)) /\
  (forall cs body lvls, sp_units t cs body lvls -> incl (flat_map hgids cs) (flat_map refs_of body)).
Proof.
  apply sp_mutind.
  - intros mp g p x Hx. simpl in *. auto.
  - intros mp g p n id og Hn x Hx. simpl in *. auto.
  - intros mp p lins id og body Hb IH Hl x Hx. cbn [hgids] in Hx. cbn [flat_map refs_of]. rewrite app_nil_r. apply IH. exact Hx.
  - intros mp p c its lv Hm IH x Hx. cbn [hgids flat_map] in Hx. rewrite !app_nil_r in Hx. apply IH. exact Hx.
  - intros p cs og body lvls H2 Hu IH Hl x Hx. cbn [hgids flat_map] in Hx. rewrite app_nil_r in Hx.
    cbn [flat_map refs_of]. rewrite app_nil_r. apply IH. exact Hx.
  - intros sgl p x Hx. contradiction.
  - intros sgl p it lins body Ha Hb IH x Hx. cbn [flat_map]. apply in_or_app. right. apply IH. exact Hx.
  - intros sgl p c lr its lv body Hm IHm Hex Hb IHb x Hx. cbn [flat_map] in Hx. rewrite app_nil_r in Hx.
    rewrite flat_map_app. apply in_app_or in Hx as [Hx|Hx]; apply in_or_app; [left; apply IHm|right; apply IHb]; exact Hx.
  - intros sgl p cs lr og pgbody lvls body H2 Hu IHu Hl Hb IHb x Hx. cbn [flat_map] in *.
    apply in_app_or in Hx as [Hx|Hx]; apply in_or_app; [left; apply IHu|right; apply IHb]; exact Hx.
  - intros x Hx. contradiction.
  - intros it cs body lvls Ha Hu IH x Hx. cbn [flat_map]. apply in_or_app. right. apply IH. exact Hx.
  - intros c cr its l body lvls Hm IHm Hu IHu x Hx. cbn [flat_map] in Hx. rewrite flat_map_app.
    apply in_app_or in Hx as [Hx|Hx]; apply in_or_app; [left; apply IHm|right; apply IHu]; exact Hx.
  - intros og cs1 cs2 inner body lv1 lv2 Hne H1 IH1 H2 IH2 x Hx. rewrite flat_map_app in Hx. cbn [flat_map refs_of].
    apply in_app_or in Hx as [Hx|Hx]; apply in_or_app; [left; apply IH1|right; apply IH2]; exact Hx.
Qed.

Lemma spells_top_refs t h it : spells_top t h it -> incl (hgids h) (refs_of it).
Proof.
  intros (p & lins & id & og & body & -> & -> & Hb & _). destruct (spelling_refs t) as (_ & H & _).
  cbn [hgids refs_of]. eapply H; eauto.
Qed.

(* ---------- well-formedness only looks at the genes of the history ---------- *)
Lemma WFh_ext t genes genes' h :
  (forall g, In g (hgids h) -> find_gene g genes' = find_gene g genes) -> WFh t genes h -> WFh t genes' h.
Proof.
  induction h as [g p|p lins IH] using hist_ind'; intros Hg Hwf.
  - destruct Hwf as [Hf Hl]. split; [|exact Hl]. rewrite Hg; [exact Hf|]. left. reflexivity.
  - cbn [WFh] in *. destruct Hwf as (Hv & Hl & Hne & Hnd & Hall). repeat (split; [assumption|]).
    apply allP_Forall. apply allP_Forall in Hall. rewrite Forall_forall in *. intros l Hlin.
    destruct (Hall l Hlin) as [Hlne Hm]. split; [exact Hlne|]. apply allP_Forall. apply allP_Forall in Hm.
    rewrite Forall_forall in *. intros c Hc. destruct (Hm c Hc) as (Hw & R). split; [|exact R].
    specialize (IH l Hlin). rewrite Forall_forall in IH. apply (IH c Hc); [|exact Hw].
    intros g Hin. apply Hg. cbn [hgids]. apply in_flat_map. exists l. split; [exact Hlin|]. apply in_flat_map. exists c. auto.
Qed.

(* ---------- gene tables ---------- *)
Lemma find_gene_in genes g p : NoDup (map fst genes) -> (find_gene g genes = Some p <-> In (g, p) genes).
Proof.
  induction genes as [|[g' p'] r IH]; intros Hn; simpl; [split; [discriminate|contradiction]|].
  inversion Hn as [|? ? Hx Hr]; subst. destruct (String.eqb g g') eqn:E.
  - apply String.eqb_eq in E. subst g'. split.
    + intros H. inversion H. left. reflexivity.
    + intros [H|H]; [inversion H; reflexivity|]. exfalso. apply Hx. apply in_map_iff. exists (g, p). auto.
  - rewrite (IH Hr). split; [auto|]. intros [H|H]; [|exact H]. inversion H; subst. rewrite String.eqb_refl in E. discriminate.
Qed.

Lemma nodup_app_disjoint {X} (a b : list X) x : NoDup (a ++ b) -> In x a -> In x b -> False.
Proof.
  induction a as [|y a IH]; intros Hn Ha Hb; [contradiction|]. simpl in Hn. inversion Hn as [|? ? Hy Hr]; subst.
  destruct Ha as [->|Ha]; [apply Hy; apply in_or_app; right; exact Hb|apply IH; auto].
Qed.

Lemma unique_block {X} (f : X -> list string) l a b g :
  NoDup (flat_map f l) -> In a l -> In b l -> In g (f a) -> In g (f b) -> a = b.
Proof.
  induction l as [|x r IH]; intros Hn Ha Hb Hga Hgb; [contradiction|]. simpl in Hn.
  destruct Ha as [->|Ha], Hb as [->|Hb]; try reflexivity.
  - exfalso. eapply nodup_app_disjoint; [exact Hn|exact Hga|]. apply in_flat_map. eauto.
  - exfalso. eapply nodup_app_disjoint; [exact Hn|exact Hgb|]. apply in_flat_map. eauto.
  - apply IH; auto. eapply nodup_app_r. exact Hn.
Qed.

Definition psp (gsel : list string) (sp : species) : species :=
  {| sp_name := sp_name sp; sp_genes := filter (fun g => mem_str (gd_id g) gsel) (sp_genes sp) |}.

Lemma declared_project gsel hsel d :
  declared (project_doc gsel hsel d) = filter (fun g => mem_str g gsel) (declared d).
Proof.
  unfold declared, project_doc. cbn [d_species]. induction (d_species d) as [|sp r IH]; [reflexivity|].
  cbn [map flat_map sp_genes]. rewrite filter_app, IH. f_equal.
  clear. induction (sp_genes sp) as [|g gs IHg]; [reflexivity|]. cbn [filter map]. destruct (mem_str (gd_id g) gsel); cbn [map]; rewrite IHg; reflexivity.
Qed.

Lemma tables_agree t d gsel hsel genes genes' :
  NoDup (declared d) -> map fst genes = declared d ->
  (forall g p, In (g, p) genes -> exists sp, In sp (d_species d) /\ In g (map gd_id (sp_genes sp)) /\ species_resolves t sp p) ->
  map fst genes' = declared (project_doc gsel hsel d) ->
  (forall g p, In (g, p) genes' -> exists sp, In sp (d_species (project_doc gsel hsel d)) /\ In g (map gd_id (sp_genes sp)) /\ species_resolves t sp p) ->
  forall g, In g (declared (project_doc gsel hsel d)) -> find_gene g genes' = find_gene g genes.
Proof.
  intros Hnd Hm Hr Hm' Hr' g Hg.
  assert (Hnd' : NoDup (map fst genes')) by (rewrite Hm', declared_project; apply nodup_filter; exact Hnd).
  assert (Hndg : NoDup (map fst genes)) by (rewrite Hm; exact Hnd).
  rewrite <- Hm' in Hg. apply in_map_iff in Hg as ([g0 p'] & Eg & Hin'). simpl in Eg. subst g0.
  destruct (Hr' g p' Hin') as (sp' & Hsp' & Hgsp' & (Hs' & _)).
  unfold project_doc in Hsp'. cbn [d_species] in Hsp'. apply in_map_iff in Hsp' as (sp1 & <- & Hsp1).
  cbn [sp_genes sp_name] in *. apply in_map_iff in Hgsp' as (gd & Egd & Hgd). apply filter_In in Hgd as [Hgd _].
  assert (Hg1 : In g (map gd_id (sp_genes sp1))) by (rewrite <- Egd; apply in_map; exact Hgd).
  assert (Hgd' : In g (map fst genes)).
  { rewrite Hm. unfold declared. apply in_flat_map. eauto. }
  apply in_map_iff in Hgd' as ([g0 p] & Eg & Hin). simpl in Eg. subst g0.
  destruct (Hr g p Hin) as (sp0 & Hsp0 & Hgsp0 & (Hs0 & _)).
  assert (sp0 = sp1) by (eapply (unique_block (fun sp => map gd_id (sp_genes sp))); eauto). subst sp0.
  rewrite Hs0 in Hs'. inversion Hs'; subst p'.
  rewrite (proj2 (find_gene_in genes' g p Hnd') Hin'), (proj2 (find_gene_in genes g p Hndg) Hin). reflexivity.
Qed.

(* ---------- the projected document ---------- *)
Definition keep (hsel : list string) (it : item) : bool :=
  match it with IOG (Some i) _ _ => mem_str i hsel | _ => false end.

Definition sel_hs (k : item -> bool) (hs : list hist) (items : list item) : list hist :=
  map fst (filter (fun hi => k (snd hi)) (combine hs items)).

Lemma Forall2_filter_combine {X Y} (R : X -> Y -> Prop) (k : Y -> bool) l1 l2 :
  Forall2 R l1 l2 -> Forall2 R (map fst (filter (fun hi => k (snd hi)) (combine l1 l2))) (filter k l2).
Proof. induction 1 as [|a b r1 r2 Hab HF IH]; simpl; [constructor|]. destruct (k b); simpl; [constructor; auto|exact IH]. Qed.

Lemma Forall2_in_combine {X Y} (R : X -> Y -> Prop) l1 l2 a b : Forall2 R l1 l2 -> In (a, b) (combine l1 l2) -> R a b.
Proof. induction 1 as [|x y r1 r2 Hxy HF IH]; simpl; [contradiction|]. intros [E|H]; [inversion E; subst; exact Hxy|auto]. Qed.

Lemma filter_ext_in' {X} (p q : X -> bool) l : (forall x, In x l -> p x = q x) -> filter p l = filter q l.
Proof.
  induction l as [|x r IH]; intros H; simpl; [reflexivity|].
  rewrite (H x (or_introl eq_refl)), IH by (intros y Hy; apply H; right; exact Hy). reflexivity.
Qed.

Lemma keep_selected f direct groups :
  Forall is_idd_group groups -> NoDup (flat_map group_id groups) ->
  filter (keep (flat_map group_id (filter (selected f direct) groups))) groups = filter (selected f direct) groups.
Proof.
  intros Hidd Hn. set (hsel := flat_map group_id (filter (selected f direct) groups)).
  apply filter_ext_in'. intros it Hit. rewrite Forall_forall in Hidd. destruct (Hidd it Hit) as (i & og & body & ->).
  cbn [keep]. destruct (selected f direct (IOG (Some i) og body)) eqn:E.
  - apply mem_str_in. unfold hsel. apply in_flat_map. exists (IOG (Some i) og body). split; [apply filter_In; auto|left; reflexivity].
  - destruct (mem_str i hsel) eqn:Em; [|reflexivity]. exfalso. apply mem_str_in in Em. unfold hsel in Em.
    apply in_flat_map in Em as (it' & Hit' & Hi). apply filter_In in Hit' as [Hit' Es].
    assert (it' = IOG (Some i) og body).
    { eapply (unique_block group_id groups); eauto. left. reflexivity. }
    subst it'. congruence.
Qed.

Lemma NoDup_flat_map_filter {X} (f : X -> list string) (k : X -> bool) l : NoDup (flat_map f l) -> NoDup (flat_map f (filter k l)).
Proof.
  induction l as [|x r IH]; intros Hn; [constructor|]. simpl in Hn. cbn [filter]. destruct (k x).
  - cbn [flat_map]. apply nodup_app_intro.
    + eapply nodup_app_l. exact Hn.
    + apply IH. eapply nodup_app_r. exact Hn.
    + intros g Hg1 Hg2. eapply nodup_app_disjoint; [exact Hn|exact Hg1|]. apply in_flat_map in Hg2 as (y & Hy & Hgy).
      apply filter_In in Hy as [Hy _]. apply in_flat_map. eauto.
  - apply IH. eapply nodup_app_r. exact Hn.
Qed.

Theorem projected_consistent t f d hs gsel hsel :
  consistent t d hs -> Forall is_idd_group (d_groups d) -> NoDup (flat_map group_id (d_groups d)) ->
  pass1 f d = Ok (gsel, hsel) ->
  consistent t (project_doc gsel hsel d) (sel_hs (keep hsel) hs (d_groups d)).
Proof.
  intros Hc Hidd Hids Hp. pose proof Hc as (H1 & H2 & H3 & H4 & H5).
  rewrite (pass1_spec f d Hidd H3) in Hp.
  set (direct := direct_genes f d) in *. set (sel := filter (selected f direct) (d_groups d)) in *.
  assert (Eg : direct ++ flat_map refs_of sel = gsel) by (injection Hp; auto).
  assert (Eh : flat_map group_id sel = hsel) by (injection Hp; auto).
  clear Hp.
  assert (Hkeep : filter (keep hsel) (d_groups d) = sel) by (rewrite <- Eh; apply keep_selected; assumption).
  destruct (consistent_forest t d hs Hc) as (l & El & _).
  split; [|split; [|split; [|split]]].
  - unfold project_doc. cbn [d_species]. apply Forall_forall. intros sp' Hsp'. apply in_map_iff in Hsp' as (sp & <- & Hsp).
    rewrite Forall_forall in H1. exact (H1 sp Hsp).
  - rewrite declared_project. apply nodup_filter. exact H2.
  - unfold project_doc. cbn [d_groups]. fold (keep hsel). apply NoDup_flat_map_filter. exact H3.
  - unfold project_doc. cbn [d_groups]. fold (keep hsel). unfold sel_hs. apply Forall2_filter_combine. exact H4.
  - intros genes' Hm' Hr'.
    destruct (species_fold_ok t (d_species d) [] init_state H1 H2) as (genes & s0 & E0 & _).
    pose proof (species_fold_spec t _ _ _ _ _ E0) as (I1 & _ & _ & I4). simpl in I1.
    assert (I4' : forall g p, In (g, p) genes -> exists sp, In sp (d_species d) /\ In g (map gd_id (sp_genes sp)) /\ species_resolves t sp p).
    { intros g p Hin. apply I4 in Hin as [[]|Hin]. exact Hin. }
    pose proof (H5 genes I1 I4') as Hwf. rewrite Forall_forall in Hwf.
    apply Forall_forall. intros h Hh. unfold sel_hs in Hh. apply in_map_iff in Hh as ([h0 it] & Eh0 & Hhi). simpl in Eh0. subst h0.
    apply filter_In in Hhi as [Hhi Hk]. simpl in Hk.
    pose proof (Forall2_in_combine _ _ _ _ _ H4 Hhi) as Hsp.
    eapply (WFh_ext t genes genes'); [|apply Hwf; eapply in_combine_l; eauto].
    intros g Hg. apply (tables_agree t d gsel hsel genes genes' H2 I1 I4' Hm' Hr').
    rewrite declared_project. apply filter_In.
    assert (Hrefs : In g (refs_of it)) by (eapply spells_top_refs; eauto).
    assert (Hit : In it (filter (keep hsel) (d_groups d))) by (apply filter_In; split; [eapply in_combine_r; eauto|exact Hk]).
    split.
    + eapply (refs_declared t d l El). apply in_flat_map. exists it. split; [eapply in_combine_r; eauto|exact Hrefs].
    + apply mem_str_in. rewrite <- Eg. apply in_or_app. right. rewrite <- Hkeep. apply in_flat_map. eauto.
Qed.
