(* Export.v — OrthoXML_manager._add_groups / _add_species_data (pyham/iham.py) as a function of a
   loaded HOG.  Behaviour modelled is that of /repo with finding F5 repaired (a group is elided
   only when the element it would be written into is an orthologGroup).
   Model only: no proofs in this file. *)
From Coq Require Import List Arith Bool String.
From PyHam Require Import Tax Ortho Loader Mapper Nav.
Import ListNotations.

Definition is_member (k : nat) (kd : kid) : bool :=
  match fst kd with Some k' => Nat.eqb k k' | None => false end.

Definition id_text (m : hmeta) : string :=
  match hog_id_of m with Some i => i | None => "None"%string end.

Definition tax_name (t : stree) (p : taxon) : string :=
  match name_of t p with Some n => n | None => ""%string end.

(* _visit / _process_child; the result is spliced into the enclosing element *)
Fixpoint export (t : stree) (can_elide : bool) (h : hog) {struct h} : list item :=
  match h with
  | HGene g _ => [IGene g None]
  | HHog _ p m ks =>
      let dks := dup_keys ks [] in
      let nplain := List.length (filter (fun kd => negb (flagged (fst kd))) ks) in
      let elide := can_elide &&
                   (Nat.eqb (List.length ks) 1 ||
                    (negb (Nat.eqb (List.length ks) 1) && Nat.eqb (List.length dks) 1 && Nat.eqb nplain 0)) in
      (* the flag handed to the plain children: is the orthologGroup they are written into "wide"? *)
      let wide := if elide then true else Nat.leb 2 (List.length dks + nplain) in
      let body :=
        map (fun k => IPG None (flat_map (fun kd => if is_member k kd then export t false (snd kd) else []) ks)) dks
        ++ flat_map (fun kd => if flagged (fst kd) then [] else export t wide (snd kd)) ks in
      if elide then body
      else [IOG (Some (id_text m)) None (IProp "TaxRange" (tax_name t p) :: body)]
  end.

Definition export_groups (t : stree) (h : hog) : list item := export t false h.

(* species blocks: one per species with a member gene; every gene with id and protId *)
Definition export_species (t : stree) (protid : string -> string) (h : hog) : list species :=
  map (fun pg => {| sp_name := tax_name t (fst pg);
                    sp_genes := map (fun g => {| gd_id := g; gd_xrefs := [("protId"%string, protid g)] |}) (snd pg) |})
      (rev (genes_by_species h)).

Definition export_doc (t : stree) (protid : string -> string) (h : hog) : doc :=
  {| d_species := export_species t protid h; d_groups := export_groups t h |}.
