(* LoftFacts.v — LOFT ids: only <geneRef LOFT=...> writes them (Gene.set_LOFT), once per gene; everything else
   the loader does leaves them alone.  Generic facts about eval_item, for any element. *)
From Coq Require Import List Arith Bool String Lia Permutation.
From PyHam Require Import Tax Ortho Loader Filter.
From PyHam.proofs Require Import TaxFacts MapperFacts ForestFacts LoaderFacts RegFacts.
Import ListNotations.

Definition lsame (s s' : lstate) : Prop := s_lofts s' = s_lofts s.

Lemma lsame_refl s : lsame s s.
Proof. reflexivity. Qed.
Lemma lsame_trans a b c : lsame a b -> lsame b c -> lsame a c.
Proof. unfold lsame. congruence. Qed.

Lemma ensure_lsame p s u s' : ensure_genome p s = Ok (u, s') -> lsame s s'.
Proof. unfold ensure_genome. destruct (mem_tax p (s_genomes s)); intros H; inversion H; reflexivity. Qed.
Lemma fresh_oid_lsame s o s' : fresh_oid s = Ok (o, s') -> lsame s s'.
Proof. unfold fresh_oid. intros H; inversion H; reflexivity. Qed.
Lemma register_lsame p r s u s' : register p r s = Ok (u, s') -> lsame s s'.
Proof. unfold register. intros H; inversion H; reflexivity. Qed.
Lemma fresh_dup_lsame og s k s' : fresh_dup og s = Ok (k, s') -> lsame s s'.
Proof. unfold fresh_dup. intros H; inversion H; reflexivity. Qed.
Lemma dup_update_lsame k f s u s' : dup_update k f s = Ok (u, s') -> lsame s s'.
Proof. unfold dup_update. destruct (dup_lookup k (s_dups s)); intros H; inversion H; reflexivity. Qed.

Lemma chain_lsame hid path : forall fl c s h s', chain hid path fl c s = Ok (h, s') -> lsame s s'.
Proof.
  induction path as [|tx r IH]; intros fl c s h s' H.
  - apply ret_ok in H as [_ <-]. reflexivity.
  - cbn [chain] in H. inv_bind_as H u1 t1 E1 K1. inv_bind_as K1 o t2 E2 K2. inv_bind_as K2 u3 t3 E3 K3.
    eapply lsame_trans; [eapply ensure_lsame; eauto|]. eapply lsame_trans; [eapply fresh_oid_lsame; eauto|].
    eapply lsame_trans; [eapply register_lsame; eauto|]. eapply IH; eauto.
Qed.

Lemma lift_member_lsame hid target k c s kd s' : lift_member hid target k c s = Ok (kd, s') -> lsame s s'.
Proof.
  unfold lift_member. intros H. inv_bind_as H cid t1 E1 K1. inv_bind_as K1 top t2 E2 K2.
  apply ret_ok in K2 as [_ <-]. apply chain_id_regs in E1. subst t1. eapply chain_lsame; eauto.
Qed.

Lemma mapM_lsame {X Y} (f : X -> M Y) :
  (forall c s y s', f c s = Ok (y, s') -> lsame s s') -> forall l s rs s', mapM f l s = Ok (rs, s') -> lsame s s'.
Proof.
  intros Hf. induction l as [|c r IH]; intros s rs s' H.
  - apply ret_ok in H as [_ <-]. reflexivity.
  - cbn [mapM] in H. inv_bind_as H y t1 E1 K1. inv_bind_as K1 rs' t2 E2 K2. apply ret_ok in K2 as [_ <-].
    eapply lsame_trans; [eapply Hf; eauto|eapply IH; eauto].
Qed.

Lemma rehome_lsame hid hoid lvl ks k s ks' s' : rehome hid hoid lvl ks k s = Ok (ks', s') -> lsame s s'.
Proof.
  unfold rehome. intros H. inv_bind_as H m t0 E0 K0. apply dup_mrca_regs in E0. subst t0.
  destruct m as [a|]; [|discriminate]. destruct (negb (taxon_eqb a lvl)).
  - inv_bind_as K0 u1 t1 E1 K1. inv_bind_as K1 mo t2 E2 K2. inv_bind_as K2 u3 t3 E3 K3.
    inv_bind_as K3 lifted t4 E4 K4. inv_bind_as K4 u5 t5 E5 K5. apply ret_ok in K5 as [_ <-].
    eapply lsame_trans; [eapply ensure_lsame; eauto|]. eapply lsame_trans; [eapply fresh_oid_lsame; eauto|].
    eapply lsame_trans; [eapply register_lsame; eauto|].
    eapply lsame_trans; [eapply (mapM_lsame (lift_member hid a k)); [intros c s0 y s0' Hc; eapply lift_member_lsame; eauto|exact E4]|].
    eapply dup_update_lsame; eauto.
  - inv_bind_as K0 u1 t1 E1 K1. inv_bind_as K1 lifted t2 E2 K2. apply ret_ok in K2 as [_ <-].
    eapply lsame_trans; [eapply dup_update_lsame; eauto|].
    eapply (mapM_lsame (lift_member hid lvl k)); [intros c s0 y s0' Hc; eapply lift_member_lsame; eauto|exact E2].
Qed.

Lemma foldM_rehome_lsame hid hoid lvl keys : forall ks s ks' s',
  foldM (rehome hid hoid lvl) keys ks s = Ok (ks', s') -> lsame s s'.
Proof.
  induction keys as [|k r IH]; intros ks s ks' s' H.
  - apply ret_ok in H as [_ <-]. reflexivity.
  - cbn [foldM] in H. inv_bind_as H ks1 t1 E1 K1. eapply lsame_trans; [eapply rehome_lsame; eauto|eapply IH; eauto].
Qed.

Lemma lift_generic_lsame hid lvl kd s kd' s' : lift_generic hid lvl kd s = Ok (kd', s') -> lsame s s'.
Proof.
  unfold lift_generic. intros H. inv_bind_as H cid t1 E1 K1. apply chain_id_regs in E1. subst t1.
  destruct (path_up (htax (snd kd)) lvl) as [|tx r].
  - apply ret_ok in K1 as [_ <-]. reflexivity.
  - inv_bind_as K1 top t2 E2 K2. apply ret_ok in K2 as [_ <-]. eapply chain_lsame; eauto.
Qed.

Lemma generic_pass_lsame hid lvl ks s ks' s' : generic_pass hid lvl ks s = Ok (ks', s') -> lsame s s'.
Proof.
  unfold generic_pass. intros H. inv_bind_as H lifted t1 E1 K1. apply ret_ok in K1 as [_ <-].
  eapply (mapM_lsame (lift_generic hid lvl)); [intros c s0 y s0' Hc; eapply lift_generic_lsame; eauto|exact E1].
Qed.

Lemma set_mrca_lsame k members s u s' : set_mrca k members s = Ok (u, s') -> lsame s s'.
Proof.
  unfold set_mrca. destruct (dedup_tax (map htax members)) as [|x [|y r]]; [discriminate| |].
  - intros H. inv_bind_as H q t1 E1 K1. inv_bind_as K1 u2 t2 E2 K2.
    apply up_or_fail_regs in E1. subst t1. eapply lsame_trans; [eapply ensure_lsame; eauto|eapply dup_update_lsame; eauto].
  - intros H. inv_bind_as H u1 t1 E1 K1. inv_bind_as K1 q t2 E2 K2. inv_bind_as K2 u3 t3 E3 K3.
    apply up_or_fail_regs in E2. subst t2.
    eapply lsame_trans; [eapply ensure_lsame; eauto|]. eapply lsame_trans; [eapply ensure_lsame; eauto|eapply dup_update_lsame; eauto].
Qed.

Lemma close_og_lsame t top id og fr s c s' : close_og t top id og fr s = Ok (c, s') -> lsame s s'.
Proof.
  unfold close_og. destruct (dedup_tax (map (fun kd => htax (snd kd)) (f_kids fr))) as [|x more] eqn:Ed; [discriminate|].
  match goal with |- context [if ?b then _ else _] => destruct b end.
  - destruct top; [discriminate|]. intros H. apply ret_ok in H as [_ <-]. reflexivity.
  - intros H. inv_bind_as H lvl0 t1 E1 K1. inv_bind_as K1 lvl t2 E2 K2. inv_bind_as K2 u3 t3 E3 K3.
    inv_bind_as K3 o t4 E4 K4. inv_bind_as K4 u5 t5 E5 K5. inv_bind_as K5 ks1 t6 E6 K6. inv_bind_as K6 ks2 t7 E7 K7.
    apply ret_ok in K7 as [_ <-].
    assert (t1 = s).
    { destruct more; [apply up_or_fail_regs in E1; auto|apply ret_ok in E1 as [_ <-]; reflexivity]. }
    subst t1. apply lift_level_regs in E2. subst t2.
    eapply lsame_trans; [eapply ensure_lsame; eauto|]. eapply lsame_trans; [eapply fresh_oid_lsame; eauto|].
    eapply lsame_trans; [eapply register_lsame; eauto|]. eapply lsame_trans; [eapply foldM_rehome_lsame; eauto|].
    eapply generic_pass_lsame; eauto.
Qed.

(* ---------- what an element may add ---------- *)
(* a gene has a LOFT id in s' only if it had one in s or is referenced in G *)
Definition lgrow (s s' : lstate) (G : list string) : Prop :=
  forall g, assoc g (s_lofts s') <> None -> assoc g (s_lofts s) <> None \/ In g G.

Lemma lgrow_same s s' G : lsame s s' -> lgrow s s' G.
Proof. intros H g Hg. left. rewrite <- H. exact Hg. Qed.
Lemma lgrow_trans a b c G1 G2 : lgrow a b G1 -> lgrow b c G2 -> lgrow a c (G1 ++ G2).
Proof.
  intros H1 H2 g Hg. destruct (H2 g Hg) as [Hb|Hin]; [|right; apply in_or_app; right; exact Hin].
  destruct (H1 g Hb) as [Ha|Hin]; [left; exact Ha|right; apply in_or_app; left; exact Hin].
Qed.
Lemma lgrow_weaken s s' G G' : (forall g, In g G -> In g G') -> lgrow s s' G -> lgrow s s' G'.
Proof. intros Hi H g Hg. destruct (H g Hg); auto. Qed.

Lemma set_loft_lgrow g l s u s' : set_loft g l s = Ok (u, s') -> lgrow s s' [g].
Proof.
  unfold set_loft. destruct (assoc g (s_lofts s)) eqn:E; [discriminate|]. intros H. inversion H; subst. intros g' Hg'.
  cbn [s_lofts assoc] in Hg'. destruct (String.eqb g' g) eqn:Eg.
  - apply String.eqb_eq in Eg. subst. right. left. reflexivity.
  - left. exact Hg'.
Qed.

Definition item_lgrow (t : stree) (genes : list (string * taxon)) (it : item) : Prop :=
  forall pg fr s fr' s', eval_item t genes it pg fr s = Ok (fr', s') -> lgrow s s' (refs_of it).

Lemma body_lgrow t genes pg l : forall acc s0 acc' s0',
  Forall (item_lgrow t genes) l ->
  (fix go (l : list item) (acc : frame) : M frame :=
     match l with
     | [] => ret acc
     | x :: r => bind (eval_item t genes x pg acc) (fun acc' => go r acc')
     end) l acc s0 = Ok (acc', s0') -> lgrow s0 s0' (flat_map refs_of l).
Proof.
  induction l as [|x r IHr]; intros acc s0 acc' s0' HF Hgo.
  - apply ret_ok in Hgo as [_ <-]. apply lgrow_same. reflexivity.
  - inversion HF as [|? ? Hx Hr]; subst. inv_bind_as Hgo acc1 t1 E1 K1. cbn [flat_map].
    eapply lgrow_trans; [eapply Hx; eauto|eapply IHr; eauto].
Qed.

Lemma eval_item_lgrow t genes it : item_lgrow t genes it.
Proof.
  induction it as [g l|id og body IH|og body IH|n v|n v] using item_ind'; intros pg fr s fr' s' H.
  - cbn [eval_item] in H.
    match type of H with context [match ?f with _ => _ end] => destruct f as [p|] eqn:Ef end; [|discriminate].
    inv_bind_as H u1 t1 E1 K1. apply ret_ok in K1 as [_ <-]. cbn [refs_of].
    destruct l; [eapply set_loft_lgrow; eauto|apply ret_ok in E1 as [_ <-]; apply lgrow_same; reflexivity].
  - cbn [eval_item] in H. inv_bind_as H inner t1 Einner K1. inv_bind_as K1 cl t2 Eclose K2.
    pose proof (body_lgrow t genes None body empty_frame s inner t1 IH Einner) as Hb.
    apply close_og_lsame in Eclose. cbn [refs_of].
    assert (t2 = s') by (destruct cl; apply ret_ok in K2 as [_ <-]; reflexivity). subst t2.
    intros g Hg. apply Hb. rewrite <- Eclose. exact Hg.
  - cbn [eval_item] in H. inv_bind_as H k t1 Ek K1. inv_bind_as K1 fr1 t2 Ebody K2. inv_bind_as K2 uc tc Ec Kc.
    apply chk_ok in Ec as [-> _]. inv_bind_as Kc u3 t3 E3 K3.
    apply ret_ok in K3 as [_ <-].
    assert (Hs1 : lsame s t1).
    { destruct pg; [apply ret_ok in Ek as [_ <-]; reflexivity|eapply fresh_dup_lsame; eauto]. }
    apply set_mrca_lsame in E3. pose proof (body_lgrow t genes (Some k) body fr t1 fr1 t2 IH Ebody) as Hb. cbn [refs_of].
    intros g Hg. rewrite E3 in Hg. destruct (Hb g Hg) as [H1|H1]; [left; rewrite <- Hs1; exact H1|right; exact H1].
  - cbn [eval_item] in H. apply ret_ok in H as [_ <-]. apply lgrow_same. reflexivity.
  - cbn [eval_item] in H. apply ret_ok in H as [_ <-]. apply lgrow_same. reflexivity.
Qed.

Lemma eval_top_lgrow t genes it s r s' : eval_top t genes it s = Ok (r, s') -> lgrow s s' (refs_of it).
Proof.
  destruct it as [g l|id og body|og body|n v|n v]; try discriminate.
  cbn [eval_top]. intros H. inv_bind_as H inner t1 Einner K1. inv_bind_as K1 cl t2 Eclose K2.
  rewrite eval_body_eq in Einner.
  assert (IH : Forall (item_lgrow t genes) body) by (apply Forall_forall; intros x _; apply eval_item_lgrow).
  pose proof (body_lgrow t genes None body empty_frame s inner t1 IH Einner) as Hb.
  apply close_og_lsame in Eclose. destruct cl as [ks|h0]; [discriminate|]. apply ret_ok in K2 as [_ <-]. cbn [refs_of].
  intros g Hg. apply Hb. rewrite <- Eclose. exact Hg.
Qed.

(* ---------- freshness ---------- *)
Definition lfresh (s : lstate) (G : list string) : Prop := forall g, In g G -> assoc g (s_lofts s) = None.

Lemma lfresh_app s A B : lfresh s (A ++ B) -> lfresh s A /\ lfresh s B.
Proof. intros H. split; intros g Hg; apply H; apply in_or_app; auto. Qed.

Lemma lfresh_same s s' G : lsame s s' -> lfresh s G -> lfresh s' G.
Proof. intros E H g Hg. rewrite E. apply H. exact Hg. Qed.

Lemma NoDup_app_disj {X} (a b : list X) x : NoDup (a ++ b) -> In x a -> In x b -> False.
Proof.
  induction a as [|y a IH]; intros Hn Ha Hb; [contradiction|]. simpl in Hn. inversion Hn as [|? ? Hy Hr]; subst.
  destruct Ha as [->|Ha]; [apply Hy; apply in_or_app; right; exact Hb|apply IH; auto].
Qed.

(* after the first part has been evaluated, the genes of the rest are still without LOFT id *)
Lemma lfresh_step s s1 A B : NoDup (A ++ B) -> lfresh s (A ++ B) -> lgrow s s1 A -> lfresh s1 B.
Proof.
  intros Hn Hf Hg g HgB. destruct (assoc g (s_lofts s1)) eqn:E; [|reflexivity]. exfalso.
  destruct (Hg g) as [H|H]; [congruence| |].
  - apply H. apply Hf. apply in_or_app. right. exact HgB.
  - eapply NoDup_app_disj; eauto.
Qed.

Lemma genes_fold_lsame p gs : forall acc s acc' s',
  foldM (fun acc g =>
           if existsb (fun x => String.eqb (gd_id g) (fst x)) acc then fail Unmodelled
           else bind (register p (RGene (gd_id g))) (fun _ => ret (acc ++ [(gd_id g, p)]))) gs acc s = Ok (acc', s') ->
  lsame s s'.
Proof.
  induction gs as [|g r IH]; intros acc s acc' s' H.
  - apply ret_ok in H as [_ <-]. reflexivity.
  - cbn [foldM] in H. inv_bind_as H acc2 t3 E3 K3.
    destruct (existsb (fun x => String.eqb (gd_id g) (fst x)) acc); [discriminate|].
    inv_bind_as E3 u4 t4 E4 K4. apply ret_ok in K4 as [_ <-].
    eapply lsame_trans; [eapply register_lsame; eauto|eapply IH; eauto].
Qed.

Lemma species_lsame t sps : forall acc s acc' s',
  foldM (fun acc sp => load_species t sp acc) sps acc s = Ok (acc', s') -> lsame s s'.
Proof.
  induction sps as [|sp r IH]; intros acc s acc' s' H.
  - apply ret_ok in H as [_ <-]. reflexivity.
  - cbn [foldM] in H. inv_bind_as H acc1 t1 E1 K1. eapply lsame_trans; [|eapply IH; eauto].
    unfold load_species in E1. destruct (search t (sp_name sp)) as [|p [|q r']]; try discriminate.
    destruct (negb (is_leaf t p)); [discriminate|]. inv_bind_as E1 u1 t2 E2 K2.
    eapply lsame_trans; [eapply ensure_lsame; eauto|eapply genes_fold_lsame; eauto].
Qed.
