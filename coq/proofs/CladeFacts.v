(* CladeFacts.v — common ancestors of taxa that lie in one clade (used for the level rule of groups whose
   members sit several levels below them). *)
From Coq Require Import List Arith Bool String Lia.
From PyHam Require Import Tax Ortho Loader.
From PyHam.proofs Require Import TaxFacts ForestFacts ExplicitFacts.
Import ListNotations.

Definition in_clade (X q : taxon) : Prop := exists s, q = s ++ X.

Lemma in_clade_refl X : in_clade X X.
Proof. exists []. reflexivity. Qed.

Lemma in_clade_trans X Y q : in_clade X Y -> in_clade Y q -> in_clade X q.
Proof. intros [s ->] [s' ->]. exists (s' ++ s). now rewrite app_assoc. Qed.

Lemma lcp_common_prefix r a b : lcp (r ++ a) (r ++ b) = r ++ lcp a b.
Proof. induction r as [|x r IH]; simpl; [reflexivity|]. now rewrite Nat.eqb_refl, IH. Qed.

Lemma lcs_clade X s1 s2 : in_clade X (lcs (s1 ++ X) (s2 ++ X)).
Proof.
  unfold lcs. rewrite !rev_app_distr, lcp_common_prefix, rev_app_distr, rev_involutive. eexists. reflexivity.
Qed.

Lemma fold_lcs_clade X r : forall x, in_clade X x -> Forall (in_clade X) r -> in_clade X (fold_left lcs r x).
Proof.
  induction r as [|y r IH]; intros x Hx Hr; simpl; [exact Hx|].
  inversion Hr as [|? ? Hy Hr']; subst. apply IH; [|exact Hr'].
  destruct Hx as [s1 ->], Hy as [s2 ->]. apply lcs_clade.
Qed.

Lemma lcs_is_suffix_r p q : exists s, q = s ++ lcs p q.
Proof. rewrite lcs_comm. apply lcs_is_suffix_l. Qed.

Lemma fold_lcs_suffix r : forall x e, In e (x :: r) -> in_clade (fold_left lcs r x) e.
Proof.
  induction r as [|y r IH]; intros x e Hin; simpl.
  - destruct Hin as [<-|[]]. apply in_clade_refl.
  - destruct Hin as [<-|[<-|Hin]].
    + eapply in_clade_trans; [apply (IH (lcs x y) (lcs x y)); left; reflexivity|]. apply lcs_is_suffix_l.
    + eapply in_clade_trans; [apply (IH (lcs x y) (lcs x y)); left; reflexivity|]. apply lcs_is_suffix_r.
    + apply IH. right. exact Hin.
Qed.

(* members in two different child clades of p: the common ancestor is p *)
Lemma fold_lcs_two_clades p r x s1 b1 s2 b2 :
  Forall (in_clade p) (x :: r) -> In (s1 ++ b1 :: p) (x :: r) -> In (s2 ++ b2 :: p) (x :: r) -> b1 <> b2 ->
  fold_left lcs r x = p.
Proof.
  intros Hall H1 H2 Hne. inversion Hall as [|? ? Hx Hr]; subst.
  destruct (fold_lcs_clade p r x Hx Hr) as [s Hs].
  destruct (fold_lcs_suffix r x _ H1) as [u1 E1]. destruct (fold_lcs_suffix r x _ H2) as [u2 E2].
  rewrite Hs in E1, E2 |- *.
  destruct s as [|a s] using rev_ind; [reflexivity|]. exfalso. clear IHs.
  rewrite <- app_assoc in E1, E2. simpl in E1, E2. rewrite app_assoc in E1, E2.
  apply app_eq_tail in E1; [|reflexivity]. apply app_eq_tail in E2; [|reflexivity].
  inversion E1. inversion E2. congruence.
Qed.

Lemma fold_lcs_nonroot X r x : X <> [] -> in_clade X x -> Forall (in_clade X) r -> fold_left lcs r x <> [].
Proof.
  intros HX Hx Hr E. destruct (fold_lcs_clade X r x Hx Hr) as [s Hs]. rewrite E in Hs.
  symmetry in Hs. apply app_eq_nil in Hs as [_ Hs]. contradiction.
Qed.
