"""Hand-minimised inputs of earlier findings; they run first in every stream that loads documents."""
import gen
import corpus

SIMPLE = '(XENTR,(((HUMAN,PANTR)Primates,(MOUSE,RATNO)Rodents)Euarchontoglires,CANFA)Mammalia)Vertebrata;'


def _case(groups, genes, tag, newick=SIMPLE, use_internal=True, histories=None):
    t = corpus.parse_newick(newick)
    species = {}
    for gid, sp in genes:
        species.setdefault(sp, []).append({'id': gid, 'protId': sp + gid})
    sp_list = [(k, v) for k, v in species.items()]
    stats = {'leaves': len(t.leaves()), 'families': len(groups), 'regress': tag}
    return gen.Case(t, sp_list, groups, use_internal=use_internal, histories=histories, tag='regress:' + tag, stats=stats)


def w(gid, sp):
    """species-level wrapper group (OMA 'augmented' spelling)"""
    return ('og', None, None, [('prop', 'TaxRange', sp), ('g', gid, None)])


def regress_cases():
    out = []
    # F1: a group whose only content is a paralogGroup with copies in two genomes
    out.append(_case([('og', 'f1', None, [('pg', None, [('g', '1', None), ('g', '2', None)])])],
                     [('1', 'HUMAN'), ('2', 'MOUSE')], 'F1-sole-paralog-group'))
    # F1 inside a larger family
    out.append(_case([('og', 'f1b', None, [('g', '3', None),
                                           ('og', 'f1b.m', None, [('pg', None, [('g', '1', None), ('g', '2', None)])])])],
                     [('1', 'HUMAN'), ('2', 'MOUSE'), ('3', 'XENTR')], 'F1-nested-sole-paralog-group'))
    # F2: species-level wrapper groups before a nested paralogGroup
    out.append(_case([('og', 'f2', None, [('g', '5', None),
                                          ('pg', None, [w('1', 'HUMAN'),
                                                        ('pg', None, [w('2', 'HUMAN'), w('3', 'HUMAN')]),
                                                        w('4', 'HUMAN')])])],
                     [('1', 'HUMAN'), ('2', 'HUMAN'), ('3', 'HUMAN'), ('4', 'HUMAN'), ('5', 'PANTR')],
                     'F2-wrapper-then-nested-paralog-group'))
    # the same duplication with the nested group first (loads correctly on the unchanged tree)
    out.append(_case([('og', 'f2b', None, [('g', '5', None),
                                           ('pg', None, [('pg', None, [w('2', 'HUMAN'), w('3', 'HUMAN')]),
                                                         w('1', 'HUMAN'), w('4', 'HUMAN')])])],
                     [('1', 'HUMAN'), ('2', 'HUMAN'), ('3', 'HUMAN'), ('4', 'HUMAN'), ('5', 'PANTR')],
                     'F2-nested-first'))
    # F4: no family reaches the root of the tree
    out.append(_case([('og', 'f4', None, [('g', '1', None), ('g', '2', None)])],
                     [('1', 'HUMAN'), ('2', 'PANTR')], 'F4-no-family-at-root'))
    # F7: groups carrying og= only
    out.append(_case([('og', None, 'f7', [('g', '1', None), ('g', '2', None)])],
                     [('1', 'HUMAN'), ('2', 'PANTR')], 'F7-og-attribute-only'))
    # F5: a duplicated sub-HOG consisting solely of one duplication
    out.append(_case([('og', 'f5', None, [('g', '9', None),
                                          ('pg', None, [('og', 'f5.a', None, [('pg', None, [('g', '1', None), ('g', '2', None)])]),
                                                        ('og', 'f5.b', None, [('g', '3', None), ('g', '4', None)])])])],
                     [('1', 'HUMAN'), ('2', 'HUMAN'), ('3', 'HUMAN'), ('4', 'PANTR'), ('9', 'MOUSE')],
                     'F5-duplicated-subhog-solely-one-duplication'))
    # copies of a duplication two levels below their group, each skipping a level below the duplication's HOG
    out.append(_case([('og', 'deep', None, [('g', '3', None), ('pg', None, [('g', '1', None), ('g', '2', None)])])],
                     [('1', 'HUMAN'), ('2', 'MOUSE'), ('3', 'XENTR')], 'copies-several-levels-below-group'))
    return out


def deep_nest_case(n=270):
    """a caterpillar species tree with n leaves and one family written with every level explicit (n-1 nested groups);
    the innermost group holds a three-copy duplication written as directly nested paralogGroups, more than 256
    groups deep (CPython caches small integers only up to 256: identity tests on depths go wrong beyond it)"""
    nwk = '(S1,S2)N2'
    for i in range(3, n + 1):
        nwk = '(%s,S%d)N%d' % (nwk, i, i)
    nwk += ';'
    genes = [('a1', 'S1'), ('a2', 'S1'), ('a3', 'S1'), ('b', 'S2')] + [('g%d' % i, 'S%d' % i) for i in range(3, n + 1)]
    grp = ('og', 'deep.2', None, [('pg', None, [('g', 'a1', None), ('pg', None, [('g', 'a2', None), ('g', 'a3', None)])]),
                                  ('g', 'b', None)])
    for i in range(3, n + 1):
        grp = ('og', 'deep.%d' % i if i < n else 'deep', None, [grp, ('g', 'g%d' % i, None)])
    return _case([grp], genes, 'nested-paralog-groups-more-than-256-groups-deep', newick=nwk)
