(* C01 — every declared gene is loaded exactly once, in its species and its family. *)
From Coq Require Import List Arith Bool String Permutation.
From PyHam Require Import Tax Ortho Loader Filter.
From PyHam.proofs Require Import LoaderFacts.
Import ListNotations.
Local Open Scope string_scope.
Local Open Scope list_scope.

(* For every species tree and every document the loader accepts (no consistency hypothesis on the
   nesting is needed for conservation):
   - the extant genes are exactly the declared genes, in order, without repetition, each at the leaf
     its species names;
   - the i-th top-level HOG carries the id of the i-th top-level group and its member genes are a
     rearrangement of the genes referenced inside that group (missing-level insertion, re-homing of
     duplicated copies and collapsing of species-level groups move genes, never lose or copy them);
   - every referenced gene is declared. *)
Theorem c01_conservation : forall t d l,
  load t d = Ok l ->
  map fst (l_genes l) = declared d /\ NoDup (declared d) /\
  (forall g p, In (g, p) (l_genes l) ->
     exists sp, In sp (d_species d) /\ In g (map gd_id (sp_genes sp)) /\ species_resolves t sp p) /\
  Forall2 (top_ok (l_genes l)) (d_groups d) (l_tops l).
Proof.
  intros t d l H. apply load_spec in H as (H1 & H2 & _ & H4 & H5). auto.
Qed.
Print Assumptions c01_conservation.

(* genes referenced by no group are exactly the parent-less singletons *)
Theorem c01_singletons : forall l g p,
  In (HGene g p) (singles_of l) <->
  In (g, p) (l_genes l) /\ ~ In g (flat_map (fun top => genes_of (snd top)) (l_tops l)).
Proof. exact singles_spec. Qed.
Print Assumptions c01_singletons.

(* when every gene is referenced at most once, no gene belongs to two families or twice to one *)
Theorem c01_disjoint : forall t d l,
  load t d = Ok l -> NoDup (flat_map refs_of (d_groups d)) ->
  NoDup (flat_map (fun top => genes_of (snd top)) (l_tops l)).
Proof. exact families_disjoint. Qed.
Print Assumptions c01_disjoint.

(* non-vacuity: a document with an implicit level, a duplication and a singleton loads *)
Definition tr : stree :=
  SNode "R" [SNode "X" []; SNode "M" [SNode "E" [SNode "H" []; SNode "P" []]; SNode "C" []]].
Definition doc0 : doc :=
  {| d_species := [ {| sp_name := "H"; sp_genes := [ {| gd_id := "h1"; gd_xrefs := [] |}; {| gd_id := "h2"; gd_xrefs := [] |}; {| gd_id := "h9"; gd_xrefs := [] |} ] |};
                    {| sp_name := "X"; sp_genes := [ {| gd_id := "x1"; gd_xrefs := [] |} ] |} ];
     d_groups := [ IOG (Some "f") None [IGene "x1" None; IPG None [IGene "h1" None; IGene "h2" None]] ] |}.
Example c01_nonvacuous :
  match load tr doc0 with
  | Ok l => map (fun top => genes_of (snd top)) (l_tops l) = [["x1"; "h1"; "h2"]]%string /\
            singles_of l = [HGene "h9" [0; 0; 1]]
  | Err _ => False
  end.
Proof. vm_compute. split; reflexivity. Qed.
