(* Whole.v — from a loaded document to the forest the analysis layers work on.  Definitions only. *)
From Coq Require Import List Arith Bool String.
From PyHam Require Import Tax Ortho Loader Mapper.
Import ListNotations.

(* Ham.top_level_hogs values and the genes no group references *)
Definition forest_of (l : loaded) : forest :=
  {| fo_tops := map snd (l_tops l); fo_singles := singles_of l |}.
