(* C11 — a filtered load is the projection of the full load onto the selected families. *)
From Coq Require Import List Arith Bool String Permutation.
From PyHam Require Import Tax Ortho Loader Filter.
From PyHam.proofs Require Import LoaderFacts FilterFacts.
Import ListNotations.

(* PARTIAL (see DESIGN.md, C11).  Proved, for all documents whose top-level groups carry ids and
   reference every gene at most once, and all filters:
   (1) the collecting pass selects exactly the families that are named or contain a gene selected
       by internal id or by any attribute value (selected), and the genes it keeps are the directly
       selected genes plus the members of the selected families;
   (2) position independence: the selection of a family does not depend on where it stands;
   (3) the filtered load is the load of the projected document, hence (C01 on that document) its
       families are exactly the selected ones, each with exactly the member genes referenced in its
       group - the same members as in the unfiltered load.
   Not proved: that levels and duplications of a selected family are identical in both loads (the
   loader treats families independently up to object ids); checked on the implementation by comparing
   canonical forms of the filtered and the unfiltered load, and tied to the model by correspondence. *)
Theorem c11_selection : forall f d,
  Forall is_idd_group (d_groups d) -> NoDup (flat_map refs_of (d_groups d)) ->
  pass1 f d = Ok (direct_genes f d ++ flat_map refs_of (filter (selected f (direct_genes f d)) (d_groups d)),
                  flat_map group_id (filter (selected f (direct_genes f d)) (d_groups d))).
Proof. exact pass1_spec. Qed.
Print Assumptions c11_selection.

Theorem c11_position_independent : forall f direct gs gs',
  Permutation gs gs' ->
  Permutation (flat_map group_id (filter (selected f direct) gs)) (flat_map group_id (filter (selected f direct) gs')).
Proof. exact selection_position_independent. Qed.
Print Assumptions c11_position_independent.

Theorem c11_filtered_is_projected : forall t f d genes hogs l,
  pass1 f d = Ok (genes, hogs) -> load_filtered t f d = Ok l ->
  load t (project_doc genes hogs d) = Ok l /\
  map fst (l_genes l) = declared (project_doc genes hogs d) /\
  Forall2 (top_ok (l_genes l)) (d_groups (project_doc genes hogs d)) (l_tops l).
Proof.
  intros t f d genes hogs l Hp Hl. unfold load_filtered in Hl. rewrite Hp in Hl. split; [exact Hl|].
  apply load_spec in Hl as (H1 & _ & _ & _ & H5). auto.
Qed.
Print Assumptions c11_filtered_is_projected.

Local Open Scope string_scope.
Definition d0 : doc :=
  {| d_species := [ {| sp_name := "A"; sp_genes := [ {| gd_id := "1"; gd_xrefs := [("geneId", "SH")] |};
                                                     {| gd_id := "2"; gd_xrefs := [("geneId", "SH")] |};
                                                     {| gd_id := "3"; gd_xrefs := [] |} ] |} ];
     d_groups := [ IOG (Some "f1") None [IGene "1" None]; IOG (Some "f2") None [IGene "2" None]; IOG (Some "f3") None [IGene "3" None] ] |}.
Example c11_nonvacuous :
  pass1 {| pf_hogs := []; pf_ext := ["SH"]; pf_int := [] |} d0 = Ok (["1"; "2"; "1"; "2"], ["f1"; "f2"]).
Proof. vm_compute. reflexivity. Qed.
