"""Entry point of every check: build, proof obligations, exploration, evidence, verdict."""
import argparse
import fcntl
import json
import os
import re
import subprocess
import sys
import time

HERE = os.path.dirname(os.path.abspath(__file__))
VERIF = os.path.abspath(os.path.join(HERE, '..'))
sys.path.insert(0, HERE)

FORBIDDEN = re.compile(r'\b(Admitted|admit|Axiom|Axioms|Parameter|Parameters|Conjecture|Hypothesis|Variable|'
                       r'bypass_check|Admit Obligations)\b|Unset Guard|type-in-type|impredicative-set|'
                       r'Unset Universe Checking|Unset Positivity')

TRUSTED_BASE = [
    'Coq 8.16.1 kernel (coqc, full .vo build; vm_compute used in Examples and refutation witnesses; no native_compute)',
    'axioms: none (Print Assumptions under every property theorem must say "Closed under the global context")',
    'extraction: Extraction Language OCaml with ExtrOcamlBasic only (Extract Inductive bool/option/unit/list/prod/sumbool/comparison); no Extract Constant; OCaml 4.13.1',
    'driver/driver.ml (text <-> extracted values, no logic) and the Python harness (generators, dumper, comparison, shrinking)',
    'model of third-party behaviour: ete3 tree operations, expat delivering well-nested events, Python dict/set semantics',
    'the correspondence check is differential testing: it ties the model to /repo on the inputs explored only',
]


def build():
    """full build of the Coq development and the driver, serialised across concurrent checks"""
    os.makedirs(os.path.join(VERIF, '.work'), exist_ok=True)
    with open(os.path.join(VERIF, '.work', 'build.lock'), 'w') as lock:
        fcntl.flock(lock, fcntl.LOCK_EX)
        p = subprocess.run(['sh', os.path.join(VERIF, 'setup.sh')], stdout=subprocess.PIPE, stderr=subprocess.STDOUT)
        if p.returncode != 0:
            sys.stdout.write(p.stdout.decode()[-3000:])
            raise SystemExit('BROKEN-CHECK: the Coq development or the driver does not build')


def scan_sources():
    bad = []
    for root, _, files in os.walk(os.path.join(VERIF, 'coq')):
        for f in files:
            if f.endswith('.v'):
                with open(os.path.join(root, f)) as fh:
                    text = re.sub(r'\(\*.*?\*\)', '', fh.read(), flags=re.S)
                for m in FORBIDDEN.finditer(text):
                    # Variable/Hypothesis are allowed inside sections only; we use none at all
                    bad.append('%s: %s' % (f, m.group(0)))
    return bad


def obligations(prop):
    """compile props/<prop>.v on its own and read the Print Assumptions output"""
    src = os.path.join(VERIF, 'coq', 'props', prop + '.v')
    if not os.path.exists(src):
        return [], [], ''
    with open(src) as f:
        text = re.sub(r'\(\*.*?\*\)', '', f.read(), flags=re.S)
    names = re.findall(r'^\s*(?:Theorem|Lemma|Corollary)\s+(\w+)', text, flags=re.M)
    printed = re.findall(r'Print Assumptions\s+(\w+)', text)
    p = subprocess.run(['coqc', '-Q', '.', 'PyHam', 'props/%s.v' % prop], cwd=os.path.join(VERIF, 'coq'),
                       stdout=subprocess.PIPE, stderr=subprocess.STDOUT, timeout=1200)
    out = p.stdout.decode()
    closed = out.count('Closed under the global context')
    status = []
    ok = p.returncode == 0 and closed == len(printed) and set(printed) >= set(names)
    for n in names:
        status.append({'theorem': n, 'assumptions': 'Closed under the global context' if ok else 'NOT CLOSED / see output'})
    return names, status if ok else [], out


def main():
    ap = argparse.ArgumentParser()
    ap.add_argument('prop')
    ap.add_argument('--tier', default=os.environ.get('VERIF_TIER', 'quick'))
    ap.add_argument('--seed', type=int, default=int(os.environ.get('VERIF_SEED', '20261001')))
    ap.add_argument('--replay', default=None)
    ap.add_argument('--no-build', action='store_true')
    a = ap.parse_args()
    t0 = time.time()
    if not a.no_build:
        build()
    import core
    import props
    if a.prop not in props.CHECKS:
        raise SystemExit('unknown property %s' % a.prop)
    ctx = core.Ctx(a.prop, a.tier, a.seed)
    bad = scan_sources()
    names, status, coq_out = obligations(a.prop)
    if bad:
        print('BROKEN-CHECK: forbidden declaration in the Coq sources: %s' % bad[:5])
        sys.exit(2)
    if names and not status:
        sys.stdout.write(coq_out[-2000:])
        print('BROKEN-CHECK: a theorem of props/%s.v is not closed under the global context' % a.prop)
        sys.exit(2)
    chk = None
    if a.tier == 'thorough' and names and not a.replay and os.environ.get('VERIF_NO_COQCHK') != '1':
        # independent re-check of the property file and everything it depends on, with the axiom summary
        p = subprocess.run(['coqchk', '-o', '-silent', '-Q', '.', 'PyHam', 'PyHam.props.%s' % a.prop],
                           cwd=os.path.join(VERIF, 'coq'), stdout=subprocess.PIPE, stderr=subprocess.STDOUT, timeout=3000)
        out = p.stdout.decode()
        chk = {'exit': p.returncode, 'axioms_none': '* Axioms: <none>' in out, 'tail': out[-600:]}
        if p.returncode != 0 or not chk['axioms_none']:
            sys.stdout.write(out[-2000:])
            print('BROKEN-CHECK: coqchk does not accept props/%s.vo without axioms' % a.prop)
            sys.exit(2)
    try:
        if a.replay:
            with open(a.replay) as f:
                rp = json.load(f)
            props.replay(ctx, rp)
        else:
            props.CHECKS[a.prop](ctx)
    except Exception as e:  # noqa
        import traceback
        tb = traceback.extract_tb(e.__traceback__)
        in_impl = [fr for fr in tb if os.path.realpath(fr.filename).startswith(os.path.realpath('/repo') + os.sep)]
        text = ''.join(traceback.format_exception(type(e), e, e.__traceback__))
        if in_impl:
            # the implementation raised where the check relies on documented behaviour: that is a finding, with the
            # traceback as replay; no concrete property-level failing input was isolated
            ctx.violation('the implementation raised %s (%s:%d) during the exploration of %s' %
                          (type(e).__name__, os.path.basename(in_impl[-1].filename), in_impl[-1].lineno, a.prop),
                          {'traceback': text[-4000:], 'layer': 'implementation exception'}, no_input=True)
        else:
            sys.stdout.write(text[-3000:])
            print('BROKEN-CHECK: the harness itself failed')
            sys.exit(2)
    wall = time.time() - t0
    cov = {
        'obligations': len(names), 'discharged': len(status),
        'checker_cmd': 'cd /verif/coq && make (full .vo build) && coqc -Q . PyHam props/%s.v  # Print Assumptions under every theorem' % a.prop,
        'trusted_base': TRUSTED_BASE,
        'theorems': status,
        'evaluations': int(ctx.counts.get('cases', 0)),
        'distinct_nontrivial': len(ctx.distinct),
        'rule': 'history-first generator (random species tree, duplication/loss history per family, one permitted '
                'orthoXML spelling) plus the repository fixtures; a case is distinct by (newick, xml) text; '
                'see input_distribution for the measured mix',
        'samples': ctx.samples[:3] if ctx.samples else [{'note': 'no sample recorded'}],
        'counts': dict(ctx.counts),
        'input_distribution': dict(ctx.dist),
        'notes': ctx.notes,
        'coqchk': chk,
    }
    ev = {'property_id': a.prop, 'tier': a.tier if a.tier in ('quick', 'thorough') else 'quick', 'seed': a.seed,
          'level': 'proof' if names else 'other', 'coverage': cov,
          'assumptions': TRUSTED_BASE, 'wall_s': round(wall, 2), 'violations': len(ctx.violations)}
    if not names:
        cov['explanation'] = 'no theorem file yet for this property: correspondence and predicates only'
    os.makedirs(os.path.join(VERIF, 'evidence'), exist_ok=True)
    if not a.replay:
        with open(os.path.join(VERIF, 'evidence', a.prop + '.json'), 'w') as f:
            json.dump(ev, f, indent=1, sort_keys=True, default=str)
    for line in ctx.known:
        print(line)
    for what, path, no_input in ctx.violations[:20]:
        print('# %s' % what[:300])
        print('VIOLATION property=%s replay=%s%s' % (a.prop, path, ' no-failing-input-found' if no_input else ''))
    print('%s %s: %d cases, %d violations, %.1fs, counts=%s' % (a.prop, a.tier, ctx.counts.get('cases', 0),
                                                              len(ctx.violations), wall, dict(ctx.counts)))
    sys.exit(1 if ctx.violations else 0)


if __name__ == '__main__':
    main()
