(* NavFacts.v — navigation inside a family is self-consistent (C16). *)
From Coq Require Import List Arith Bool String Lia Permutation.
From PyHam Require Import Tax Ortho Mapper Preds Nav.
From PyHam.proofs Require Import TaxFacts MapperFacts ForestFacts ClusterFacts PartitionFacts.
Import ListNotations.

(* ---------- subsequences ---------- *)
Inductive subseq {X} : list X -> list X -> Prop :=
| sub_nil : subseq [] []
| sub_skip x s l : subseq s l -> subseq s (x :: l)
| sub_take x s l : subseq s l -> subseq (x :: s) (x :: l).

Lemma subseq_refl {X} (l : list X) : subseq l l.
Proof. induction l; [constructor|apply sub_take; auto]. Qed.
Lemma subseq_nil_l {X} (l : list X) : subseq [] l.
Proof. induction l; [constructor|apply sub_skip; auto]. Qed.
Lemma subseq_app {X} (s1 l1 s2 l2 : list X) : subseq s1 l1 -> subseq s2 l2 -> subseq (s1 ++ s2) (l1 ++ l2).
Proof. induction 1; simpl; intros H2; auto; [apply sub_skip|apply sub_take]; auto. Qed.
Lemma subseq_in {X} (s l : list X) x : subseq s l -> In x s -> In x l.
Proof. induction 1 as [|y s l Hs IH|y s l Hs IH]; simpl; intros Hin; auto. destruct Hin; auto. Qed.
Lemma subseq_nodup {X} (s l : list X) : subseq s l -> NoDup l -> NoDup s.
Proof.
  induction 1 as [|y s l Hs IH|y s l Hs IH]; intros Hn; auto; inversion Hn; subst; auto.
  constructor; auto. intros Hin. eapply subseq_in in Hin; eauto.
Qed.
Lemma subseq_flat_map {X Y} (f g : X -> list Y) l :
  Forall (fun x => subseq (f x) (g x)) l -> subseq (flat_map f l) (flat_map g l).
Proof. induction 1; simpl; [constructor|]. apply subseq_app; auto. Qed.

(* ---------- gene lists ---------- *)
Lemma gids_all_of h : flat_map gid_of (all_of h) = genes_of h.
Proof.
  induction h as [g p|o p m ks IH] using hog_ind'; [reflexivity|].
  cbn [all_of flat_map gid_of genes_of app]. rewrite flat_map_flat_map'.
  apply flat_map_Forall_ext. exact IH.
Qed.

Lemma gene_ids_roots fo : gene_ids_of fo = flat_map genes_of (fo_roots fo).
Proof.
  unfold gene_ids_of, all_nodes_of. fold gid_of. rewrite flat_map_flat_map'.
  apply flat_map_Forall_ext. apply Forall_forall. intros h _. apply gids_all_of.
Qed.

Lemma genes_sub_kid h k : In k (hkids h) -> subseq (genes_of (snd k)) (genes_of h).
Proof.
  destruct h as [g p|o p m ks]; [contradiction|]. simpl. intros Hk.
  induction ks as [|k' r IH]; [contradiction|]. simpl. destruct Hk as [->|Hk].
  - rewrite <- (app_nil_r (genes_of (snd k))) at 1. apply subseq_app; [apply subseq_refl|apply subseq_nil_l].
  - rewrite <- (app_nil_l (genes_of (snd k))). apply subseq_app; [apply subseq_nil_l|auto].
Qed.

(* the genes of any node of a subtree are a subsequence of the subtree's genes *)
Lemma genes_sub_desc h : forall x, In x (all_of h) -> subseq (genes_of x) (genes_of h).
Proof.
  induction h as [g p|o p m ks IH] using hog_ind'; intros x Hx.
  - simpl in Hx. destruct Hx as [<-|[]]. apply subseq_refl.
  - cbn [all_of] in Hx. destruct Hx as [<-|Hx]; [apply subseq_refl|].
    apply in_flat_map in Hx as (k & Hk & Hx). rewrite Forall_forall in IH.
    specialize (IH k Hk x Hx). clear Hx.
    pose proof (genes_sub_kid (HHog o p m ks) k Hk) as H2.
    clear - IH H2. revert IH H2. generalize (genes_of x) (genes_of (snd k)) (genes_of (HHog o p m ks)).
    intros a b c Hab Hbc. revert a Hab. induction Hbc; intros a Hab.
    + inversion Hab. constructor.
    + apply sub_skip. auto.
    + inversion Hab; subst; [apply sub_skip|apply sub_take]; auto.
Qed.

Lemma root_genes_nodup t fo r : wfbc t fo = true -> In r (fo_roots fo) -> NoDup (genes_of r).
Proof.
  intros Hwf Hr. unfold wfbc in Hwf. rewrite !andb_true_iff in Hwf. destruct Hwf as ((((_ & _) & _) & _) & Hg).
  apply nodupb_NoDup' in Hg. rewrite gene_ids_roots in Hg.
  clear - Hg Hr. induction (fo_roots fo) as [|h l IH]; [contradiction|]. simpl in Hg.
  destruct Hr as [->|Hr].
  - eapply subseq_nodup; [|exact Hg]. rewrite <- (app_nil_r (genes_of r)) at 1. apply subseq_app; [apply subseq_refl|apply subseq_nil_l].
  - apply IH; auto. eapply subseq_nodup; [|exact Hg]. rewrite <- (app_nil_l (flat_map genes_of l)) at 1.
    apply subseq_app; [apply subseq_nil_l|apply subseq_refl].
Qed.

(* (a) every descendant gene once *)
Theorem desc_genes_nodup t fo r h :
  wfbc t fo = true -> In r (fo_roots fo) -> In h (all_of r) -> NoDup (desc_genes h).
Proof.
  intros Hwf Hr Hh. unfold desc_genes. apply FinFun.Injective_map_NoDup; [intros a b E; now inversion E|].
  eapply subseq_nodup; [apply genes_sub_desc; exact Hh|]. eapply root_genes_nodup; eauto.
Qed.

(* (b) the per-species clustering describes the same genes, each under its own species *)
Lemma gene_nodes_genes h : map fst (gene_nodes h) = genes_of h.
Proof.
  induction h as [g p|o p m ks IH] using hog_ind'; [reflexivity|].
  cbn [gene_nodes genes_of]. rewrite map_flat_map'. apply flat_map_Forall_ext. exact IH.
Qed.

Lemma cluster_add_spec p g d :
  Permutation (flat_map (fun e => map (fun x => (x, fst e)) (snd e)) (cluster_add p g d))
              ((g, p) :: flat_map (fun e => map (fun x => (x, fst e)) (snd e)) d).
Proof.
  induction d as [|[p' gs] r IH]; simpl; [apply Permutation_refl|].
  destruct (taxon_eqb p p') eqn:E.
  - apply taxon_eqb_eq in E. subst p'. simpl. rewrite map_app. simpl. rewrite <- app_assoc. simpl.
    apply Permutation_sym. apply Permutation_middle.
  - simpl. rewrite IH. apply Permutation_sym.
    apply (Permutation_middle (map (fun x => (x, p')) gs) _ (g, p)).
Qed.

Theorem genes_by_species_spec h :
  Permutation (flat_map (fun e => map (fun x => (x, fst e)) (snd e)) (genes_by_species h)) (gene_nodes h).
Proof.
  unfold genes_by_species.
  assert (H : forall l d, Permutation (flat_map (fun e => map (fun x => (x, fst e)) (snd e))
                                     (fold_left (fun d gp => cluster_add (snd gp) (fst gp) d) l d))
                                   (flat_map (fun e => map (fun x => (x, fst e)) (snd e)) d ++ l)).
  { induction l as [|[g p] l IH]; intros d; simpl; [rewrite app_nil_r; apply Permutation_refl|].
    rewrite IH. rewrite cluster_add_spec. simpl. apply Permutation_middle. }
  specialize (H (gene_nodes h) []). simpl in H. exact H.
Qed.

(* (c) the HOG list and the level list describe the same nodes, in the same order *)
Theorem levels_match h : desc_levels h = map htax (hogs_of h) /\ desc_hogs h = map href (hogs_of h).
Proof. split; reflexivity. Qed.

Lemma hogs_sub_all h : subseq (hogs_of h) (all_of h).
Proof.
  induction h as [g p|o p m ks IH] using hog_ind'; [apply sub_skip; constructor|].
  cbn [hogs_of all_of]. apply sub_take. apply subseq_flat_map. exact IH.
Qed.

(* ---------- top level ---------- *)
Lemma contains_spec r h : contains r h = true <-> In r (map href (all_of h)).
Proof.
  unfold contains. rewrite existsb_exists, in_map_iff. split.
  - intros (x & Hx & E). apply ref_eqb_eq in E. eauto.
  - intros (x & E & Hx). exists x. split; auto. apply ref_eqb_eq. auto.
Qed.

Lemma nodup_flat_map_unique {X Y} (f : X -> list Y) l a b y :
  NoDup (flat_map f l) -> In a l -> In b l -> In y (f a) -> In y (f b) -> a = b \/ False.
Proof.
  induction l as [|x r IH]; intros Hn Ha Hb Hya Hyb; [contradiction|].
  simpl in Hn. destruct Ha as [->|Ha], Hb as [->|Hb]; auto.
  - exfalso. clear IH. induction (f a) as [|z l' IHl]; [contradiction|]. simpl in Hn. inversion Hn; subst.
    destruct Hya as [->|Hya]; auto. apply H1. apply in_or_app. right. apply in_flat_map. eauto.
  - exfalso. clear IH. induction (f b) as [|z l' IHl]; [contradiction|]. simpl in Hn. inversion Hn; subst.
    destruct Hyb as [->|Hyb]; auto. apply H1. apply in_or_app. right. apply in_flat_map. eauto.
  - apply IH; auto. clear - Hn. induction (f x) as [|z l' IHl]; auto. simpl in Hn. inversion Hn; auto.
Qed.

(* (d) every member of a family reports the family's root *)
Theorem top_level_unique t fo r x :
  wfbc t fo = true -> In r (fo_roots fo) -> In x (all_of r) -> top_level_of fo (href x) = Some r.
Proof.
  intros Hwf Hr Hx. unfold top_level_of.
  pose proof (wfb_refs t fo Hwf) as Hn. unfold all_nodes_of in Hn. rewrite map_flat_map' in Hn.
  assert (Hc : contains (href x) r = true) by (apply contains_spec; now apply in_map).
  destruct (find (contains (href x)) (fo_roots fo)) as [r'|] eqn:E.
  - apply find_some in E as [Hr' Hc']. apply contains_spec in Hc'.
    destruct (nodup_flat_map_unique (fun h => map href (all_of h)) (fo_roots fo) r r' (href x) Hn Hr Hr') as [->|[]]; auto.
    now apply in_map.
  - eapply find_none in E; eauto. congruence.
Qed.

(* (e) asking a member for a genome *)
Definition family_at (tl : hog) (g : taxon) : list ref := map href (filter (fun x => taxon_eqb (htax x) g) (all_of tl)).

Theorem get_at_level_spec t fo r x g :
  wfbc t fo = true -> In r (fo_roots fo) -> In x (all_of r) -> is_gene r = false ->
  get_at_level fo (href x) g =
    if match family_at r g with [] => true | _ => false end then Err KeyError
    else if mem_ref (href x) (family_at r g) then Err KeyError
    else Ok (family_at r g).
Proof.
  intros Hwf Hr Hx Hg. unfold get_at_level. rewrite (top_level_unique t fo r x Hwf Hr Hx).
  destruct r as [g0 p0|o p m ks]; [discriminate|]. fold (family_at (HHog o p m ks) g).
  destruct (family_at (HHog o p m ks) g); reflexivity.
Qed.

(* the answer would be the member itself exactly when the member lives in the queried genome *)
Theorem self_in_family_at t fo r x g :
  wfbc t fo = true -> In r (fo_roots fo) -> In x (all_of r) ->
  (In (href x) (family_at r g) <-> htax x = g).
Proof.
  intros Hwf Hr Hx. unfold family_at. rewrite in_map_iff. split.
  - intros (y & E & Hy). apply filter_In in Hy as [Hy Ht]. apply taxon_eqb_eq in Ht.
    pose proof (wfb_refs t fo Hwf) as Hn.
    assert (y = x); [|subst; auto].
    eapply (NoDup_map_inj_in href (all_nodes_of fo)); eauto; unfold all_nodes_of; apply in_flat_map; eauto.
  - intros <-. exists x. split; auto. apply filter_In. split; auto. apply taxon_eqb_refl.
Qed.

(* (f) the ancestral clustering of one genome is pairwise disjoint *)
Lemma anodes_genes_sub A h : subseq (flat_map genes_of (anodes A h)) (genes_of h).
Proof.
  induction h as [g p|o p m ks IH] using hog_ind'.
  - simpl. destruct (taxon_eqb p A); simpl; [apply subseq_refl|apply subseq_nil_l].
  - cbn [anodes htax]. destruct (taxon_eqb p A).
    + simpl. rewrite app_nil_r. apply subseq_refl.
    + rewrite flat_map_flat_map'. cbn [genes_of]. apply subseq_flat_map. exact IH.
Qed.

Theorem clustering_disjoint t fo A :
  wfbc t fo = true -> NoDup (flat_map genes_of (ANs A fo)).
Proof.
  intros Hwf. pose proof Hwf as Hwf'. unfold wfbc in Hwf. rewrite !andb_true_iff in Hwf. destruct Hwf as ((((_ & _) & _) & _) & Hg).
  apply nodupb_NoDup' in Hg. rewrite gene_ids_roots in Hg.
  eapply subseq_nodup; [|exact Hg]. unfold ANs. rewrite flat_map_flat_map'.
  apply subseq_flat_map. apply Forall_forall. intros h _. apply anodes_genes_sub.
Qed.

Theorem clustering_spec t fo A : wfbc t fo = true ->
  ancestral_clustering fo A = map (fun ho => (href ho, genes_of ho)) (ANs A fo).
Proof.
  intros Hwf. unfold ancestral_clustering, genome_nodes. rewrite (ANs_filter t); auto.
  unfold all_nodes_of. rewrite filter_flat_map, !map_flat_map'.
  apply flat_map_Forall_ext. apply Forall_forall. intros h _.
  rewrite <- (at_level_filter A h [] false). rewrite map_map. reflexivity.
Qed.
