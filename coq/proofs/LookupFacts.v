(* LookupFacts.v — lookups are coherent with listings and never ambiguous (C15). *)
From Coq Require Import List Arith Bool String Lia Permutation.
From PyHam Require Import Tax Ortho Loader Lookup.
From PyHam.proofs Require Import TaxFacts NewickFacts.
Import ListNotations.

Lemma mem_s_in s l : mem_s s l = true <-> In s l.
Proof. unfold mem_s. apply existsb_eqb_in. Qed.

Theorem gene_lookup_coherent l g p : In (g, p) (l_genes l) -> get_gene_by_id l g = Ok g.
Proof.
  intros H. unfold get_gene_by_id.
  assert (E : mem_s g (map fst (l_genes l)) = true) by (apply mem_s_in; apply in_map_iff; exists (g, p); auto).
  now rewrite E.
Qed.

Theorem gene_lookup_unknown l k : ~ In k (map fst (l_genes l)) -> get_gene_by_id l k = Err KeyError.
Proof.
  intros H. unfold get_gene_by_id. destruct (mem_s k (map fst (l_genes l))) eqn:E; auto.
  apply mem_s_in in E. contradiction.
Qed.

(* the cross-reference index never forgets *)
Lemma idx_add_keeps k g d k0 gs0 g0 :
  idx_get k0 d = Some gs0 -> In g0 gs0 -> exists gs1, idx_get k0 (idx_add k g d) = Some gs1 /\ In g0 gs1.
Proof.
  induction d as [|[k' gs] r IH]; intros Hg Hin; [discriminate|]. simpl in *.
  destruct (String.eqb k k') eqn:E.
  - simpl. destruct (String.eqb k0 k') eqn:E0.
    + inversion Hg; subst. exists (gs0 ++ [g]). split; auto. apply in_or_app. auto.
    + eauto.
  - simpl. destruct (String.eqb k0 k') eqn:E0; eauto.
Qed.

Lemma idx_add_has k g d : exists gs, idx_get k (idx_add k g d) = Some gs /\ In g gs.
Proof.
  induction d as [|[k' gs] r IH]; simpl.
  - rewrite String.eqb_refl. exists [g]. split; auto. left. reflexivity.
  - destruct (String.eqb k k') eqn:E; simpl; rewrite E.
    + exists (gs ++ [g]). split; auto. apply in_or_app. right. left. reflexivity.
    + exact IH.
Qed.

Definition has (d : list (string * list string)) (k g : string) : Prop :=
  exists gs, idx_get k d = Some gs /\ In g gs.

Lemma inner_fold_keeps gid (xs : list (string * string)) : forall acc k g, has acc k g ->
  has (fold_left (fun acc kv => idx_add (snd kv) gid acc) xs acc) k g.
Proof.
  induction xs as [|kv r IH]; intros acc k g H; simpl; auto.
  apply IH. destruct H as (gs & Hg & Hin). eapply idx_add_keeps; eauto.
Qed.

Lemma inner_fold_adds gid (xs : list (string * string)) : forall acc kv, In kv xs ->
  has (fold_left (fun acc kv => idx_add (snd kv) gid acc) xs acc) (snd kv) gid.
Proof.
  induction xs as [|kv0 r IH]; intros acc kv Hin; [contradiction|]. simpl. destruct Hin as [->|Hin].
  - apply inner_fold_keeps. apply idx_add_has.
  - apply IH. exact Hin.
Qed.

Lemma outer_fold_keeps gds : forall acc k g, has acc k g ->
  has (fold_left (fun acc gd => fold_left (fun acc kv => idx_add (snd kv) (gd_id gd) acc) (gd_xrefs gd) acc) gds acc) k g.
Proof.
  induction gds as [|gd r IH]; intros acc k g H; simpl; auto. apply IH. apply inner_fold_keeps. exact H.
Qed.

(* every gene is returned under each of its cross-reference ids *)
Theorem ext_lookup_coherent d gd kv :
  In gd (all_decls d) -> In kv (gd_xrefs gd) ->
  exists gs, get_genes_by_external_id d (snd kv) = Ok gs /\ In (gd_id gd) gs.
Proof.
  intros Hgd Hkv. unfold get_genes_by_external_id, ext_index.
  assert (H : has (fold_left (fun acc gd => fold_left (fun acc kv => idx_add (snd kv) (gd_id gd) acc) (gd_xrefs gd) acc)
                             (all_decls d) []) (snd kv) (gd_id gd)).
  { generalize (@nil (string * list string)) as acc. induction (all_decls d) as [|gd0 r IH]; intros acc; [contradiction|].
    simpl. destruct Hgd as [->|Hgd].
    - apply outer_fold_keeps. apply inner_fold_adds. exact Hkv.
    - apply IH. exact Hgd. }
  destruct H as (gs & Hg & Hin). rewrite Hg. eauto.
Qed.

Theorem ext_lookup_unknown d k :
  idx_get k (ext_index d) = None -> get_genes_by_external_id d k = Err KeyError.
Proof. intros H. unfold get_genes_by_external_id. now rewrite H. Qed.

(* names: at most one node per name once the taxonomy accepted the tree *)
Lemma filter_nodup_le1 {X} (f : X -> bool) (key : X -> string) (n : string) (l : list X) :
  NoDup (map key l) -> (forall x, f x = true -> key x = n) -> List.length (filter f l) <= 1.
Proof.
  intros Hn Hk. induction l as [|x r IH]; simpl; [lia|]. inversion Hn as [|? ? Hx Hr]; subst.
  destruct (f x) eqn:E; [|apply IH; auto]. simpl.
  assert (filter f r = []); [|rewrite H; simpl; lia].
  destruct (filter f r) as [|y l'] eqn:Ef; auto. exfalso.
  assert (Hy : In y (filter f r)) by (rewrite Ef; left; reflexivity). apply filter_In in Hy as [Hy Hfy].
  apply Hx. rewrite (Hk x E), <- (Hk y Hfy). apply in_map. exact Hy.
Qed.

Theorem taxon_lookup_spec t n :
  match search t n with
  | [p] => get_taxon_by_name t n = Ok p
  | _ => get_taxon_by_name t n = Err KeyError
  end.
Proof. unfold get_taxon_by_name. destruct (search t n) as [|p [|q r]]; reflexivity. Qed.

Theorem taxon_lookup_sound t n p : get_taxon_by_name t n = Ok p -> name_of t p = Some n /\ valid t p = true.
Proof.
  unfold get_taxon_by_name. destruct (search t n) as [|q [|q' r]] eqn:E; try discriminate.
  intros H. inversion H; subst.
  assert (Hin : In p (search t n)) by (rewrite E; left; reflexivity).
  unfold search in Hin. apply in_map_iff in Hin as ([p' s] & Ep & Hin). simpl in Ep. subst p'.
  apply filter_In in Hin as [Hin Hn]. simpl in Hn. apply String.eqb_eq in Hn.
  unfold all_nodes in Hin. apply nodes_spec in Hin as (rr & Hq & Hs). rewrite app_nil_r in Hq. subst p.
  unfold name_of, valid, sub. rewrite rev_involutive, Hs. simpl. split; congruence.
Qed.

(* ambiguous trees are rejected when the taxonomy is built: a repeated leaf name, a repeated (assigned) internal
   name, or a name carried by a leaf and by an internal node *)
Theorem ambiguous_rejected (ui : bool) t :
  ~ NoDup (leaf_names (if ui then t else synth t)) \/ ~ NoDup (internal_names (if ui then t else synth t)) \/
  ~ no_shared_name (if ui then t else synth t) ->
  build_taxonomy ui t = Err KeyError.
Proof.
  intros H. unfold build_taxonomy. set (u := if ui then t else synth t) in *.
  destruct (nodupb (leaf_names u)) eqn:El; simpl; [|reflexivity].
  destruct (nodupb (internal_names u)) eqn:Ei; simpl; [|reflexivity].
  destruct (shared_names u) eqn:Es; [reflexivity|].
  apply nodupb_NoDup in El, Ei. apply shared_names_spec in Es. destruct H as [H|[H|H]]; contradiction.
Qed.

(* ---------- the common ancestor of a set of genomes ---------- *)
Definition anc_of (a q : taxon) : Prop := exists s, q = s ++ a.

Lemma lcp_common_prefix' r a b : lcp (r ++ a) (r ++ b) = r ++ lcp a b.
Proof. induction r as [|x r IH]; simpl; [reflexivity|]. now rewrite Nat.eqb_refl, IH. Qed.

Lemma lcs_common a s1 s2 : anc_of a (lcs (s1 ++ a) (s2 ++ a)).
Proof. unfold lcs. rewrite !rev_app_distr, lcp_common_prefix', rev_app_distr, rev_involutive. eexists. reflexivity. Qed.

Lemma fold_lcs_common a r : forall x, anc_of a x -> Forall (anc_of a) r -> anc_of a (fold_left lcs r x).
Proof.
  induction r as [|y r IH]; intros x Hx Hr; simpl; [exact Hx|]. inversion Hr as [|? ? Hy Hr']; subst.
  apply IH; [|exact Hr']. destruct Hx as [s1 ->], Hy as [s2 ->]. apply lcs_common.
Qed.

Lemma anc_of_trans a b c : anc_of a b -> anc_of b c -> anc_of a c.
Proof. intros [s ->] [s' ->]. exists (s' ++ s). now rewrite app_assoc. Qed.

Lemma fold_lcs_is_anc r : forall x e, In e (x :: r) -> anc_of (fold_left lcs r x) e.
Proof.
  induction r as [|y r IH]; intros x e Hin; simpl.
  - destruct Hin as [<-|[]]. exists []. reflexivity.
  - destruct Hin as [<-|[<-|Hin]].
    + eapply anc_of_trans; [apply (IH (lcs x y) (lcs x y)); left; reflexivity|]. apply lcs_is_suffix_l.
    + eapply anc_of_trans; [apply (IH (lcs x y) (lcs x y)); left; reflexivity|]. rewrite lcs_comm. apply lcs_is_suffix_l.
    + apply IH. right. exact Hin.
Qed.

(* the genome returned for a set of at least two genomes sits at the most recent common ancestor of all of them:
   an ancestor of every member, below every other common ancestor; it is an internal node that carries a genome *)
Theorem mrca_set_spec t st x y r m :
  get_mrca_genome_set t st (x :: y :: r) = Ok m ->
  (forall g, In g (x :: y :: r) -> anc_of m g) /\
  (forall a, (forall g, In g (x :: y :: r) -> anc_of a g) -> anc_of a m) /\
  In m (s_genomes st) /\ is_leaf t m = false.
Proof.
  unfold get_mrca_genome_set, get_ancestral_genome_by_taxon.
  destruct (mem_tax (fold_left lcs (y :: r) x) (s_genomes st) && negb (is_leaf t (fold_left lcs (y :: r) x))) eqn:E; [|discriminate].
  intros H. inversion H; subst m. clear H. apply andb_true_iff in E as [E1 E2].
  split; [intros g Hg; exact (fold_lcs_is_anc (y :: r) x g Hg)|]. split.
  - intros a Ha. apply (fold_lcs_common a (y :: r) x); [apply Ha; left; reflexivity|]. apply Forall_forall. intros g Hg. apply Ha. right. exact Hg.
  - split; [|apply negb_true_iff; exact E2]. unfold mem_tax in E1. apply existsb_exists in E1 as (q & Hq & Eq). apply taxon_eqb_eq in Eq. now subst.
Qed.

Theorem mrca_set_too_small t st gs : List.length gs < 2 -> get_mrca_genome_set t st gs = Err ValueError.
Proof. destruct gs as [|x [|y r]]; simpl; intros H; try reflexivity; lia. Qed.

(* ---------- the order in which a set of genomes is enumerated does not matter ---------- *)
Lemma anc_of_antisym a b : anc_of a b -> anc_of b a -> a = b.
Proof.
  intros [s ->] [s' H]. rewrite app_assoc in H. apply (f_equal (@List.length nat)) in H.
  rewrite app_length, app_length in H. destruct s; [reflexivity|]. simpl in H. lia.
Qed.

(* Python: set(...) then the common ancestor of its elements, enumerated in whatever order the set yields them *)
Definition mrca_of (l : list taxon) : option taxon :=
  match l with [] => None | x :: r => Some (fold_left lcs r x) end.

Lemma fold_lcs_below r x r' x' : (forall e, In e (x' :: r') -> In e (x :: r)) -> anc_of (fold_left lcs r x) (fold_left lcs r' x').
Proof.
  intros H. apply fold_lcs_common.
  - apply fold_lcs_is_anc. apply H. left. reflexivity.
  - apply Forall_forall. intros e He. apply fold_lcs_is_anc. apply H. right. exact He.
Qed.

Theorem mrca_of_same_elements l l' : l <> [] -> l' <> [] -> (forall e, In e l <-> In e l') -> mrca_of l = mrca_of l'.
Proof.
  destruct l as [|x r], l' as [|x' r']; try congruence. intros _ _ H. cbn [mrca_of]. f_equal.
  apply anc_of_antisym; apply fold_lcs_below; intros e He; apply H; exact He.
Qed.

Theorem mrca_of_perm l l' : Permutation l l' -> mrca_of l = mrca_of l'.
Proof.
  intros HP. destruct l as [|x r].
  - apply Permutation_nil in HP. subst. reflexivity.
  - destruct l' as [|x' r']; [apply Permutation_sym, Permutation_nil in HP; discriminate|].
    apply mrca_of_same_elements; try discriminate. intros e. split; apply Permutation_in; [exact HP|apply Permutation_sym; exact HP].
Qed.

Theorem mrca_set_perm t st gs gs' : Permutation gs gs' -> get_mrca_genome_set t st gs = get_mrca_genome_set t st gs'.
Proof.
  intros HP. pose proof (Permutation_length HP) as Hl. pose proof (mrca_of_perm _ _ HP) as Hm.
  destruct gs as [|x [|y r]], gs' as [|x' [|y' r']]; try discriminate; try reflexivity.
  unfold get_mrca_genome_set. cbn [mrca_of] in Hm. injection Hm as E. f_equal. exact E.
Qed.
