(* SpellFacts.v — every permitted spelling of a well-formed history evaluates, element by element, to
   the history's hierarchy (C02/C03 for all consistent inputs, not only explicit ones).
   Part 1: what the elements leave in the open group's frame. *)
From Coq Require Import List Arith Bool String Lia Permutation.
From PyHam Require Import Tax Ortho Loader Mapper Preds Hist Spell.
From PyHam.proofs Require Import TaxFacts MapperFacts ForestFacts ClusterFacts LoaderFacts ExplicitFacts ChainFacts CladeFacts.
Import ListNotations.
Local Open Scope string_scope.
Local Open Scope list_scope.

(* ---------- annotations and properties ---------- *)
Lemma annot_eval t genes it pg fr s : is_annot it ->
  exists fr', eval_item t genes it pg fr s = Ok (fr', s) /\ f_kids fr' = f_kids fr.
Proof. destruct it; simpl; try contradiction; intros _; eexists; split; reflexivity. Qed.

Lemma body_go_cons t genes pg x r acc s :
  body_go t genes pg (x :: r) acc s =
  match eval_item t genes x pg acc s with Ok (acc', s') => body_go t genes pg r acc' s' | Err e => Err e end.
Proof. reflexivity. Qed.

Lemma body_go_app t genes pg a : forall b acc s,
  body_go t genes pg (a ++ b) acc s =
  match body_go t genes pg a acc s with Ok (acc', s') => body_go t genes pg b acc' s' | Err e => Err e end.
Proof.
  induction a as [|x r IH]; intros b acc s; [reflexivity|].
  cbn [app]. rewrite !body_go_cons. destruct (eval_item t genes x pg acc s) as [[acc' s']|e]; [apply IH|reflexivity].
Qed.

Lemma eval_props t genes it : forall pg fr s fr' s',
  eval_item t genes it pg fr s = Ok (fr', s') -> f_props fr' = f_props fr ++ item_props it.
Proof.
  induction it as [g l|id og body IH|og body IH|n v|n v] using item_ind'; intros pg fr s fr' s' H.
  - cbn [eval_item] in H. rewrite find_gene_fix in H. destruct (find_gene g genes) as [p|]; [|discriminate].
    inv_bind_as H u t1 E1 K1. apply ret_ok in K1 as [<- _]. simpl. now rewrite app_nil_r.
  - cbn [eval_item] in H. inv_bind_as H inner t1 E1 K1. inv_bind_as K1 c t2 E2 K2.
    destruct c; apply ret_ok in K2 as [<- _]; simpl; now rewrite app_nil_r.
  - cbn [eval_item] in H. inv_bind_as H k t1 E1 K1. inv_bind_as K1 fr1 t2 E2 K2. inv_bind_as K2 u t3 E3 K3.
    apply ret_ok in K3 as [<- _]. fold (body_go t genes (Some k)) in E2.
    clear E1 E3. revert fr t1 fr1 t2 E2. cbn [item_props]. induction IH as [|x r Hx Hr IHr]; intros fr t1 fr1 t2 E2.
    + apply ret_ok in E2 as [<- _]. simpl. now rewrite app_nil_r.
    + rewrite body_go_cons in E2. destruct (eval_item t genes x (Some k) fr t1) as [[a1 s1]|e] eqn:Ex; [|discriminate].
      apply IHr in E2. rewrite E2, (Hx _ _ _ _ _ Ex). simpl. now rewrite <- app_assoc.
  - simpl in H. inversion H. reflexivity.
  - simpl in H. inversion H. simpl. now rewrite app_nil_r.
Qed.

Lemma body_props t genes pg body : forall fr s fr' s',
  body_go t genes pg body fr s = Ok (fr', s') -> f_props fr' = f_props fr ++ flat_map item_props body.
Proof.
  induction body as [|x r IH]; intros fr s fr' s' H.
  - apply ret_ok in H as [<- _]. simpl. now rewrite app_nil_r.
  - rewrite body_go_cons in H. destruct (eval_item t genes x pg fr s) as [[a1 s1]|e] eqn:Ex; [|discriminate].
    apply IH in H. rewrite H, (eval_props _ _ _ _ _ _ _ _ Ex). simpl. now rewrite <- app_assoc.
Qed.

(* ---------- what a spelt member must deliver ---------- *)
Definition flags_lt (ks : list kid) (n : nat) : Prop := forall k c, In (Some k, c) ks -> k < n.

Definition MK (t : stree) (genes : list (string * taxon)) (h : hist) (its : list item) (l : taxon) : Prop :=
  forall pg fr s, dups_dom s ->
  exists y fr' s', body_go t genes pg its fr s = Ok (fr', s') /\ f_kids fr' = f_kids fr ++ [(pg, y)] /\
    rep t h y /\ htax y = l /\ ext s s' /\ dups_dom s'.

Definition MD (t : stree) (genes : list (string * taxon)) (h : hist) (its : list item) : Prop :=
  forall fr s, dups_dom s -> flags_lt (f_kids fr) (s_dup s) ->
  exists ys a cs fr' s', body_go t genes None its fr s = Ok (fr', s') /\
    f_kids fr' = f_kids fr ++ map (pair (Some (s_dup s))) ys /\
    below h (XH a [cs]) /\ 2 <= List.length cs /\ Forall2 (rep t) cs ys /\ levels_ok (lin_tax cs) (map htax ys) /\
    mrca_is s' (s_dup s) a /\ s_dup s < s_dup s' /\ ext s s' /\ dups_dom s'.

Definition member_claim t genes (h : hist) (its : list item) (lv : option taxon) : Prop :=
  match lv with Some l => MK t genes h its l | None => MD t genes h its end.

Definition Pmember (t : stree) (genes : list (string * taxon)) (h : hist) : Prop :=
  WFh t genes h -> forall mp its lv, sp_member t mp h its lv -> member_claim t genes h its lv.

(* ---------- set_MRCA on members that lie in one clade ---------- *)
Lemma dedup_nonempty l : l <> [] -> dedup_tax l <> [].
Proof.
  destruct l as [|x r]; [contradiction|]. intros _ E.
  assert (In x (dedup_tax (x :: r))) by (apply dedup_tax_in; left; reflexivity). rewrite E in H. contradiction.
Qed.

Lemma set_mrca_clade k members X s d :
  members <> [] -> Forall (fun x => in_clade X (htax x)) members -> X <> [] ->
  dup_lookup k (s_dups s) = Some d -> dups_dom s ->
  exists s' d', set_mrca k members s = Ok (tt, s') /\ s_oid s' = s_oid s /\ s_dup s' = s_dup s /\ dups_dom s' /\
    dup_lookup k (s_dups s') = Some d' /\ (forall k', k' <> k -> dup_lookup k' (s_dups s') = dup_lookup k' (s_dups s)).
Proof.
  intros Hne Hall HX Hd Hdom. unfold set_mrca.
  assert (Hcl : Forall (in_clade X) (dedup_tax (map htax members))).
  { apply Forall_forall. intros q Hq. apply (proj1 (dedup_tax_in _ _)) in Hq. apply in_map_iff in Hq as (x & <- & Hx).
    rewrite Forall_forall in Hall. auto. }
  assert (Hdn : dedup_tax (map htax members) <> []) by (apply dedup_nonempty; destruct members; [contradiction|discriminate]).
  destruct (dedup_tax (map htax members)) as [|x [|y r]]; [contradiction| |].
  - inversion Hcl as [|? ? [sx Hx] _]; subst. unfold up_or_fail.
    destruct (sx ++ X) as [|a u] eqn:E; [apply app_eq_nil in E as [_ E]; contradiction|]. cbn [up].
    unfold bind at 1. unfold ret at 1.
    destruct (ensure_spec u s) as (s1 & E1 & O1 & D1 & DS1). unfold bind at 1. rewrite E1.
    assert (Hd1 : dup_lookup k (s_dups s1) = Some d) by (rewrite DS1; exact Hd).
    assert (Hdom1 : dups_dom s1) by (unfold dups_dom; rewrite D1, DS1; exact Hdom).
    destruct (dup_update_spec k (fun d0 => {| di_og := di_og d0; di_mrca := Some u; di_parent := di_parent d0 |}) s1 d Hd1 Hdom1)
      as (s2 & E2 & O2 & D2 & Hdom2 & L2 & K2).
    exists s2. eexists. split; [exact E2|]. split; [congruence|]. split; [congruence|]. split; [exact Hdom2|]. split; [exact L2|].
    intros k' Hk'. rewrite K2 by exact Hk'. now rewrite DS1.
  - inversion Hcl as [|? ? Hx Hr]; subst.
    pose proof (fold_lcs_nonroot X (y :: r) x HX Hx Hr) as Hm.
    set (m := fold_left lcs (y :: r) x) in *.
    destruct (ensure_spec m s) as (s0 & E0 & O0 & D0 & DS0). unfold bind at 1. rewrite E0.
    unfold up_or_fail. destruct m as [|a u] eqn:Em; [contradiction|]. cbn [up]. unfold bind at 1. unfold ret at 1.
    destruct (ensure_spec u s0) as (s1 & E1 & O1 & D1 & DS1). unfold bind at 1. rewrite E1.
    assert (Hd1 : dup_lookup k (s_dups s1) = Some d) by (rewrite DS1, DS0; exact Hd).
    assert (Hdom1 : dups_dom s1) by (unfold dups_dom; rewrite D1, D0, DS1, DS0; exact Hdom).
    destruct (dup_update_spec k (fun d0 => {| di_og := di_og d0; di_mrca := Some u; di_parent := di_parent d0 |}) s1 d Hd1 Hdom1)
      as (s2 & E2 & O2 & D2 & Hdom2 & L2 & K2).
    exists s2. eexists. split; [exact E2|]. split; [congruence|]. split; [congruence|]. split; [exact Hdom2|]. split; [exact L2|].
    intros k' Hk'. rewrite K2 by exact Hk'. now rewrite DS1, DS0.
Qed.

(* the outermost close of a nest: the duplication sits one level above the common taxon X of the copies *)
Lemma set_mrca_final k members X p b s d :
  members <> [] -> levels_ok X (map htax members) -> X = b :: p ->
  dup_lookup k (s_dups s) = Some d -> dups_dom s ->
  exists s', set_mrca k members s = Ok (tt, s') /\ s_oid s' = s_oid s /\ s_dup s' = s_dup s /\ dups_dom s' /\
    mrca_is s' k p /\ (forall k', k' <> k -> dup_lookup k' (s_dups s') = dup_lookup k' (s_dups s)).
Proof.
  intros Hne Hlv HX Hd Hdom. destruct Hlv as [Hall|(x & r & Hdd & Hr & Hf)].
  - eapply set_mrca_single; eauto.
    + apply Forall_forall. intros y Hy. rewrite Forall_forall in Hall. apply Hall. apply in_map. exact Hy.
    + rewrite HX. reflexivity.
  - unfold set_mrca. rewrite Hdd. destruct r as [|y r']; [contradiction|]. rewrite Hf.
    destruct (ensure_spec X s) as (s0 & E0 & O0 & D0 & DS0). unfold bind at 1. rewrite E0.
    unfold up_or_fail. rewrite HX. cbn [up]. unfold bind at 1. unfold ret at 1.
    destruct (ensure_spec p s0) as (s1 & E1 & O1 & D1 & DS1). unfold bind at 1. rewrite E1.
    assert (Hd1 : dup_lookup k (s_dups s1) = Some d) by (rewrite DS1, DS0; exact Hd).
    assert (Hdom1 : dups_dom s1) by (unfold dups_dom; rewrite D1, D0, DS1, DS0; exact Hdom).
    destruct (dup_update_spec k (fun d0 => {| di_og := di_og d0; di_mrca := Some p; di_parent := di_parent d0 |}) s1 d Hd1 Hdom1)
      as (s2 & E2 & O2 & D2 & Hdom2 & L2 & K2).
    exists s2. split; [exact E2|]. split; [congruence|]. split; [congruence|]. split; [exact Hdom2|]. split.
    + eexists. split; [exact L2|reflexivity].
    + intros k' Hk'. rewrite K2 by exact Hk'. now rewrite DS1, DS0.
Qed.

(* ---------- the copies of one duplication, in any bracketing ---------- *)
Lemma rep_clade t genes c y X : WFh t genes c -> xtax c = X -> rep t c y -> in_clade X (htax y).
Proof.
  intros Hwf HX (h' & Hb & _ & Ht & _). destruct (below_WF t genes c h' Hb Hwf) as (_ & s & Hs).
  exists s. rewrite Ht, Hs, HX. reflexivity.
Qed.

Lemma Forall2_length' {X Y} (R : X -> Y -> Prop) l l' : Forall2 R l l' -> List.length l = List.length l'.
Proof. induction 1; simpl; auto. Qed.

Definition copy_IH (t : stree) (genes : list (string * taxon)) (c : hist) : Prop :=
  forall its l, sp_member t false c its (Some l) -> MK t genes c its l.

Lemma units_eval t genes X k cs body lvls :
  sp_units t cs body lvls ->
  Forall (copy_IH t genes) cs -> Forall (fun c => WFh t genes c /\ xtax c = X) cs -> X <> [] ->
  forall fr s d, dups_dom s -> dup_lookup k (s_dups s) = Some d ->
    Forall (fun x => in_clade X (htax x)) (members_of k (f_kids fr)) ->
  exists ys fr' s' d', body_go t genes (Some k) body fr s = Ok (fr', s') /\
    f_kids fr' = f_kids fr ++ map (pair (Some k)) ys /\ Forall2 (rep t) cs ys /\ map htax ys = lvls /\
    dups_dom s' /\ dup_lookup k (s_dups s') = Some d' /\ s_oid s <= s_oid s' /\ s_dup s <= s_dup s' /\
    (forall k', k' < s_dup s -> k' <> k -> dup_lookup k' (s_dups s') = dup_lookup k' (s_dups s)).
Proof.
  intros Hsp. induction Hsp as [|it cs body lvls Ha Hsp IH|c cr its l body lvls Hm Hsp IH|og cs1 cs2 inner body lv1 lv2 Hne Hsp1 IH1 Hsp2 IH2];
    intros HIH Hwf HX fr s d Hdom Hd Hcl.
  - exists [], fr, s, d. simpl. rewrite app_nil_r. split; [reflexivity|]. split; [reflexivity|]. split; [constructor|].
    split; [reflexivity|]. split; [exact Hdom|]. split; [exact Hd|]. split; [lia|]. split; [lia|]. auto.
  - destruct (annot_eval t genes it (Some k) fr s Ha) as (fr1 & E1 & K1).
    destruct (IH HIH Hwf HX fr1 s d Hdom Hd) as (ys & fr' & s' & d' & E & Hk & R); [rewrite K1; exact Hcl|].
    exists ys, fr', s', d'. rewrite body_go_cons, E1. split; [exact E|]. rewrite <- K1. split; [exact Hk|exact R].
  - inversion HIH as [|? ? Hc HIHr]; subst. inversion Hwf as [|? ? [Hwc Hxc] Hwfr]; subst.
    destruct (Hc its l Hm (Some k) fr s Hdom) as (y & fr1 & s1 & E1 & K1 & R1 & L1 & X1 & D1).
    assert (Hklt : k < s_dup s) by (apply Hdom; congruence).
    assert (Hd1 : dup_lookup k (s_dups s1) = Some d) by (destruct X1 as (_ & _ & C1); rewrite C1; auto).
    assert (Hcl1 : Forall (fun x => in_clade (xtax c) (htax x)) (members_of k (f_kids fr1))).
    { rewrite K1, members_of_app. apply Forall_app. split; [exact Hcl|].
      change [(Some k, y)] with (map (pair (Some k)) [y]). rewrite members_of_flag. constructor; [|constructor].
      eapply rep_clade; eauto. }
    destruct (IH HIHr Hwfr HX fr1 s1 d D1 Hd1 Hcl1) as (ys & fr' & s' & d' & E & Hk & R & Lv & D' & Hd' & O' & Du' & U').
    exists (y :: ys), fr', s', d'. rewrite body_go_app, E1. split; [exact E|].
    split; [rewrite Hk, K1, <- app_assoc; reflexivity|]. split; [constructor; auto|]. split; [simpl; congruence|].
    split; [exact D'|]. split; [exact Hd'|]. destruct X1 as (A1 & B1 & C1). split; [lia|]. split; [lia|].
    intros k' Hk' Hne'. rewrite U' by (auto; lia). apply C1. exact Hk'.
  - apply Forall_app in HIH as [HIH1 HIH2]. apply Forall_app in Hwf as [Hwf1 Hwf2].
    destruct (IH1 HIH1 Hwf1 HX fr s d Hdom Hd Hcl) as (ys1 & fr1 & s1 & d1 & E1 & K1 & R1 & L1 & D1 & Hd1 & O1 & Du1 & U1).
    assert (Hys1 : ys1 <> []).
    { intros ->. apply Forall2_length' in R1. destruct cs1; [contradiction|discriminate]. }
    assert (Hcl1 : Forall (fun x => in_clade X (htax x)) (members_of k (f_kids fr1))).
    { rewrite K1, members_of_app, members_of_flag. apply Forall_app. split; [exact Hcl|].
      clear - R1 Hwf1. induction R1 as [|c y cr yr Hr HF IHF]; constructor.
      - inversion Hwf1 as [|? ? [Hw Hx] _]; subst. eapply rep_clade; eauto.
      - apply IHF. inversion Hwf1; auto. }
    assert (Hmne : members_of k (f_kids fr1) <> []).
    { rewrite K1, members_of_app, members_of_flag. destruct (members_of k (f_kids fr)); destruct ys1; try discriminate. contradiction. }
    destruct (set_mrca_clade k _ X s1 d1 Hmne Hcl1 HX Hd1 D1) as (s2 & d2 & E2 & O2 & Du2 & D2 & Hd2 & U2).
    destruct (IH2 HIH2 Hwf2 HX fr1 s2 d2 D2 Hd2 Hcl1) as (ys2 & fr' & s' & d' & E & Hk & R & Lv & D' & Hd' & O' & Du' & U').
    exists (ys1 ++ ys2), fr', s', d'. split; [|split; [|split; [|split; [|split; [|split; [|split; [|split]]]]]]].
    + rewrite body_go_cons. cbn [eval_item]. unfold bind at 1. unfold ret at 1.
      fold (body_go t genes (Some k)). unfold bind at 1. rewrite E1. unfold bind at 1. rewrite E2. exact E.
    + rewrite Hk, K1, map_app, <- app_assoc. reflexivity.
    + apply Forall2_app; auto.
    + rewrite map_app. congruence.
    + exact D'.
    + exact Hd'.
    + lia.
    + lia.
    + intros k' Hk' Hne'. rewrite U' by (auto; lia). rewrite U2 by exact Hne'. apply U1; auto.
Qed.

(* ---------- a whole paralogGroup nest opened outside any paralogGroup ---------- *)
Lemma members_of_fresh k ks : flags_lt ks k -> members_of k ks = [].
Proof.
  intros H. unfold members_of. induction ks as [|[[k'|] c] r IH]; simpl; [reflexivity| |].
  - assert (k' < k) by (apply (H k' c); left; reflexivity).
    destruct (Nat.eqb k k') eqn:E; [apply Nat.eqb_eq in E; lia|]. apply IH. intros k0 c0 Hin. apply (H k0 c0). right. exact Hin.
  - apply IH. intros k0 c0 Hin. apply (H k0 c0). right. exact Hin.
Qed.

Lemma nest_eval t genes X b p cs body lvls og :
  sp_units t cs body lvls -> levels_ok X lvls -> cs <> [] ->
  Forall (copy_IH t genes) cs -> Forall (fun c => WFh t genes c /\ xtax c = X) cs -> X = b :: p ->
  forall fr s, dups_dom s -> flags_lt (f_kids fr) (s_dup s) ->
  exists ys fr' s', eval_item t genes (IPG og body) None fr s = Ok (fr', s') /\
    f_kids fr' = f_kids fr ++ map (pair (Some (s_dup s))) ys /\ Forall2 (rep t) cs ys /\ map htax ys = lvls /\
    mrca_is s' (s_dup s) p /\ s_dup s < s_dup s' /\ ext s s' /\ dups_dom s'.
Proof.
  intros Hsp Hlv Hne HIH Hwf HX fr s Hdom Hfl.
  destruct (fresh_dup_spec og s Hdom) as (s1 & E1 & D1 & O1 & X1 & Hdom1 & L1).
  set (k := s_dup s) in *.
  assert (HXne : X <> []) by (rewrite HX; discriminate).
  assert (Hcl0 : Forall (fun x => in_clade X (htax x)) (members_of k (f_kids fr))).
  { rewrite members_of_fresh by exact Hfl. constructor. }
  destruct (units_eval t genes X k cs body lvls Hsp HIH Hwf HXne fr s1 _ Hdom1 L1 Hcl0)
    as (ys & fr1 & s2 & d2 & E2 & K2 & R2 & Lv2 & D2 & Hd2 & O2 & Du2 & U2).
  assert (Hys : ys <> []).
  { intros ->. apply Forall2_length' in R2. destruct cs; [contradiction|discriminate]. }
  assert (Hmem : members_of k (f_kids fr1) = ys).
  { rewrite K2, members_of_app, members_of_flag, members_of_fresh by exact Hfl. reflexivity. }
  assert (Hlv' : levels_ok X (map htax ys)) by (rewrite Lv2; exact Hlv).
  destruct (set_mrca_final k ys X p b s2 d2 Hys Hlv' HX Hd2 D2) as (s3 & E3 & O3 & Du3 & D3 & M3 & U3).
  exists ys, fr1, s3. split; [|split; [exact K2|split; [exact R2|split; [exact Lv2|split; [exact M3|split; [|split; [|exact D3]]]]]]].
  - cbn [eval_item]. unfold bind at 1. fold k. rewrite E1. fold (body_go t genes (Some k)).
    unfold bind at 1. rewrite E2. unfold bind at 1. rewrite Hmem, E3. reflexivity.
  - rewrite Du3. lia.
  - destruct X1 as (A1 & B1 & C1). repeat split; try lia. intros k' Hk'.
    rewrite U3 by (unfold k; lia). rewrite U2 by (unfold k in *; lia). apply C1. exact Hk'.
Qed.

(* ---------- the lineages of one group, as left in its frame ---------- *)
Inductive pend (t : stree) (s : lstate) (p : taxon) : list hist -> option nat * list hog -> Prop :=
| pend_kid c y : rep t c y -> pend t s p [c] (None, [y])
| pend_own cs k ys :
    2 <= List.length cs -> Forall2 (rep t) cs ys -> mrca_is s k p -> levels_ok (lin_tax cs) (map htax ys) ->
    pend t s p cs (Some k, ys)
| pend_sole c a cs k ys :
    below c (XH a [cs]) -> 2 <= List.length cs -> Forall2 (rep t) cs ys -> mrca_is s k a ->
    levels_ok (lin_tax cs) (map htax ys) -> pend t s p [c] (Some k, ys).

Definition gflags_lt (gs : list (option nat * list hog)) (n : nat) : Prop := forall k, In k (gflags gs) -> k < n.

Lemma pend_ext t s s' p l g : ext s s' -> gflags_lt [g] (s_dup s) -> pend t s p l g -> pend t s' p l g.
Proof.
  intros He Hlt H. destruct H as [c y Hr|cs k ys H2 HF Hm Hl|c a cs k ys Hb H2 HF Hm Hl].
  - constructor. exact Hr.
  - constructor; auto. eapply mrca_is_ext; eauto. apply Hlt. unfold gflags. simpl. left. reflexivity.
  - eapply pend_sole; eauto. eapply mrca_is_ext; eauto. apply Hlt. unfold gflags. simpl. left. reflexivity.
Qed.

Lemma flags_lt_gkids gs n : gflags_lt gs n -> flags_lt (gkids gs) n.
Proof. intros H k c Hin. apply H. eapply gkids_flags_in; eauto. Qed.

Lemma gflags_app a b : gflags (a ++ b) = gflags a ++ gflags b.
Proof. unfold gflags. apply flat_map_app. Qed.

Definition lin_ok (t : stree) (genes : list (string * taxon)) (p : taxon) (l : list hist) : Prop :=
  l <> [] /\ Forall (fun c => WFh t genes c /\ exists b, xtax c = b :: p /\ lin_tax l = b :: p) l.

Definition exact_kid (l : list hist) (g : option nat * list hog) : Prop :=
  match l with [c] => exists y, g = (None, [y]) /\ htax y = xtax c | _ => True end.

Lemma body_eval t genes p sgl lins body :
  sp_body t sgl p lins body ->
  Forall (Forall (Pmember t genes)) lins -> Forall (lin_ok t genes p) lins ->
  forall gs0 fr s, f_kids fr = gkids gs0 -> gflags_lt gs0 (s_dup s) -> dups_dom s ->
  exists gs fr' s', body_go t genes None body fr s = Ok (fr', s') /\ f_kids fr' = gkids (gs0 ++ gs) /\
    Forall2 (pend t s' p) lins gs /\ ext s s' /\ dups_dom s' /\
    flags_from (s_dup s) gs /\ gflags_lt gs (s_dup s') /\ NoDup (gflags gs) /\
    (sgl = true -> Forall2 exact_kid lins gs).
Proof.
  intros Hsp. induction Hsp as [sgl p|sgl p it lins body Ha Hsp IH|sgl p c lr its lv body Hm Hex Hsp IH|sgl p cs lr og pgbody lvls body H2 Hun Hlv Hsp IH];
    intros HIH Hok gs0 fr s Hk Hlt Hdom.
  - exists [], fr, s. rewrite app_nil_r. split; [reflexivity|]. split; [exact Hk|]. split; [constructor|]. split; [apply ext_refl|].
    split; [exact Hdom|]. split; [intros k []|]. split; [intros k []|]. split; [constructor|]. intros _. constructor.
  - destruct (annot_eval t genes it None fr s Ha) as (fr1 & E1 & K1).
    destruct (IH HIH Hok gs0 fr1 s) as (gs & fr' & s' & E & R); [rewrite K1; exact Hk|exact Hlt|exact Hdom|].
    exists gs, fr', s'. rewrite body_go_cons, E1. split; [exact E|exact R].
  - (* a plain-ortholog lineage *)
    inversion HIH as [|? ? HIHc HIHr]; subst. inversion Hok as [|? ? [_ Hokc] Hokr]; subst.
    inversion HIHc as [|? ? Pc _]; subst. inversion Hokc as [|? ? (Hwc & bc & Hxc & Hlc) _]; subst.
    pose proof (Pc Hwc true its lv Hm) as Hclaim.
    assert (Hstep : exists g fr1 s1, body_go t genes None its fr s = Ok (fr1, s1) /\ f_kids fr1 = gkids (gs0 ++ [g]) /\
              pend t s1 p [c] g /\ ext s s1 /\ dups_dom s1 /\ flags_from (s_dup s) [g] /\ gflags_lt [g] (s_dup s1) /\
              NoDup (gflags [g]) /\ (sgl = true -> exact_kid [c] g)).
    { destruct lv as [l|]; cbn [member_claim] in Hclaim.
      - destruct (Hclaim None fr s Hdom) as (y & fr1 & s1 & E1 & K1 & R1 & L1 & X1 & D1).
        exists (None, [y]), fr1, s1. split; [exact E1|]. split.
        { rewrite K1, Hk, gkids_app. unfold gkids at 3. simpl. reflexivity. }
        split; [constructor; exact R1|]. split; [exact X1|]. split; [exact D1|].
        split; [intros k []|]. split; [intros k []|]. split; [constructor|].
        intros Hs. exists y. split; [reflexivity|]. specialize (Hex Hs). inversion Hex. congruence.
      - destruct (Hclaim fr s Hdom) as (ys & a & cs & fr1 & s1 & E1 & K1 & B1 & L2 & R1 & Lv1 & M1 & Lt1 & X1 & D1).
        { rewrite Hk. apply flags_lt_gkids. exact Hlt. }
        exists (Some (s_dup s), ys), fr1, s1. split; [exact E1|]. split.
        { rewrite K1, Hk, gkids_app. unfold gkids at 3. simpl. rewrite app_nil_r. reflexivity. }
        split; [eapply pend_sole; eauto|]. split; [exact X1|]. split; [exact D1|].
        split; [intros k [<-|[]]; lia|]. split; [intros k [<-|[]]; exact Lt1|]. split; [constructor; [intros []|constructor]|].
        intros Hs. specialize (Hex Hs). discriminate. }
    destruct Hstep as (g & fr1 & s1 & E1 & K1 & P1 & X1 & D1 & F1 & G1 & N1 & Ex1).
    assert (Hlt1 : gflags_lt (gs0 ++ [g]) (s_dup s1)).
    { intros k Hin. rewrite gflags_app in Hin. apply in_app_or in Hin as [Hin|Hin]; [|apply G1; exact Hin].
      destruct X1 as (_ & B1 & _). specialize (Hlt k Hin). lia. }
    destruct (IH HIHr Hokr (gs0 ++ [g]) fr1 s1 K1 Hlt1 D1) as (gs & fr' & s' & E & K & P & X' & D' & F' & G' & N' & Ex').
    exists (g :: gs), fr', s'. split; [rewrite body_go_app, E1; exact E|].
    split; [rewrite K, <- app_assoc; reflexivity|].
    split; [constructor; [eapply pend_ext; eauto|exact P]|].
    split; [eapply ext_trans; eauto|]. split; [exact D'|].
    assert (Hb1 : s_dup s <= s_dup s1) by (destruct X1 as (_ & B & _); exact B).
    assert (Hb2 : s_dup s1 <= s_dup s') by (destruct X' as (_ & B & _); exact B).
    split; [|split; [|split]].
    + intros k Hin. change (g :: gs) with ([g] ++ gs) in Hin. rewrite gflags_app in Hin. apply in_app_or in Hin as [Hin|Hin].
      * apply F1. exact Hin.
      * specialize (F' k Hin). lia.
    + intros k Hin. change (g :: gs) with ([g] ++ gs) in Hin. rewrite gflags_app in Hin. apply in_app_or in Hin as [Hin|Hin].
      * specialize (G1 k Hin). lia.
      * apply G'. exact Hin.
    + change (g :: gs) with ([g] ++ gs). rewrite gflags_app. apply nodup_app_intro; auto.
      intros k Hk1 Hk2. specialize (G1 k Hk1). specialize (F' k Hk2). lia.
    + intros Hs. constructor; auto.
  - (* the copies of a duplication *)
    inversion HIH as [|? ? HIHc HIHr]; subst. inversion Hok as [|? ? [Hne Hokc] Hokr]; subst.
    assert (HX : exists b, lin_tax cs = b :: p).
    { destruct cs as [|c0 cr]; [contradiction|]. inversion Hokc as [|? ? (_ & b & _ & Hl) _]; subst. eauto. }
    destruct HX as [b HX].
    assert (Hcopy : Forall (copy_IH t genes) cs).
    { rewrite Forall_forall in *. intros c Hc its l Hm. destruct (Hokc c Hc) as (Hw & _). apply (HIHc c Hc Hw false its (Some l) Hm). }
    assert (Hwfx : Forall (fun c => WFh t genes c /\ xtax c = lin_tax cs) cs).
    { rewrite Forall_forall in *. intros c Hc. destruct (Hokc c Hc) as (Hw & b' & Hx & Hl). split; [exact Hw|congruence]. }
    destruct (nest_eval t genes (lin_tax cs) b p cs pgbody lvls og Hun Hlv Hne Hcopy Hwfx HX fr s Hdom)
      as (ys & fr1 & s1 & E1 & K1 & R1 & Lv1 & M1 & Lt1 & X1 & D1).
    { rewrite Hk. apply flags_lt_gkids. exact Hlt. }
    set (g := (Some (s_dup s), ys)).
    assert (K1' : f_kids fr1 = gkids (gs0 ++ [g])).
    { rewrite K1, Hk, gkids_app. unfold gkids at 3. simpl. rewrite app_nil_r. reflexivity. }
    assert (Hlt1 : gflags_lt (gs0 ++ [g]) (s_dup s1)).
    { intros k Hin. rewrite gflags_app in Hin. apply in_app_or in Hin as [Hin|Hin].
      - specialize (Hlt k Hin). lia.
      - destruct Hin as [<-|[]]. exact Lt1. }
    destruct (IH HIHr Hokr (gs0 ++ [g]) fr1 s1 K1' Hlt1 D1) as (gs & fr' & s' & E & K & P & X' & D' & F' & G' & N' & Ex').
    exists (g :: gs), fr', s'. split; [rewrite body_go_cons, E1; exact E|].
    split; [rewrite K, <- app_assoc; reflexivity|].
    assert (Hb2 : s_dup s1 <= s_dup s') by (destruct X' as (_ & B & _); exact B).
    split.
    { constructor; [|exact P]. eapply pend_ext; [exact X'| |].
      - intros k [<-|[]]. exact Lt1.
      - apply pend_own; auto. rewrite Lv1. exact Hlv. }
    split; [eapply ext_trans; eauto|]. split; [exact D'|]. split; [|split; [|split]].
    + intros k Hin. change (g :: gs) with ([g] ++ gs) in Hin. rewrite gflags_app in Hin. apply in_app_or in Hin as [Hin|Hin].
      * destruct Hin as [<-|[]]. lia.
      * specialize (F' k Hin). lia.
    + intros k Hin. change (g :: gs) with ([g] ++ gs) in Hin. rewrite gflags_app in Hin. apply in_app_or in Hin as [Hin|Hin].
      * destruct Hin as [<-|[]]. lia.
      * apply G'. exact Hin.
    + change (g :: gs) with ([g] ++ gs). rewrite gflags_app. apply nodup_app_intro; auto.
      * constructor; [intros []|constructor].
      * intros k [<-|[]] Hk2. specialize (F' _ Hk2). lia.
    + intros Hs. constructor; auto. unfold exact_kid. destruct cs as [|c0 [|c1 cr]]; simpl in H2; try lia; exact I.
Qed.
