(* C19 — annotations stay attached to the object they annotate. *)
From Coq Require Import List Arith Bool String Permutation.
From PyHam Require Import Tax Ortho Loader.
From PyHam.proofs Require Import LoaderFacts AnnotFacts.
Import ListNotations.

(* own_props / own_scores: the annotations written on a group itself (directly in its body or inside
   its paralogGroups - both attach to the innermost open orthologGroup -, not inside sub-groups), in
   document order (a dict: the last write of a key wins, an absent key is a KeyError).
   The HOG created for a top-level group carries the group's id (id, else og) and exactly these
   annotations; every HOG below it that was synthesised for a skipped level carries none (annot_ok). *)
Theorem c19_top_level : forall t genes id og body s i h s',
  eval_top t genes (IOG id og body) s = Ok ((i, h), s') ->
  annot_ok h /\
  exists o lvl ks,
    h = HHog o lvl {| m_id := match id with Some x => Some x | None => og end; m_og := og;
                      m_props := flat_map own_props body; m_scores := flat_map own_scores body;
                      m_synth := false |} ks.
Proof. exact top_annotations. Qed.
Print Assumptions c19_top_level.

(* the same for a group at any depth: whenever closing it creates a HOG (it is not a collapsed
   species-level wrapper), that HOG carries the group's id and exactly its own annotations *)
Theorem c19_nested : forall t genes id og body s inner t1 h s',
  eval_body t genes body None empty_frame s = Ok (inner, t1) ->
  close_og t false id og inner t1 = Ok (Node h, s') ->
  annot_ok h /\
  exists o lvl ks,
    h = HHog o lvl {| m_id := match id with Some x => Some x | None => og end; m_og := og;
                      m_props := flat_map own_props body; m_scores := flat_map own_scores body;
                      m_synth := false |} ks.
Proof. exact nested_annotations. Qed.
Print Assumptions c19_nested.

(* what an element contributes to the annotations of the enclosing open group *)
Theorem c19_frame : forall t genes it pg fr s fr' s',
  eval_item t genes it pg fr s = Ok (fr', s') ->
  f_props fr' = f_props fr ++ own_props it /\ f_scores fr' = f_scores fr ++ own_scores it.
Proof. intros t genes it. exact (eval_item_annots t genes it). Qed.
Print Assumptions c19_frame.

Local Open Scope string_scope.
Definition tr : stree :=
  SNode "R" [SNode "X" []; SNode "M" [SNode "E" [SNode "H" []; SNode "P" []]; SNode "C" []]].
Definition doc0 : doc :=
  {| d_species := [ {| sp_name := "H"; sp_genes := [ {| gd_id := "h1"; gd_xrefs := [] |}; {| gd_id := "h2"; gd_xrefs := [] |} ] |};
                    {| sp_name := "X"; sp_genes := [ {| gd_id := "x1"; gd_xrefs := [] |} ] |} ];
     d_groups := [ IOG (Some "f") None [IScore "s" "0.5"; IGene "x1" (Some "L1");
                                        IPG None [IGene "h1" None; IProp "k" "v"; IGene "h2" None]] ] |}.
Example c19_nonvacuous :
  match load tr doc0 with
  | Ok l => map (fun top => match snd top with HHog _ _ m _ => (m_id m, m_props m, m_scores m) | _ => (None, [], []) end) (l_tops l)
            = [(Some "f", [("k", "v")], [("s", "0.5")])] /\ s_lofts (l_state l) = [("x1", "L1")]
  | Err _ => False
  end.
Proof. vm_compute. split; reflexivity. Qed.
