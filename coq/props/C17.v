(* C17 — analyses are read-only: results do not depend on call history. *)
From Coq Require Import List Arith Bool String.
From PyHam Require Import Tax Ortho Loader Mapper Profile Nav Export Session.
From PyHam.proofs Require Import SessionFacts.
Import ListNotations.

(* For every forest, every finite sequence `ops` of analysis calls (vertical and lateral comparisons,
   whole-dataset and per-family profiles, ancestral clustering, iHam export, navigation from a HOG, get_at_level,
   with arbitrary arguments, repeated and interleaved) and every further call o: the result of o after the history equals its result on the
   freshly loaded analysis, which is a function of the loaded data only (pure_out).  The caches
   (HOGMaps keyed by the pair, memoised clustering, memoised iHam page) are therefore not observable.
   The loaded forest is a parameter of the step function: no call writes to it. *)
Theorem c17_history_independent : forall t fo gs ops o,
  snd (sstep t fo (srun t fo ops (sinit gs)) o) = snd (sstep t fo (sinit gs) o) /\
  snd (sstep t fo (sinit gs) o) = pure_out t fo o.
Proof. exact history_independent. Qed.
Print Assumptions c17_history_independent.

(* every cache entry reachable by any history equals the recomputation *)
Theorem c17_cache_invariant : forall t fo gs ops, cache_ok t fo (srun t fo ops (sinit gs)).
Proof. intros. apply srun_ok. apply cache_ok_init. Qed.
Print Assumptions c17_cache_invariant.

(* the only side effect: genome objects are added, never removed *)
Theorem c17_genomes_only_grow : forall t fo gs ops x,
  In x gs -> In x (ss_genomes (srun t fo ops (sinit gs))).
Proof. exact genomes_monotone. Qed.
Print Assumptions c17_genomes_only_grow.

(* ... and only ancestral ones: the whole-dataset profile creates genomes of internal nodes only (finding F8
   repaired: no extant genome for a species without genes), a lateral comparison the genome of the MRCA of its
   arguments, every other call none *)
Theorem c17_only_ancestral_genomes_created : forall t fo s o x,
  In x (ss_genomes (fst (sstep t fo s o))) ->
  In x (ss_genomes s) \/ (o = OProfileFull /\ is_leaf t x = false) \/ (exists g1 g2, o = OLateral g1 g2 /\ x = lcs g1 g2).
Proof. exact new_genomes. Qed.
Print Assumptions c17_only_ancestral_genomes_created.

(* the listings of Ham.get_list_extant_genomes / get_list_ancestral_genomes after any call history whose lateral
   comparisons take genomes that exist: the extant listing is the one of the fresh analysis; the ancestral listing
   is the fresh one plus internal nodes of the tree (the permitted side effect: taxa without genes start to appear
   as empty ancestral genomes - their gene content is a function of the unchanged forest) *)
Theorem c17_extant_listing_unchanged : forall t fo ops s,
  Forall (fun p => valid t p = true) (ss_genomes s) -> args_ok (ss_genomes s) ops ->
  extant_listing t (srun t fo ops s) = extant_listing t s.
Proof. exact extant_listing_stable. Qed.
Print Assumptions c17_extant_listing_unchanged.

Theorem c17_ancestral_listing_only_grows : forall t fo ops s,
  Forall (fun p => valid t p = true) (ss_genomes s) -> args_ok (ss_genomes s) ops ->
  exists extra, ancestral_listing t (srun t fo ops s) = ancestral_listing t s ++ extra /\
                Forall (fun p => is_leaf t p = false /\ valid t p = true) extra.
Proof. exact ancestral_listing_grows. Qed.
Print Assumptions c17_ancestral_listing_only_grows.

Definition m0 : hmeta := {| m_id := None; m_og := None; m_props := []; m_scores := []; m_synth := false |}.
Definition tr : stree :=
  SNode "R" [SNode "X" []; SNode "M" [SNode "E" [SNode "H" []; SNode "P" []]; SNode "C" []]].
Definition fam : hog :=
  HHog 0 [1] m0 [(Some 0, HHog 2 [0; 1] m0 [(None, HGene "h1" [0; 0; 1])]);
                 (Some 0, HHog 3 [0; 1] m0 [(None, HGene "h2" [0; 0; 1]); (None, HGene "p2" [1; 0; 1])]);
                 (None, HGene "c1" [1; 1])].
Definition fo0 : forest := {| fo_tops := [fam]; fo_singles := [] |}.
(* X is a species of the tree without any gene: the profile gives it no genome (and no map) *)
Example c17_nonvacuous :
  let ops := [OLateral [0; 0; 1] [1; 1]; OVertical [0; 1] [0; 0; 1]; OProfileFull; OVertical [0; 0; 1] [1]; OIham 0; OClustering [0; 1];
              OProfileHog 0; ONav 2; OAtLevel (RHog 2) [0; 0; 1]] in
  let s0 := sinit [[1]; [0; 1]; [0; 0; 1]; [1; 0; 1]; [1; 1]] in
  List.length (ss_maps (srun tr fo0 ops s0)) = 6 /\
  ss_genomes (srun tr fo0 ops s0) = [[1]; [0; 1]; [0; 0; 1]; [1; 0; 1]; [1; 1]; []] /\
  is_leaf tr [0] = true /\
  extant_listing tr (srun tr fo0 ops s0) = [[0; 0; 1]; [1; 0; 1]; [1; 1]] /\
  ancestral_listing tr (srun tr fo0 ops s0) = [[1]; [0; 1]; []].
Proof. vm_compute. repeat split; reflexivity. Qed.
