#!/usr/bin/env python3
"""writes /verif/MANIFEST.json from the table below (kept in one place so that it stays valid)"""
import json
import os

HERE = os.path.dirname(os.path.abspath(__file__))
VERIF = os.path.abspath(os.path.join(HERE, '..'))

NOTE = ('Trusted base: Coq 8.16.1 kernel; no axioms (Print Assumptions: closed under the global context); extraction with '
        'ExtrOcamlBasic only; driver/driver.ml and the Python harness; ete3/expat/dict/set behaviour is modelled, not verified; '
        'the model is tied to /repo by a correspondence check (differential testing) run by this command on /repo\'s working tree.')

# property -> (theorems proved, what the theorem covers, correspondence layers, design section)
P = {
 'C01': ('', 'parser layer + predicate c01 on the implementation\'s load', '6/C01'),
 'C02': ('', 'parser layer + extracted wfb evaluated on the implementation\'s forest', '6/C02'),
 'C03': ('', 'parser layer + generating-history oracle', '6/C03'),
 'C04': ('', 'parser layer (genome tables) + predicate c04', '6/C04'),
 'C05': ('', 'mapper layer on all sampled lineage pairs, sets compared', '6/C05'),
 'C06': ('', 'mapper layer + independent downward classification', '6/C06'),
 'C07': ('', 'mapper layer (up-maps of all three pairs of lineage triples)', '6/C07'),
 'C08': ('', 'mapper layer through the public entry points, both argument orders', '6/C08'),
 'C09': ('', 'profile layer + HTML numbers', '6/C09'),
 'C10': ('', 'profile layer per family + additivity', '6/C10'),
 'C11': ('', 'filter layer: filtered load vs projection of the full load vs model', '6/C11'),
 'C12': ('', 'exporter layer + real re-load + page content', '6/C12'),
 'C13': ('', 'configuration product on the implementation; one model evaluation per input', '6/C13'),
 'C14': ('', 'several spellings per history + hash seeds', '6/C14'),
 'C15': ('', 'lookups over all objects and key spellings; ambiguous-name tree stream', '6/C15'),
 'C16': ('', 'navigation layer', '6/C16'),
 'C17': ('', 'random call histories on two analyses vs fresh analyses', '6/C17'),
 'C18': ('', 'taxonomy layer: names, depths, path queries, Newick text and re-parse', '6/C18'),
 'C19': ('', 'parser layer annotation columns + predicate from the file', '6/C19'),
 'C20': ('', 'single-fault stream: implementation raises, model returns Err', '6/C20'),
}

LEVELS = json.load(open(os.path.join(HERE, 'levels.json'))) if os.path.exists(os.path.join(HERE, 'levels.json')) else {}


def main():
    checks = []
    for pid in sorted(P):
        _, corr, ref = P[pid]
        lv = LEVELS.get(pid, {})
        text = lv.get('text') or ('Correspondence between the extracted Coq model and the real pyham (%s), plus the property\'s '
                                  'predicate evaluated on what the real code built. No theorem registered yet for this property.' % corr)
        checks.append({
            'property_id': pid,
            'quick_cmd': './check %s --tier quick' % pid,
            'thorough_cmd': './check %s --tier thorough' % pid,
            'evidence_file': 'evidence/%s.json' % pid,
            'replay_cmd_template': './check %s --replay {path}' % pid,
            'engine': 'coq-model+correspondence',
            'level_claimed': {'category': lv.get('category', 'other'), 'text': text, 'design_ref': 'DESIGN.md section ' + ref},
            'level_note': NOTE + (' ' + lv['note'] if lv.get('note') else ''),
            'technique': lv.get('technique', 'Coq model + correspondence (differential) check; theorem pending'),
        })
    m = {
        'version': 1,
        'setup_cmd': './setup.sh',
        'hooks': {'guard': 'PYHAM_VERIF', 'enable': 'no hooks are needed: everything is observed through the public API and public attributes',
                  'baseline_off_cmd': 'cd /repo && /venv/bin/python -m pytest -q -p no:cacheprovider --timeout=900',
                  'source_commits': [], 'add_only': True},
        'engines': [{'name': 'coq-model+correspondence', 'path': 'coq/ driver/ harness/', 'serves_properties': sorted(P),
                     'kind_free_text': 'hand-written Gallina model with theorems (coq/props), extracted to OCaml and compared with the '
                                       'real pyham layer by layer on generated inputs'}],
        'checks': checks,
        'notes': 'Fix commits in /repo (F1-F7, F10) and open findings (F8, F9) are listed in known_findings.json and DESIGN.md section 8.',
        'not_applicable': [],
    }
    with open(os.path.join(VERIF, 'MANIFEST.json'), 'w') as f:
        json.dump(m, f, indent=1)


if __name__ == '__main__':
    main()
