#!/usr/bin/env python3
"""save_mutant.py <src dir> <name> <property> <needs> <caught,comma,separated>"""
import sys, os, json, shutil
src, name, prop, needs, caught = sys.argv[1:6]
dst = os.path.join('/verif/seeded', name)
os.makedirs(dst, exist_ok=True)
for f in ('patch.diff', 'demo.py', 'NOTES.md'):
    if os.path.exists(os.path.join(src, f)):
        shutil.copy(os.path.join(src, f), os.path.join(dst, f))
json.dump({
    'property': prop,
    'needs_to_manifest': needs,
    'written_by': 'independent sub-agent given only the property text and a scratch worktree',
    'confirmed': 'tools/confirm_mutant.sh: scratch worktree of /repo HEAD; patch applies; pytest 103 passed / 1 failed (network) '
                 'as baseline; demo.py exits 1 with the patch and 0 without (run from a neutral directory with PYTHONPATH=<worktree>)',
    'ran': 'tools/try_mutant.sh seeded/%s/patch.diff quick <checks>' % name,
    'caught_by_quick_checks': [c for c in caught.split(',') if c],
}, open(os.path.join(dst, 'meta.json'), 'w'), indent=1)
print('saved', dst)
