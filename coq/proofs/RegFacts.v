(* RegFacts.v — every HOG the loader creates is registered once in the genome of its taxon and ends up
   in the hierarchy (C04): registrations added == HOG nodes added, through every step. *)
From Coq Require Import List Arith Bool String Lia Permutation.
From PyHam Require Import Tax Ortho Loader Filter.
From PyHam.proofs Require Import TaxFacts MapperFacts ForestFacts LoaderFacts.
Import ListNotations.

Definition hogregs (h : hog) : list (taxon * ref) := map (fun x => (htax x, href x)) (hogs_of h).
Definition hregs (ks : list kid) : list (taxon * ref) := flat_map (fun k => hogregs (snd k)) ks.

Lemma hregs_app a b : hregs (a ++ b) = hregs a ++ hregs b.
Proof. unfold hregs. apply flat_map_app. Qed.

Lemma hogregs_node o p m ks : hogregs (HHog o p m ks) = (p, RHog o) :: hregs ks.
Proof.
  unfold hogregs, hregs. cbn [hogs_of map htax href]. f_equal.
  induction ks as [|k r IH]; simpl; [reflexivity|]. now rewrite map_app, IH.
Qed.
Lemma hregs_single f h : hregs [(f, h)] = hogregs h.
Proof. unfold hregs. simpl. apply app_nil_r. Qed.

(* "regs added = hogs added":  regs after ++ hogs before  ~  regs before ++ hogs after *)
Definition conserves (s s' : lstate) (before after : list (taxon * ref)) : Prop :=
  Permutation (s_regs s' ++ before) (s_regs s ++ after).

Definition reg_dec : forall x y : taxon * ref, {x = y} + {x <> y}.
Proof.
  decide equality.
  - decide equality; [apply string_dec|apply Nat.eq_dec].
  - apply (list_eq_dec Nat.eq_dec).
Defined.

(* permutations of concatenations by counting *)
Lemma perm_counts (l1 l2 : list (taxon * ref)) :
  Permutation l1 l2 -> forall x, count_occ reg_dec l1 x = count_occ reg_dec l2 x.
Proof. intros H. apply (proj1 (Permutation_count_occ reg_dec l1 l2) H). Qed.
Lemma counts_perm (l1 l2 : list (taxon * ref)) :
  (forall x, count_occ reg_dec l1 x = count_occ reg_dec l2 x) -> Permutation l1 l2.
Proof. intros H. apply (proj2 (Permutation_count_occ reg_dec l1 l2) H). Qed.

Ltac perm_count :=
  rewrite ?app_nil_r in *;
  apply counts_perm;
  let z := fresh "z" in intro z;
  repeat match goal with H : Permutation _ _ |- _ =>
    apply (fun P => perm_counts _ _ P z) in H end;
  repeat rewrite count_occ_app in *; lia.

Lemma conserves_refl s l : conserves s s l l.
Proof. apply Permutation_refl. Qed.

Lemma conserves_trans s1 s2 s3 a b c :
  conserves s1 s2 a b -> conserves s2 s3 b c -> conserves s1 s3 a c.
Proof. unfold conserves. intros H1 H2. perm_count. Qed.

(* adding the same hogs on both sides *)
Lemma conserves_frame s s' a b y : conserves s s' a b -> conserves s s' (a ++ y) (b ++ y).
Proof. unfold conserves. intros H. perm_count. Qed.
Lemma conserves_frame_l s s' a b y : conserves s s' a b -> conserves s s' (y ++ a) (y ++ b).
Proof. unfold conserves. intros H. perm_count. Qed.
Lemma conserves_perm s s' a a' b b' :
  Permutation a a' -> Permutation b b' -> conserves s s' a b -> conserves s s' a' b'.
Proof. unfold conserves. intros Ha Hb H. perm_count. Qed.

(* state-only operations *)
Lemma ensure_regs p s u s' : ensure_genome p s = Ok (u, s') -> s_regs s' = s_regs s.
Proof. unfold ensure_genome. destruct (mem_tax p (s_genomes s)); intros H; inversion H; reflexivity. Qed.
Lemma fresh_oid_regs s o s' : fresh_oid s = Ok (o, s') -> s_regs s' = s_regs s.
Proof. unfold fresh_oid. intros H; inversion H; reflexivity. Qed.
Lemma fresh_dup_regs og s k s' : fresh_dup og s = Ok (k, s') -> s_regs s' = s_regs s.
Proof. unfold fresh_dup. intros H; inversion H; reflexivity. Qed.
Lemma dup_update_regs k f s u s' : dup_update k f s = Ok (u, s') -> s_regs s' = s_regs s.
Proof. unfold dup_update. destruct (dup_lookup k (s_dups s)); intros H; inversion H; reflexivity. Qed.
Lemma dup_mrca_regs k s m s' : dup_mrca k s = Ok (m, s') -> s' = s.
Proof. unfold dup_mrca. intros H; inversion H; reflexivity. Qed.
Lemma set_loft_regs g l s u s' : set_loft g l s = Ok (u, s') -> s_regs s' = s_regs s.
Proof. unfold set_loft. destruct (assoc g (s_lofts s)); intros H; inversion H; reflexivity. Qed.
Lemma get_loft_regs g s l s' : get_loft g s = Ok (l, s') -> s' = s.
Proof. unfold get_loft. intros H; inversion H; reflexivity. Qed.
Lemma register_regs p r s u s' : register p r s = Ok (u, s') -> s_regs s' = s_regs s ++ [(p, r)].
Proof. unfold register. intros H; inversion H; reflexivity. Qed.
Lemma up_or_fail_regs p s q s' : up_or_fail p s = Ok (q, s') -> s' = s.
Proof. unfold up_or_fail. destruct (up p); [intros H; apply ret_ok in H as [_ <-]; reflexivity|discriminate]. Qed.
Lemma chain_id_regs c hid s i s' : chain_id c hid s = Ok (i, s') -> s' = s.
Proof.
  destruct c as [g p|o p m ks]; simpl.
  - intros H. inv_bind_as H l t1 E1 K1. apply get_loft_regs in E1. apply ret_ok in K1 as [_ <-]. exact E1.
  - intros H. apply ret_ok in H as [_ <-]. reflexivity.
Qed.

Lemma conserves_same_regs s s' l : s_regs s' = s_regs s -> conserves s s' l l.
Proof. unfold conserves. intros ->. apply Permutation_refl. Qed.

(* Ham._add_missing_taxon *)
Lemma chain_conserves hid path : forall fl c s h s',
  chain hid path fl c s = Ok (h, s') -> conserves s s' (hogregs c) (hogregs h).
Proof.
  induction path as [|tx r IH]; intros fl c s h s' H.
  - apply ret_ok in H as [<- <-]. apply conserves_refl.
  - cbn [chain] in H. inv_bind_as H u1 t1 E1 K1. inv_bind_as K1 o t2 E2 K2. inv_bind_as K2 u3 t3 E3 K3.
    apply IH in K3. apply ensure_regs in E1. apply fresh_oid_regs in E2. apply register_regs in E3.
    eapply conserves_trans; [|exact K3].
    rewrite hogregs_node, hregs_single. unfold conserves. rewrite E3, E2, E1.
    change ((tx, RHog o) :: hogregs c) with ([(tx, RHog o)] ++ hogregs c). perm_count.
Qed.

Lemma lift_member_conserves hid target k c s kd s' :
  lift_member hid target k c s = Ok (kd, s') -> conserves s s' (hogregs c) (hogregs (snd kd)).
Proof.
  unfold lift_member. intros H. inv_bind_as H cid t1 E1 K1. inv_bind_as K1 top t2 E2 K2.
  apply ret_ok in K2 as [<- <-]. apply chain_id_regs in E1. subst t1. simpl. eapply chain_conserves; eauto.
Qed.

Lemma mapM_conserves {X} (f : X -> M kid) (G : X -> list (taxon * ref)) :
  (forall c s kd s', f c s = Ok (kd, s') -> conserves s s' (G c) (hogregs (snd kd))) ->
  forall l s rs s', mapM f l s = Ok (rs, s') -> conserves s s' (flat_map G l) (hregs rs).
Proof.
  intros Hf. induction l as [|c r IH]; intros s rs s' H.
  - apply ret_ok in H as [<- <-]. apply conserves_refl.
  - cbn [mapM] in H. inv_bind_as H kd t1 E1 K1. inv_bind_as K1 rs' t2 E2 K2. apply ret_ok in K2 as [<- <-].
    apply Hf in E1. apply IH in E2. unfold hregs. simpl. fold (hregs rs').
    unfold conserves in *. perm_count.
Qed.

Lemma members_rest_hregs k ks :
  Permutation (hregs ks) (hregs (filter (not_member k) ks) ++ flat_map hogregs (members_of k ks)).
Proof.
  unfold members_of, hregs.
  set (p := fun kd : kid => match fst kd with Some k' => Nat.eqb k k' | None => false end).
  assert (E : forall kd, not_member k kd = negb (p kd)).
  { intros [[k'|] c]; unfold not_member, p; simpl; reflexivity. }
  rewrite (filter_ext _ _ E). rewrite flat_map_concat_map with (l := map snd _). rewrite map_map.
  rewrite <- flat_map_concat_map. rewrite <- flat_map_app.
  apply Permutation_flat_map. apply filter_partition_perm.
Qed.

Lemma rehome_conserves hid hoid lvl ks k s ks' s' :
  rehome hid hoid lvl ks k s = Ok (ks', s') -> conserves s s' (hregs ks) (hregs ks').
Proof.
  unfold rehome. intros H. inv_bind_as H m t0 E0 K0. apply dup_mrca_regs in E0. subst t0.
  destruct m as [a|]; [|discriminate].
  eapply conserves_perm; [apply Permutation_sym; apply (members_rest_hregs k ks)|apply Permutation_refl|].
  destruct (negb (taxon_eqb a lvl)).
  - inv_bind_as K0 u1 t1 E1 K1. inv_bind_as K1 mo t2 E2 K2. inv_bind_as K2 u3 t3 E3 K3.
    inv_bind_as K3 lifted t4 E4 K4. inv_bind_as K4 u5 t5 E5 K5. apply ret_ok in K5 as [<- <-].
    apply ensure_regs in E1. apply fresh_oid_regs in E2. apply register_regs in E3. apply dup_update_regs in E5.
    apply (mapM_conserves _ hogregs) in E4; [|intros c s0 kd s0' Hc; eapply lift_member_conserves; eauto].
    rewrite hregs_app. apply conserves_frame_l.
    rewrite hregs_single, hogregs_node. unfold conserves in *. rewrite E5. rewrite E3, E2, E1 in E4.
    change ((a, RHog mo) :: hregs lifted) with ([(a, RHog mo)] ++ hregs lifted). perm_count.
  - inv_bind_as K0 u1 t1 E1 K1. inv_bind_as K1 lifted t2 E2 K2. apply ret_ok in K2 as [<- <-].
    apply dup_update_regs in E1.
    apply (mapM_conserves _ hogregs) in E2; [|intros c s0 kd s0' Hc; eapply lift_member_conserves; eauto].
    rewrite hregs_app. apply conserves_frame_l. unfold conserves in *. rewrite E1 in E2. exact E2.
Qed.

Lemma foldM_rehome_conserves hid hoid lvl keys : forall ks s ks' s',
  foldM (rehome hid hoid lvl) keys ks s = Ok (ks', s') -> conserves s s' (hregs ks) (hregs ks').
Proof.
  induction keys as [|k r IH]; intros ks s ks' s' H.
  - apply ret_ok in H as [<- <-]. apply conserves_refl.
  - cbn [foldM] in H. inv_bind_as H ks1 t1 E1 K1. eapply conserves_trans; [eapply rehome_conserves; eauto|eapply IH; eauto].
Qed.

Lemma lift_generic_conserves hid lvl kd s kd' s' :
  lift_generic hid lvl kd s = Ok (kd', s') -> conserves s s' (hogregs (snd kd)) (hogregs (snd kd')).
Proof.
  unfold lift_generic. intros H. inv_bind_as H cid t1 E1 K1. apply chain_id_regs in E1. subst t1.
  destruct (path_up (htax (snd kd)) lvl) as [|tx r].
  - apply ret_ok in K1 as [<- <-]. apply conserves_refl.
  - inv_bind_as K1 top t2 E2 K2. apply ret_ok in K2 as [<- <-]. simpl. eapply chain_conserves; eauto.
Qed.

Lemma generic_pass_conserves hid lvl ks s ks' s' :
  generic_pass hid lvl ks s = Ok (ks', s') -> conserves s s' (hregs ks) (hregs ks').
Proof.
  unfold generic_pass. intros H. inv_bind_as H lifted t1 E1 K1. apply ret_ok in K1 as [<- <-].
  apply (mapM_conserves _ (fun kd => hogregs (snd kd))) in E1; [|intros c s0 kd s0' Hc; eapply lift_generic_conserves; eauto].
  fold (hregs (filter (fun kd => negb (adjacent lvl kd)) ks)) in E1.
  assert (Hp : Permutation (hregs ks) (hregs (filter (adjacent lvl) ks) ++ hregs (filter (fun kd => negb (adjacent lvl kd)) ks))).
  { unfold hregs. rewrite <- flat_map_app. apply Permutation_flat_map.
    eapply Permutation_trans; [apply (filter_partition_perm (adjacent lvl))|]. apply Permutation_app_comm. }
  rewrite hregs_app. unfold conserves in *. perm_count.
Qed.

Lemma lift_level_regs ks : forall lvl s l s', lift_level ks lvl s = Ok (l, s') -> s' = s.
Proof.
  induction ks as [|[[k|] c] r IH]; intros lvl s l s' H; simpl in H.
  - apply ret_ok in H as [_ <-]. reflexivity.
  - inv_bind_as H m t1 E1 K1. apply dup_mrca_regs in E1. subst t1. destruct m; eapply IH; eauto.
  - eapply IH; eauto.
Qed.

Lemma close_og_conserves t top id og fr s c s' :
  close_og t top id og fr s = Ok (c, s') ->
  match c with
  | Node h => conserves s s' (hregs (f_kids fr)) (hogregs h)
  | Collapsed ks => ks = f_kids fr /\ s_regs s' = s_regs s
  end.
Proof.
  unfold close_og. destruct (dedup_tax (map (fun kd => htax (snd kd)) (f_kids fr))) as [|x more] eqn:Ed; [discriminate|].
  match goal with |- context [if ?b then _ else _] => destruct b end.
  - destruct top; [discriminate|]. intros H. apply ret_ok in H as [<- <-]. auto.
  - intros H. inv_bind_as H lvl0 t1 E1 K1. inv_bind_as K1 lvl t2 E2 K2. inv_bind_as K2 u3 t3 E3 K3.
    inv_bind_as K3 o t4 E4 K4. inv_bind_as K4 u5 t5 E5 K5. inv_bind_as K5 ks1 t6 E6 K6. inv_bind_as K6 ks2 t7 E7 K7.
    apply ret_ok in K7 as [<- <-].
    assert (t1 = s).
    { destruct more; [apply up_or_fail_regs in E1; auto|apply ret_ok in E1 as [_ <-]; reflexivity]. }
    subst t1. apply lift_level_regs in E2. subst t2.
    apply ensure_regs in E3. apply fresh_oid_regs in E4. apply register_regs in E5.
    apply foldM_rehome_conserves in E6. apply generic_pass_conserves in E7.
    pose proof (conserves_trans _ _ _ _ _ _ E6 E7) as Hc.
    rewrite hogregs_node. unfold conserves in *. rewrite E5, E4, E3 in Hc.
    change ((lvl, RHog o) :: hregs ks2) with ([(lvl, RHog o)] ++ hregs ks2). perm_count.
Qed.

Lemma hregs_reflag (pg : option nat) ks : hregs (map (fun kd : kid => (pg, snd kd)) ks) = hregs ks.
Proof. unfold hregs. induction ks as [|k r IH]; simpl; [reflexivity|]. now rewrite IH. Qed.

Lemma set_mrca_regs k members s u s' : set_mrca k members s = Ok (u, s') -> s_regs s' = s_regs s.
Proof.
  unfold set_mrca. destruct (dedup_tax (map htax members)) as [|x [|y r]]; [discriminate| |].
  - intros H. inv_bind_as H q t1 E1 K1. inv_bind_as K1 u2 t2 E2 K2.
    apply up_or_fail_regs in E1. subst t1. apply ensure_regs in E2. apply dup_update_regs in K2. congruence.
  - intros H. inv_bind_as H u1 t1 E1 K1. inv_bind_as K1 q t2 E2 K2. inv_bind_as K2 u3 t3 E3 K3.
    apply ensure_regs in E1. apply up_or_fail_regs in E2. subst t2. apply ensure_regs in E3. apply dup_update_regs in K3. congruence.
Qed.

Definition item_conserves (t : stree) (genes : list (string * taxon)) (it : item) : Prop :=
  forall pg fr s fr' s', eval_item t genes it pg fr s = Ok (fr', s') ->
    conserves s s' (hregs (f_kids fr)) (hregs (f_kids fr')).

Lemma body_conserves t genes pg l : forall acc s0 acc' s0',
  Forall (item_conserves t genes) l ->
  (fix go (l : list item) (acc : frame) : M frame :=
     match l with
     | [] => ret acc
     | x :: r => bind (eval_item t genes x pg acc) (fun acc' => go r acc')
     end) l acc s0 = Ok (acc', s0') ->
  conserves s0 s0' (hregs (f_kids acc)) (hregs (f_kids acc')).
Proof.
  induction l as [|x r IHr]; intros acc s0 acc' s0' HF Hgo.
  - apply ret_ok in Hgo as [<- <-]. apply conserves_refl.
  - inversion HF as [|? ? Hx Hr]; subst. inv_bind_as Hgo acc1 t1 E1 K1.
    eapply conserves_trans; [eapply Hx; eauto|eapply IHr; eauto].
Qed.

Lemma eval_item_conserves t genes it : item_conserves t genes it.
Proof.
  induction it as [g l|id og body IH|og body IH|n v|n v] using item_ind'; intros pg fr s fr' s' H.
  - cbn [eval_item] in H.
    match type of H with context [match ?f with _ => _ end] => destruct f as [p|] eqn:Ef end; [|discriminate].
    inv_bind_as H u1 t1 E1 K1. apply ret_ok in K1 as [<- <-].
    assert (Er : s_regs t1 = s_regs s).
    { destruct l; [eapply set_loft_regs; eauto|apply ret_ok in E1 as [_ <-]; reflexivity]. }
    cbn [add_kids f_kids]. rewrite hregs_app. unfold hregs at 3. simpl. rewrite app_nil_r.
    apply conserves_same_regs. exact Er.
  - cbn [eval_item] in H. inv_bind_as H inner t1 Einner K1. inv_bind_as K1 cl t2 Eclose K2.
    pose proof (body_conserves t genes None body empty_frame s inner t1 IH Einner) as Hb. simpl in Hb.
    apply close_og_conserves in Eclose. destruct cl as [ks|h].
    + destruct Eclose as [-> Er]. apply ret_ok in K2 as [<- <-]. cbn [add_kids f_kids]. rewrite hregs_app.
      unfold conserves in *. rewrite Er.
      destruct pg as [q|]; [rewrite (hregs_reflag (Some q))|]; perm_count.
    + apply ret_ok in K2 as [<- <-]. cbn [add_kids f_kids]. rewrite hregs_app, hregs_single.
      pose proof (conserves_trans _ _ _ _ _ _ Hb Eclose) as Hc. unfold conserves in *.
      perm_count.
  - cbn [eval_item] in H. inv_bind_as H k t1 Ek K1. inv_bind_as K1 fr1 t2 Ebody K2. inv_bind_as K2 uc tc Ec Kc.
    apply chk_ok in Ec as [-> _]. inv_bind_as Kc u3 t3 E3 K3.
    apply ret_ok in K3 as [<- <-].
    assert (Er1 : s_regs t1 = s_regs s).
    { destruct pg; [apply ret_ok in Ek as [_ <-]; reflexivity|eapply fresh_dup_regs; eauto]. }
    apply set_mrca_regs in E3.
    pose proof (body_conserves t genes (Some k) body fr t1 fr1 t2 IH Ebody) as Hb.
    unfold conserves in *. rewrite E3. rewrite Er1 in Hb. exact Hb.
  - cbn [eval_item] in H. apply ret_ok in H as [<- <-]. apply conserves_refl.
  - cbn [eval_item] in H. apply ret_ok in H as [<- <-]. apply conserves_refl.
Qed.

Lemma eval_top_conserves t genes it s i h s' :
  eval_top t genes it s = Ok ((i, h), s') -> conserves s s' [] (hogregs h).
Proof.
  destruct it as [g l|id og body|og body|n v|n v]; try discriminate.
  cbn [eval_top]. intros H. inv_bind_as H inner t1 Einner K1. inv_bind_as K1 cl t2 Eclose K2.
  rewrite eval_body_eq in Einner.
  assert (IH : Forall (item_conserves t genes) body) by (apply Forall_forall; intros x _; apply eval_item_conserves).
  pose proof (body_conserves t genes None body empty_frame s inner t1 IH Einner) as Hb. simpl in Hb.
  apply close_og_conserves in Eclose. destruct cl as [ks|h0]; [discriminate|].
  apply ret_ok in K2 as [E <-]. inversion E; subst. eapply conserves_trans; eauto.
Qed.

Lemma tops_conserves t genes groups : forall s tops s',
  mapM (eval_top t genes) groups s = Ok (tops, s') ->
  conserves s s' [] (flat_map (fun top => hogregs (snd top)) tops).
Proof.
  induction groups as [|it r IH]; intros s tops s' H.
  - apply ret_ok in H as [<- <-]. apply conserves_refl.
  - cbn [mapM] in H. inv_bind_as H top t1 E1 K1. inv_bind_as K1 tops' t2 E2 K2. apply ret_ok in K2 as [<- <-].
    destruct top as [i h]. apply eval_top_conserves in E1. apply IH in E2. simpl.
    unfold conserves in *. perm_count.
Qed.

(* species section: one registration per declared gene, at its species *)
Lemma species_regs t sps : forall acc s acc' s',
  foldM (fun acc sp => load_species t sp acc) sps acc s = Ok (acc', s') ->
  exists new, acc' = acc ++ new /\ s_regs s' = s_regs s ++ map (fun gp => (snd gp, RGene (fst gp))) new.
Proof.
  induction sps as [|sp r IH]; intros acc s acc' s' H.
  - apply ret_ok in H as [<- <-]. exists []. simpl. rewrite !app_nil_r. auto.
  - cbn [foldM] in H. inv_bind_as H acc1 t1 E1 K1.
    assert (H1 : exists new, acc1 = acc ++ new /\ s_regs t1 = s_regs s ++ map (fun gp => (snd gp, RGene (fst gp))) new).
    { clear K1 IH. unfold load_species in E1.
      destruct (search t (sp_name sp)) as [|p [|q l]]; try discriminate.
      destruct (is_leaf t p); simpl in E1; [|discriminate].
      inv_bind_as E1 u0 t0 E0 K0. apply ensure_regs in E0. rewrite <- E0. clear E0.
      revert acc t0 acc1 t1 K0. induction (sp_genes sp) as [|g gs IHg]; intros acc t0 acc1 t1 K0.
      - apply ret_ok in K0 as [<- <-]. exists []. simpl. rewrite !app_nil_r. auto.
      - cbn [foldM] in K0. inv_bind_as K0 acc2 t2 E2 K2.
        destruct (existsb _ acc); [discriminate|]. inv_bind_as E2 u3 t3 E3 K3. apply ret_ok in K3 as [<- <-].
        apply register_regs in E3. destruct (IHg _ _ _ _ K2) as (new & Ha & Hr).
        exists ((gd_id g, p) :: new). split; [rewrite Ha, <- app_assoc; reflexivity|].
        rewrite Hr, E3, <- app_assoc. reflexivity. }
    destruct H1 as (n1 & Ha1 & Hr1). destruct (IH _ _ _ _ K1) as (n2 & Ha2 & Hr2).
    exists (n1 ++ n2). split; [rewrite Ha2, Ha1, app_assoc; reflexivity|].
    rewrite Hr2, Hr1, map_app, app_assoc. reflexivity.
Qed.

(* C04: the registrations are exactly one per declared gene (at its species) and one per HOG of the
   hierarchy (at its taxon) *)
Theorem registrations_exact t d l :
  load t d = Ok l ->
  Permutation (s_regs (l_state l))
              (map (fun gp => (snd gp, RGene (fst gp))) (l_genes l) ++
               flat_map (fun top => hogregs (snd top)) (l_tops l)).
Proof.
  unfold load. intros H.
  match type of H with context [match ?m init_state with _ => _ end] => destruct (m init_state) as [[[genes tops] s]|e] eqn:Em end; [|discriminate].
  inversion H; subst. clear H. cbn [l_genes l_tops l_state].
  inv_bind_as Em genes0 t1 E1 K1. inv_bind_as K1 tops0 t2 E2 K2. apply ret_ok in K2 as [E <-]. inversion E; subst.
  apply species_regs in E1 as (new & Ha & Hr). simpl in Ha, Hr. subst genes.
  apply tops_conserves in E2. unfold conserves in E2. rewrite app_nil_r in E2. rewrite Hr in E2. exact E2.
Qed.

Lemma Permutation_filter' {X} (p : X -> bool) (l l' : list X) :
  Permutation l l' -> Permutation (filter p l) (filter p l').
Proof.
  induction 1 as [| x l l' H IH | x y l | l l' l'' H1 IH1 H2 IH2]; simpl.
  - constructor.
  - destruct (p x); [constructor|]; exact IH.
  - destruct (p x), (p y); try apply Permutation_refl. apply perm_swap.
  - eapply Permutation_trans; eauto.
Qed.

(* the gene list of the genome at taxon T *)
Definition genome_list (st : lstate) (T : taxon) : list ref :=
  map snd (filter (fun r => taxon_eqb (fst r) T) (s_regs st)).

Theorem genome_lists_exact t d l T :
  load t d = Ok l ->
  Permutation (genome_list (l_state l) T)
    (map (fun gp => RGene (fst gp)) (filter (fun gp => taxon_eqb (snd gp) T) (l_genes l)) ++
     flat_map (fun top => map href (filter (fun x => taxon_eqb (htax x) T) (hogs_of (snd top)))) (l_tops l)).
Proof.
  intros H. apply registrations_exact in H. unfold genome_list.
  apply (Permutation_filter' (fun r => taxon_eqb (fst r) T)) in H. apply (Permutation_map snd) in H.
  eapply Permutation_trans; [exact H|]. rewrite filter_app, map_app. apply Permutation_app.
  - clear. induction (l_genes l) as [|[g p] r IH]; simpl; [constructor|].
    destruct (taxon_eqb p T); simpl; [constructor|]; exact IH.
  - clear. induction (l_tops l) as [|top r IH]; simpl; [constructor|].
    rewrite filter_app, map_app. apply Permutation_app; [|exact IH].
    unfold hogregs. clear. induction (hogs_of (snd top)) as [|x xs IHx]; simpl; [constructor|].
    destruct (taxon_eqb (htax x) T); simpl; [constructor|]; exact IHx.
Qed.
