(* WholeFacts.v — the keystone between the loader theorems and the analysis theorems: for every consistent
   input the forest handed to the analysis layers satisfies wfbc, the hypothesis of the theorems about
   comparisons, profiles and navigation (C05-C10, C16). *)
From Coq Require Import List Arith Bool String Lia Permutation.
From PyHam Require Import Tax Ortho Loader Mapper Preds Filter Hist Spell Whole.
From PyHam.proofs Require Import TaxFacts MapperFacts ForestFacts ClusterFacts PartitionFacts LoaderFacts RegFacts OidFacts
  ExplicitFacts SpellFacts.
Import ListNotations.

Lemma NoDup_nodup_nat l : NoDup l -> nodup_nat l = true.
Proof.
  induction 1 as [|x r Hx Hr IH]; [reflexivity|]. simpl. rewrite IH, andb_true_r. apply negb_true_iff.
  destruct (existsb (Nat.eqb x) r) eqn:E; [|reflexivity]. apply existsb_exists in E as (y & Hy & Ey). apply Nat.eqb_eq in Ey. subst. contradiction.
Qed.

Lemma NoDup_nodupb l : NoDup l -> nodupb l = true.
Proof.
  induction 1 as [|x r Hx Hr IH]; [reflexivity|]. simpl. rewrite IH, andb_true_r. apply negb_true_iff.
  destruct (existsb (String.eqb x) r) eqn:E; [|reflexivity]. apply existsb_exists in E as (y & Hy & Ey). apply String.eqb_eq in Ey. subst. contradiction.
Qed.

Lemma flat_map_map {X Y Z} (f : Y -> list Z) (g : X -> Y) l : flat_map f (map g l) = flat_map (fun x => f (g x)) l.
Proof. induction l as [|x r IH]; simpl; [reflexivity|]. now rewrite IH. Qed.

Lemma oids_all_of h :
  flat_map (fun x => match x with HHog o _ _ _ => [o] | _ => [] end) (all_of h) = flat_map hog_oid (hogs_of h).
Proof.
  induction h as [g p|o p m ks IH] using hog_ind'; [reflexivity|]. cbn [all_of hogs_of flat_map hog_oid app]. f_equal.
  rewrite !flat_map_flat_map'. apply flat_map_Forall_ext. exact IH.
Qed.

Lemma gids_all_of h :
  flat_map (fun x => match x with HGene g _ => [g] | _ => [] end) (all_of h) = genes_of h.
Proof.
  induction h as [g p|o p m ks IH] using hog_ind'; [reflexivity|]. cbn [all_of genes_of flat_map app].
  rewrite !flat_map_flat_map'. apply flat_map_Forall_ext. exact IH.
Qed.

Lemma matches_group_is_hog p lins x : matches (XH p lins) x -> is_gene x = false.
Proof. destruct x; simpl; [contradiction|reflexivity]. Qed.

Theorem consistent_wfbc t d hs :
  Forall (species_sane t) (d_species d) -> NoDup (declared d) -> NoDup (flat_map refs_of (d_groups d)) ->
  Forall2 (spells_top t) hs (d_groups d) ->
  (forall genes, map fst genes = declared d ->
     (forall g p, In (g, p) genes -> exists sp, In sp (d_species d) /\ In g (map gd_id (sp_genes sp)) /\ species_resolves t sp p) ->
     Forall (WFh t genes) hs) ->
  exists l, load t d = Ok l /\ wfbc t (forest_of l) = true /\
    Forall2 (fun h top => matches h (snd top) /\ htax (snd top) = xtax h /\ wf_node t (snd top) = true) hs (l_tops l).
Proof.
  intros Hsp Hnd Hrefs Hg Hwf.
  destruct (spelt_load t d hs Hsp Hnd Hrefs Hg Hwf) as (l & El & Fl).
  exists l. split; [exact El|]. split; [|exact Fl].
  pose proof (load_spec t d l El) as (L1 & L2 & L3 & L4 & L5).
  assert (Htops : Forall (fun top : option string * hog => wf_node t (snd top) = true /\ is_gene (snd top) = false) (l_tops l)).
  { clear - Fl Hg. revert Hg. generalize (d_groups d) as items. induction Fl as [|h top hr tr (M & _ & W) _ IH]; intros items Hg; constructor.
    - split; [exact W|]. inversion Hg as [|? it ? ? (p & lins & id & og & body & -> & _) _]; subst. eapply matches_group_is_hog; eauto.
    - inversion Hg; subst. eapply IH; eauto. }
  unfold wfbc, forest_of. cbn [fo_tops fo_singles]. unfold fo_roots. cbn [fo_tops fo_singles].
  repeat (apply andb_true_iff; split).
  - (* every root is aligned *)
    rewrite forallb_app. apply andb_true_iff. split.
    + apply forallb_forall. intros x Hx. apply in_map_iff in Hx as (top & <- & Htop). rewrite Forall_forall in Htops. apply Htops. exact Htop.
    + apply forallb_forall. intros x Hx. unfold singles_of in Hx. apply in_map_iff in Hx as ([g p] & <- & Hgp).
      apply filter_In in Hgp as [Hgp _]. destruct (L4 g p Hgp) as (sp & _ & _ & (_ & Hleaf)). exact Hleaf.
  - apply forallb_forall. intros x Hx. apply in_map_iff in Hx as (top & <- & Htop). rewrite Forall_forall in Htops.
    destruct (Htops top Htop) as [_ E]. rewrite E. reflexivity.
  - apply forallb_forall. intros x Hx. unfold singles_of in Hx. apply in_map_iff in Hx as (gp & <- & _). reflexivity.
  - (* pairwise different objects *)
    apply NoDup_nodup_nat. unfold oids_of, all_nodes_of, fo_roots. cbn [fo_tops fo_singles].
    rewrite flat_map_flat_map', flat_map_app.
    assert (Es : flat_map (fun x => flat_map (fun h => match h with HHog o _ _ _ => [o] | _ => [] end) (all_of x)) (singles_of l) = []).
    { apply flat_map_nil_all. intros x Hx. unfold singles_of in Hx. apply in_map_iff in Hx as (gp & <- & _). reflexivity. }
    rewrite Es, app_nil_r. rewrite flat_map_map.
    rewrite (flat_map_Forall_ext _ (fun top => flat_map hog_oid (hogs_of (snd top)))).
    + eapply loaded_oids_nodup; eauto.
    + apply Forall_forall. intros top _. apply oids_all_of.
  - (* every gene once *)
    apply NoDup_nodupb. unfold gene_ids_of, all_nodes_of, fo_roots. cbn [fo_tops fo_singles].
    rewrite flat_map_flat_map', flat_map_app, flat_map_map.
    rewrite (flat_map_Forall_ext _ (fun top : option string * hog => genes_of (snd top)) (l_tops l))
      by (apply Forall_forall; intros top _; apply gids_all_of).
    assert (Es : flat_map (fun x => flat_map (fun h => match h with HGene g _ => [g] | _ => [] end) (all_of x)) (singles_of l)
                 = map (fun x => match x with HGene g _ => g | _ => ""%string end) (singles_of l)).
    { unfold singles_of. rewrite map_map. induction (filter _ (l_genes l)) as [|gp r IH]; [reflexivity|]. simpl. rewrite IH. reflexivity. }
    rewrite Es. apply nodup_app_intro.
    + eapply families_disjoint; eauto.
    + unfold singles_of. rewrite map_map. cbn [fst].
      assert (Hn : NoDup (map fst (l_genes l))) by (rewrite L1; exact L2).
      clear - Hn. induction (l_genes l) as [|gp r IH]; [constructor|]. simpl in Hn. inversion Hn as [|? ? Hx Hr]; subst.
      cbn [filter]. destruct (negb _); [|apply IH; exact Hr]. cbn [map]. constructor; [|apply IH; exact Hr].
      intros Hin. apply Hx. apply in_map_iff in Hin as (y & Ey & Hy). apply filter_In in Hy as [Hy _]. rewrite <- Ey. apply in_map. exact Hy.
    + intros g Hg1 Hg2. apply in_map_iff in Hg2 as (x & Ex & Hx). destruct x as [g' p'|]; [|unfold singles_of in Hx; apply in_map_iff in Hx as (gp & E & _); discriminate].
      subst g'. apply singles_spec in Hx as [_ Hnot]. contradiction.
Qed.

(* ---------- "consistent input", as one predicate ---------- *)
(* the species blocks name leaves of the tree, every gene is declared once and referenced at most once, and
   the groups are permitted spellings (Spell.v) of well-formed histories over the declared genes *)
Definition consistent (t : stree) (d : doc) (hs : list hist) : Prop :=
  Forall (species_sane t) (d_species d) /\ NoDup (declared d) /\ NoDup (flat_map refs_of (d_groups d)) /\
  Forall2 (spells_top t) hs (d_groups d) /\
  (forall genes, map fst genes = declared d ->
     (forall g p, In (g, p) genes -> exists sp, In sp (d_species d) /\ In g (map gd_id (sp_genes sp)) /\ species_resolves t sp p) ->
     Forall (WFh t genes) hs).

Theorem consistent_forest t d hs :
  consistent t d hs ->
  exists l, load t d = Ok l /\ wfbc t (forest_of l) = true /\
    Forall2 (fun h top => matches h (snd top) /\ htax (snd top) = xtax h /\ wf_node t (snd top) = true) hs (l_tops l).
Proof. intros (H1 & H2 & H3 & H4 & H5). apply consistent_wfbc; assumption. Qed.
