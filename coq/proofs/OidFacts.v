(* OidFacts.v — object identities: every HOG the loader creates gets a fresh number and is registered at
   once, so the numbers registered are exactly 0 .. s_oid-1, and (with RegFacts.registrations_exact) the
   HOGs of the loaded hierarchy are pairwise different objects. *)
From Coq Require Import List Arith Bool String Lia Permutation.
From PyHam Require Import Tax Ortho Loader Filter.
From PyHam.proofs Require Import TaxFacts MapperFacts ForestFacts LoaderFacts RegFacts.
Import ListNotations.

Definition roid (r : taxon * ref) : list nat := match snd r with RHog o => [o] | RGene _ => [] end.
Definition regoids (s : lstate) : list nat := flat_map roid (s_regs s).
Definition OI (s : lstate) : Prop := regoids s = seq 0 (s_oid s).

Definition same (s s' : lstate) : Prop := s_regs s' = s_regs s /\ s_oid s' = s_oid s.

Lemma same_refl s : same s s.
Proof. split; reflexivity. Qed.
Lemma same_trans a b c : same a b -> same b c -> same a c.
Proof. intros [A1 A2] [B1 B2]. split; congruence. Qed.
Lemma OI_same s s' : same s s' -> OI s -> OI s'.
Proof. intros [Hr Ho] H. unfold OI, regoids in *. rewrite Hr, Ho. exact H. Qed.

Lemma ensure_same p s u s' : ensure_genome p s = Ok (u, s') -> same s s'.
Proof. unfold ensure_genome. destruct (mem_tax p (s_genomes s)); intros H; inversion H; split; reflexivity. Qed.
Lemma fresh_dup_same og s k s' : fresh_dup og s = Ok (k, s') -> same s s'.
Proof. unfold fresh_dup. intros H; inversion H; split; reflexivity. Qed.
Lemma dup_update_same k f s u s' : dup_update k f s = Ok (u, s') -> same s s'.
Proof. unfold dup_update. destruct (dup_lookup k (s_dups s)); intros H; inversion H; split; reflexivity. Qed.
Lemma set_loft_same g l s u s' : set_loft g l s = Ok (u, s') -> same s s'.
Proof. unfold set_loft. destruct (assoc g (s_lofts s)); intros H; inversion H; split; reflexivity. Qed.

Lemma register_gene p g s u s' : register p (RGene g) s = Ok (u, s') -> OI s -> OI s'.
Proof.
  unfold register. intros H Hi. inversion H; subst. unfold OI, regoids in *. cbn [s_regs s_oid].
  rewrite flat_map_app. simpl. rewrite app_nil_r. exact Hi.
Qed.

(* a fresh number, registered at once *)
Lemma fresh_registered s o s1 tx u s2 :
  fresh_oid s = Ok (o, s1) -> register tx (RHog o) s1 = Ok (u, s2) -> OI s -> OI s2.
Proof.
  unfold fresh_oid, register. intros H1 H2 Hi. inversion H1; subst. inversion H2; subst.
  unfold OI, regoids in *. cbn [s_regs s_oid]. rewrite flat_map_app, Hi. cbn [flat_map roid snd app].
  rewrite seq_S. reflexivity.
Qed.

Lemma chain_OI hid path : forall fl c s h s', chain hid path fl c s = Ok (h, s') -> OI s -> OI s'.
Proof.
  induction path as [|tx r IH]; intros fl c s h s' H Hi.
  - apply ret_ok in H as [_ <-]. exact Hi.
  - cbn [chain] in H. inv_bind_as H u1 t1 E1 K1. inv_bind_as K1 o t2 E2 K2. inv_bind_as K2 u3 t3 E3 K3.
    eapply IH; [exact K3|]. eapply fresh_registered; eauto. eapply OI_same; [eapply ensure_same; eauto|exact Hi].
Qed.

Lemma lift_member_OI hid target k c s kd s' : lift_member hid target k c s = Ok (kd, s') -> OI s -> OI s'.
Proof.
  unfold lift_member. intros H Hi. inv_bind_as H cid t1 E1 K1. inv_bind_as K1 top t2 E2 K2.
  apply ret_ok in K2 as [_ <-]. apply chain_id_regs in E1. subst t1. eapply chain_OI; eauto.
Qed.

Lemma mapM_OI {X Y} (f : X -> M Y) :
  (forall c s y s', f c s = Ok (y, s') -> OI s -> OI s') ->
  forall l s rs s', mapM f l s = Ok (rs, s') -> OI s -> OI s'.
Proof.
  intros Hf. induction l as [|c r IH]; intros s rs s' H Hi.
  - apply ret_ok in H as [_ <-]. exact Hi.
  - cbn [mapM] in H. inv_bind_as H y t1 E1 K1. inv_bind_as K1 rs' t2 E2 K2. apply ret_ok in K2 as [_ <-].
    eapply IH; [exact E2|]. eapply Hf; eauto.
Qed.

Lemma rehome_OI hid hoid lvl ks k s ks' s' : rehome hid hoid lvl ks k s = Ok (ks', s') -> OI s -> OI s'.
Proof.
  unfold rehome. intros H Hi. inv_bind_as H m t0 E0 K0. apply dup_mrca_regs in E0. subst t0.
  destruct m as [a|]; [|discriminate]. destruct (negb (taxon_eqb a lvl)).
  - inv_bind_as K0 u1 t1 E1 K1. inv_bind_as K1 mo t2 E2 K2. inv_bind_as K2 u3 t3 E3 K3.
    inv_bind_as K3 lifted t4 E4 K4. inv_bind_as K4 u5 t5 E5 K5. apply ret_ok in K5 as [_ <-].
    eapply OI_same; [eapply dup_update_same; eauto|].
    eapply (mapM_OI (lift_member hid a k)); [intros c s0 y s0' Hc; eapply lift_member_OI; eauto|exact E4|].
    eapply fresh_registered; eauto. eapply OI_same; [eapply ensure_same; eauto|exact Hi].
  - inv_bind_as K0 u1 t1 E1 K1. inv_bind_as K1 lifted t2 E2 K2. apply ret_ok in K2 as [_ <-].
    eapply (mapM_OI (lift_member hid lvl k)); [intros c s0 y s0' Hc; eapply lift_member_OI; eauto|exact E2|].
    eapply OI_same; [eapply dup_update_same; eauto|exact Hi].
Qed.

Lemma foldM_rehome_OI hid hoid lvl keys : forall ks s ks' s',
  foldM (rehome hid hoid lvl) keys ks s = Ok (ks', s') -> OI s -> OI s'.
Proof.
  induction keys as [|k r IH]; intros ks s ks' s' H Hi.
  - apply ret_ok in H as [_ <-]. exact Hi.
  - cbn [foldM] in H. inv_bind_as H ks1 t1 E1 K1. eapply IH; [exact K1|]. eapply rehome_OI; eauto.
Qed.

Lemma lift_generic_OI hid lvl kd s kd' s' : lift_generic hid lvl kd s = Ok (kd', s') -> OI s -> OI s'.
Proof.
  unfold lift_generic. intros H Hi. inv_bind_as H cid t1 E1 K1. apply chain_id_regs in E1. subst t1.
  destruct (path_up (htax (snd kd)) lvl) as [|tx r].
  - apply ret_ok in K1 as [_ <-]. exact Hi.
  - inv_bind_as K1 top t2 E2 K2. apply ret_ok in K2 as [_ <-]. eapply chain_OI; eauto.
Qed.

Lemma generic_pass_OI hid lvl ks s ks' s' : generic_pass hid lvl ks s = Ok (ks', s') -> OI s -> OI s'.
Proof.
  unfold generic_pass. intros H Hi. inv_bind_as H lifted t1 E1 K1. apply ret_ok in K1 as [_ <-].
  eapply (mapM_OI (lift_generic hid lvl)); [intros c s0 y s0' Hc; eapply lift_generic_OI; eauto|exact E1|exact Hi].
Qed.

Lemma set_mrca_same k members s u s' : set_mrca k members s = Ok (u, s') -> same s s'.
Proof.
  unfold set_mrca. destruct (dedup_tax (map htax members)) as [|x [|y r]]; [discriminate| |].
  - intros H. inv_bind_as H q t1 E1 K1. inv_bind_as K1 u2 t2 E2 K2.
    apply up_or_fail_regs in E1. subst t1. eapply same_trans; [eapply ensure_same; eauto|eapply dup_update_same; eauto].
  - intros H. inv_bind_as H u1 t1 E1 K1. inv_bind_as K1 q t2 E2 K2. inv_bind_as K2 u3 t3 E3 K3.
    apply up_or_fail_regs in E2. subst t2.
    eapply same_trans; [eapply ensure_same; eauto|]. eapply same_trans; [eapply ensure_same; eauto|eapply dup_update_same; eauto].
Qed.

Lemma close_og_OI t top id og fr s c s' : close_og t top id og fr s = Ok (c, s') -> OI s -> OI s'.
Proof.
  unfold close_og. destruct (dedup_tax (map (fun kd => htax (snd kd)) (f_kids fr))) as [|x more] eqn:Ed; [discriminate|].
  match goal with |- context [if ?b then _ else _] => destruct b end.
  - destruct top; [discriminate|]. intros H Hi. apply ret_ok in H as [_ <-]. exact Hi.
  - intros H Hi. inv_bind_as H lvl0 t1 E1 K1. inv_bind_as K1 lvl t2 E2 K2. inv_bind_as K2 u3 t3 E3 K3.
    inv_bind_as K3 o t4 E4 K4. inv_bind_as K4 u5 t5 E5 K5. inv_bind_as K5 ks1 t6 E6 K6. inv_bind_as K6 ks2 t7 E7 K7.
    apply ret_ok in K7 as [_ <-].
    assert (t1 = s).
    { destruct more; [apply up_or_fail_regs in E1; auto|apply ret_ok in E1 as [_ <-]; reflexivity]. }
    subst t1. apply lift_level_regs in E2. subst t2.
    eapply generic_pass_OI; [exact E7|]. eapply foldM_rehome_OI; [exact E6|].
    eapply fresh_registered; eauto. eapply OI_same; [eapply ensure_same; eauto|exact Hi].
Qed.

Definition item_OI (t : stree) (genes : list (string * taxon)) (it : item) : Prop :=
  forall pg fr s fr' s', eval_item t genes it pg fr s = Ok (fr', s') -> OI s -> OI s'.

Lemma body_OI t genes pg l : forall acc s0 acc' s0',
  Forall (item_OI t genes) l ->
  (fix go (l : list item) (acc : frame) : M frame :=
     match l with
     | [] => ret acc
     | x :: r => bind (eval_item t genes x pg acc) (fun acc' => go r acc')
     end) l acc s0 = Ok (acc', s0') -> OI s0 -> OI s0'.
Proof.
  induction l as [|x r IHr]; intros acc s0 acc' s0' HF Hgo Hi.
  - apply ret_ok in Hgo as [_ <-]. exact Hi.
  - inversion HF as [|? ? Hx Hr]; subst. inv_bind_as Hgo acc1 t1 E1 K1.
    eapply IHr; [exact Hr|exact K1|]. eapply Hx; eauto.
Qed.

Lemma eval_item_OI t genes it : item_OI t genes it.
Proof.
  induction it as [g l|id og body IH|og body IH|n v|n v] using item_ind'; intros pg fr s fr' s' H Hi.
  - cbn [eval_item] in H.
    match type of H with context [match ?f with _ => _ end] => destruct f as [p|] eqn:Ef end; [|discriminate].
    inv_bind_as H u1 t1 E1 K1. apply ret_ok in K1 as [_ <-].
    destruct l; [eapply OI_same; [eapply set_loft_same; eauto|exact Hi]|apply ret_ok in E1 as [_ <-]; exact Hi].
  - cbn [eval_item] in H. inv_bind_as H inner t1 Einner K1. inv_bind_as K1 cl t2 Eclose K2.
    pose proof (body_OI t genes None body empty_frame s inner t1 IH Einner Hi) as Hb.
    pose proof (close_og_OI _ _ _ _ _ _ _ _ Eclose Hb) as Hc.
    destruct cl; apply ret_ok in K2 as [_ <-]; exact Hc.
  - cbn [eval_item] in H. inv_bind_as H k t1 Ek K1. inv_bind_as K1 fr1 t2 Ebody K2. inv_bind_as K2 uc tc Ec Kc.
    apply chk_ok in Ec as [-> _]. inv_bind_as Kc u3 t3 E3 K3.
    apply ret_ok in K3 as [_ <-].
    assert (Hi1 : OI t1).
    { destruct pg; [apply ret_ok in Ek as [_ <-]; exact Hi|eapply OI_same; [eapply fresh_dup_same; eauto|exact Hi]]. }
    eapply OI_same; [eapply set_mrca_same; eauto|]. eapply body_OI; eauto.
  - cbn [eval_item] in H. apply ret_ok in H as [_ <-]. exact Hi.
  - cbn [eval_item] in H. apply ret_ok in H as [_ <-]. exact Hi.
Qed.

Lemma eval_top_OI t genes it s r s' : eval_top t genes it s = Ok (r, s') -> OI s -> OI s'.
Proof.
  destruct it as [g l|id og body|og body|n v|n v]; try discriminate.
  cbn [eval_top]. intros H Hi. inv_bind_as H inner t1 Einner K1. inv_bind_as K1 cl t2 Eclose K2.
  rewrite eval_body_eq in Einner.
  assert (IH : Forall (item_OI t genes) body) by (apply Forall_forall; intros x _; apply eval_item_OI).
  pose proof (body_OI t genes None body empty_frame s inner t1 IH Einner Hi) as Hb.
  pose proof (close_og_OI _ _ _ _ _ _ _ _ Eclose Hb) as Hc.
  destruct cl as [ks|h0]; [discriminate|]. apply ret_ok in K2 as [_ <-]. exact Hc.
Qed.

Lemma genes_fold_OI p gs : forall acc s acc' s',
  foldM (fun acc g =>
           if existsb (fun x => String.eqb (gd_id g) (fst x)) acc then fail Unmodelled
           else bind (register p (RGene (gd_id g))) (fun _ => ret (acc ++ [(gd_id g, p)]))) gs acc s = Ok (acc', s') ->
  OI s -> OI s'.
Proof.
  induction gs as [|g r IH]; intros acc s acc' s' H Hi.
  - apply ret_ok in H as [_ <-]. exact Hi.
  - cbn [foldM] in H. inv_bind_as H acc2 t3 E3 K3.
    destruct (existsb (fun x => String.eqb (gd_id g) (fst x)) acc); [discriminate|].
    inv_bind_as E3 u4 t4 E4 K4. apply ret_ok in K4 as [_ <-]. eapply IH; [exact K3|]. eapply register_gene; eauto.
Qed.

Lemma species_OI t sps : forall acc s acc' s',
  foldM (fun acc sp => load_species t sp acc) sps acc s = Ok (acc', s') -> OI s -> OI s'.
Proof.
  induction sps as [|sp r IH]; intros acc s acc' s' H Hi.
  - apply ret_ok in H as [_ <-]. exact Hi.
  - cbn [foldM] in H. inv_bind_as H acc1 t1 E1 K1. eapply IH; [exact K1|].
    unfold load_species in E1. destruct (search t (sp_name sp)) as [|p [|q r']]; try discriminate.
    destruct (negb (is_leaf t p)); [discriminate|]. inv_bind_as E1 u1 t2 E2 K2.
    eapply genes_fold_OI; [exact K2|]. eapply OI_same; [eapply ensure_same; eauto|exact Hi].
Qed.

Theorem load_OI t d l : load t d = Ok l -> OI (l_state l).
Proof.
  unfold load. intros H.
  match type of H with context [match ?m init_state with _ => _ end] => destruct (m init_state) as [[[genes tops] s]|e] eqn:Em end; [|discriminate].
  inversion H; subst. clear H. cbn [l_state].
  inv_bind_as Em genes0 t1 E1 K1. inv_bind_as K1 tops0 t2 E2 K2. apply ret_ok in K2 as [_ <-].
  eapply (mapM_OI (eval_top t genes0)); [intros c s0 y s0' Hc; eapply eval_top_OI; eauto|exact E2|].
  eapply species_OI; [exact E1|]. reflexivity.
Qed.

(* ---------- the HOGs of the loaded hierarchy are pairwise different objects ---------- *)
Definition hog_oid (h : hog) : list nat := match h with HHog o _ _ _ => [o] | HGene _ _ => [] end.

Lemma roid_hogregs h : flat_map roid (hogregs h) = flat_map hog_oid (hogs_of h).
Proof.
  unfold hogregs. induction (hogs_of h) as [|x r IH]; [reflexivity|]. cbn [map flat_map]. rewrite IH. f_equal.
  destruct x; reflexivity.
Qed.

Theorem loaded_oids_nodup t d l :
  load t d = Ok l -> NoDup (flat_map (fun top => flat_map hog_oid (hogs_of (snd top))) (l_tops l)).
Proof.
  intros H. pose proof (load_OI t d l H) as Hi. apply registrations_exact in H.
  assert (HP : Permutation (regoids (l_state l))
                 (flat_map (fun top => flat_map hog_oid (hogs_of (snd top))) (l_tops l))).
  { unfold regoids. eapply Permutation_trans; [apply Permutation_flat_map; exact H|].
    rewrite flat_map_app.
    assert (E1 : flat_map roid (map (fun gp : string * taxon => (snd gp, RGene (fst gp))) (l_genes l)) = []).
    { clear. induction (l_genes l) as [|x r IH]; [reflexivity|]. simpl. exact IH. }
    rewrite E1. simpl. rewrite flat_map_flat_map'. apply Permutation_flat_map_ext. apply Forall_forall.
    intros top _. rewrite roid_hogregs. apply Permutation_refl. }
  eapply Permutation_NoDup; [exact HP|]. rewrite Hi. apply seq_NoDup.
Qed.
