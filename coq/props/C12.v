(* C12 — the iHam orthoXML export describes the same HOG. *)
From Coq Require Import List Arith Bool String Permutation.
From PyHam Require Import Tax Ortho Loader Mapper Preds Nav Export Filter Hist Spell Whole.
From PyHam.proofs Require Import ExplicitFacts ExportFacts LoftFacts SpellFacts WholeFacts RoundTripFacts DocRoundTripFacts.
Import ListNotations.

(* Proved for every loaded HOG (any shape, no alignment hypothesis): the exported groups reference exactly
   the HOG's member genes, each once, and the exported species blocks declare exactly those genes
   (c12_references, c12_declarations).
   The round trip, for every aligned HOG (wf_node, property C02) over a tree whose node names are pairwise
   different: the groups the exporter writes (elision rules of findings F5/F11 included) are a permitted
   spelling (Spell.v) of the history read off the HOG (c12_export_is_a_spelling), that history is well formed
   and is matched by the HOG itself; hence (C03) evaluating the exported group again - in any loader state,
   with any gene table that places the member genes at their species, the member genes being pairwise different
   and not yet carrying a LOFT id in that state - yields a HOG that matches the same
   history: same members, same taxon for every sub-HOG, same duplication grouping (c12_roundtrip).
   Whole document (c12_document_roundtrip): for an aligned HOG whose member genes are pairwise different, over a
   tree with pairwise different node names, the exported document (species blocks and groups) is a consistent
   input; loading it with the same species tree succeeds and yields exactly one top-level HOG, which matches the
   history of the original HOG, and the re-loaded forest satisfies wfbc.
   Not modelled (checked on the implementation only): the HTML page assembly of create_iHam, which embeds this
   orthoXML, the species subtree and one record per member gene. *)
Theorem c12_references : forall t h ce, Permutation (flat_map refs_of (export t ce h)) (genes_of h).
Proof. intros t h ce. exact (export_refs t h ce). Qed.
Print Assumptions c12_references.

Theorem c12_declarations : forall t protid h,
  Permutation (flat_map (fun sp => map gd_id (sp_genes sp)) (export_species t protid h)) (genes_of h).
Proof. exact export_declared. Qed.
Print Assumptions c12_declarations.

Theorem c12_export_is_a_spelling : forall t o p m ks,
  names_inj t -> wf_node t (HHog o p m ks) = true ->
  exists it, export_groups t (HHog o p m ks) = [it] /\ spells_top t (hist_of (HHog o p m ks)) it.
Proof. exact export_spells_top. Qed.
Print Assumptions c12_export_is_a_spelling.

Theorem c12_history_well_formed : forall t genes x,
  wf_node t x = true -> (forall g p, In (HGene g p) (all_of x) -> find_gene g genes = Some p) ->
  WFh t genes (hist_of x) /\ matches (hist_of x) x.
Proof. intros t genes x Hwf Hg. split; [apply WFh_hist_of; assumption|apply (matches_hist_of t); assumption]. Qed.
Print Assumptions c12_history_well_formed.

Theorem c12_roundtrip : forall t genes o p m ks s,
  names_inj t -> wf_node t (HHog o p m ks) = true ->
  (forall g q, In (HGene g q) (all_of (HHog o p m ks)) -> find_gene g genes = Some q) -> dups_dom s ->
  NoDup (genes_of (HHog o p m ks)) -> lfresh s (genes_of (HHog o p m ks)) ->
  let x := HHog o p m ks in
  exists it i x' s', export_groups t x = [it] /\ eval_top t genes it s = Ok ((i, x'), s') /\
    matches (hist_of x) x /\ matches (hist_of x) x' /\ htax x' = htax x /\ wf_node t x' = true.
Proof. exact export_roundtrip. Qed.
Print Assumptions c12_roundtrip.

Theorem c12_document_roundtrip : forall t protid o p m ks,
  names_inj t -> wf_node t (HHog o p m ks) = true -> NoDup (genes_of (HHog o p m ks)) ->
  let x := HHog o p m ks in
  exists l top, load t (export_doc t protid x) = Ok l /\ l_tops l = [top] /\
    matches (hist_of x) x /\ matches (hist_of x) (snd top) /\ htax (snd top) = htax x /\ wf_node t (snd top) = true /\
    wfbc t (forest_of l) = true.
Proof. exact export_doc_roundtrip. Qed.
Print Assumptions c12_document_roundtrip.

Local Open Scope string_scope.
Definition m0 : hmeta := {| m_id := Some "f"; m_og := None; m_props := []; m_scores := []; m_synth := false |}.
Definition tr : stree :=
  SNode "R" [SNode "X" []; SNode "M" [SNode "E" [SNode "H" []; SNode "P" []]; SNode "C" []]].
Definition fam : hog :=
  HHog 0 [1] m0 [(Some 0, HHog 2 [0; 1] m0 [(None, HGene "h1" [0; 0; 1])]);
                 (Some 0, HHog 3 [0; 1] m0 [(None, HGene "h2" [0; 0; 1]); (None, HGene "p2" [1; 0; 1])]);
                 (None, HGene "c1" [1; 1])].
(* a copy with a single child is written as its own group (its parent element is the paralogGroup) *)
Example c12_nonvacuous :
  export_groups tr fam =
  [IOG (Some "f") None [IProp "TaxRange" "M";
     IPG None [IOG (Some "f") None [IProp "TaxRange" "E"; IGene "h1" None];
               IOG (Some "f") None [IProp "TaxRange" "E"; IGene "h2" None; IGene "p2" None]];
     IGene "c1" None]].
Proof. vm_compute. reflexivity. Qed.

(* the round trip on the example: the exported group, evaluated again, gives a HOG of the same shape *)
Definition genes12 : list (string * taxon) := [("h1", [0; 0; 1]); ("h2", [0; 0; 1]); ("p2", [1; 0; 1]); ("c1", [1; 1])].
Example c12_roundtrip_nonvacuous :
  wf_node tr fam = true /\
  match mapM (eval_top tr genes12) (export_groups tr fam) init_state with
  | Ok (tops, _) => map (fun top => (htax (snd top), wf_node tr (snd top), List.length (hogs_of (snd top)), genes_of (snd top))) tops
                    = [([1], true, 3, ["c1"; "h1"; "h2"; "p2"])]
  | Err _ => False
  end.
Proof. vm_compute. split; reflexivity. Qed.
