"""Seeded generators: species trees, duplication/loss histories, orthoXML spellings of them,
meaning-preserving rewritings, single-fault corruptions, filters.  Every random choice comes from
the random.Random instance passed in."""
import random
from sx import Q


# ---------------------------------------------------------------- trees
class T(object):
    __slots__ = ('name', 'kids', 'path')

    def __init__(self, name, kids=()):
        self.name = name
        self.kids = list(kids)
        self.path = ()

    def set_paths(self, path=()):
        self.path = tuple(path)
        for k, c in enumerate(self.kids):
            c.set_paths((k,) + tuple(path))
        return self

    def nodes(self):
        yield self
        for c in self.kids:
            for x in c.nodes():
                yield x

    def leaves(self):
        return [n for n in self.nodes() if not n.kids]

    def is_leaf(self):
        return not self.kids

    def sx(self):
        return [Q(self.name)] + [c.sx() for c in self.kids]

    def by_path(self):
        return {n.path: n for n in self.nodes()}


NAME_ALPHABET = 'ABCDEFGHIJKLMNOPQRSTUVWXYZabcdefghijklmnopqrstuvwxyz0123456789 _-./'


def rand_name(rng, fancy):
    if not fancy:
        return None
    if fancy == 'tokens':
        sep = rng.choice(['_', '/'])
        return sep.join(rng.choice(['p', 'q']) for _ in range(rng.randint(1, 3)))
    n = rng.randint(1, 6)
    s = ''.join(rng.choice(NAME_ALPHABET) for _ in range(n))
    s = s.strip()
    return s or 'x'


def gen_tree(rng, nleaves, max_arity=4, unary=False, fancy_names=False, shape=None):
    """random rooted tree with the given number of leaves.  shape: None|'caterpillar'|'balanced'|'star'"""
    counter = [0]
    used = set()

    def fresh(prefix):
        while True:
            nm = rand_name(rng, fancy_names if (fancy_names == 'tokens' or (fancy_names and rng.random() < 0.7)) else False)
            if nm is None:
                nm = '%s%d' % (prefix, counter[0])
            counter[0] += 1
            if nm not in used:
                used.add(nm)
                return nm

    def build(n):
        if n == 1:
            if unary and rng.random() < 0.15:
                return T(fresh('U'), [T(fresh('S'))])
            return T(fresh('S'))
        if shape == 'caterpillar':
            parts = [1, n - 1]
            rng.shuffle(parts)
        elif shape == 'star':
            parts = [1] * n
        elif shape == 'balanced':
            parts = [n // 2, n - n // 2]
        else:
            k = min(n, rng.choice([2, 2, 2, 3, 3, 4, 5][:max(1, max_arity + 2)]))
            k = max(2, min(k, max_arity, n))
            cuts = sorted(rng.sample(range(1, n), k - 1))
            parts = [b - a for a, b in zip([0] + cuts, cuts + [n])]
        node = T(fresh('N'), [build(p) for p in parts])
        if unary and rng.random() < 0.12:
            node = T(fresh('U'), [node])        # a unary level above an internal node
        return node

    t = build(nleaves)
    if t.is_leaf():
        t = T(fresh('N'), [t, T(fresh('S'))])
    return t.set_paths()


def newick(t, internal=True, lengths=None, supports=False):
    """Newick text.  internal: write internal names; lengths: rng or None; supports: write numeric
    support values in place of internal names"""
    def w(n, root):
        if not n.kids:
            s = n.name
        else:
            s = '(' + ','.join(w(c, False) for c in n.kids) + ')'
            if supports and not root:
                s += str(int(lengths.random() * 100)) if lengths else '90'
            elif internal:
                s += n.name
        if lengths is not None and not root:
            s += ':%.3f' % (lengths.random() * 2)
        return s
    return w(t, True) + ';'


def synth_names(t):
    """names pyham assigns with use_internal_name=False"""
    def go(n):
        if not n.kids:
            return T(n.name)
        return T('/'.join(l.name for l in n.leaves()), [go(c) for c in n.kids])
    return go(t).set_paths()


# ---------------------------------------------------------------- histories
# history node:  ('G', gene_id, path)  |  ('H', path, [lineage])   lineage: ('O', node) | ('P', [node,...])

class Ids(object):
    def __init__(self):
        self.n = 0

    def next(self):
        self.n += 1
        return str(self.n)


def gen_history(rng, node, ids, p_loss=0.25, p_dup=0.25, top=True, genes=None, p_narrow=0.0, budget=None):
    """a HOG history rooted at internal tree node `node` (None when every lineage is lost).
    p_narrow: probability that only one child clade survives at a level (single-lineage levels are what
    spellings omit, so this produces long implicit chains and duplications far below their group)"""
    if budget is None:
        budget = [8]          # duplications left for this family (keeps histories finite on deep trees)
    lins = []
    kids = list(node.kids)
    if not top and kids and rng.random() < p_narrow:
        kids = [rng.choice(kids)]
        p_loss = 0.0
    for c in kids:
        r = rng.random()
        if r < p_loss:
            continue
        if r < p_loss + p_dup and budget[0] > 0:
            budget[0] -= 1
            ncopies = rng.choice([2, 2, 2, 3, 4])
            copies = [gen_member(rng, c, ids, p_loss, p_dup, genes, p_narrow, budget) for _ in range(ncopies)]
            copies = [x for x in copies if x is not None]
            if len(copies) >= 2:
                lins.append(('P', copies))
            elif len(copies) == 1:
                lins.append(('O', copies[0]))
        else:
            m = gen_member(rng, c, ids, p_loss, p_dup, genes, p_narrow, budget)
            if m is not None:
                lins.append(('O', m))
    if not lins:
        return None
    return ('H', node.path, lins)


def gen_member(rng, node, ids, p_loss, p_dup, genes, p_narrow=0.0, budget=None):
    if not node.kids:
        g = ids.next()
        if genes is not None:
            genes.append((g, node))
        return ('G', g, node.path)
    return gen_history(rng, node, ids, p_loss, p_dup, False, genes, p_narrow, budget)


def h_tax(h):
    return h[2] if h[0] == 'G' else h[1]


def h_genes(h):
    if h[0] == 'G':
        return [h[1]]
    out = []
    for lin in h[2]:
        for m in (lin[1] if lin[0] == 'P' else [lin[1]]):
            out.extend(h_genes(m))
    return out


def h_canon(h):
    """canonical form of a history / loaded hierarchy: order-free nested tuples"""
    if h[0] == 'G':
        return ('G', h[1])
    plain = sorted(h_canon(l[1]) for l in h[2] if l[0] == 'O')
    dups = sorted(tuple(sorted(h_canon(m) for m in l[1])) for l in h[2] if l[0] == 'P')
    return ('H', tuple(h[1]), tuple(plain), tuple(dups))


# ---------------------------------------------------------------- spellings
class Speller(object):
    """draws one permitted orthoXML spelling of a history (see DESIGN.md 2.3)"""

    def __init__(self, rng, tree, p_omit=0.5, p_wrap=0.15, p_label=0.5, p_annot=0.3, p_og_attr=0.1,
                 p_loft=0.1, explicit=False, p_pg_annot=0.0):
        self.rng = rng
        self.byp = tree.by_path()
        self.p_omit = 0 if explicit else p_omit
        self.p_wrap = 0 if explicit else p_wrap
        self.p_label = p_label
        self.p_annot = p_annot
        self.p_og_attr = p_og_attr
        self.p_loft = p_loft
        self.p_pg_annot = p_pg_annot
        self.fresh = 0
        self.gid = 0
        self.stats = {'omitted': 0, 'wrapped': 0, 'pg': 0, 'nested_pg': 0, 'labels': 0, 'annot': 0}

    def group_id(self):
        self.gid += 1
        return 'x%d' % self.gid

    def score_value(self):
        # boundary values as well: zero (falsy), negative, integer spelling, exponent
        r = self.rng.random()
        if r < 0.2:
            return self.rng.choice(['0', '0.0', '-0.0', '0.000'])
        if r < 0.3:
            return self.rng.choice(['1', '-1.5', '1e-3', '100'])
        return '%.3f' % self.rng.random()

    def annots(self):
        out = []
        if self.rng.random() < self.p_annot:
            for _ in range(self.rng.randint(1, 2)):
                self.stats['annot'] += 1
                if self.rng.random() < 0.5:
                    out.append(('score', self.rng.choice(['consistency', 'coverage', 's3']), self.score_value()))
                else:
                    out.append(('prop', self.rng.choice(['note', 'src', 'k%d' % self.rng.randint(0, 3)]),
                                'v%d' % self.rng.randint(0, 99)))
        return out

    def gene(self, h):
        loft = None
        if self.rng.random() < self.p_loft:
            loft = 'L' + h[1]
        it = ('g', h[1], loft)
        if self.rng.random() < self.p_wrap:
            self.stats['wrapped'] += 1
            name = self.byp[tuple(h[2])].name
            return ('og', None, None, [('prop', 'TaxRange', name), it]), tuple(h[2])
        return it, tuple(h[2])

    # every spelling method also returns the history with lineages and copies in the order they were written
    # (the "ordered history"), which is what the spelling relation of coq/Spell.v is stated for
    def member(self, h, may_omit, may_omit_para):
        """spelling of h as a member; returns (items, level, ordered history) — items is a list because an omitted
        sole-duplication HOG is spelt as its paralogGroup nest"""
        if h[0] == 'G':
            it, lv = self.gene(h)
            return [it], lv, h
        lins = h[2]
        if len(lins) == 1 and self.rng.random() < self.p_omit:
            if lins[0][0] == 'O' and may_omit:
                self.stats['omitted'] += 1
                its, lv, om = self.member(lins[0][1], True, may_omit_para)
                return its, lv, ('H', h[1], [('O', om)])
            if lins[0][0] == 'P' and may_omit_para:
                self.stats['omitted'] += 1
                pg, ocs = self.pg_nest(lins[0][1], self.child_taxon(h, lins[0]))
                return [pg], None, ('H', h[1], [('P', ocs)])
        it, oh = self.explicit(h)
        return [it], tuple(h[1]), oh

    def child_taxon(self, h, lin):
        m = lin[1][0] if lin[0] == 'P' else lin[1]
        return tuple(h_tax(m))

    def copies(self, cs, X):
        """spell the copies of one duplication at taxon X within the side conditions"""
        for _ in range(20):
            spelt = [self.member(c, True, False) for c in cs]
            lvls = [lv for _, lv, _ in spelt]
            if all(lv == X for lv in lvls):
                return spelt
            if len(set(lvls)) >= 2 and mrca_paths(lvls) == X:
                return spelt
        # fall back: spell every copy at exactly X
        return [self.member_exact(c) for c in cs]

    def member_exact(self, h):
        if h[0] == 'G':
            it, lv = self.gene(h)
            return [it], lv, h
        it, oh = self.explicit(h)
        return [it], tuple(h[1]), oh

    def pg_nest(self, cs, X):
        spelt = self.copies(cs, X)
        units = [(its, oh) for its, _, oh in spelt]
        self.rng.shuffle(units)
        ordered = [oh for _, oh in units]
        units = [its for its, _ in units]
        self.stats['pg'] += 1
        # random bracketing: repeatedly wrap a proper run of consecutive units into a nested PG
        while len(units) >= 2 and self.rng.random() < 0.4:
            n = len(units)
            i = self.rng.randrange(0, n)
            j = self.rng.randrange(i + 1, n + 1)
            if j - i == n:
                continue
            self.stats['nested_pg'] += 1
            inner = [x for u in units[i:j] for x in u]
            units[i:j] = [[('pg', ('dn%d' % self.rng.randint(0, 999)) if self.rng.random() < 0.3 else None, inner + self.pg_annots())]]
        body = [x for u in units for x in u]
        ann = self.pg_annots()
        pos = self.rng.randint(0, len(body))
        body[pos:pos] = ann
        return ('pg', ('dn%d' % self.rng.randint(0, 999)) if self.rng.random() < 0.2 else None, body), ordered

    def pg_annots(self):
        # annotations written inside a paralogGroup attach to the enclosing orthologGroup: fresh keys only
        out = []
        if self.rng.random() < self.p_pg_annot:
            self.fresh += 1
            self.stats['annot'] += 1
            if self.rng.random() < 0.5:
                out.append(('score', 'pgs%d' % self.fresh, self.score_value()))
            else:
                out.append(('prop', 'pgk%d' % self.fresh, 'v%d' % self.rng.randint(0, 99)))
        return out

    def explicit(self, h):
        """-> (item, ordered history)"""
        lins = list(h[2])
        self.rng.shuffle(lins)
        body = []
        olins = []
        single = len(lins) == 1
        for lin in lins:
            if lin[0] == 'O':
                if single:
                    its, _, om = self.member_exact(lin[1])
                else:
                    its, _, om = self.member(lin[1], True, True)
                body.extend(its)
                olins.append(('O', om))
            else:
                pg, ocs = self.pg_nest(lin[1], self.child_taxon(h, lin))
                body.append(pg)
                olins.append(('P', ocs))
        ann = self.annots()
        if self.rng.random() < self.p_label:
            self.stats['labels'] += 1
            ann.append(('prop', 'TaxRange', self.byp[tuple(h[1])].name))
        for a in ann:
            body.insert(self.rng.randint(0, len(body)), a)
        oh = ('H', h[1], olins)
        if self.rng.random() < self.p_og_attr:
            return ('og', None, self.group_id(), body), oh
        return ('og', self.group_id(), ('og%d' % self.gid) if self.rng.random() < 0.1 else None, body), oh


def mrca_paths(paths):
    """longest common suffix of nearest-edge-first paths"""
    rs = [tuple(reversed(p)) for p in paths]
    out = []
    for xs in zip(*rs):
        if all(x == xs[0] for x in xs):
            out.append(xs[0])
        else:
            break
    return tuple(reversed(out))


# ---------------------------------------------------------------- cases
class Case(object):
    """one analysis input: tree + orthoXML content (+ the generating histories when there are any)"""

    def __init__(self, tree, species, groups, use_internal=True, histories=None, singles=(), tag='', stats=None,
                 consistent=True):
        self.tree = tree                  # T with the names as written in the Newick
        self.species = species            # [(name, [ {id:..., protId:..., ...} ])]
        self.groups = groups              # [item]
        self.use_internal = use_internal
        self.histories = histories        # [(group_id, history)] or None
        self.singles = list(singles)
        self.tag = tag
        self.stats = stats or {}
        self.consistent = consistent      # inside the domain the properties quantify over
        self.oma = False                  # load with species_resolve_mode="OMA"
        self.ohists = None                # ordered histories, when the case was spelt by the Speller

    def named_tree(self):
        return self.tree if self.use_internal else synth_names(self.tree)

    def newick(self, **kw):
        return newick(self.tree, **kw)

    def xml(self, one_line=False):
        return write_xml(self.species, self.groups, one_line)

    def doc_sx(self):
        return ['doc',
                ['species'] + [[Q(n)] + [['gene', Q(g['id']), [[Q(k), Q(v)] for k, v in g.items() if k != 'id']]
                                         for g in gs] for n, gs in self.species],
                ['groups'] + [item_sx(i) for i in self.groups]]

    def all_gene_ids(self):
        return [g['id'] for _, gs in self.species for g in gs]


def item_sx(it):
    k = it[0]
    if k == 'g':
        return ['g', Q(it[1])] + ([Q(it[2])] if it[2] is not None else [])
    if k == 'og':
        return ['og', [Q(it[1])] if it[1] is not None else [], [Q(it[2])] if it[2] is not None else []] + \
            [item_sx(x) for x in it[3]]
    if k == 'pg':
        return ['pg', [Q(it[1])] if it[1] is not None else []] + [item_sx(x) for x in it[2]]
    return [k, Q(it[1]), Q(it[2])]


def esc(s):
    return s.replace('&', '&amp;').replace('<', '&lt;').replace('"', '&quot;')


def write_xml(species, groups, one_line=False):
    nl = '' if one_line else '\n'
    out = ['<?xml version="1.0" encoding="UTF-8"?>' + nl,
           '<orthoXML xmlns="http://orthoXML.org/2011/" version="0.3" origin="verif" originVersion="1">' + nl]
    for name, genes in species:
        out.append('<species name="%s" NCBITaxId="1"><database name="db" version="1"><genes>%s' % (esc(name), nl))
        for g in genes:
            out.append('<gene %s/>%s' % (' '.join('%s="%s"' % (k, esc(v)) for k, v in g.items()), nl))
        out.append('</genes></database></species>' + nl)
    out.append('<scores><scoreDef id="consistency" desc="c"/><scoreDef id="coverage" desc="c"/>'
               '<scoreDef id="s3" desc="c"/></scores>' + nl)
    out.append('<groups>' + nl)

    def w(it):
        k = it[0]
        if k == 'g':
            out.append('<geneRef id="%s"%s/>%s' % (esc(it[1]), (' LOFT="%s"' % esc(it[2])) if it[2] is not None else '', nl))
        elif k == 'og':
            a = ''
            if it[1] is not None:
                a += ' id="%s"' % esc(it[1])
            if it[2] is not None:
                a += ' og="%s"' % esc(it[2])
            out.append('<orthologGroup%s>%s' % (a, nl))
            for x in it[3]:
                w(x)
            out.append('</orthologGroup>' + nl)
        elif k == 'pg':
            out.append('<paralogGroup%s>%s' % ((' og="%s"' % esc(it[1])) if it[1] is not None else '', nl))
            for x in it[2]:
                w(x)
            out.append('</paralogGroup>' + nl)
        elif k == 'prop':
            out.append('<property name="%s" value="%s"/>%s' % (esc(it[1]), esc(it[2]), nl))
        elif k == 'score':
            out.append('<score id="%s" value="%s"/>%s' % (esc(it[1]), esc(it[2]), nl))
    for g in groups:
        w(g)
    out.append('</groups>' + nl + '</orthoXML>' + nl)
    return ''.join(out)


class Plan(object):
    """tree + histories + singletons + gene declarations: everything but the spelling"""
    pass


def gen_plan(rng, nleaves=None, nfam=None, fancy_names=False, use_internal=None, max_leaves=10, dup_heavy=False,
             unary=False):
    pl = Plan()
    if nleaves is None:
        nleaves = rng.randint(2, max_leaves)
    shape = rng.choice([None, None, None, None, 'caterpillar', 'balanced', 'star'])
    if dup_heavy == 'narrow':
        shape = rng.choice(['caterpillar', 'caterpillar', None])
    elif dup_heavy:
        shape = rng.choice(['balanced', 'balanced', None])
    pl.tree = gen_tree(rng, nleaves, max_arity=rng.choice([2, 3, 4, 5]), fancy_names=fancy_names, shape=shape, unary=unary)
    pl.use_internal = (rng.random() < 0.6) if use_internal is None else use_internal
    if pl.use_internal and rng.random() < 0.06:
        # a Newick tree without a label on its root, read with use_internal_name=True: one node named ''
        pl.tree.name = ''
    pl.named = pl.tree if pl.use_internal else synth_names(pl.tree)
    if nfam is None:
        nfam = rng.randint(0, 4)
    ids = Ids()
    genes = []
    pl.hists = []
    internals = [n for n in pl.named.nodes() if n.kids]
    p_loss = rng.choice([0.1, 0.25, 0.4])
    p_dup = rng.choice([0.1, 0.25, 0.4, 0.75])
    if p_dup > 0.5:
        # duplication-heavy families: HOGs all of whose children are copies, several duplications under one HOG
        p_loss = min(p_loss, 0.1)
    p_narrow = rng.choice([0.0, 0.0, 0.3, 0.6])
    if dup_heavy == 'narrow':
        # many duplications whose copies survive in single sub-lineages: copies of one event at different depths
        p_loss, p_dup, p_narrow = 0.25, 0.5, 0.6
    elif dup_heavy:
        # nearly every branch duplicates and nothing is lost: HOGs with several duplications and no plain child
        p_loss, p_dup, p_narrow = 0.0, 0.85, 0.0
    for _ in range(nfam):
        root = rng.choice(internals) if rng.random() < 0.5 else pl.named
        h = gen_history(rng, root, ids, p_loss, p_dup, True, genes, p_narrow)
        if h is not None:
            pl.hists.append(h)
    pl.singles = []
    leaves = pl.named.leaves()
    for _ in range(rng.choice([0, 0, 1, 2, 3])):
        lf = rng.choice(leaves)
        g = ids.next()
        genes.append((g, lf))
        pl.singles.append(g)
    by_leaf = {}
    for g, lf in genes:
        by_leaf.setdefault(lf.path, []).append(g)
    pl.species = []
    for lf in leaves:
        gs = by_leaf.get(lf.path, [])
        if not gs and rng.random() < 0.5:
            continue
        decls = []
        for g in gs:
            d = {'id': g}
            if rng.random() < 0.8:
                d['protId'] = 'P' + g
            if rng.random() < 0.5:
                # cross-reference ids may be shared by several genes (also across families)
                d['geneId'] = ('SH%d' % rng.randint(0, 2)) if rng.random() < 0.3 else 'Gn' + g
            if rng.random() < 0.2:
                d['transcriptId'] = 'T' + g
            decls.append(d)
        pl.species.append((lf.name, decls))
    pl.nleaves = nleaves
    pl.ngenes = len(genes)
    return pl


def spell_plan(rng, pl, explicit=False, tag='main', group_ids=None, p_reuse_ids=0.2, **spell_kw):
    """one permitted spelling of the plan: random member/species/gene order, omissions, wrappers, nesting"""
    sp = Speller(rng, pl.named, explicit=explicit, **spell_kw)
    groups = []
    histories = []
    ohists = []
    for k, h in enumerate(pl.hists):
        it, oh = sp.explicit(h)
        if group_ids is not None:
            it = ('og', group_ids[k], None, it[3])
        groups.append(it)
        histories.append((it[1] if it[1] is not None else it[2], h))
        ohists.append(oh)
    # nested groups may repeat the id of their own family (as pyham's own export writes them) or carry the id of
    # another family: only the ids of top-level groups identify families
    if groups and rng.random() < p_reuse_ids:
        tops = [g[1] if g[1] is not None else g[2] for g in groups]

        def reuse(it, own, top):
            if it[0] == 'og':
                i, og = it[1], it[2]
                if not top and i is not None and rng.random() < 0.6:
                    i = own if rng.random() < 0.7 else rng.choice(tops)
                return ('og', i, og, [reuse(x, own, False) for x in it[3]])
            if it[0] == 'pg':
                return ('pg', it[1], [reuse(x, own, False) for x in it[2]])
            return it
        groups = [reuse(g, t, True) for g, t in zip(groups, tops)]
    order = list(range(len(groups)))
    rng.shuffle(order)
    groups = [groups[i] for i in order]
    histories = [histories[i] for i in order]
    ohists = [ohists[i] for i in order]
    species = [(n, sorted(gs, key=lambda x: rng.random())) for n, gs in pl.species]
    rng.shuffle(species)
    stats = dict(sp.stats)
    stats.update({'leaves': pl.nleaves, 'families': len(pl.hists), 'genes': pl.ngenes, 'singles': len(pl.singles),
                  'nodes': sum(1 for _ in pl.named.nodes()),
                  'dups': sum(count_dups(h) for h in pl.hists)})
    c = Case(pl.tree, species, groups, use_internal=pl.use_internal, histories=histories, singles=pl.singles,
             tag=tag, stats=stats)
    c.ohists = ohists          # histories in the order the groups list their members (for the spelling relation)
    return c


def gen_case(rng, nleaves=None, nfam=None, explicit=False, fancy_names=False, use_internal=None,
             max_leaves=10, tag='main', dup_heavy=False, unary=False, **spell_kw):
    pl = gen_plan(rng, nleaves=nleaves, nfam=nfam, fancy_names=fancy_names, use_internal=use_internal,
                  max_leaves=max_leaves, dup_heavy=dup_heavy, unary=unary)
    return spell_plan(rng, pl, explicit=explicit, tag=tag, **spell_kw)


def count_dups(h):
    if h[0] == 'G':
        return 0
    n = 0
    for lin in h[2]:
        if lin[0] == 'P':
            n += 1
            n += sum(count_dups(m) for m in lin[1])
        else:
            n += count_dups(lin[1])
    return n


# ---------------------------------------------------------------- bounded-exhaustive enumeration (C03)
def enum_shapes(n):
    """all ordered rooted tree shapes with n leaves and no unary node, as nested tuples (() = leaf)"""
    if n == 1:
        return [()]
    out = []

    def parts(m, k):
        # compositions of m into k positive parts
        if k == 1:
            yield (m,)
            return
        for a in range(1, m - k + 2):
            for rest in parts(m - a, k - 1):
                yield (a,) + rest
    import itertools
    for k in range(2, n + 1):
        for comp in parts(n, k):
            for kids in itertools.product(*[enum_shapes(a) for a in comp]):
                out.append(tuple(kids))
    return out


def shape_tree(shape):
    cnt = [0]

    def go(s):
        cnt[0] += 1
        if s == ():
            return T('S%d' % cnt[0])
        return T('N%d' % cnt[0], [go(c) for c in s])
    return go(shape).set_paths()


def enum_histories(node, ids_start=1, max_dups=2, max_copies=2):
    """every history rooted at `node` with at most max_dups duplications (copies per duplication: 2..max_copies).
    Returned as functions of a gene-id allocator: here as (history, ndups) with symbolic gene ids that are
    renumbered by relabel_history."""
    import itertools

    def member(nd, budget):
        if not nd.kids:
            return [(('G', None, nd.path), 0)]
        return hog(nd, budget)

    def lineage_options(c, budget):
        opts = [(None, 0)]                                     # lost
        for m, d in member(c, budget):
            opts.append((('O', m), d))
        if budget >= 1:
            for ncop in range(2, max_copies + 1):
                ms = member(c, budget - 1)
                for combo in itertools.combinations_with_replacement(range(len(ms)), ncop):
                    d = 1 + sum(ms[i][1] for i in combo)
                    if d <= budget:
                        opts.append((('P', [ms[i][0] for i in combo]), d))
        return opts

    def hog(nd, budget):
        out = []
        per_child = [lineage_options(c, budget) for c in nd.kids]
        for choice in itertools.product(*per_child):
            d = sum(x[1] for x in choice)
            if d > budget:
                continue
            lins = [x[0] for x in choice if x[0] is not None]
            if lins:
                out.append((('H', nd.path, lins), d))
        return out
    return [h for h, _ in hog(node, max_dups)]


def relabel_history(h, ids, genes):
    """fresh gene ids for a symbolic history; genes collects (id, leaf path)"""
    if h[0] == 'G':
        g = ids.next()
        genes.append((g, h[2]))
        return ('G', g, h[2])
    lins = []
    for lin in h[2]:
        if lin[0] == 'O':
            lins.append(('O', relabel_history(lin[1], ids, genes)))
        else:
            lins.append(('P', [relabel_history(m, ids, genes) for m in lin[1]]))
    return ('H', h[1], lins)


def enum_spellings(h, byp, top=True):
    """every spelling of h obtained by omitting / spelling out single-lineage levels where permitted and by
    labelling or not; paralogGroups flat, genes bare.  Returns lists of items (a member may be spelt as a PG nest)."""
    import itertools

    def member(x, may_omit, may_omit_para):
        """-> list of (items, level)"""
        if x[0] == 'G':
            return [([('g', x[1], None)], tuple(x[2]))]
        out = [([it], tuple(x[1])) for it in explicit(x)]
        lins = x[2]
        if len(lins) == 1:
            if lins[0][0] == 'O' and may_omit:
                out.extend(member(lins[0][1], True, may_omit_para))
            if lins[0][0] == 'P' and may_omit_para:
                X = tuple(h_tax(lins[0][1][0]))
                for nest in pg_nests(lins[0][1], X):
                    out.append(([nest], None))
        return out

    def pg_nests(cs, X):
        alts = [member(c, True, False) for c in cs]
        out = []
        for combo in itertools.product(*alts):
            lvls = [lv for _, lv in combo]
            if all(lv == X for lv in lvls) or (len(set(lvls)) >= 2 and mrca_paths(lvls) == X):
                out.append(('pg', None, [i for its, _ in combo for i in its]))
        return out

    def explicit(x):
        lins = x[2]
        single = len(lins) == 1
        per = []
        for lin in lins:
            if lin[0] == 'O':
                if single:
                    m = lin[1]
                    per.append([[('g', m[1], None)]] if m[0] == 'G' else [[it] for it in explicit(m)])
                else:
                    per.append([its for its, _ in member(lin[1], True, True)])
            else:
                per.append([[n] for n in pg_nests(lin[1], tuple(h_tax(lin[1][0])))])
        out = []
        for combo in itertools.product(*per):
            body = [i for its in combo for i in its]
            out.append(('og', None, None, body))
            out.append(('og', None, None, [('prop', 'TaxRange', byp[tuple(x[1])].name)] + body))
        return out
    return explicit(h)


def enum_cases(max_leaves=3, max_dups=1, max_copies=2, cap=None, rng=None):
    """bounded-exhaustive cases: every tree shape, every single-family history, every spelling"""
    out = []
    for n in range(2, max_leaves + 1):
        for shape in enum_shapes(n):
            tree = shape_tree(shape)
            byp = tree.by_path()
            for root in [x for x in tree.nodes() if x.kids]:
                for sym in enum_histories(root, max_dups=max_dups, max_copies=max_copies):
                    ids = Ids()
                    genes = []
                    h = relabel_history(sym, ids, genes)
                    for k, it in enumerate(enum_spellings(h, byp)):
                        it = ('og', 'e%d' % k, None, it[3])
                        species = {}
                        for g, p in genes:
                            species.setdefault(byp[tuple(p)].name, []).append({'id': g})
                        sp = [(nm, gs) for nm, gs in species.items()]
                        stats = {'leaves': n, 'families': 1, 'genes': len(genes), 'dups': count_dups(h), 'exhaustive': 1}
                        c = Case(tree, sp, [it], use_internal=True, histories=[('e%d' % k, h)], tag='exhaustive', stats=stats)
                        c.ohists = [h]
                        out.append(c)
    if cap is not None and len(out) > cap and rng is not None:
        out = rng.sample(out, cap)
    return out


# ---------------------------------------------------------------- species_resolve_mode="OMA"
CODE_FIRST = 'ABCDEFGHIJKLMNOPQRSTUVWXYZ'
CODE_REST = CODE_FIRST + '0123456789'


def rand_code(rng, used):
    while True:
        c = rng.choice(CODE_FIRST) + ''.join(rng.choice(CODE_REST) for _ in range(4))
        if c not in used:
            used.add(c)
            return c


def near_code(rng, used):
    """names that just miss the code pattern [A-Z][A-Z0-9]{4} of length five"""
    while True:
        c = rng.choice(CODE_FIRST) + ''.join(rng.choice(CODE_REST) for _ in range(4))
        k = rng.randrange(4)
        c = [c.lower(), c + 'X', c[:4], rng.choice('0123456789') + c[1:]][k]
        if c not in used:
            used.add(c)
            return c


def copy_tree(t):
    return T(t.name, [copy_tree(c) for c in t.kids])


def oma_variant(rng, c):
    """the case as an OMA-style input: some species names sit on an internal node above their code-named
    leaf (resolved by the OMA rule), some of those nodes are made ambiguous or code-less (must be rejected).
    Returns the new case (histories dropped: leaf paths change)."""
    t = copy_tree(c.tree)
    used = set(n.name for n in t.nodes())
    kinds = {}

    def go(n):
        for i, k in enumerate(n.kids):
            if k.kids:
                go(k)
                continue
            r = rng.random()
            if r < 0.35:
                kind = rng.choice(['unique', 'unique', 'unique+plain', 'unique+near', 'two-codes', 'no-code', 'code-internal'])
                if kind == 'unique':
                    kids = [T(rand_code(rng, used))]
                elif kind == 'unique+plain':
                    kids = [T(rand_code(rng, used)), T('q%d' % len(used))]
                    used.add(kids[1].name)
                elif kind == 'unique+near':
                    kids = [T(near_code(rng, used)), T(rand_code(rng, used))]
                elif kind == 'two-codes':
                    kids = [T(rand_code(rng, used)), T(rand_code(rng, used))]
                elif kind == 'no-code':
                    kids = [T(near_code(rng, used))]
                else:
                    kids = [T(rand_code(rng, used), [T(near_code(rng, used)), T(near_code(rng, used))])]
                n.kids[i] = T(k.name, kids)
                kinds[k.name] = kind
            elif r < 0.5:
                # the leaf itself carries a code: nothing to resolve
                new = rand_code(rng, used)
                kinds[k.name] = 'leaf-code'
                rename[k.name] = new
                k.name = new
    rename = {}
    go(t)
    t.set_paths()
    species = [(rename.get(n, n), gs) for n, gs in c.species]

    def ren(it):
        if it[0] == 'prop' and it[1] == 'TaxRange':
            return ('prop', 'TaxRange', rename.get(it[2], it[2]))
        if it[0] == 'og':
            return ('og', it[1], it[2], [ren(x) for x in it[3]])
        if it[0] == 'pg':
            return ('pg', it[1], [ren(x) for x in it[2]])
        return it
    v = Case(t, species, [ren(g) for g in c.groups], c.use_internal, None, c.singles, 'oma', dict(c.stats), c.consistent)
    v.oma = True
    v.oma_kinds = kinds
    return v
