"""loads the cases of a JSON file and prints one digest of the analysis signature per case"""
import sys
import os
import json
import hashlib
import random
sys.path.insert(0, os.path.dirname(os.path.abspath(__file__)))
import core
import impl
import props

with open(sys.argv[1]) as f:
    cases = [core.case_unjson(j) for j in json.load(f)]
for c in cases:
    r = impl.load_impl(c)
    s = repr(sorted(props.signature(r[1], rng=random.Random(1)).items())) if r[0] == 'ok' else 'err'
    print(hashlib.md5(s.encode()).hexdigest())
