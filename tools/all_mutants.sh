#!/bin/bash
# all_mutants.sh [tier] [seed] : every seeded change against the quick checks its meta.json names; prints the ones NOT caught
T=${1:-quick}
SEED=${2:-}
SA=""; [ -n "$SEED" ] && SA="--seed $SEED"
cd /verif
for d in seeded/*/; do
  m=$(basename $d)
  checks=$(/venv/bin/python -c "import json;print(' '.join(json.load(open('$d/meta.json'))['caught_by_quick_checks']))")
  git -C /repo apply /verif/$d/patch.diff || { echo "$m: PATCH DOES NOT APPLY"; continue; }
  for c in $checks; do
    case "$c" in C[0-9][0-9]) ;; *) continue ;; esac
    out=$(./check $c --no-build --tier $T $SA 2>&1)
    n=$(echo "$out" | grep -c "^VIOLATION")
    if ! echo "$out" | grep -q "^$c $T:"; then echo "$m: CHECK $c DID NOT COMPLETE (machinery broken or changed while running)";
    elif [ "$n" = "0" ]; then echo "$m: NOT CAUGHT by $c"; else echo "$m: $c $n"; fi
  done
  git -C /repo checkout -- .
done
git -C /repo status --short | grep -v egg-info
echo ALL-DONE
