(* SpellCheckFacts.v — soundness of the executable consistency check: consistentb t d hs = true implies
   WholeFacts.consistent t d hs (and therefore every theorem about consistent inputs). *)
From Coq Require Import List Arith Bool String Lia Permutation.
From PyHam Require Import Tax Ortho Loader Mapper Preds Filter Hist Spell Whole SpellCheck.
From PyHam.proofs Require Import TaxFacts MapperFacts ForestFacts ClusterFacts PartitionFacts LoaderFacts ExplicitFacts
  SpellFacts WholeFacts FilterSpellFacts.
Import ListNotations.
Local Open Scope string_scope.
Local Open Scope list_scope.

Lemma is_annotb_ok it : is_annotb it = true -> is_annot it.
Proof. destruct it; simpl; intros H; try discriminate; exact I. Qed.

Lemma opt_tax_eqb_eq a b : opt_tax_eqb a b = true -> a = b.
Proof. destruct a, b; simpl; intros H; try discriminate; [apply taxon_eqb_eq in H; now subst|reflexivity]. Qed.

Lemma label_okb_ok t lins body : label_okb t lins body = true -> label_ok t lins body.
Proof.
  unfold label_okb, label_ok. destruct (assoc_last "TaxRange" (flat_map item_props body)) as [v|]; [|auto].
  intros H l -> Hn. rewrite Hn in H. apply negb_true_iff in H. rewrite String.eqb_refl in H. discriminate.
Qed.

Lemma levels_okb_ok X lvls : levels_okb X lvls = true -> levels_ok X lvls.
Proof.
  unfold levels_okb, levels_ok. intros H. apply orb_true_iff in H as [H|H].
  - left. apply Forall_forall. intros l Hl. rewrite forallb_forall in H. specialize (H l Hl). now apply taxon_eqb_eq in H.
  - right. destruct (dedup_tax lvls) as [|x [|y r']]; try discriminate. exists x, (y :: r'). split; [reflexivity|]. split; [discriminate|].
    now apply taxon_eqb_eq in H.
Qed.

Theorem chk_sound t : forall n,
  (forall mp h it lv, chk_member n t mp h it = Some lv -> sp_member t mp h [it] lv) /\
  (forall sgl p lins body, chk_body n t sgl p lins body = true -> sp_body t sgl p lins body) /\
  (forall cs body cs' lvls, chk_units n t cs body = Some (cs', lvls) -> exists cs1, cs = cs1 ++ cs' /\ sp_units t cs1 body lvls).
Proof.
  induction n as [|n (IHm & IHb & IHu)]; [split; [|split]; intros; discriminate|].
  split; [|split].
  - (* members *)
    intros mp h it lv H. cbn [chk_member] in H. destruct it as [g [l|]|id og body|og body|k v|k v]; try discriminate.
    + destruct h as [g' p|p lins].
      * destruct (String.eqb g g') eqn:E; [|discriminate]. apply String.eqb_eq in E. subst g'. inversion H. constructor.
      * destruct lins as [|[|c [|c2 cr]] [|l2 lr]]; try discriminate. apply sm_omit. apply IHm. exact H.
    + destruct h as [g p|p lins].
      * destruct body as [|[| | |k nm|] [|[g' [l|]| | | |] [|x r]]]; try discriminate.
        destruct (String.eqb k "TaxRange") eqn:Ek; [|discriminate]. destruct (String.eqb g g') eqn:Eg; [|discriminate].
        destruct (name_of t p) as [n0|] eqn:En; [|discriminate]. destruct (String.eqb n0 nm) eqn:En0; [|discriminate].
        apply String.eqb_eq in Ek, Eg, En0. subst. inversion H. apply sm_wrap. exact En.
      * destruct (chk_body n t (single lins) p lins body && label_okb t lins body) eqn:E.
        -- apply andb_true_iff in E as [Eb El]. inversion H. apply sm_explicit; [apply IHb; exact Eb|apply label_okb_ok; exact El].
        -- destruct lins as [|[|c [|c2 cr]] [|l2 lr]]; try discriminate. apply sm_omit. apply IHm. exact H.
    + destruct h as [g p|p lins]; [discriminate|]. destruct lins as [|cs [|l2 lr]]; try discriminate.
      destruct cs as [|c [|c2 cr]].
      * simpl in H. destruct mp; discriminate.
      * apply sm_omit. apply IHm. exact H.
      * set (cs := c :: c2 :: cr) in *. destruct (mp && Nat.leb 2 (List.length cs)) eqn:E; [|discriminate].
        apply andb_true_iff in E as [-> E2]. apply Nat.leb_le in E2.
        destruct (chk_units n t cs body) as [[[|x r] lvls]|] eqn:Eu; try discriminate.
        destruct (levels_okb (lin_tax cs) lvls) eqn:El; [|discriminate]. inversion H.
        destruct (IHu _ _ _ _ Eu) as (cs1 & Ecs & Hu). rewrite app_nil_r in Ecs. subst cs1.
        eapply sm_omit_para; [exact E2|exact Hu|apply levels_okb_ok; exact El].
  - (* bodies *)
    intros sgl p lins body H. cbn [chk_body] in H. destruct body as [|it r].
    + destruct lins; [constructor|discriminate].
    + destruct (is_annotb it) eqn:Ea.
      * apply sb_annot; [apply is_annotb_ok; exact Ea|apply IHb; exact H].
      * destruct lins as [|l lr]; [discriminate|]. destruct l as [|c [|c2 cr]].
        -- simpl in H. discriminate.
        -- destruct (chk_member n t true c it) as [lv|] eqn:Em; [|discriminate]. apply andb_true_iff in H as [Hs Hr].
           change (it :: r) with ([it] ++ r). eapply sb_orth; [apply IHm; exact Em| |apply IHb; exact Hr].
           intros ->. apply opt_tax_eqb_eq in Hs. exact Hs.
        -- set (cs := c :: c2 :: cr) in *. apply andb_true_iff in H as [H2 H]. apply Nat.leb_le in H2.
           destruct it as [| |og pgbody| |]; try discriminate.
           destruct (chk_units n t cs pgbody) as [[[|x r'] lvls]|] eqn:Eu; try discriminate.
           apply andb_true_iff in H as [El Hr].
           destruct (IHu _ _ _ _ Eu) as (cs1 & Ecs & Hu). rewrite app_nil_r in Ecs. subst cs1.
           eapply sb_dup; [exact H2|exact Hu|apply levels_okb_ok; exact El|apply IHb; exact Hr].
  - (* copies *)
    intros cs body cs' lvls H. cbn [chk_units] in H. destruct body as [|it r].
    + inversion H; subst. exists []. split; [reflexivity|constructor].
    + destruct (is_annotb it) eqn:Ea.
      * destruct (IHu _ _ _ _ H) as (cs1 & E & Hu). exists cs1. split; [exact E|]. apply su_annot; [apply is_annotb_ok; exact Ea|exact Hu].
      * assert (Hcopy : forall c cr, cs = c :: cr ->
                  match chk_member n t false c it with
                  | Some (Some l) => match chk_units n t cr r with Some (cs'', lv) => Some (cs'', l :: lv) | None => None end
                  | _ => None
                  end = Some (cs', lvls) -> exists cs1, cs = cs1 ++ cs' /\ sp_units t cs1 (it :: r) lvls).
        { intros c cr -> Hc. destruct (chk_member n t false c it) as [[l|]|] eqn:Em; try discriminate.
          destruct (chk_units n t cr r) as [[cs'' lv]|] eqn:Eu; [|discriminate]. inversion Hc; subst.
          destruct (IHu _ _ _ _ Eu) as (cs1 & E & Hu). exists (c :: cs1). split; [simpl; now rewrite E|].
          change (it :: r) with ([it] ++ r). apply su_copy; [apply IHm; exact Em|exact Hu]. }
        destruct it as [g lf|id og b|og inner|k v|k v]; try discriminate;
          try (destruct cs as [|c cr]; [discriminate|]; eapply Hcopy; [reflexivity|exact H]).
        destruct (chk_units n t cs inner) as [[cs1' lv1]|] eqn:E1; [|discriminate].
        destruct (Nat.ltb (List.length cs1') (List.length cs)) eqn:Elt; [|discriminate]. apply Nat.ltb_lt in Elt.
        destruct (chk_units n t cs1' r) as [[cs'' lv2]|] eqn:E2; [|discriminate]. inversion H; subst.
        destruct (IHu _ _ _ _ E1) as (a & Ea' & Hua). destruct (IHu _ _ _ _ E2) as (b & Eb & Hub).
        exists (a ++ b). split; [rewrite Ea', Eb, app_assoc; reflexivity|].
        apply su_nest; [|exact Hua|exact Hub]. intros ->. simpl in Ea'. subst cs. lia.
Qed.

Theorem spells_topb_sound t h it : spells_topb t h it = true -> spells_top t h it.
Proof.
  unfold spells_topb. destruct h as [g p|p lins]; [discriminate|]. destruct it as [| id og body| | |]; try discriminate.
  intros H. apply andb_true_iff in H as [Hb Hl]. exists p, lins, id, og, body.
  split; [reflexivity|]. split; [reflexivity|]. split; [|apply label_okb_ok; exact Hl].
  destruct (chk_sound t (2 * (isize (IOG id og body) + hsize (XH p lins)) + 8)) as (_ & Hs & _). apply Hs. exact Hb.
Qed.
