"""Per-property checks.  Each check_Cxx(ctx) explores inputs, compares the real pyham with the
extracted model layer by layer, evaluates the property's predicate on what the real code built,
and records violations in ctx."""
import io
import json
import os
import re
import tempfile
from collections import Counter

import gen
import impl
import model
import core
import corpus
import regress
from core import compare_parser, case_json
from sx import Q

pyham = impl.pyham
abstractgene = impl.abstractgene


# ------------------------------------------------------------------ streams
def gen_main(ctx, n, **kw):
    cases = []
    if not kw.pop('no_fixtures', False):
        cases.extend(regress.regress_cases())
        cases.extend(corpus.fixture_cases())
    big = ctx.tier == 'thorough'
    for i in range(n):
        r = ctx.rng.random()
        if r < 0.03 and 'use_internal' not in kw and 'fancy_names' not in kw:
            # node names built from two tokens and the separators '/' and '_' (pairwise different, but concatenations
            # of two names coincide: "p" + "_" + "q_p" = "p_q" + "_" + "p")
            c = gen.gen_case(ctx.rng, max_leaves=8, use_internal=True, fancy_names='tokens', **kw)
        elif r < 0.07 and 'use_internal' not in kw:
            # species trees with unary nodes (names from the tree: synthesised names repeat at a unary node)
            c = gen.gen_case(ctx.rng, max_leaves=8, unary=True, use_internal=True, **kw)
        elif r < 0.14 and 'nfam' not in kw:
            # deep narrow histories: duplications whose copies survive in single sub-lineages several levels down
            c = gen.gen_case(ctx.rng, nleaves=ctx.rng.randint(6, 10), dup_heavy='narrow', **kw)
        elif r < 0.22:
            c = gen.gen_case(ctx.rng, max_leaves=4, **kw)
        elif r < 0.85 or not big:
            c = gen.gen_case(ctx.rng, max_leaves=10, **kw)
        else:
            c = gen.gen_case(ctx.rng, nleaves=ctx.rng.randint(11, 40), nfam=ctx.rng.randint(1, 8), **kw)
        cases.append(c)
    return cases


FORCED = None      # set by replay(): the only case explored


def loaded_stream(ctx, n, **kw):
    cases = FORCED if FORCED is not None else gen_main(ctx, n, **kw)
    Ls = core.load_cases(cases)
    for L in Ls:
        ctx.record_case(L.case)
    return Ls


def cj(L):
    """case of a loaded analysis for a replay, with the filter it was loaded under (if any)"""
    j = case_json(L.case)
    if getattr(L, 'filter_desc', None):
        j = dict(j, filter=L.filter_desc)
    return j


def filtered_views(ctx, Ls, frac=0.15):
    """the same inputs loaded under a ParserFilter that selects some families (by HOG id) and some genes (by internal
    or external id, singletons included): analyses of a filtered load obey the same laws"""
    out = []
    if FORCED is not None:
        return out
    for L in Ls:
        if L.impl[0] != 'ok' or not L.case.consistent or ctx.rng.random() > frac:
            continue
        c = L.case
        fam_ids = [g[1] for g in c.groups if g[1] is not None]
        genes = [g for _, gs in c.species for g in gs]
        if not genes:
            continue
        hogs = ctx.rng.sample(fam_ids, ctx.rng.randint(0, min(2, len(fam_ids)))) if fam_ids else []
        ints = [g['id'] for g in ctx.rng.sample(genes, min(len(genes), ctx.rng.randint(0, 2)))]
        ints += [s_ for s_ in c.singles if ctx.rng.random() < 0.7]
        ext = [g['protId'] for g in ctx.rng.sample(genes, min(len(genes), ctx.rng.randint(0, 1))) if g.get('protId')]
        if not (hogs or ints or ext):
            continue
        r = impl.load_impl(c, filter_object=make_filter(hogs, ext, ints))
        if r[0] != 'ok':
            continue            # whether a filtered load succeeds is C11's subject
        Lf = core.Loaded.__new__(core.Loaded)
        Lf.case, Lf.impl, Lf.model, Lf.dump = c, r, L.model, impl.Dump(r[1])
        Lf.filter_desc = {'hogs': hogs, 'external': ext, 'internal': ints}
        ctx.dist['filtered_analysis'] += 1
        out.append(Lf)
    return out


def phyloxml_views(ctx, Ls, work, frac=0.1):
    """the same inputs with the species tree supplied as PhyloXML, the node names decorated with characters a Newick
    label cannot carry (parentheses, brackets, colon, comma, '=', ';'): the analyses obey the same laws"""
    out = []
    if FORCED is not None:
        return out
    deco = [' (strain K12)', ' [1]', ': sub', ', sp.', ' = x', '; y']
    for L in Ls:
        c = L.case
        if L.impl[0] != 'ok' or not c.consistent or getattr(L, 'filter_desc', None) or ctx.rng.random() > frac \
                or not all(n.name for n in c.tree.nodes()):
            continue
        ren = {}
        for n in c.named_tree().nodes():
            ren[n.name] = n.name + (ctx.rng.choice(deco) if ctx.rng.random() < 0.5 else '')
        t2 = gen.copy_tree(c.named_tree())
        for n in t2.nodes():
            n.name = ren[n.name]
        t2.set_paths()

        def rn(it):
            if it[0] == 'prop' and it[1] == 'TaxRange':
                return ('prop', 'TaxRange', ren.get(it[2], it[2]))
            if it[0] == 'og':
                return ('og', it[1], it[2], [rn(x) for x in it[3]])
            if it[0] == 'pg':
                return ('pg', it[1], [rn(x) for x in it[2]])
            return it
        c2 = gen.Case(t2, [(ren.get(n, n), gs) for n, gs in c.species], [rn(g) for g in c.groups], True, c.histories,
                      c.singles, c.tag + ':phyloxml-names', c.stats, c.consistent)
        pxf = os.path.join(work, 'v%d.phyloxml' % len(out))
        with open(pxf, 'w') as f_:
            f_.write(phyloxml_text(t2))
        r = impl.load_impl(c2, newick=pxf, tree_format='phyloxml')
        if r[0] != 'ok':
            ctx.violation('consistent input rejected when the species tree is supplied as PhyloXML: %s' % r[1],
                          {'case': dict(case_json(c2), tree_format='phyloxml')})
            continue
        Lp = core.Loaded.__new__(core.Loaded)
        Lp.case, Lp.impl, Lp.model, Lp.dump = c2, r, L.model, impl.Dump(r[1])
        Lp.filter_desc = {'tree_format': 'phyloxml'}
        ctx.dist['phyloxml_analysis'] += 1
        out.append(Lp)
    return out


def report_parser_layer(ctx, L, diffs, theorem):
    """a parser-layer disagreement with no failing predicate: the theorem no longer speaks about this code"""
    ctx.counts['parser_layer_disagreements'] += 1
    ctx.violation('parser layer: model and implementation disagree (%s); %s is no longer tied to the code'
                  % ('; '.join(diffs)[:300], theorem),
                  {'case': case_json(L.case), 'layer': 'parser', 'differences': diffs, 'theorem': theorem},
                  no_input=True)


def analyze(Ls, cmds_for):
    """run analysis commands of the model on the implementation's own forest; returns list of reply lists"""
    reqs = []
    idx = []
    for i, L in enumerate(Ls):
        if L.dump is None:
            continue
        cmds = cmds_for(L)
        if not cmds:
            continue
        reqs.append(['analyze', L.dump.named_tree_sx(), L.dump.forest_sx()] + cmds)
        idx.append(i)
    reps = model.run_requests(reqs, chunk=100)
    out = [None] * len(Ls)
    for i, r in zip(idx, reps):
        out[i] = r[1:] if isinstance(r, list) and r and r[0] == 'results' else None
    return out


def P(p):
    return tuple(int(i) for i in p)


def R(r):
    return ('g', str(r[1])) if r[0] == 'g' else ('h', int(r[1]))


# ------------------------------------------------------------------ C01
def group_refs(it):
    if it[0] == 'g':
        return [it[1]]
    if it[0] == 'og':
        return [g for x in it[3] for g in group_refs(x)]
    if it[0] == 'pg':
        return [g for x in it[2] for g in group_refs(x)]
    return []


def pred_c01(L):
    """returns a list of failure descriptions"""
    bad = []
    ham, c = L.ham, L.case
    declared = {}
    for sp, gs in c.species:
        for g in gs:
            declared[g['id']] = sp
    if sorted(ham.extant_gene_map.keys()) != sorted(declared.keys()):
        bad.append('extant genes are not exactly the declared genes')
    for gid, g in ham.extant_gene_map.items():
        if gid in declared and (g.genome is None or g.genome.name != declared[gid]):
            bad.append('gene %s is not in the species that declares it' % gid)
        if g.unique_id != gid:
            bad.append('gene stored under a different id')
    referenced = set()
    fams = []
    for it in c.groups:
        gid = it[1] if it[1] is not None else it[2]
        refs = group_refs(it)
        referenced.update(refs)
        try:
            hog = ham.get_hog_by_id(gid)
        except KeyError:
            bad.append('top-level group %s has no top-level HOG' % gid)
            continue
        members = [g.unique_id for g in hog.get_all_descendant_genes()]
        if sorted(members) != sorted(refs):
            bad.append('members of top-level HOG %s are not the genes referenced in its group' % gid)
        fams.append(set(members))
        for g in hog.get_all_descendant_genes():
            if g.get_top_level_hog() is not hog:
                bad.append('gene %s belongs to another family than the one listing it' % g.unique_id)
    if len(ham.top_level_hogs) != len(c.groups):
        bad.append('number of top-level HOGs differs from the number of top-level groups')
    for i in range(len(fams)):
        for j in range(i + 1, len(fams)):
            if fams[i] & fams[j]:
                bad.append('two families share a gene')
    for gid, g in ham.extant_gene_map.items():
        if gid not in referenced:
            if g.parent is not None or not g.is_singleton():
                bad.append('unreferenced gene %s is not a singleton' % gid)
        elif g.parent is None:
            bad.append('referenced gene %s lost its family' % gid)
    return bad


def check_C01(ctx):
    Ls = loaded_stream(ctx, ctx.scale(400, 6000))
    for L in Ls:
        if L.impl[0] == 'ok':
            ctx.counts['loaded'] += 1
            bad = pred_c01(L)
            if bad:
                ctx.violation(bad[0], {'case': case_json(L.case), 'failures': bad})
                continue
        diffs = compare_parser(L)
        if diffs == ['unmodelled']:
            ctx.counts['outside_model_domain'] += 1
        elif diffs:
            report_parser_layer(ctx, L, diffs, 'props/C01.v: c01_conservation')
        else:
            ctx.counts['parser_layer_agree'] += 1


# ------------------------------------------------------------------ C02
def check_C02(ctx):
    Ls = loaded_stream(ctx, ctx.scale(400, 6000))
    if FORCED is None:
        deep = core.load_cases([regress.deep_nest_case(270)])
        ctx.record_case(deep[0].case)
        Ls = Ls + deep
    wf = analyze(Ls, lambda L: [['wf']])
    for L, w in zip(Ls, wf):
        if L.impl[0] != 'ok':
            if L.model[0] == 'ok':
                report_parser_layer(ctx, L, ['impl rejects, model loads'], 'props/C02.v: c02_wf')
            continue
        ctx.counts['loaded'] += 1
        bad = list(L.dump.anomalies)
        if L.case.consistent and (w is None or str(w[0]) != '1'):
            bad.append('hierarchy is not aligned with the species tree (wfb = false)')
        if bad:
            ctx.violation(bad[0], {'case': case_json(shrunk(ctx, L, wf_fails)), 'failures': bad[:10]})
            continue
        diffs = compare_parser(L)
        if diffs == ['unmodelled']:
            ctx.counts['outside_model_domain'] += 1
        elif diffs:
            report_parser_layer(ctx, L, diffs, 'props/C02.v: c02_wf')
        else:
            ctx.counts['parser_layer_agree'] += 1


# ------------------------------------------------------------------ C03
def check_C03(ctx):
    n = ctx.scale(400, 6000)
    Ls = loaded_stream(ctx, n)
    # fully explicit encodings: loaded hierarchy must equal the simulated history
    ex = [gen.gen_case(ctx.rng, explicit=True, tag='explicit') for _ in range(ctx.scale(150, 2000))]
    Ls2 = core.load_cases(ex)
    # bounded-exhaustive stream: every tree shape, single-family history and spelling within the bound
    ml, md = (3, 2) if ctx.tier == 'quick' else (4, 1)
    en = gen.enum_cases(ml, md)
    ctx.counts['exhaustive_bound_leaves'] = ml
    ctx.counts['exhaustive_bound_dups'] = md
    ctx.counts['exhaustive_cases'] = len(en)
    Ls3 = core.load_cases(en)
    for L in Ls2 + Ls3:
        ctx.record_case(L.case)
    theorem_domain(ctx, [L.case for L in Ls + Ls2 + Ls3])
    for L in Ls + Ls2 + Ls3:
        if L.impl[0] != 'ok':
            if L.case.histories is not None:
                ctx.violation('consistent input rejected: %s' % (L.impl[1],),
                              {'case': case_json(L.case), 'error': L.impl[1:]})
            continue
        ctx.counts['loaded'] += 1
        if L.case.histories is not None:
            ch = sorted(gen.h_canon(h) for _, h in L.case.histories)
            ci = sorted(gen.h_canon(impl.hist_of_forest(h)) for h in L.dump.top_sx)
            ctx.counts['history_oracle'] += 1
            if ch != ci:
                ctx.violation('loaded hierarchy differs from the generating history',
                              {'case': case_json(L.case), 'loaded': repr(ci)[:2000], 'history': repr(ch)[:2000]})
                continue
        diffs = compare_parser(L)
        if diffs == ['unmodelled']:
            ctx.counts['outside_model_domain'] += 1
        elif diffs:
            report_parser_layer(ctx, L, diffs, 'props/C03.v: c03_levels')
        else:
            ctx.counts['parser_layer_agree'] += 1


def has_loft(items):
    for it in items:
        if it[0] == 'g' and it[2] is not None:
            return True
        if it[0] == 'og' and has_loft(it[3]):
            return True
        if it[0] == 'pg' and has_loft(it[2]):
            return True
    return False


def theorem_domain(ctx, cases):
    """how much of the explored domain do the theorems about consistent inputs speak about?  The extracted check
    SpellCheck.consistentb (sound for WholeFacts.consistent, not claimed complete) is run on every generated
    consistent case together with its ordered histories.  Recorded in the evidence; not a verdict on /repo."""
    todo = [c for c in cases if c.consistent and getattr(c, 'ohists', None) and not getattr(c, 'oma', False)]
    if FORCED is not None or not todo:
        return
    reps = model.run_requests([model.consistent_req(c) for c in todo])
    for c, r in zip(todo, reps):
        ctx.counts['theorem_domain_checked'] += 1
        if r[0] == 'ok' and str(r[1]) == '1':
            ctx.counts['theorem_domain_inside'] += 1
        elif has_loft(c.groups):
            ctx.counts['theorem_domain_outside_LOFT_attribute'] += 1
        elif any(g[1] is None and g[2] is None for g in c.groups) or len(set(g[1] if g[1] is not None else g[2] for g in c.groups)) < len(c.groups):
            ctx.counts['theorem_domain_outside_ids'] += 1
        else:
            ctx.counts['theorem_domain_outside_other'] += 1
            if len(ctx.notes) < 5:
                ctx.notes.append('consistentb rejects a generated consistent case without LOFT: %s' % c.xml(one_line=True)[:400])


# ------------------------------------------------------------------ C04
def pred_c04(L):
    bad = []
    d, c = L.dump, L.case
    declared = {}
    for sp, gs in c.species:
        declared.setdefault(sp, []).extend(g['id'] for g in gs)
    gt = d.genome_table()
    # nodes of the forest per taxon
    at = {}
    for h in d.top_sx:
        for x in core.all_hogs_sx(h):
            at.setdefault(P(x[2]), []).append(int(x[1]))
    for p, (kind, name, refs) in gt.items():
        node = d.node_at[p]
        if kind == 'extant':
            if not node.is_leaf():
                bad.append('extant genome on an internal node')
            want = sorted(declared.get(name, []))
            got = sorted(r[1] for r in refs if r[0] == 'g')
            if want != got or any(r[0] != 'g' for r in refs):
                bad.append('extant genome %s does not list exactly its declared genes' % name)
            if p not in d.leaves:
                bad.append('extant genome %s missing from the taxonomy leaves set' % name)
        else:
            if node.is_leaf():
                bad.append('ancestral genome on a leaf')
            if name != node.name:
                bad.append('ancestral genome name %r differs from its node name %r' % (name, node.name))
            want = sorted(at.get(p, []))
            got = sorted(r[1] for r in refs if r[0] == 'h')
            if want != got or any(r[0] != 'h' for r in refs):
                bad.append('ancestral genome %s does not list exactly the HOGs placed at its taxon' % name)
            if p not in d.internals:
                bad.append('ancestral genome %s missing from the taxonomy internal_nodes set' % name)
            if d.ham.get_ancestral_genome_by_taxon(node) is not d.genome_at[p]:
                bad.append('lookup by taxon returns another genome')
    for p in at:
        if p not in gt:
            bad.append('HOGs placed at a taxon without a genome')
    # the number of ancestral genes at a taxon equals the number of family lineages crossing it: a lineage (edge of a
    # family hierarchy from a HOG at q to a child at r) crosses every node strictly between q and r as well
    crossing = Counter()
    for p, os_ in at.items():
        crossing[p] += len(os_)
    for h in d.top_sx:
        for x in core.all_hogs_sx(h):
            q = P(x[2])
            for _, c_ in x[4]:
                r = P(c_[2])
                if is_anc(q, r):
                    for k in range(1, len(r) - len(q)):
                        crossing[tuple(r[k:])] += 1
    for p, n_ in crossing.items():
        have = len([r for r in gt[p][2] if r[0] == 'h']) if p in gt and gt[p][0] != 'extant' else 0
        if have != n_:
            bad.append('%d family lineage(s) cross %s but its ancestral genome lists %d gene(s)'
                       % (n_, d.node_at[p].name if p in d.node_at else list(p), have))
    if set(gt.keys()) != (d.leaves | d.internals):
        bad.append('taxonomy genome sets differ from the nodes carrying a genome')
    gs = list(d.genome_at.values())
    if len(set(id(g) for g in gs)) != len(gs):
        bad.append('one genome object bound to two nodes')
    # every gene/HOG points to the genome that lists it
    for p, g in d.genome_at.items():
        for x in g.genes:
            if x.genome is not g:
                bad.append('member of genome %s points to another genome' % g.name)
    bad.extend(a for a in d.anomalies if 'genome' in a)
    return bad


def check_C04(ctx):
    Ls = loaded_stream(ctx, ctx.scale(400, 6000))
    for L in Ls:
        if L.impl[0] != 'ok':
            continue
        ctx.counts['loaded'] += 1
        bad = pred_c04(L)
        if bad:
            ctx.violation(bad[0], {'case': case_json(L.case), 'failures': bad[:10]})
            continue
        diffs = compare_parser(L)
        if diffs == ['unmodelled']:
            ctx.counts['outside_model_domain'] += 1
        elif diffs:
            report_parser_layer(ctx, L, diffs, 'props/C04.v: c04_registration')
        else:
            ctx.counts['parser_layer_agree'] += 1


# ------------------------------------------------------------------ mapper layer (C05-C08)
def is_anc(a, d):
    """a is a proper ancestor of d (paths nearest-edge-first)"""
    return len(a) < len(d) and tuple(d[len(d) - len(a):]) == tuple(a)


def genomes_of(L):
    """path -> genome object for every genome that exists"""
    return dict(L.dump.genome_at)


def lineage_pairs(ctx, L, limit):
    gs = sorted(genomes_of(L).keys(), key=lambda p: (len(p), p))
    pairs = [(a, d) for a in gs for d in gs if is_anc(a, d)]
    if len(pairs) > limit:
        pairs = ctx.rng.sample(pairs, limit)
    return pairs


def impl_hmap(L, m):
    """canonical content of a HOGsMap / MapVertical"""
    d = L.dump
    return {'gain': sorted(d.ref(x) for x in m.GAIN),
            'retained': sorted((d.ref(k), d.ref(v)) for k, v in m.RETAINED.items()),
            'dup': sorted((d.ref(k), tuple(sorted(d.ref(v) for v in vs))) for k, vs in m.DUPLICATE.items()),
            'loss': sorted(d.ref(x) for x in m.LOSS),
            'ndup': m.number_duplication}


def model_hmap(sx_):
    """('hmap' (gain..) (retained..) (dup..) (loss..) (ndup n)) -> same canonical content"""
    parts = {p[0]: p[1:] for p in sx_[1:]}
    return {'gain': sorted(R(r) for r in parts['gain']),
            'retained': sorted((R(a), R(b)) for a, b in parts['retained']),
            'dup': sorted((R(a), tuple(sorted(R(b) for b in bs))) for a, bs in parts['dup']),
            'loss': sorted(R(r) for r in parts['loss']),
            'ndup': int(parts['ndup'][0])}


def pred_c05(L, A, D, hm):
    bad = []
    d = L.dump
    gA, gD = d.genome_at[A], d.genome_at[D]
    desc = sorted(d.ref(x) for x in gD.genes)
    anc = sorted(d.ref(x) for x in gA.genes)
    placed = hm['gain'] + [v for _, v in hm['retained']] + [v for _, vs in hm['dup'] for v in vs]
    if sorted(placed) != desc:
        bad.append('descendant genome is not partitioned into gained/retained/duplicated')
    keys = hm['loss'] + [k for k, _ in hm['retained']] + [k for k, _ in hm['dup']]
    if sorted(keys) != anc:
        bad.append('ancestral genome is not partitioned into lost/retained/duplicated')
    if len(desc) != len(hm['gain']) + len(hm['retained']) + sum(len(vs) for _, vs in hm['dup']):
        bad.append('descendant size equation fails')
    if len(anc) != len(hm['loss']) + len(hm['retained']) + len(hm['dup']):
        bad.append('ancestor size equation fails')
    return bad


def run_vertical(ctx, Ls, limit):
    """for every case: impl HOGsMaps for sampled lineage pairs + the model's on the impl forest"""
    plan = {}
    for i, L in enumerate(Ls):
        if L.impl[0] == 'ok':
            plan[i] = lineage_pairs(ctx, L, limit)
    reps = analyze(Ls, lambda L: [['wf']] + [['vertical', list(a), list(d)] for a, d in plan[Ls.index(L)]]
                   if L.impl[0] == 'ok' else [])
    return plan, reps


def check_mapper(ctx, theorem, use_pred, n_quick, n_thorough):
    Ls = loaded_stream(ctx, ctx.scale(n_quick, n_thorough))
    idx = {id(L): i for i, L in enumerate(Ls)}
    plan = {}
    for i, L in enumerate(Ls):
        if L.impl[0] == 'ok':
            plan[i] = lineage_pairs(ctx, L, ctx.scale(40, 200))
    reps = analyze(Ls, lambda L: ([['wf']] + [['vertical', list(a), list(d)] for a, d in plan[idx[id(L)]]])
                   if L.impl[0] == 'ok' else [])
    for i, L in enumerate(Ls):
        if L.impl[0] != 'ok' or reps[i] is None:
            continue
        wf = str(reps[i][0]) == '1'
        ctx.counts['wf_true' if wf else 'wf_false'] += 1
        gs = genomes_of(L)
        for (A, D), mrep in zip(plan[i], reps[i][1:]):
            ctx.counts['pairs'] += 1
            # both argument orders
            order = (gs[A], gs[D]) if ctx.rng.random() < 0.5 else (gs[D], gs[A])
            try:
                vm = L.ham.compare_genomes_vertically(*order)
            except Exception as e:  # noqa
                ctx.violation('vertical comparison of a lineage pair raised %s' % type(e).__name__,
                              {'case': case_json(L.case), 'pair': [A, D], 'error': repr(e)[:300]})
                continue
            hm = impl_hmap(L, vm.map)
            bad = []
            if L.dump.path[vm.ancestor.taxon] != A or L.dump.path[vm.descendant.taxon] != D:
                bad.append('ancestor/descendant orientation is wrong')
            if wf and L.case.consistent:
                bad.extend(use_pred(L, A, D, hm, vm))
            if bad:
                ctx.violation(bad[0], {'case': case_json(L.case), 'pair': [A, D], 'failures': bad, 'map': repr(hm)[:1500]})
                continue
            if mrep[0] != 'ok':
                ctx.violation('mapper layer: model rejects a lineage pair; %s no longer tied to the code' % theorem,
                              {'case': case_json(L.case), 'pair': [A, D], 'layer': 'mapper', 'theorem': theorem},
                              no_input=True)
                continue
            mm = model_hmap(mrep[1][2])
            if mm != hm:
                ctx.counts['mapper_layer_disagreements'] += 1
                found = search_pairs(ctx, L, use_pred) if (wf and L.case.consistent) else None
                if found is not None:
                    ctx.violation(found[2][0], {'case': case_json(L.case), 'pair': [found[0], found[1]], 'failures': found[2],
                                                'found_by': 'targeted search over all lineage pairs after a mapper-layer disagreement'})
                    continue
                ctx.violation('mapper layer: model and implementation disagree; %s no longer tied to the code' % theorem,
                              {'case': case_json(L.case), 'pair': [A, D], 'layer': 'mapper', 'theorem': theorem,
                               'impl': repr(hm)[:1500], 'model': repr(mm)[:1500]}, no_input=True)
            else:
                ctx.counts['mapper_layer_agree'] += 1


def search_pairs(ctx, L, use_pred):
    """after a broken correspondence: look for a concrete failing pair among ALL lineage pairs of the case"""
    gs = genomes_of(L)
    ps = sorted(gs.keys(), key=lambda p: (len(p), p))
    for a in ps:
        for d in ps:
            if not is_anc(a, d):
                continue
            ctx.counts['targeted_search_pairs'] += 1
            try:
                vm = L.ham.compare_genomes_vertically(gs[a], gs[d])
                bad = use_pred(L, a, d, impl_hmap(L, vm.map), vm)
            except Exception as e:  # noqa
                bad = ['vertical comparison raised %s' % type(e).__name__]
            if bad:
                return (a, d, bad)
    return None


def check_C05(ctx):
    check_mapper(ctx, 'props/C05.v: c05_partition', lambda L, A, D, hm, vm: pred_c05(L, A, D, hm), 300, 4000)


# ---- C06: independent classification, computed downward on the dumped forest
def classify(L, A, D):
    """for each node at D: ('gain',) or (ancestor ref at A, duplicated?) ; and the set of lost ancestors"""
    d = L.dump
    res = {}
    anc_nodes = []

    def walk(h, above, flags):
        # above: ref of the ancestor at A on the current path (or None); flags: any flag since (strictly below A-node)
        p = P(h[2])
        r = R(['g', h[1]]) if h[0] == 'G' else ('h', int(h[1]))
        if p == D:
            res[r] = ('gain',) if above is None else (above, flags)
        if h[0] == 'H':
            here = above
            fl = flags
            if p == A:
                anc_nodes.append(r)
                here = r
                fl = False
            for f, c in h[4]:
                walk(c, here, (fl or bool(f)) if here is not None else False)
    for h in d.top_sx + d.single_sx:
        walk(h, None, False)
    return res, anc_nodes


def pred_c06(L, A, D, hm, vm):
    bad = []
    res, anc_nodes = classify(L, A, D)
    gain = sorted(r for r, v in res.items() if v == ('gain',))
    ret = sorted((v[0], r) for r, v in res.items() if v != ('gain',) and not v[1])
    dup = {}
    for r, v in res.items():
        if v != ('gain',) and v[1]:
            dup.setdefault(v[0], []).append(r)
    dup = sorted((k, tuple(sorted(vs))) for k, vs in dup.items())
    used = set(v[0] for v in res.values() if v != ('gain',))
    loss = sorted(r for r in anc_nodes if r not in used)
    if gain != hm['gain']:
        bad.append('gained set differs from "no ancestor in the ancestral genome"')
    if ret != hm['retained']:
        bad.append('retained differs from "unique ancestor, no duplication in between"')
    if dup != hm['dup']:
        bad.append('duplicated differs from "ancestor with a duplication in between"')
    if loss != hm['loss']:
        bad.append('lost differs from "no descendant in the descendant genome"')
    want = sum(len(vs) - 1 for _, vs in hm['dup'])
    if hm['ndup'] != want:
        bad.append('number of duplication events is not the sum of (copies - 1)')
    try:
        got = vm.get_number_duplications()
        if got != want:
            bad.append('public accessor returns %r, expected %r' % (got, want))
    except Exception as e:  # noqa
        bad.append('public accessor get_number_duplications() raises %s' % type(e).__name__)
    return bad


def check_C06(ctx):
    check_mapper(ctx, 'props/C06.v: c06_meaning', pred_c06, 300, 4000)


# ---- C07
def lineage_triples(ctx, L, limit):
    gs = sorted(genomes_of(L).keys(), key=lambda p: (len(p), p))
    tr = [(a, b, c) for a in gs for b in gs for c in gs if is_anc(a, b) and is_anc(b, c)]
    if len(tr) > limit:
        tr = ctx.rng.sample(tr, limit)
    return tr


def impl_upmap(L, ga, gd):
    vm = L.ham.compare_genomes_vertically(ga, gd)
    d = L.dump
    return {d.ref(hy): (None if ho is None else d.ref(ho), bool(par)) for hy, (ho, par) in vm.map.upMap.items()}


def check_C07(ctx):
    Ls = loaded_stream(ctx, ctx.scale(300, 4000))
    Ls = Ls + filtered_views(ctx, Ls, 0.1)
    idx = {id(L): i for i, L in enumerate(Ls)}
    plan = {}
    for i, L in enumerate(Ls):
        if L.impl[0] == 'ok':
            plan[i] = lineage_triples(ctx, L, ctx.scale(25, 150))
    def cmds(L):
        if L.impl[0] != 'ok':
            return []
        out = [['wf']]
        for a, b, c in plan[idx[id(L)]]:
            out += [['upmap', list(a), list(c)], ['upmap', list(b), list(c)], ['upmap', list(a), list(b)]]
        return out
    reps = analyze(Ls, cmds)
    for i, L in enumerate(Ls):
        if L.impl[0] != 'ok' or reps[i] is None:
            continue
        wf = str(reps[i][0]) == '1'
        gs = genomes_of(L)
        for k, (a, b, c) in enumerate(plan[i]):
            ctx.counts['triples'] += 1
            try:
                uac, ubc, uab = impl_upmap(L, gs[a], gs[c]), impl_upmap(L, gs[b], gs[c]), impl_upmap(L, gs[a], gs[b])
            except Exception as e:  # noqa
                ctx.violation('comparison raised %s' % type(e).__name__, {'case': cj(L), 'triple': [a, b, c]})
                continue
            bad = []
            if wf and L.case.consistent:
                for hy, (x, fl) in uac.items():
                    y, f1 = ubc.get(hy, (None, False))
                    if y is None:
                        if x is not None:
                            bad.append('%s has an ancestor in A but none in B' % (hy,))
                        continue
                    x2, f2 = uab.get(y, (None, False))
                    if x != x2:
                        bad.append('%s: ancestor over the long branch differs from the chained one' % (hy,))
                    elif x is not None and fl != (f1 or f2):
                        bad.append('%s: duplication flag over the long branch differs from the chained one' % (hy,))
            if wf and L.case.consistent and not bad:
                # "consequently gains, losses and duplicated sets over the long branch are determined by chaining":
                # the event sets the comparison A-C reports against the ones chained from the up-maps of B-C and A-B
                try:
                    hm = impl_hmap(L, L.ham.compare_genomes_vertically(gs[a], gs[c]).map)
                    chained = {}
                    for hy in uac:
                        y, f1 = ubc.get(hy, (None, False))
                        x2, f2 = uab.get(y, (None, False)) if y is not None else (None, False)
                        chained[hy] = (x2, bool(f1 or f2)) if x2 is not None else (None, False)
                    want_gain = sorted(hy for hy, (x, _) in chained.items() if x is None)
                    want_ret = sorted((x, hy) for hy, (x, fl) in chained.items() if x is not None and not fl)
                    want_dup = {}
                    for hy, (x, fl) in chained.items():
                        if x is not None and fl:
                            want_dup.setdefault(x, []).append(hy)
                    want_dup = sorted((x, tuple(sorted(v))) for x, v in want_dup.items())
                    reached = set(x for x, _ in chained.values() if x is not None)
                    want_loss = sorted(L.dump.ref(x) for x in gs[a].genes if L.dump.ref(x) not in reached)
                    if hm['gain'] != want_gain:
                        bad.append('gained set over the long branch is not the one chained from its sub-branches')
                    if hm['retained'] != want_ret:
                        bad.append('retained pairs over the long branch are not the ones chained from its sub-branches')
                    if hm['dup'] != want_dup:
                        bad.append('duplicated sets over the long branch are not the ones chained from its sub-branches')
                    if hm['loss'] != want_loss:
                        bad.append('lost set over the long branch is not the one chained from its sub-branches')
                except Exception as e:  # noqa
                    bad.append('comparison raised %s' % type(e).__name__)
            if bad:
                ctx.violation(bad[0], {'case': cj(L), 'triple': [a, b, c], 'failures': bad[:10]})
                continue
            ok = True
            for u, rep in zip((uac, ubc, uab), reps[i][1 + 3 * k: 4 + 3 * k]):
                mu = {R(e[0]): ((R(e[1][0]) if e[1] else None), str(e[2]) == '1') for e in rep}
                if mu != u:
                    ok = False
            if not ok:
                ctx.violation('mapper layer (up-map): model and implementation disagree; props/C07.v: c07_compose no longer tied to the code',
                              {'case': cj(L), 'triple': [a, b, c], 'layer': 'mapper'}, no_input=True)
            else:
                ctx.counts['mapper_layer_agree'] += 1


# ---- C08
def check_C08(ctx):
    Ls = loaded_stream(ctx, ctx.scale(250, 3000))
    Ls = Ls + filtered_views(ctx, Ls, 0.1)
    idx = {id(L): i for i, L in enumerate(Ls)}
    plan = {}
    for i, L in enumerate(Ls):
        if L.impl[0] == 'ok':
            gs = sorted(genomes_of(L).keys(), key=lambda p: (len(p), p))
            pairs = [(a, b) for x, a in enumerate(gs) for b in gs[x + 1:]]
            lim = ctx.scale(30, 150)
            if len(pairs) > lim:
                pairs = ctx.rng.sample(pairs, lim)
            plan[i] = pairs
    reps = analyze(Ls, lambda L: ([['wf']] + [['lateral', list(a), list(b)] for a, b in plan[idx[id(L)]]])
                   if L.impl[0] == 'ok' else [])
    for i, L in enumerate(Ls):
        if L.impl[0] != 'ok' or reps[i] is None:
            continue
        d = L.dump
        for (p1, p2), rep in zip(plan[i], reps[i][1:]):
            ctx.counts['pairs'] += 1
            gs = genomes_of(L)
            g1, g2 = gs[p1], gs[p2]
            bad = []
            lineage = is_anc(p1, p2) or is_anc(p2, p1)
            # vertical: order independence / TypeError off-lineage
            outs = []
            for a, b in ((g1, g2), (g2, g1)):
                try:
                    vm = L.ham.compare_genomes_vertically(a, b)
                    outs.append(('ok', impl_hmap(L, vm.map), d.path[vm.ancestor.taxon]))
                except TypeError:
                    outs.append(('TypeError',))
                except Exception as e:  # noqa
                    outs.append((type(e).__name__,))
            if lineage:
                if outs[0][0] != 'ok' or outs[0] != outs[1]:
                    bad.append('vertical comparison depends on argument order or fails on a lineage pair: %s' % ([o[0] for o in outs],))
            elif outs[0][0] != 'TypeError' or outs[1][0] != 'TypeError':
                bad.append('vertical comparison of genomes not on one lineage does not raise TypeError: %s' % ([o[0] for o in outs],))
            # lateral, both orders
            lats = []
            for a, b in ((g1, g2), (g2, g1)):
                try:
                    lm = L.ham.compare_genomes_lateral(a, b)
                    anc = d.path[lm.ancestor.taxon]
                    lat = {'anc': anc,
                           'loss': sorted((d.ref(k), tuple(sorted(d.path[g.taxon] for g in v))) for k, v in lm.get_lost().items()),
                           'gain': sorted((d.path[g.taxon], tuple(sorted(d.ref(x) for x in v))) for g, v in lm.get_gained().items()),
                           'retained': sorted((d.ref(k), tuple(sorted((d.path[g.taxon], d.ref(x)) for g, x in v.items())))
                                              for k, v in lm.get_retained().items()),
                           'dup': sorted((d.ref(k), tuple(sorted((d.path[g.taxon], tuple(sorted(d.ref(x) for x in xs)))
                                                                 for g, xs in v.items())))
                                         for k, v in lm.get_duplicated().items()),
                           'desc': sorted(d.path[g.taxon] for g in lm.descendants)}
                    lats.append(lat)
                except Exception as e:  # noqa
                    bad.append('lateral comparison raised %s' % type(e).__name__)
            if len(lats) == 2 and lats[0] != lats[1]:
                bad.append('lateral comparison depends on argument order')
            if lats and not bad:
                lat = lats[0]
                mr = core.gen.mrca_paths([p1, p2])
                if lat['anc'] != mr:
                    bad.append('lateral reference genome is not the most recent common ancestor')
                if lat['desc'] != sorted(p for p in (p1, p2) if p != mr):
                    bad.append('lateral compares other genomes than the pair minus the reference')
                gs2 = genomes_of(impl_refresh(L))
                for g in lat['desc']:
                    try:
                        vm = L.ham.compare_genomes_vertically(gs2[mr], gs2[g])
                    except Exception as e:  # noqa
                        bad.append('lateral compares a genome (%s) that cannot be compared vertically with the reference: %s'
                                   % (list(g), type(e).__name__))
                        continue
                    hm = impl_hmap(L, vm.map)
                    if sorted(k for k, v in lat['loss'] if g in v) != hm['loss']:
                        bad.append('lateral lost set of a genome differs from its vertical comparison')
                    if [list(v) for gg, v in lat['gain'] if gg == g] != [hm['gain']]:
                        bad.append('lateral gained set of a genome differs from its vertical comparison')
                    if sorted((k, x) for k, v in lat['retained'] for gg, x in v if gg == g) != hm['retained']:
                        bad.append('lateral retained set of a genome differs from its vertical comparison')
                    if sorted((k, xs) for k, v in lat['dup'] for gg, xs in v if gg == g) != hm['dup']:
                        bad.append('lateral duplicated set of a genome differs from its vertical comparison')
            if bad:
                ctx.violation(bad[0], {'case': cj(L), 'pair': [p1, p2], 'failures': bad[:10]})
                continue
            # correspondence with the model's lateral
            m_anc = P(rep[0])
            m_maps = sorted((P(g), model_hmap(hm)) for g, hm in rep[1])
            i_maps = []
            gs2 = genomes_of(impl_refresh(L))
            try:
                for g in lats[0]['desc']:
                    i_maps.append((g, impl_hmap(L, L.ham.compare_genomes_vertically(gs2[m_anc], gs2[g]).map)))
            except Exception as e:  # noqa
                i_maps = [('error', type(e).__name__)]
            if m_anc != lats[0]['anc'] or m_maps != sorted(i_maps):
                ctx.violation('mapper layer (lateral): model and implementation disagree; props/C08.v: c08_lateral no longer tied to the code',
                              {'case': cj(L), 'pair': [p1, p2], 'layer': 'mapper'}, no_input=True)
            else:
                ctx.counts['mapper_layer_agree'] += 1


def impl_refresh(L):
    """genomes may have been created on demand: re-read the node -> genome table"""
    L.dump._genomes()
    return L


# ------------------------------------------------------------------ profile layer (C09, C10)
FEATS = ('retained', 'dupl', 'gain', 'lost', 'duplication', 'nbr_events')


def treemap_table(tm):
    """path -> (nbr_genes, {feature: value})"""
    out = {}
    for n in tm.traverse():
        out[impl.node_path(n)] = (n.nbr_genes, {f: getattr(n, f, None) for f in FEATS}, n.name)
    return out


def html_numbers(text):
    m = re.search(r"treeData = '(.*)';", text)
    data = json.loads(m.group(1))
    out = {}

    def go(nd, path):
        ev = nd['evolutionaryEvents']
        out[path] = (nd['numberGenes'], None if ev is False else
                     {'retained': ev['retained'], 'dupl': ev['duplicated'], 'gain': ev['gained'], 'lost': ev['lost'],
                      'duplication': ev['duplication'], 'nbr_events': nd['numberEvents']}, nd['name'])
        for k, c in enumerate(nd.get('children', [])):
            go(c, (k,) + path)
    go(data, ())
    return out


def check_C09(ctx):
    Ls = loaded_stream(ctx, ctx.scale(300, 4000))
    Ls = Ls + filtered_views(ctx, Ls)
    reps = analyze(Ls, lambda L: [['wf'], ['profile_full']] if L.impl[0] == 'ok' else [])
    work = os.path.join(core.VERIF, '.work')
    os.makedirs(work, exist_ok=True)
    for L, rep in zip(Ls, reps):
        if L.impl[0] != 'ok' or rep is None:
            continue
        ctx.counts['loaded'] += 1
        root_has_genome = () in L.dump.genome_at
        ctx.dist['root_without_family' if not root_has_genome else 'root_with_family'] += 1
        try:
            tp = L.ham.create_tree_profile()
        except Exception as e:  # noqa
            ctx.violation('whole-dataset tree profile cannot be built: %s' % type(e).__name__,
                          {'case': cj(L), 'error': repr(e)[:300]},
                          finding_key='F4-root-without-genome' if not root_has_genome else None)
            continue
        tab = treemap_table(tp.treemap)
        bad = []
        wf = str(rep[0]) == '1'
        byp = {n.path: n for n in L.case.named_tree().nodes()}
        if set(tab.keys()) != set(byp.keys()):
            bad.append('profile tree has other nodes than the species tree')
        for p, (nbr, f, name) in tab.items():
            if p == ():
                if any(f[k] is not None for k in FEATS):
                    bad.append('root carries branch features')
                continue
            if any(f[k] is None for k in FEATS):
                bad.append('non-root node lacks a feature')
                continue
            up = tab.get(p[1:])
            if wf and L.case.consistent and up is not None:
                if nbr != up[0] + f['gain'] + f['duplication'] - f['lost']:
                    bad.append('genes(child) != genes(parent) + gained + duplications - lost at %s' % name)
                if nbr != f['retained'] + f['dupl'] + f['gain']:
                    bad.append('genes(child) != retained + duplicated + gained at %s' % name)
            if f['nbr_events'] != f['duplication'] + f['lost'] + f['gain']:
                bad.append('nbr_events is not duplication + lost + gain at %s' % name)
        # the numbers are those of the vertical comparison with the parent
        L.dump._genomes()
        gs = L.dump.genome_at
        for p, (nbr, f, name) in tab.items():
            if p == () or p not in gs or p[1:] not in gs:
                continue
            if nbr != len(gs[p].genes):
                bad.append('nbr_genes is not the size of the genome at %s' % name)
            try:
                hm = impl_hmap(L, L.ham.compare_genomes_vertically(gs[p[1:]], gs[p]).map)
                want = {'retained': len(hm['retained']), 'dupl': sum(len(v) for _, v in hm['dup']), 'gain': len(hm['gain']),
                        'lost': len(hm['loss']), 'duplication': hm['ndup']}
                for k, v in want.items():
                    if f[k] != v:
                        bad.append('%s at %s is not the count of the vertical comparison with the parent' % (k, name))
            except Exception as e:  # noqa
                bad.append('vertical comparison with the parent raised %s' % type(e).__name__)
        # HTML export embeds exactly these numbers
        fn = os.path.join(work, 'tp_%d.html' % os.getpid())
        try:
            tp.export_as_html(fn)
            with open(fn) as fh:
                hn = html_numbers(fh.read())
            os.remove(fn)
            for p, (nbr, f, name) in tab.items():
                h = hn.get(p)
                if h is None or h[0] != nbr or h[2] != name or (p != () and any(h[1][k] != f[k] for k in FEATS)) \
                        or (p == () and h[1] is not None):
                    bad.append('HTML export does not embed the profile numbers at %s' % name)
        except Exception as e:  # noqa
            bad.append('HTML export failed: %s' % type(e).__name__)
        if bad:
            ctx.violation(bad[0], {'case': cj(L), 'failures': bad[:10]})
            continue
        # correspondence
        if rep[1][0] != 'ok':
            ctx.violation('profile layer: model rejects; props/C09.v no longer tied to the code',
                          {'case': cj(L), 'layer': 'profile', 'model': repr(rep[1])[:300]}, no_input=True)
            continue
        mt = {}
        for p, nbr, f in rep[1][1]:
            mt[P(p)] = (int(nbr), None if not f else dict(zip(('retained', 'dupl', 'gain', 'lost', 'duplication', 'nbr_events'),
                                                               (int(x) for x in f[0]))))
        it = {p: (nbr, None if p == () else f) for p, (nbr, f, _) in tab.items()}
        if mt != it:
            ctx.violation('profile layer: model and implementation disagree; props/C09.v: c09_balance no longer tied to the code',
                          {'case': cj(L), 'layer': 'profile', 'impl': repr(sorted(it.items()))[:1500],
                           'model': repr(sorted(mt.items()))[:1500]}, no_input=True)
        else:
            ctx.counts['profile_layer_agree'] += 1


HFEATS = ('retained', 'dupl', 'lost', 'duplication', 'nbr_events')


def check_C10(ctx):
    work10 = tempfile.mkdtemp(prefix='c10_', dir=os.path.join(core.VERIF, '.work') if os.path.isdir(os.path.join(core.VERIF, '.work')) else None)
    try:
        return check_C10_body(ctx, work10)
    finally:
        import shutil
        shutil.rmtree(work10, ignore_errors=True)


def check_C10_body(ctx, work10):
    Ls = loaded_stream(ctx, ctx.scale(250, 3000))
    Ls = Ls + filtered_views(ctx, Ls, 0.1) + phyloxml_views(ctx, Ls, work10, 0.1)
    def cmds(L):
        if L.impl[0] != 'ok':
            return []
        return [['wf'], ['profile_full']] + [['profile_hog', L.dump.oid_of(h)] for _, h in L.dump.tops]
    reps = analyze(Ls, cmds)
    for L, rep in zip(Ls, reps):
        if L.impl[0] != 'ok' or rep is None:
            continue
        d = L.dump
        wf = str(rep[0]) == '1'
        bad = []
        fam_tabs = []
        for (hid, h), mrep in zip(d.tops, rep[2:]):
            ctx.counts['families'] += 1
            try:
                tp = L.ham.create_tree_profile(hog=h)
            except Exception as e:  # noqa
                bad.append('per-family profile of %s cannot be built: %s' % (hid, type(e).__name__))
                continue
            root = d.path[h.genome.taxon]
            tab = {}
            for n in tp.treemap.traverse():
                p = impl.node_path(n) + root
                tab[p] = (n.nbr_genes, {f: getattr(n, f, None) for f in HFEATS})
            fam_tabs.append((root, tab))
            # meaning, computed independently on the dumped family
            if wf and L.case.consistent:
                nodes = {}
                def collect(x, parent, fl):
                    nodes.setdefault(P(x[2]), []).append((x, parent, fl))
                    if x[0] == 'H':
                        for f, c in x[4]:
                            collect(c, x, bool(f))
                collect(d.top_sx[d.tops.index((hid, h))], None, False)
                for p, (nbr, f) in tab.items():
                    here = nodes.get(p, [])
                    if nbr != len(here):
                        bad.append('family %s: nbr_genes at a node is not the number of family members living there' % hid)
                    if p == root:
                        continue
                    dupl = sum(1 for _, _, fl in here if fl)
                    if f['dupl'] != dupl or f['retained'] != len(here) - dupl:
                        bad.append('family %s: duplicated/retained split is wrong' % hid)
                    ups = nodes.get(p[1:], [])
                    lost = sum(1 for x, _, _ in ups if not any(P(c[2]) == p for _, c in x[4]))
                    if f['lost'] != lost:
                        bad.append('family %s: lost is not "parent-level members without descendant here"' % hid)
            # correspondence
            if not mrep or mrep == 'nohog':
                ctx.violation('profile layer: model cannot profile a family', {'case': cj(L), 'layer': 'profile'}, no_input=True)
                continue
            mt = {P(p): (int(nbr), None if not f else dict(zip(HFEATS, (int(x) for x in f[0])))) for p, nbr, f in mrep[0]}
            it = {p: (nbr, None if p == root else f) for p, (nbr, f) in tab.items()}
            if mt != it:
                ctx.violation('profile layer (family): model and implementation disagree; props/C10.v no longer tied to the code',
                              {'case': cj(L), 'layer': 'profile', 'family': hid,
                               'impl': repr(sorted(it.items()))[:1200], 'model': repr(sorted(mt.items()))[:1200]}, no_input=True)
            else:
                ctx.counts['profile_layer_agree'] += 1
        # additivity against the whole-dataset profile
        if not bad and wf and L.case.consistent:
            try:
                full = treemap_table(L.ham.create_tree_profile().treemap)
            except Exception as e:  # noqa
                full = None
                if () in d.genome_at:
                    bad.append('whole-dataset profile failed: %s' % type(e).__name__)
            if full is not None:
                singles = Counter(P(x[2]) for x in d.single_sx)
                roots = Counter(r for r, _ in fam_tabs)
                for p, (nbr, f, name) in full.items():
                    if p == ():
                        continue
                    for k in ('retained', 'dupl', 'lost', 'duplication'):
                        tot = sum((tab[p][1][k] or 0) for r, tab in fam_tabs if p in tab and p != r)
                        if f[k] != tot:
                            bad.append('%s at %s: whole-dataset %s != sum over families %s' % (k, name, f[k], tot))
                    if f['gain'] != singles[p] + roots[p]:
                        bad.append('gain at %s is not singletons + family roots' % name)
                    if nbr != sum(tab[p][0] for r, tab in fam_tabs if p in tab) + singles[p]:
                        bad.append('nbr_genes at %s is not the sum over families + singletons' % name)
        if bad:
            ctx.violation(bad[0], {'case': cj(L), 'failures': bad[:10]})


# ------------------------------------------------------------------ navigation layer (C16)
def forest_index(d):
    """oid/gene -> (sx node, family root sx, object)"""
    idx = {}
    def go(x, root):
        r = ('g', str(x[1])) if x[0] == 'G' else ('h', int(x[1]))
        idx[r] = (x, root)
        if x[0] == 'H':
            for _, c in x[4]:
                go(c, root)
    for h in d.top_sx + d.single_sx:
        go(h, h)
    return idx


def sx_genes(x):
    if x[0] == 'G':
        return [str(x[1])]
    return [g for _, c in x[4] for g in sx_genes(c)]


def sx_nodes(x):
    out = [x]
    if x[0] == 'H':
        for _, c in x[4]:
            out.extend(sx_nodes(c))
    return out


def check_C16(ctx):
    Ls = loaded_stream(ctx, ctx.scale(250, 3000))
    Ls = Ls + filtered_views(ctx, Ls, 0.1)
    plan = {}
    def cmds(L):
        if L.impl[0] != 'ok':
            return []
        d = L.dump
        hogs = sorted(d.obj.keys())
        if len(hogs) > 12:
            hogs = ctx.rng.sample(hogs, 12)
        idx = forest_index(d)
        members = sorted(idx.keys())
        gs = sorted(d.genome_at.keys())
        qs = [(ctx.rng.choice(members), ctx.rng.choice(gs)) for _ in range(ctx.scale(12, 40))] if members and gs else []
        # bias: queries inside the member's own family lineage
        for _ in range(ctx.scale(8, 30)):
            if members:
                m = ctx.rng.choice(members)
                fam = [P(x[2]) for x in sx_nodes(idx[m][1])]
                qs.append((m, ctx.rng.choice(fam)))
        ags = [p for p in gs if p in d.internals]
        plan[id(L)] = (hogs, qs, ags)
        return ([['wf']] + [['nav', o] for o in hogs]
                + [['top_of', ['g', Q(m[1])] if m[0] == 'g' else ['h', m[1]]] for m, _ in qs]
                + [['at_level', ['g', Q(m[1])] if m[0] == 'g' else ['h', m[1]], list(g)] for m, g in qs]
                + [['clustering', list(p)] for p in ags])
    reps = analyze(Ls, cmds)
    for L, rep in zip(Ls, reps):
        if L.impl[0] != 'ok' or rep is None:
            continue
        d = L.dump
        hogs, qs, ags = plan[id(L)]
        idx = forest_index(d)
        wf = str(rep[0]) == '1'
        bad = []
        agree = True
        k = 1
        for o in hogs:
            h = d.obj[o]
            x = idx[('h', o)][0]
            genes = [g.unique_id for g in h.get_all_descendant_genes()]
            bysp = {d.path[sp.taxon]: [g.unique_id for g in gl] for sp, gl in h.get_all_descendant_genes_clustered_by_species().items()}
            hl = [d.ref(y) for y in h.get_all_descendant_hogs()]
            lv = [d.path[g.taxon] for g in h.get_all_descendant_hog_levels()]
            ctx.counts['hogs'] += 1
            if sorted(genes) != sorted(sx_genes(x)) or len(set(genes)) != len(genes):
                bad.append('descendant genes of a HOG are not its subtree genes, each once')
            if sorted(g for gl in bysp.values() for g in gl) != sorted(genes):
                bad.append('per-species clustering does not cover the descendant genes exactly')
            for p, gl in bysp.items():
                if any(d.path[L.ham.extant_gene_map[g].genome.taxon] != p for g in gl):
                    bad.append('per-species clustering lists a gene under another species')
            want_h = [(('h', int(y[1]))) for y in sx_nodes(x) if y[0] == 'H']
            if sorted(hl) != sorted(want_h) or len(set(hl)) != len(hl):
                bad.append('descendant HOG list is not the subtree HOGs, each once')
            if lv != [d.path[d.obj[r[1]].genome.taxon] for r in hl]:
                bad.append('level list does not match the descendant HOG list')
            m = rep[k]
            k += 1
            mm = (sorted(R(r)[1] for r in m[0]), sorted((P(p), tuple(sorted(str(g) for g in gl))) for p, gl in m[1]),
                  sorted(R(r) for r in m[2]), sorted(P(p) for p in m[3]))
            ii = (sorted(genes), sorted((p, tuple(sorted(gl))) for p, gl in bysp.items()), sorted(hl), sorted(lv))
            if mm != ii:
                agree = False
        objs = {}
        for r in idx:
            objs[r] = L.ham.extant_gene_map[r[1]] if r[0] == 'g' else d.obj[r[1]]
        tops = []
        for m, g in qs:
            root = idx[m][1]
            rr = ('g', str(root[1])) if root[0] == 'G' else ('h', int(root[1]))
            t = objs[m].get_top_level_hog()
            tops.append(d.ref(t))
            if d.ref(t) != rr:
                bad.append('a member reports another top-level HOG than its family root')
            mt = rep[k]
            k += 1
            if not mt or R(mt[0]) != d.ref(t):
                agree = False
        for m, g in qs:
            ctx.counts['at_level_queries'] += 1
            root = idx[m][1]
            want = sorted((('g', str(y[1])) if y[0] == 'G' else ('h', int(y[1]))) for y in sx_nodes(root) if P(y[2]) == g)
            try:
                got = ('ok', sorted(d.ref(y) for y in objs[m].get_at_level(d.genome_at[g])))
            except KeyError:
                got = ('KeyError',)
            except Exception as e:  # noqa
                got = (type(e).__name__,)
            if root[0] == 'G':
                exp = None          # a singleton gene: outside the statement (no family)
            elif not want or m in want:
                exp = ('KeyError',)
            else:
                exp = ('ok', want)
            if exp is not None and wf and got != exp:
                bad.append('get_at_level(%s, %s) returns %s, expected %s' % (m, g, got, exp))
            mr = rep[k]
            k += 1
            mg = ('ok', sorted(R(r) for r in mr[1])) if mr[0] == 'ok' else (str(mr[1]),)
            if mg != got:
                agree = False
        seen = {}
        for p in ags:
            ac = d.genome_at[p].get_ancestral_clustering()
            cl = sorted((d.ref(hh), tuple(sorted(g.unique_id for g in gl))) for hh, gl in ac.items())
            for hh, gl in ac.items():
                if sorted(g.unique_id for g in gl) != sorted(g.unique_id for g in hh.get_all_descendant_genes()):
                    bad.append('ancestral clustering differs from the HOG\'s descendant genes')
            allg = [g for _, gl in cl for g in gl]
            if wf and len(set(allg)) != len(allg):
                bad.append('ancestral clustering of one genome is not pairwise disjoint')
            if sorted(r for r, _ in cl) != sorted(d.ref(x) for x in d.genome_at[p].genes):
                bad.append('ancestral clustering does not have one entry per HOG of the genome')
            mc = sorted((R(r), tuple(sorted(str(g) for g in gl))) for r, gl in rep[k])
            k += 1
            if mc != cl:
                agree = False
        if bad:
            ctx.violation(bad[0], {'case': cj(L), 'failures': bad[:10]})
        elif not agree:
            ctx.violation('navigation layer: model and implementation disagree; props/C16.v no longer tied to the code',
                          {'case': cj(L), 'layer': 'navigation'}, no_input=True)
        else:
            ctx.counts['navigation_layer_agree'] += 1


# ------------------------------------------------------------------ taxonomy (C18)
def impl_taxonomy(nw, use_internal):
    try:
        tx = pyham.taxonomy.Taxonomy(nw, use_internal_name=use_internal)
    except Exception as e:  # noqa
        return ('err', type(e).__name__)
    return ('ok', tx)


def ete_tree_sx(t):
    return [t.name] + [ete_tree_sx(c) for c in t.children]


def sx_tree_plain(x):
    return [str(x[0])] + [sx_tree_plain(c) for c in x[1:]]


def check_C18(ctx):
    import ete3
    n = ctx.scale(400, 5000)
    trees = []
    for i in range(n):
        r = ctx.rng.random()
        nl = ctx.rng.randint(1, 4) if r < 0.2 else ctx.rng.randint(2, ctx.scale(12, 40))
        t = gen.gen_tree(ctx.rng, nl, max_arity=ctx.rng.choice([2, 3, 4, 5]), unary=ctx.rng.random() < 0.25,
                         fancy_names=ctx.rng.random() < 0.5,
                         shape=ctx.rng.choice([None, None, None, 'caterpillar', 'balanced', 'star']))
        mode = ctx.rng.choice(['names', 'names', 'nonames', 'lengths', 'supports', 'dupleaf', 'dupinternal'])
        ui = ctx.rng.random() < 0.5
        if mode == 'dupleaf' and len(t.leaves()) >= 2:
            ls = t.leaves()
            ls[ctx.rng.randrange(1, len(ls))].name = ls[0].name
        if mode == 'dupinternal':
            ints = [x for x in t.nodes() if x.kids]
            if len(ints) >= 2:
                ints[-1].name = ints[0].name
        trees.append((t, mode, ui))
    reqs = []
    for t, mode, ui in trees:
        if mode == 'nonames':
            mt = gen.T('', [])  # placeholder, replaced below
            def strip(x):
                return gen.T(x.name if not x.kids else '', [strip(c) for c in x.kids])
            mt = strip(t)
        elif mode == 'supports':
            mt = None
        else:
            mt = t
        reqs.append((t, mode, ui, mt))
    # supports: the Newick reader takes the numbers for names; build the model tree from the text as ete3 names it
    out_reqs = []
    texts = []
    for t, mode, ui, mt in reqs:
        lengths = ctx.rng if mode in ('lengths', 'supports') else None
        if mode == 'supports':
            nw = gen.newick(t, internal=False, lengths=None, supports=True)
            def sup(x, root=True):
                return gen.T(x.name if not x.kids else ('' if root else '90'), [sup(c, False) for c in x.kids])
            mt = sup(t)
        elif mode == 'nonames':
            nw = gen.newick(t, internal=False)
        else:
            nw = gen.newick(t, internal=True, lengths=lengths)
        texts.append(nw)
        out_reqs.append(['taxonomy', ui, mt.set_paths().sx()])
    reps = model.run_requests(out_reqs)
    for (t, mode, ui, _), nw, rep in zip(reqs, texts, reps):
        ctx.counts['trees'] += 1
        ctx.counts['cases'] += 1
        ctx.dist['mode=' + mode] += 1
        ctx.dist['leaves=%d' % min(len(t.leaves()), 12)] += 1
        ctx.distinct.add(nw + str(ui))
        if len(ctx.samples) < 3:
            ctx.samples.append({'newick': nw, 'use_internal_name': ui, 'mode': mode})
        r = impl_taxonomy(nw, ui)
        payload = {'newick': nw, 'use_internal': ui, 'mode': mode}
        leafnames = [l.name for l in t.leaves()]
        dup_leaves = len(set(leafnames)) != len(leafnames)
        if dup_leaves:
            if r != ('err', 'KeyError'):
                ctx.violation('tree with duplicate leaf names is not rejected with KeyError', payload)
            elif rep[0] != 'err':
                ctx.violation('taxonomy layer: model accepts duplicate leaves', payload, no_input=True)
            continue
        if r[0] == 'err':
            if rep[0] == 'err' and r[1] == str(rep[1]):
                ctx.counts['both_reject'] += 1
            else:
                ctx.violation('taxonomy layer: implementation rejects (%s), model %s; props/C18.v no longer tied to the code'
                              % (r[1], rep[0]), payload, no_input=True)
            continue
        if rep[0] != 'ok':
            ctx.violation('taxonomy layer: model rejects (%s) a tree the implementation accepts' % (rep[1],), payload, no_input=True)
            continue
        tx = r[1]
        bad = []
        # names
        want_names = {}
        for nd in t.nodes():
            if not nd.kids:
                want_names[nd.path] = nd.name
            elif ui and mode in ('names', 'lengths', 'dupinternal', 'dupleaf'):
                want_names[nd.path] = nd.name
            elif not ui:
                want_names[nd.path] = '/'.join(l.name for l in nd.leaves())
        paths = {nd: impl.node_path(nd) for nd in tx.tree.traverse()}
        for nd, p in paths.items():
            if p in want_names and nd.name != want_names[p]:
                bad.append('node name %r, expected %r' % (nd.name, want_names[p]))
            if nd.depth != len(p):
                bad.append('depth of %r is %r, its distance from the root is %d' % (nd.name, nd.depth, len(p)))
        # path query
        byp = {p: nd for nd, p in paths.items()}
        for nd, p in paths.items():
            for k in range(1, len(p) + 1):
                anc = byp[p[k:]]
                got = [paths[x] for x in tx.get_path_up(nd, anc)]
                want = [p[j:] for j in range(1, k)]
                if got != want:
                    bad.append('get_path_up(%r, %r) is not the nodes strictly between, youngest first' % (nd.name, anc.name))
        # stored newick re-parses to the same named topology (names are non-empty in the property's domain)
        try:
            if any(nd.name == '' for nd in paths):
                raise StopIteration
            back = ete3.Tree(tx.tree_str, format=1, quoted_node_names=True)
            if ete_tree_sx(back) != ete_tree_sx(tx.tree):
                bad.append('tree_str does not re-parse to the same named topology')
        except StopIteration:
            ctx.counts['empty_names_outside_domain'] += 1
        except Exception as e:  # noqa
            bad.append('tree_str does not re-parse: %s' % type(e).__name__)
        if bad:
            ctx.violation(bad[0], dict(payload, failures=bad[:10]))
            continue
        # correspondence: names, depths, text
        mtree = sx_tree_plain(rep[1])
        mtext = str(rep[2])
        mdepth = sorted((P(p), int(dd)) for p, dd in rep[3])
        idepth = sorted((p, nd.depth) for nd, p in paths.items())
        if mtree != ete_tree_sx(tx.tree) or mtext != tx.tree_str or mdepth != idepth:
            ctx.violation('taxonomy layer: model and implementation disagree (names/depth/newick text); props/C18.v no longer tied to the code',
                          dict(payload, model_text=mtext, impl_text=tx.tree_str), no_input=True)
        else:
            ctx.counts['taxonomy_layer_agree'] += 1


# ------------------------------------------------------------------ lookups (C15)
def expect_keyerror(f, *a):
    try:
        f(*a)
    except KeyError:
        return True
    except Exception:  # noqa
        return False
    return False


def check_C15(ctx):
    work15 = tempfile.mkdtemp(prefix='c15_', dir=os.path.join(core.VERIF, '.work') if os.path.isdir(os.path.join(core.VERIF, '.work')) else None)
    try:
        return check_C15_body(ctx, work15)
    finally:
        import shutil
        shutil.rmtree(work15, ignore_errors=True)


def check_C15_body(ctx, work15):
    Ls = loaded_stream(ctx, ctx.scale(250, 3000))
    lookup_jobs = []
    for L in Ls:
        if L.impl[0] != 'ok':
            continue
        ham, d = L.ham, L.dump
        bad = []
        ctx.counts['loaded'] += 1
        xr = {}
        for g in ham.get_list_extant_genes():
            ctx.counts['lookups'] += 1
            if ham.get_gene_by_id(g.unique_id) is not g:
                bad.append('get_gene_by_id(str) does not return the listed gene')
            if g.unique_id.isdigit() and str(int(g.unique_id)) == g.unique_id and ham.get_gene_by_id(int(g.unique_id)) is not g:
                bad.append('get_gene_by_id(int) does not return the listed gene')
            if ham.get_dict_extant_genes().get(g.unique_id) is not g:
                bad.append('get_dict_extant_genes disagrees with the listing')
            for k, v in g.get_dict_xref().items():
                if k != 'id':
                    xr.setdefault(v, []).append(g)
                    if g not in ham.get_genes_by_external_id(v):
                        bad.append('gene not found under its cross-reference id %s' % v)
        for v, gs_ in xr.items():
            if sorted(x.unique_id for x in ham.get_genes_by_external_id(v)) != sorted(x.unique_id for x in gs_):
                bad.append('external id lookup returns other genes than those carrying the id')
        for hid, h in ham.get_dict_top_level_hogs().items():
            if ham.get_hog_by_id(hid) is not h or h not in ham.get_list_top_level_hogs():
                bad.append('get_hog_by_id does not return the listed top-level HOG')
            if str(hid).isdigit() and str(int(hid)) == hid and ham.get_hog_by_id(int(hid)) is not h:
                bad.append('get_hog_by_id(int) does not return the listed top-level HOG')
            for g in h.get_all_descendant_genes()[:3]:
                if ham.get_hog_by_gene(g) is not h:
                    bad.append('get_hog_by_gene does not return the family of the gene')
        def genome_coherence(when):
            for g in ham.get_list_extant_genomes():
                if ham.get_extant_genome_by_name(g.name) is not g:
                    bad.append('get_extant_genome_by_name does not return the listed genome' + when)
                if ham.get_taxon_by_name(g.name) is not g.taxon:
                    bad.append('get_taxon_by_name does not return the genome\'s node' + when)
            ags_ = ham.get_list_ancestral_genomes()
            for g in ags_:
                try:
                    if ham.get_ancestral_genome_by_name(g.name) is not g:
                        bad.append('get_ancestral_genome_by_name does not return the listed genome' + when)
                    if ham.get_ancestral_genome_by_taxon(g.taxon) is not g:
                        bad.append('get_ancestral_genome_by_taxon does not return the listed genome' + when)
                    if ham.get_taxon_by_name(g.name) is not g.taxon:
                        bad.append('get_taxon_by_name does not return the ancestral genome\'s node' + when)
                except KeyError as e:
                    bad.append('lookup of a listed ancestral genome raises KeyError%s: %s' % (when, e))
            return ags_
        ags = genome_coherence('')
        allg = ags + ham.get_list_extant_genomes()
        # genome sets of two to four members, in any relative position (a member may be an ancestor of others)
        for _ in range(16):
            if len(allg) < 2:
                break
            gs_ = ctx.rng.sample(allg, min(len(allg), ctx.rng.choice([2, 2, 3, 3, 4])))
            if ags and ctx.rng.random() < 0.5:
                # bias: an ancestral genome together with genomes below it and one outside its clade
                anc = ctx.rng.choice(ags)
                below = [g for g in allg if g is not anc and is_anc(d.path[anc.taxon], d.path[g.taxon])]
                outside = [g for g in allg if not is_anc(d.path[anc.taxon], d.path[g.taxon])]
                if below and outside:
                    gs_ = [anc, ctx.rng.choice(below), ctx.rng.choice(outside)]
            ctx.counts['mrca_sets'] += 1
            ctx.dist['mrca_set_size=%d' % len(gs_)] += 1
            mp = gen.mrca_paths([d.path[g.taxon] for g in gs_])
            try:
                got = ham.get_ancestral_genome_by_mrca_of_genome_set(set(gs_))
                if d.path[got.taxon] != mp:
                    bad.append('MRCA lookup of %d genomes returns a genome at another node than their common ancestor' % len(gs_))
            except KeyError:
                if mp in d.genome_at and mp in d.internals:
                    bad.append('MRCA lookup raises KeyError although the common ancestor has a genome')
        # unknown keys
        if not expect_keyerror(ham.get_gene_by_id, 'no-such-gene') or not expect_keyerror(ham.get_genes_by_external_id, 'no-such-x') \
                or not expect_keyerror(ham.get_hog_by_id, 'no-such-hog') or not expect_keyerror(ham.get_extant_genome_by_name, 'no-such-sp') \
                or not expect_keyerror(ham.get_ancestral_genome_by_name, 'no-such-anc') or not expect_keyerror(ham.get_taxon_by_name, 'no-such-node') \
                or not expect_keyerror(ham.get_hog_by_gene, 'not-a-gene'):
            bad.append('lookup of an unknown key does not raise KeyError')
        for nd, p in d.path.items():
            if p not in d.genome_at and not nd.is_leaf() and not expect_keyerror(ham.get_ancestral_genome_by_taxon, nd):
                bad.append('lookup by a taxon without genome does not raise KeyError')
        # genomes created on demand (lateral comparisons, whole-dataset profile) are listed afterwards: the lookups
        # must return them as well (the lookups above ran first, so anything they memoised is now out of date)
        if not bad:
            ext = sorted(ham.get_list_extant_genomes(), key=lambda g_: g_.name)
            n_before = len(ham.get_list_ancestral_genomes())
            try:
                for _ in range(3):
                    if len(ext) >= 2:
                        ham.compare_genomes_lateral(*ctx.rng.sample(ext, 2))
                if ctx.rng.random() < 0.5:
                    ham.create_tree_profile()
            except Exception as e:  # noqa
                bad.append('lateral comparison / tree profile fails: %s' % type(e).__name__)
            created = len(ham.get_list_ancestral_genomes()) - n_before
            ctx.dist['genomes_created_on_demand=%d' % min(created, 3)] += 1
            ags2 = genome_coherence(' (after genomes were created on demand)')
            d2 = impl.Dump(ham)
            for g in ags2:
                below = [x for x in ext if is_anc(d2.path[g.taxon], d2.path[x.taxon])]
                if len(below) >= 2:
                    pair = ctx.rng.sample(below, 2)
                    mp = gen.mrca_paths([d2.path[x.taxon] for x in pair])
                    try:
                        got = ham.get_ancestral_genome_by_mrca_of_genome_set(set(pair))
                        if d2.path[got.taxon] != mp:
                            bad.append('MRCA lookup returns a genome at another node than the common ancestor (after genomes were created on demand)')
                    except KeyError:
                        if mp in d2.genome_at:
                            bad.append('MRCA lookup raises KeyError although the common ancestor has a genome (after genomes were created on demand)')
        if bad:
            ctx.violation(bad[0], {'case': case_json(L.case), 'failures': bad[:10]})
            continue
        lookup_jobs.append((L, sorted(xr.keys()) + ['no-such-x'], [nd.name for nd in d.path] + ['no-such-node']))
        diffs = compare_parser(L)
        if diffs and diffs != ['unmodelled']:
            report_parser_layer(ctx, L, diffs, 'props/C15.v: c15_gene_by_id')
        else:
            ctx.counts['parser_layer_agree'] += 1
    # lookup layer: the model's cross-reference index and name lookup against the implementation's
    reps = model.run_requests([['lookups', L.dump.named_tree_sx(), L.case.doc_sx(), ['ext'] + [Q(k) for k in ks],
                                ['names'] + [Q(n) for n in ns]] for L, ks, ns in lookup_jobs])
    for (L, ks, ns), rep in zip(lookup_jobs, reps):
        ok = True
        for k, r in zip(ks, rep[0]):
            try:
                got = ('ok', [g.unique_id for g in L.ham.get_genes_by_external_id(k)])
            except KeyError:
                got = ('KeyError',)
            want = ('ok', [str(x) for x in r[1]]) if r[0] == 'ok' else (str(r[1]),)
            if got != want:
                ok = False
        for n, r in zip(ns, rep[1]):
            try:
                got = ('ok', L.dump.path[L.ham.get_taxon_by_name(n)])
            except KeyError:
                got = ('KeyError',)
            want = ('ok', P(r[1])) if r[0] == 'ok' else (str(r[1]),)
            if got != want:
                ok = False
        if ok:
            ctx.counts['lookup_layer_agree'] += 1
        else:
            ctx.violation('lookup layer: model and implementation disagree; props/C15.v no longer tied to the code',
                          {'case': case_json(L.case), 'layer': 'lookup'}, no_input=True)
    # species trees whose names would make lookups ambiguous
    reqs, metas = [], []
    for i in range(ctx.scale(200, 2000)):
        t = gen.gen_tree(ctx.rng, ctx.rng.randint(3, 10), max_arity=ctx.rng.choice([2, 3, 4]), unary=ctx.rng.random() < 0.3)
        kind = ctx.rng.choice(['dupleaf', 'dupinternal', 'unnamed_internal', 'clean', 'leaf_like_internal'])
        ui = True if kind in ('dupinternal', 'unnamed_internal', 'leaf_like_internal') else ctx.rng.random() < 0.5
        ints = [x for x in t.nodes() if x.kids]
        ls = t.leaves()
        if kind == 'dupleaf':
            ls[ctx.rng.randrange(1, len(ls))].name = ls[0].name
        elif kind == 'dupinternal' and len(ints) >= 2:
            a, b = ctx.rng.sample(ints, 2)
            b.name = a.name
        elif kind == 'unnamed_internal':
            for x in ints:
                x.name = ''
        elif kind == 'leaf_like_internal' and ints:
            # a leaf carrying the name of an internal node: every lookup by name is ambiguous for it (finding F12)
            ctx.rng.choice(ls).name = ctx.rng.choice(ints).name
        nw = gen.newick(t, internal=True)
        reqs.append(['taxonomy', ui, t.sx()])
        metas.append((t, kind, ui, nw))
    reps = model.run_requests(reqs)
    for (t, kind, ui, nw), rep in zip(metas, reps):
        ctx.counts['ambiguity_trees'] += 1
        ctx.dist['ambiguity=' + kind] += 1
        ctx.distinct.add(nw + str(ui))
        r = impl_taxonomy(nw, ui)
        payload = {'newick': nw, 'use_internal': ui, 'kind': kind}
        names = None
        if r[0] == 'ok':
            leafn = [n.name for n in r[1].tree.traverse() if n.is_leaf()]
            intn = [n.name for n in r[1].tree.traverse() if not n.is_leaf()]
            if len(set(leafn)) != len(leafn) or len(set(intn)) != len(intn):
                ctx.violation('taxonomy accepted although %s names repeat: a name lookup would pick one of several genomes'
                              % ('leaf' if len(set(leafn)) != len(leafn) else 'internal'), payload)
                continue
            if set(leafn) & set(intn):
                ctx.violation('taxonomy accepted although a leaf and an internal node are both named %s: lookups by that name '
                              'are ambiguous' % sorted(set(leafn) & set(intn))[0], payload, finding_key='F12-name-shared-by-leaf-and-internal-node')
                continue
        elif r[1] != 'KeyError':
            ctx.violation('ambiguous tree rejected with %s instead of KeyError' % r[1], payload)
            continue
        if (r[0] == 'ok') != (rep[0] == 'ok'):
            ctx.violation('taxonomy layer: implementation %s, model %s; props/C15.v: c15_unambiguous no longer tied to the code'
                          % (r[0], rep[0]), payload, no_input=True)
        else:
            ctx.counts['taxonomy_layer_agree'] += 1
        # the same tree supplied as PhyloXML (every name tag): accepted exactly when the Newick form is, and then with
        # pairwise different names
        if all(nd_.name for nd_ in t.nodes()) and ctx.rng.random() < 0.5:
            pxf = os.path.join(work15, 'amb.phyloxml')
            with open(pxf, 'w') as f_:
                f_.write(phyloxml_text(t))
            for tag in ('clade_name', 'taxonomy_scientific_name', 'taxonomy_code'):
                ctx.counts['ambiguity_trees_phyloxml'] += 1
                try:
                    tx = pyham.taxonomy.Taxonomy(pxf, tree_format='phyloxml', use_internal_name=ui,
                                                 phyloxml_leaf_name_tag=tag, phyloxml_internal_name_tag=tag)
                    allnames = [n.name for n in tx.tree.traverse()]
                    okp = True
                except KeyError:
                    okp = False
                except Exception as e:  # noqa
                    ctx.violation('ambiguous tree (PhyloXML, tag %s) rejected with %s instead of KeyError' % (tag, type(e).__name__),
                                  dict(payload, tree_format='phyloxml', tag=tag))
                    break
                if okp and len(set(allnames)) != len(allnames):
                    ctx.violation('taxonomy built from PhyloXML (tag %s) accepted although names repeat: a name lookup would pick '
                                  'one of several genomes' % tag, dict(payload, tree_format='phyloxml', tag=tag))
                    break
                if okp != (r[0] == 'ok'):
                    ctx.violation('the same species tree is %s as Newick and %s as PhyloXML (tag %s)'
                                  % ('accepted' if r[0] == 'ok' else 'rejected', 'accepted' if okp else 'rejected', tag),
                                  dict(payload, tree_format='phyloxml', tag=tag))
                    break


# ------------------------------------------------------------------ annotations (C19)
def own_annots(it):
    """annotations written on group `it` itself (also inside its paralogGroups, not inside sub-groups)"""
    props, scores = {}, {}
    def go(body):
        for x in body:
            if x[0] == 'prop':
                props[x[1]] = x[2]
            elif x[0] == 'score':
                scores[x[1]] = float(x[2])
            elif x[0] == 'pg':
                go(x[2])
    go(it[3])
    return props, scores


def all_groups(items):
    for it in items:
        if it[0] == 'og':
            yield it
            for x in all_groups(it[3]):
                yield x
        elif it[0] == 'pg':
            for x in all_groups(it[2]):
                yield x


def check_C19(ctx):
    # the predicate identifies a group by (id, member genes): ids are kept pairwise different in this stream (the
    # streams of the other checks let nested groups repeat ids; annotations there are covered by the parser-layer correspondence)
    Ls = loaded_stream(ctx, ctx.scale(400, 5000), p_annot=0.7, p_pg_annot=0.4, p_loft=0.4, p_og_attr=0.2, p_reuse_ids=0.0)
    for L in Ls:
        if L.impl[0] != 'ok':
            continue
        ctx.counts['loaded'] += 1
        ham, d, c = L.ham, L.dump, L.case
        bad = []
        hogs = {}
        for o, h in d.obj.items():
            genes = tuple(sorted(g.unique_id for g in h.get_all_descendant_genes()))
            hogs.setdefault((h.hog_id, genes), []).append(h)
        claimed = set()
        for it in all_groups(c.groups):
            gid = it[1] if it[1] is not None else it[2]
            props, scores = own_annots(it)
            refs = tuple(sorted(group_refs(it)))
            if 'TaxRange' in props and len(refs) == 1 and it[1] is None and it[2] is None:
                continue   # species-level wrapper: creates no HOG
            cands = [h for h in hogs.get((gid, refs), []) if not hasattr(h, '_missing_in_xml')]
            ctx.counts['groups'] += 1
            if len(cands) != 1:
                if c.consistent:
                    bad.append('group %s: %d HOGs carry its id and members' % (gid, len(cands)))
                continue
            h = cands[0]
            claimed.add(id(h))
            if dict(h._properties) != props:
                bad.append('group %s: properties %r, file says %r' % (gid, dict(h._properties), props))
            for k, v in props.items():
                try:
                    if h[k] != v:
                        bad.append('group %s: property %s has another value' % (gid, k))
                except KeyError:
                    bad.append('group %s: property %s not retrievable' % (gid, k))
            for k, v in scores.items():
                try:
                    if h.score(k) != v:
                        bad.append('group %s: score %s is %r, file says %r' % (gid, k, h.score(k), v))
                except KeyError:
                    bad.append('group %s: score %s lost' % (gid, k))
            if getattr(h, 'scores', {}).keys() - scores.keys():
                bad.append('group %s: carries a score of another group' % gid)
            if not expect_keyerror(h.score, 'no-such-score') or not expect_keyerror(h.__getitem__, 'no-such-prop'):
                bad.append('absent annotation does not raise KeyError')
            rp = repr(h)
            if gid is not None and ('id=%s' % h.hog_id) not in rp and ('og=%s' % h.og) not in rp:
                bad.append('display string %s does not show the id' % rp)
            if ('level=%s' % h.genome.name) not in rp:
                bad.append('display string %s does not show the level' % rp)
        for o, h in d.obj.items():
            if id(h) not in claimed and (h._properties or getattr(h, 'scores', {})):
                bad.append('HOG %r not created for a group carries annotations' % (h,))
        decl = {}
        for sp, gs in c.species:
            for g in gs:
                decl[g['id']] = g
        lofts = {}
        def collect(items):
            for x in items:
                if x[0] == 'g' and x[2] is not None:
                    lofts[x[1]] = x[2]
                elif x[0] == 'og':
                    collect(x[3])
                elif x[0] == 'pg':
                    collect(x[2])
        collect(c.groups)
        for gid, g in ham.extant_gene_map.items():
            want = {k: v for k, v in decl.get(gid, {}).items() if k in ('id', 'geneId', 'protId', 'transcriptId')}
            if g.get_dict_xref() != want:
                bad.append('gene %s: cross references %r, file says %r' % (gid, g.get_dict_xref(), want))
            if getattr(g, 'hog_id', None) != lofts.get(gid):
                bad.append('gene %s: LOFT id %r, file says %r' % (gid, getattr(g, 'hog_id', None), lofts.get(gid)))
        if bad:
            ctx.violation(bad[0], {'case': case_json(L.case), 'failures': bad[:10]})
            continue
        diffs = compare_parser(L)
        if diffs == ['unmodelled']:
            ctx.counts['outside_model_domain'] += 1
        elif diffs:
            report_parser_layer(ctx, L, diffs, 'props/C19.v: c19_annotations')
        else:
            ctx.counts['parser_layer_agree'] += 1


# ------------------------------------------------------------------ faults (C20)
def positions(items, path=()):
    """every (path, item) in the group section"""
    for i, it in enumerate(items):
        yield path + (i,), it
        if it[0] == 'og':
            for x in positions(it[3], path + (i,)):
                yield x
        elif it[0] == 'pg':
            for x in positions(it[2], path + (i,)):
                yield x


def replace_at(items, path, f):
    """copy of items with the element at path replaced by f(element) (a list of items)"""
    i = path[0]
    it = items[i]
    if len(path) == 1:
        return items[:i] + f(it) + items[i + 1:]
    if it[0] == 'og':
        return items[:i] + [('og', it[1], it[2], replace_at(it[3], path[1:], f))] + items[i + 1:]
    return items[:i] + [('pg', it[1], replace_at(it[2], path[1:], f))] + items[i + 1:]


def faults_of(ctx, c, every):
    """single-fault corruptions of case c: (kind, position description, new case)"""
    out = []
    mk = lambda species, groups, tag: gen.Case(c.tree, species, groups, c.use_internal, None, c.singles, tag, c.stats, False)
    named = c.named_tree()
    internal = [n.name for n in named.nodes() if n.kids]
    sp_idx = list(range(len(c.species)))
    if not every and len(sp_idx) > 2:
        sp_idx = ctx.rng.sample(sp_idx, 2)
    for i in sp_idx:
        sp = list(c.species)
        sp[i] = ('NoSuchSpecies', sp[i][1])
        out.append(('unknown species', i, mk(sp, c.groups, 'fault:species')))
        sp = list(c.species)
        sp[i] = (ctx.rng.choice(internal), sp[i][1])
        out.append(('internal node as species', i, mk(sp, c.groups, 'fault:internal-species')))
    pos = list(positions(c.groups))
    refs = [p for p, it in pos if it[0] == 'g']
    grps = [p for p, it in pos if it[0] in ('og', 'pg')]
    if not every:
        refs = ctx.rng.sample(refs, min(3, len(refs)))
        grps = ctx.rng.sample(grps, min(3, len(grps)))
    gene_ids = set(g['id'] for _, gs in c.species for g in gs)
    xref_vals = sorted(set(v for _, gs in c.species for g in gs for k, v in g.items() if k != 'id' and v not in gene_ids))
    for p in refs:
        # the dangling id is a fresh string or the cross-reference id of some declared gene (never a declared gene id)
        dang = ctx.rng.choice(xref_vals) if xref_vals and ctx.rng.random() < 0.5 else 'no-such-gene'
        out.append(('dangling geneRef', p, mk(c.species, replace_at(c.groups, p, lambda it, dang=dang: [('g', dang, it[2])]),
                                             'fault:geneRef')))
    for p in grps:
        def empty(it):
            if it[0] == 'og':
                return [('og', it[1], it[2], [x for x in it[3] if x[0] in ('prop', 'score')])]
            return [('pg', it[1], [])]
        out.append(('empty group', p, mk(c.species, replace_at(c.groups, p, empty), 'fault:empty-group')))
    return out


CODE_RE = __import__('re').compile(r'[A-Z][A-Z0-9]{4}')


def oma_bad_species(c):
    """species blocks of an OMA-mode case that name an internal node which the OMA rule cannot redirect to a leaf
    (not exactly one code-named child, or that child is not a leaf), or no node / several nodes"""
    named = c.named_tree()
    by_name = {}
    for n in named.nodes():
        by_name.setdefault(n.name, []).append(n)
    bad = []
    for name, _ in c.species:
        ns = by_name.get(name, [])
        if len(ns) != 1:
            bad.append((name, 'names %d nodes' % len(ns)))
            continue
        n = ns[0]
        if n.kids:
            cand = [k for k in n.kids if len(k.name) == 5 and CODE_RE.match(k.name)]
            if len(cand) != 1:
                bad.append((name, 'internal node with %d code-named children' % len(cand)))
            elif cand[0].kids:
                bad.append((name, 'internal node whose code-named child is internal'))
    return bad


def judge_oma(ctx, L):
    c = L.case
    bad = oma_bad_species(c)
    ctx.dist['oma=' + ('sound' if not bad else 'unsound')] += 1
    if L.model_unmodelled():
        ctx.counts['outside_model_domain'] += 1
        return
    i_ok, m_ok = L.impl[0] == 'ok', L.model[0] == 'ok'
    if L.model[0] == 'taxerr':
        # the species tree itself is refused (e.g. synthesised names of a unary node and its child coincide): this is
        # C15/C18 territory, not a fault of the orthoXML
        if i_ok:
            ctx.violation('taxonomy layer (OMA mode): the model refuses the species tree (%s) and the implementation loads'
                          % (L.model[1],), {'case': case_json(c), 'layer': 'taxonomy'}, no_input=True)
        else:
            ctx.counts['oma_tree_refused_by_both'] += 1
        return
    if bad and i_ok:
        ctx.violation('OMA mode: species %r (%s) is accepted: the load succeeds' % bad[0],
                      {'case': case_json(c), 'fault': 'internal node as species (OMA mode)', 'species': bad})
        return
    if i_ok != m_ok:
        ctx.violation('parser layer (OMA mode): implementation %s, model %s; props/C20.v: c20_oma_* no longer tied to the code'
                      % (L.impl[:2] if not i_ok else 'loads', L.model[:2] if not m_ok else 'loads'),
                      {'case': case_json(c), 'layer': 'parser'}, no_input=True)
        return
    if not i_ok:
        ctx.counts['oma_both_reject'] += 1
        if not bad and c.consistent:
            ctx.violation('OMA mode: consistent input rejected: %s' % (L.impl[1],), {'case': case_json(c)})
        return
    diffs = compare_parser(L)
    if diffs == ['unmodelled']:
        ctx.counts['outside_model_domain'] += 1
    elif diffs:
        report_parser_layer(ctx, L, diffs, 'props/C20.v: c20_oma_is_plain_load')
    else:
        ctx.counts['oma_both_load_and_agree'] += 1


def check_C20(ctx):
    if FORCED is not None:
        base = [c for c in FORCED if not c.tag.startswith('fault') and not c.oma]
        faulty = [(c.tag, 'replayed', c, c) for c in FORCED if c.tag.startswith('fault') and not c.oma]
        omas = [c for c in FORCED if c.oma]
    else:
        base = [c for c in gen_main(ctx, ctx.scale(120, 1200)) if c.consistent and c.groups]
        faulty = None
        omas = None
    every = ctx.tier == 'thorough'
    if faulty is None:
        faulty = []
        for c in base:
            ctx.record_case(c)
            faulty.extend((k, p, fc, c) for k, p, fc in faults_of(ctx, c, every))
    Ls = core.load_cases([fc for _, _, fc, _ in faulty])
    for (kind, pos, fc, c), L in zip(faulty, Ls):
        ctx.counts['faults'] += 1
        ctx.dist['fault=' + kind] += 1
        ctx.distinct.add(fc.xml())
        if L.impl[0] == 'ok':
            nested_empty_pg = 'empty' in kind and isinstance(pos, tuple) and empty_pg_after_members(fc.groups, pos)
            if pos == 'replayed' and 'empty' in kind:
                nested_empty_pg = any(has_empty_pg_in_pg(g) for g in fc.groups)
            ctx.violation('%s at %s is accepted: the load succeeds' % (kind, list(pos) if isinstance(pos, tuple) else pos),
                          {'case': case_json(fc), 'fault': kind, 'position': pos, 'original': case_json(c)},
                          finding_key='F9-empty-paralogGroup-after-members' if nested_empty_pg else None)
            continue
        ctx.counts['rejected_' + L.impl[1]] += 1
        if L.model[0] == 'ok':
            ctx.violation('parser layer: model loads a document the implementation rejects; props/C20.v: c20_rejects no longer tied to the code',
                          {'case': case_json(fc), 'fault': kind, 'position': pos, 'layer': 'parser'}, no_input=True)
        else:
            ctx.counts['both_reject'] += 1
    # species_resolve_mode="OMA": internal species names are redirected to a unique code-named leaf child, else rejected
    if omas is None:
        omas = []
        for c in base:
            if not c.species:
                continue
            for _ in range(2 if every else 1):
                v = gen.oma_variant(ctx.rng, c)
                omas.append(v)
                # and the same with one species block moved onto an internal node of the tree
                internal = [n.name for n in v.named_tree().nodes() if n.kids]
                i = ctx.rng.randrange(len(v.species))
                w = gen.Case(v.tree, list(v.species), v.groups, v.use_internal, None, v.singles, 'oma', v.stats, False)
                w.oma = True
                w.species[i] = (ctx.rng.choice(internal), w.species[i][1])
                omas.append(w)
    Lo = core.load_cases(omas)
    for L in Lo:
        ctx.counts['oma_cases'] += 1
        ctx.distinct.add(L.case.newick() + L.case.xml())
        judge_oma(ctx, L)
    # on a successful load nothing has been dropped
    Ls = core.load_cases(base)
    for L in Ls:
        if L.impl[0] == 'ok':
            bad = pred_c01(L)
            if bad:
                ctx.violation(bad[0], {'case': case_json(L.case), 'failures': bad})
            else:
                ctx.counts['loads_without_drop'] += 1
        else:
            ctx.violation('consistent input rejected: %s' % L.impl[1], {'case': case_json(L.case)})


def has_empty_pg_in_pg(it, in_pg=False):
    if it[0] == 'pg':
        if in_pg and not it[2]:
            return True
        return any(has_empty_pg_in_pg(x, True) for x in it[2])
    if it[0] == 'og':
        return any(has_empty_pg_in_pg(x, False) for x in it[3])
    return False


def empty_pg_after_members(groups, pos):
    """the emptied group is a paralogGroup nested directly in a paralogGroup that already has a member before it"""
    items = groups
    parent = None
    for i in pos[:-1]:
        parent = items[i]
        items = parent[3] if parent[0] == 'og' else parent[2]
    it = items[pos[-1]]
    if it[0] != 'pg' or parent is None or parent[0] != 'pg':
        return False
    return True


# ------------------------------------------------------------------ analysis signature (C13, C14, C17)
def obj_keys(d):
    """ref -> object-identity-free key (taxon + genes below)"""
    keys = {}
    for h in d.top_sx + d.single_sx:
        for x in sx_nodes(h):
            r = ('g', str(x[1])) if x[0] == 'G' else ('h', int(x[1]))
            keys[r] = r if x[0] == 'G' else ('h', core.node_key(x))
    return keys


def signature(ham, with_profile=True, max_pairs=60, rng=None, deep=False):
    """everything a comparison-style user can observe, in an id-free, order-free form"""
    d = impl.Dump(ham)
    keys = obj_keys(d)
    K = lambda x: keys.get(d.ref(x), ('unknown', repr(x)))
    sig = {'forest': sorted(impl.canon_hog(h) for h in d.top_sx),
           'singles': sorted(str(x[1]) for x in d.single_sx),
           'anomalies': list(d.anomalies)}
    gs = d.genome_at
    ps = sorted(gs.keys(), key=lambda p: (len(p), p))
    pairs = [(a, b) for a in ps for b in ps if is_anc(a, b) and gs[a].genes and gs[b].genes]
    if len(pairs) > max_pairs:
        pairs = (rng or __import__('random').Random(0)).sample(pairs, max_pairs)
    comp = []
    for a, b in pairs:
        m = ham.compare_genomes_vertically(gs[a], gs[b]).map
        comp.append((a, b, sorted(K(x) for x in m.GAIN), sorted((K(k), K(v)) for k, v in m.RETAINED.items()),
                     sorted((K(k), tuple(sorted(K(v) for v in vs))) for k, vs in m.DUPLICATE.items()),
                     sorted(K(x) for x in m.LOSS), m.number_duplication))
    sig['comparisons'] = comp
    sig['genomes'] = sorted((p, sorted(K(x) for x in g.genes)) for p, g in gs.items() if g.genes)
    if with_profile:
        try:
            tab = treemap_table(ham.create_tree_profile().treemap)
            sig['profile'] = sorted((p, nbr, tuple(sorted(f.items(), key=str))) for p, (nbr, f, _) in tab.items())
        except Exception as e:  # noqa
            sig['profile'] = 'error:' + type(e).__name__
        # all per-family profiles are requested first and read afterwards: a profile must not change because
        # another one was computed in between (results are values, not views on shared state)
        fams = []
        built = []
        for hid, h in ham.top_level_hogs.items():
            try:
                built.append((h, ham.create_tree_profile(hog=h).treemap))
            except Exception as e:  # noqa
                built.append((h, e))
        for h, tm in built:
            if isinstance(tm, Exception):
                fams.append((K(h), 'error:' + type(tm).__name__))
                continue
            root = d.path[h.genome.taxon]
            fams.append((K(h), sorted((impl.node_path(n) + root, n.nbr_genes, n.dupl, n.lost, n.retained, n.duplication)
                                      for n in tm.traverse())))
        sig['family_profiles'] = sorted(fams, key=repr)
    if deep:
        # per-family profiles of sub-HOGs as well (every level of a family, also single-child levels)
        subs = sorted(((K(h), h) for o, h in d.obj.items() if h.parent is not None), key=lambda x: repr(x[0]))[:12]
        sp = []
        for k_, h in subs:
            try:
                tm = ham.create_tree_profile(hog=h).treemap
                root = d.path[h.genome.taxon]
                sp.append((k_, sorted((impl.node_path(n) + root, n.nbr_genes, n.dupl, n.lost, n.retained, n.duplication)
                                      for n in tm.traverse())))
            except Exception as e:  # noqa
                sp.append((k_, 'error:' + type(e).__name__))
        sig['subhog_profiles'] = sp
        # the species subtree the taxonomy serialises for every internal node, and the one every iHam page embeds,
        # as nested clades (display names of ancestral levels may differ between configurations)
        def clades(nwk):
            from ete3 import Tree
            def go(n):
                return tuple(sorted(n.get_leaf_names())) if n.is_leaf() else (tuple(sorted(n.get_leaf_names())), tuple(sorted(go(c) for c in n.children)))
            try:
                return go(Tree(nwk, format=8))
            except Exception as e:  # noqa
                return 'unreadable:' + type(e).__name__
        sig['subtree_newick'] = sorted((p_, clades(ham.taxonomy.get_newick_from_tree(nd))) for nd, p_ in d.path.items() if not nd.is_leaf())
        pages = []
        for hid, h in ham.top_level_hogs.items():
            try:
                pages.append((K(h), clades(ham.create_iHam(h).newick_str)))
            except Exception as e:  # noqa
                pages.append((K(h), 'error:' + type(e).__name__))
        sig['page_trees'] = sorted(pages, key=repr)
        # ids, properties and scores of every HOG (text read from the file must not depend on how the file was read)
        sig['annotations'] = sorted((core.node_key(x), core.meta_tuple(x)) for h in d.top_sx for x in core.all_hogs_sx(h))
        sig['gene_xrefs'] = sorted((g.unique_id, tuple(sorted(g.get_dict_xref().items()))) for g in ham.get_list_extant_genes())
    return sig


def sig_diff(a, b):
    return [k for k in sorted(set(a) | set(b)) if a.get(k) != b.get(k)]


# ------------------------------------------------------------------ filter (C11)
def make_filter(hogs, ext, ints):
    f = pyham.ParserFilter()
    if hogs:
        f.add_hogs_via_hogId(hogs)
    if ext:
        f.add_hogs_via_GeneExtId(ext)
    if ints:
        f.add_hogs_via_GeneIntId(ints)
    return f


def check_C11(ctx):
    cases = [c for c in gen_main(ctx, ctx.scale(120, 1200), p_og_attr=0.0) if c.consistent and all(g[1] is not None for g in c.groups)]
    full = core.load_cases(cases)
    reqs, metas = [], []
    for L in full:
        ctx.record_case(L.case)
        if L.impl[0] != 'ok':
            continue
        c = L.case
        fam_ids = [g[1] for g in c.groups]
        fam_genes = {g[1]: group_refs(g) for g in c.groups}
        allgenes = [g for _, gs in c.species for g in gs]
        filters = [([], [], []), (['no-such-hog'], ['no-such-x'], ['no-such-gene'])]
        for _ in range(ctx.scale(5, 16)):
            hs = ctx.rng.sample(fam_ids, ctx.rng.randint(0, min(2, len(fam_ids)))) if ctx.rng.random() < 0.6 else []
            gi = [g['id'] for g in ctx.rng.sample(allgenes, min(len(allgenes), ctx.rng.randint(0, 2)))] if ctx.rng.random() < 0.5 else []
            ge = []
            if ctx.rng.random() < 0.5 and allgenes:
                for g in ctx.rng.sample(allgenes, min(len(allgenes), 2)):
                    xs = [v for k, v in g.items() if k != 'id']
                    if ctx.rng.random() < 0.15:
                        xs = xs + [g['id']]        # the id itself is among the attribute values compared
                    if xs:
                        ge.append(ctx.rng.choice(xs))
            if ctx.rng.random() < 0.2:
                hs = hs + ['ghost']
            filters.append((hs, ge, gi))
        for hs, ge, gi in filters:
            reqs.append(['loadf', c.use_internal, c.tree.sx(), c.doc_sx(),
                         ['filter', [Q(x) for x in hs], [Q(x) for x in ge], [Q(x) for x in gi]]])
            metas.append((L, hs, ge, gi, fam_ids, fam_genes, allgenes))
    reps = model.run_requests(reqs, chunk=200)
    for (L, hs, ge, gi, fam_ids, fam_genes, allgenes), rep in zip(metas, reps):
        c = L.case
        ctx.counts['filtered_loads'] += 1
        ctx.dist['selectors=%s%s%s' % ('H' if hs else '-', 'E' if ge else '-', 'I' if gi else '-')] += 1
        reuse = None
        if ctx.rng.random() < 0.25 and (len(hs) + len(ge) + len(gi)) >= 1:
            # one ParserFilter object used for a first load with part of the selectors, then widened and used again
            # (also on another document first): the second load must select by the filter as it is now
            k_ = ctx.rng.randint(0, len(hs))
            fobj = make_filter(hs[:k_], [], [])
            first = impl.load_impl(c, filter_object=fobj)
            if hs[k_:]:
                fobj.add_hogs_via_hogId(hs[k_:])
            if ge:
                fobj.add_hogs_via_GeneExtId(ge)
            if gi:
                fobj.add_hogs_via_GeneIntId(gi)
            reuse = 'first load with hogs %s: %s' % (hs[:k_], first[0])
            ctx.dist['filter_object_reused'] += 1
            r = impl.load_impl(c, filter_object=fobj)
        else:
            r = impl.load_impl(c, filter_object=make_filter(hs, ge, gi))
        payload = {'case': case_json(c), 'filter': {'hogs': hs, 'ext': ge, 'int': gi, 'reused_filter_object': reuse}}
        if r[0] != 'ok':
            ctx.violation('filtered load fails: %s' % r[1], payload)
            continue
        FL = core.Loaded(c, r, rep)
        # expected selection
        named_genes = set(gi)
        for g in allgenes:
            if any(v in ge for v in g.values()):
                named_genes.add(g['id'])
        sel = [f for f in fam_ids if f in hs or any(x in named_genes for x in fam_genes[f])]
        want_genes = set(x for f in sel for x in fam_genes[f]) | set(g for g in named_genes if g in [a['id'] for a in allgenes])
        bad = []
        ham = r[1]
        if sorted(ham.top_level_hogs.keys()) != sorted(sel):
            bad.append('families loaded %s, expected %s' % (sorted(ham.top_level_hogs.keys()), sorted(sel)))
        if set(ham.extant_gene_map.keys()) != want_genes:
            bad.append('genes loaded differ from the genes of the selected families plus named singletons')
        fd, ud = FL.dump, L.dump
        ufam = {k: impl.canon_hog(h, True) for (k, _), h in zip(ud.tops, ud.top_sx)}
        for (k, _), h in zip(fd.tops, fd.top_sx):
            if impl.canon_hog(h, True) != ufam.get(k):
                bad.append('family %s differs from the same family in the unfiltered load' % k)
        for f in fam_ids:
            if f not in sel and not expect_keyerror(ham.get_hog_by_id, f):
                bad.append('unselected family %s can be looked up' % f)
        for g in allgenes:
            if g['id'] not in want_genes and not expect_keyerror(ham.get_gene_by_id, g['id']):
                bad.append('gene %s of an unselected family can be looked up' % g['id'])
        for p, (kind, name, refs) in fd.genome_table().items():
            for rf in refs:
                if rf[0] == 'g' and rf[1] not in want_genes:
                    bad.append('genome %s lists a gene of an unselected family' % name)
        bad.extend(fd.anomalies[:3])
        if bad:
            ctx.violation(bad[0], dict(payload, failures=bad[:10]))
            continue
        diffs = compare_parser(FL)
        if diffs and diffs != ['unmodelled']:
            ctx.violation('filter layer: model and implementation disagree (%s); props/C11.v no longer tied to the code' % '; '.join(diffs)[:200],
                          dict(payload, layer='filter', differences=diffs), no_input=True)
        else:
            ctx.counts['filter_layer_agree'] += 1


# ------------------------------------------------------------------ exporter (C12)
def parse_exported(text):
    return corpus.parse_orthoxml(text)


def canon_items(items):
    """order-free form of exported group items"""
    out = []
    for it in items:
        if it[0] == 'g':
            out.append(('g', it[1]))
        elif it[0] == 'og':
            out.append(('og', it[1], canon_items(it[3])))
        elif it[0] == 'pg':
            out.append(('pg', canon_items(it[2])))
        elif it[0] == 'prop':
            out.append(('prop', it[1], it[2]))
    return tuple(sorted(out, key=repr))


def sx_items(xs):
    out = []
    for x in xs:
        k = str(x[0])
        if k == 'g':
            out.append(('g', str(x[1]), None))
        elif k == 'og':
            out.append(('og', str(x[1][0]) if x[1] else None, str(x[2][0]) if x[2] else None, sx_items(x[3:])))
        elif k == 'pg':
            out.append(('pg', str(x[1][0]) if x[1] else None, sx_items(x[2:])))
        else:
            out.append((k, str(x[1]), str(x[2])))
    return out


PAGE_RE = re.compile(r'const data = \{\s*"tree": \'(.*?)\',\s*"orthoxml": `(.*?)`,\s*"fam_data": (.*?)\n\s*\}\n', re.S)


def page_fields(html):
    """the three values the iHam viewer reads from the page (const data = {...})"""
    m = PAGE_RE.search(html)
    if m is None:
        return None
    return {'tree': m.group(1), 'orthoxml': m.group(2), 'fam_data': m.group(3)}


def newick_names(nwk):
    from ete3 import Tree
    def go(n):
        return [n.name] + [go(c) for c in n.children]
    return go(Tree(nwk, format=8))


def sx_tree_names(x):
    # the Newick writer spells the empty name of an unlabelled node "NoName" (ete3; Tax.name_text in the model)
    return [str(x[0]) or 'NoName'] + [sx_tree_names(k) for k in x[1:]]


def check_C12(ctx):
    Ls = loaded_stream(ctx, ctx.scale(250, 3000))
    if FORCED is None:
        # duplication-heavy families on small trees: sub-HOGs consisting solely of duplications (one or several)
        heavy = [gen.gen_case(ctx.rng, nleaves=ctx.rng.randint(5, 9), nfam=ctx.rng.randint(1, 2), dup_heavy=True, tag='dup_heavy')
                 for _ in range(ctx.scale(60, 600))]
        Lh = core.load_cases(heavy)
        for L in Lh:
            ctx.record_case(L.case)
        Ls = Ls + Lh
    plan = {}
    def cmds(L):
        if L.impl[0] != 'ok' or not L.case.consistent:
            return []
        d = L.dump
        hs = [o for o, h in sorted(d.obj.items()) if len(h.children) >= 2]
        if len(hs) > 10:
            tops = [d.oid_of(h) for _, h in d.tops if len(h.children) >= 2]
            hs = tops + ctx.rng.sample([o for o in hs if o not in tops], max(0, 10 - len(tops)))
        plan[id(L)] = hs
        prot = [[Q(g.unique_id), Q(str(g.prot_id))] for g in L.ham.extant_gene_map.values()]
        return [['wf']] + [['export', o, prot] for o in hs] + [['page', o, prot] for o in hs]
    reps = analyze(Ls, cmds)
    # the page of the same HOG when the species tree was supplied as PhyloXML: same embedded subtree and records
    if FORCED is None:
        work12 = tempfile.mkdtemp(prefix='c12_', dir=os.path.join(core.VERIF, '.work') if os.path.isdir(os.path.join(core.VERIF, '.work')) else None)
        try:
            for L in Ls:
                if L.impl[0] != 'ok' or not L.case.consistent or not L.case.use_internal or ctx.rng.random() > 0.2 \
                        or not all(n.name for n in L.case.tree.nodes()):
                    continue
                pxf = os.path.join(work12, 't.phyloxml')
                with open(pxf, 'w') as f_:
                    f_.write(phyloxml_text(L.case.tree))
                rp = impl.load_impl(L.case, newick=pxf, tree_format='phyloxml')
                if rp[0] != 'ok':
                    continue          # the configuration product is C13's subject
                ctx.counts['phyloxml_pages_compared'] += 1
                hp = rp[1]
                for hid, h in L.ham.top_level_hogs.items():
                    if hid not in hp.top_level_hogs:
                        continue
                    try:
                        a_ = page_fields(L.ham.create_iHam(h).HTML)
                        b_ = page_fields(hp.create_iHam(hp.top_level_hogs[hid]).HTML)
                        same = a_ is not None and b_ is not None and newick_names(a_['tree']) == newick_names(b_['tree']) \
                            and sorted(json.loads(a_['fam_data']), key=repr) == sorted(json.loads(b_['fam_data']), key=repr)
                    except Exception as e:  # noqa
                        same = False
                        b_ = {'tree': 'error: %s' % type(e).__name__}
                    if not same:
                        ctx.violation('iHam page of family %s embeds another species subtree / other records when the species tree is '
                                      'supplied as PhyloXML' % hid,
                                      {'case': dict(case_json(L.case), tree_format='phyloxml'), 'hog': hid,
                                       'newick_page_tree': a_['tree'] if a_ else None, 'phyloxml_page_tree': b_['tree'] if b_ else None})
                        break
        finally:
            import shutil
            shutil.rmtree(work12, ignore_errors=True)
    for L, rep in zip(Ls, reps):
        if rep is None:
            continue
        d, ham = L.dump, L.ham
        nwk = ham.taxonomy.tree_str
        n_h = len(plan[id(L)])
        for o, mrep, prep in zip(plan[id(L)], rep[1:1 + n_h], rep[1 + n_h:]):
            h = d.obj[o]
            ctx.counts['exports'] += 1
            payload = {'case': case_json(L.case), 'hog': repr(h), 'hog_taxon': d.path[h.genome.taxon],
                       'hog_genes': sorted(g.unique_id for g in h.get_all_descendant_genes())}
            bad = []
            sole_dup = len(h.duplications) == 1 and all(c.arose_by_duplication is not False for c in h.children)
            try:
                text = pyham.iham.OrthoXML_manager(h).get_orthoxml_str()
                species, groups = parse_exported(text)
            except Exception as e:  # noqa
                ctx.violation('export fails: %s' % type(e).__name__, payload)
                continue
            members = sorted(g.unique_id for g in h.get_all_descendant_genes())
            declared = sorted(g['id'] for _, gs in species for g in gs)
            refs = sorted(x for it in groups for x in group_refs(it))
            if declared != members:
                bad.append('exported gene declarations are not the HOG\'s member genes')
            if refs != members:
                bad.append('exported groups do not reference each member gene exactly once')
            for sp, gs in species:
                for g in gs:
                    if ham.extant_gene_map[g['id']].genome.name != sp:
                        bad.append('gene %s declared under another species' % g['id'])
            # reload with the same species tree
            if not bad:
                try:
                    h2 = pyham.Ham(nwk, text, use_internal_name=True, orthoXML_as_string=True)
                    d2 = impl.Dump(h2)
                    got = sorted(impl.canon_hog(x) for x in d2.top_sx)
                    want = [impl.canon_hog(forest_index(d)[('h', o)][0])]
                    if got != want:
                        bad.append('re-loading the export gives another hierarchy (members, taxa or duplications differ)')
                except Exception as e:  # noqa
                    bad.append('re-loading the export fails: %s' % type(e).__name__)
            # the page
            fields = None
            try:
                vis = ham.create_iHam(h)
                html = vis.HTML
                fields = page_fields(html)
                if fields is None:
                    bad.append('iHam page: the tree / orthoxml / fam_data values are not where the viewer reads them')
                if text not in html:
                    bad.append('iHam page does not embed the exported orthoXML')
                if ham.taxonomy.get_newick_from_tree(h.genome.taxon) not in html:
                    bad.append('iHam page does not embed the species subtree')
                fam = json.loads(vis.famdata)
                if sorted(str(r['id']) for r in fam) != members:
                    bad.append('iHam page does not have one record per member gene')
            except Exception as e:  # noqa
                bad.append('building the iHam page fails: %s' % type(e).__name__)
            if bad:
                key = None
                if 're-loading' in bad[0]:
                    key = 'F5-export-elision'
                ctx.violation(bad[0], dict(payload, failures=bad[:10], exported=text[:3000]), finding_key=key)
                continue
            # correspondence
            try:
                m_species = sorted((str(sp[0]), tuple(sorted(str(g[1]) for g in sp[1:]))) for sp in mrep[1][1:])
                m_groups = canon_items(sx_items(mrep[2][1:]))
                i_species = sorted((sp, tuple(sorted(g['id'] for g in gs))) for sp, gs in species)
                if m_species != i_species or m_groups != canon_items(groups):
                    ctx.violation('exporter layer: model and implementation disagree; props/C12.v no longer tied to the code',
                                  dict(payload, layer='exporter', exported=text[:3000], model=repr(m_groups)[:2000]), no_input=True)
                else:
                    ctx.counts['exporter_layer_agree'] += 1
            except Exception as e:  # noqa
                ctx.violation('exporter layer: model output unreadable (%s)' % type(e).__name__, dict(payload, layer='exporter'), no_input=True)
            # correspondence, page layer: the three values the real page embeds against Page.iham_page
            try:
                if str(prep[0]) != 'ok':
                    raise ValueError('model: ' + repr(prep))
                m_tree = sx_tree_names(prep[1][0])
                m_sp = sorted((str(sp[0]), tuple(sorted(str(g[1]) for g in sp[1:]))) for sp in prep[1][1][1][1:])
                m_gr = canon_items(sx_items(prep[1][1][2][1:]))
                m_fam = [(str(r_[0]), str(r_[1]), str(r_[2])) for r_ in prep[1][2]]
                p_species, p_groups = parse_exported(fields['orthoxml'])
                i_sp = sorted((sp, tuple(sorted(g['id'] for g in gs))) for sp, gs in p_species)
                i_fam = [(str(r_['taxon']['species']), str(r_['protid']), str(r_['id'])) for r_ in json.loads(fields['fam_data'])]
                i_tree = newick_names(fields['tree'])
                diffs = [n_ for n_, a_, b_ in (('tree', m_tree, i_tree), ('orthoxml species', m_sp, i_sp),
                                              ('orthoxml groups', m_gr, canon_items(p_groups)), ('fam_data', m_fam, i_fam)) if a_ != b_]
                if diffs:
                    ctx.violation('page layer: model and implementation disagree on %s; props/C12.v (c12_page_*) no longer tied to the code' % ', '.join(diffs),
                                  dict(payload, layer='page', page_tree=fields['tree'], page_fam=fields['fam_data'][:1500],
                                       model_tree=repr(m_tree), model_fam=repr(m_fam)[:1500]), no_input=True)
                else:
                    ctx.counts['page_layer_agree'] += 1
            except Exception as e:  # noqa
                ctx.violation('page layer: model output or page unreadable (%s)' % type(e).__name__, dict(payload, layer='page'), no_input=True)


# ------------------------------------------------------------------ configurations (C13)
def phyloxml_text(t, with_clade_name=True):
    def esc(x):
        return x.replace('&', '&amp;').replace('<', '&lt;')
    def go(n, ind):
        pad = ' ' * ind
        s_ = pad + '<clade>\n'
        if with_clade_name:
            s_ += pad + ' <name>%s</name>\n' % esc(n.name)
        s_ += pad + ' <taxonomy><code>%s</code><scientific_name>%s</scientific_name></taxonomy>\n' % (esc(n.name), esc(n.name))
        for c in n.kids:
            s_ += go(c, ind + 1)
        return s_ + pad + '</clade>\n'
    return ('<phyloxml xmlns:xsi="http://www.w3.org/2001/XMLSchema-instance" xmlns="http://www.phyloxml.org" '
            'xsi:schemaLocation="http://www.phyloxml.org http://www.phyloxml.org/1.20/phyloxml.xsd">\n'
            '<phylogeny rooted="true" rerootable="false">\n<name>t</name>\n' + go(t, 0) + '</phylogeny>\n</phyloxml>\n')


def check_C13(ctx):
    import gzip
    cases = [c for c in gen_main(ctx, ctx.scale(60, 500), p_og_attr=0.3) if c.consistent]
    # species trees with unary nodes (names must come from the tree: synthesised names repeat at a unary node)
    unary_cases = [gen.gen_case(ctx.rng, max_leaves=8, unary=True, use_internal=True, p_og_attr=0.3, tag='unary')
                   for _ in range(ctx.scale(20, 150))]
    cases = cases + [c for c in unary_cases if c.consistent]
    work = tempfile.mkdtemp(prefix='c13_', dir=os.path.join(core.VERIF, '.work') if os.path.isdir(os.path.join(core.VERIF, '.work')) else None)
    try:
        for c in cases:
            ctx.record_case(c)
            r0 = impl.load_impl(c)
            if r0[0] != 'ok':
                ctx.violation('consistent input rejected: %s' % r0[1], {'case': case_json(c)})
                continue
            if c.groups and ctx.rng.random() < 0.25 and c.groups[0][0] == 'og':
                # non-ASCII text longer than any read block in the first family (2- and 3-byte characters alternating,
                # so that some character straddles every block boundary whatever the block size)
                g0 = c.groups[0]
                c.groups[0] = ('og', g0[1], g0[2], [('prop', 'comment', '\u00e9\u20ac' * ctx.rng.choice([3000, 5000, 9000]))] + list(g0[3]))
                ctx.dist['long_non_ascii_annotation'] += 1
                r0 = impl.load_impl(c)
                if r0[0] != 'ok':
                    ctx.violation('consistent input rejected: %s' % r0[1], {'case': case_json(c)})
                    continue
            base = signature(r0[1], rng=ctx.rng.__class__(1), deep=True)
            named_ok = all(n.name for n in c.tree.nodes())
            nwf = os.path.join(work, 't.nwk')
            with open(nwf, 'w') as f:
                f.write(c.newick())
            pxf = os.path.join(work, 't.phyloxml')
            with open(pxf, 'w') as f:
                f.write(phyloxml_text(c.tree))
            xf = os.path.join(work, 'd.orthoxml')
            with open(xf, 'w') as f:
                f.write(c.xml())
            xf1 = os.path.join(work, 'd1.orthoxml')
            with open(xf1, 'w') as f:
                f.write(c.xml(one_line=True))
            xgz = os.path.join(work, 'd.orthoxml.gz')
            with gzip.open(xgz, 'wt') as f:
                f.write(c.xml())
            # the same document as a gzip file made of several members (cat a.gz b.gz; RFC 1952): still one document
            xgzm = os.path.join(work, 'dm.orthoxml.gz')
            text_ = c.xml()
            cuts_ = sorted(set([0, len(text_) // 3, 2 * len(text_) // 3, len(text_)]))
            with open(xgzm, 'wb') as f:
                for a_, b_ in zip(cuts_, cuts_[1:]):
                    f.write(gzip.compress(text_[a_:b_].encode('utf-8')))
            no_ids = not any(g[1] is not None for g in c.groups)
            configs = []
            trees = [('newick_string', c.newick(), {}), ('newick', nwf, {})]
            for tag in ('clade_name', 'taxonomy_scientific_name', 'taxonomy_code'):
                if named_ok:      # PhyloXML cannot express a node without name (the unlabelled root of a Newick tree)
                    trees.append(('phyloxml', pxf, {'phyloxml_leaf_name_tag': tag, 'phyloxml_internal_name_tag': tag}))
            xmls = [('string', c.xml(), True), ('string-one-chunk', c.xml(one_line=True), True), ('file', xf, False),
                    ('file-one-line', xf1, False), ('gzip', xgz, False), ('gzip-multi-member', xgzm, False)]
            for tf, tv, tk in trees:
                # synthesised names must be pairwise different (the taxonomy refuses the tree otherwise, F6 / F12:
                # e.g. a leaf 'q/p/p' beside the clade of 'q' and 'p/p'); such a tree is outside the domain for ui = False
                _sn = [n_.name for n_ in gen.synth_names(c.tree).nodes()]
                synth_ok = len(set(_sn)) == len(_sn)
                if not synth_ok:
                    ctx.counts['synthesised_names_ambiguous_outside_domain'] += 1
                for ui in ((True,) if (not synth_ok or any(len(n_.kids) == 1 for n_ in c.tree.nodes())) else (True, False)):
                    for xn, xv, as_str in xmls:
                        for prog in (False, True):
                            configs.append((tf, tv, tk, ui, xn, xv, as_str, prog))
            if ctx.tier != 'thorough':
                configs = ctx.rng.sample(configs, 14)
            for tf, tv, tk, ui, xn, xv, as_str, prog in configs:
                ctx.counts['configurations'] += 1
                ctx.dist['tree=%s' % tf] += 1
                ctx.dist['xml=%s' % xn] += 1
                desc = {'tree_format': tf, 'tags': tk, 'use_internal_name': ui, 'orthoxml': xn, 'progress': prog}
                try:
                    with open(os.devnull, 'w') as dn, __import__('contextlib').redirect_stderr(dn):
                        h = pyham.Ham(tv, xv, use_internal_name=ui, orthoXML_as_string=as_str, tree_format=tf,
                                      with_parser_progress=prog, **tk)
                except Exception as e:  # noqa
                    key = 'F7-progress-without-group-id' if (prog and isinstance(e, AttributeError)) else None
                    ctx.violation('configuration fails to load (%s): %s' % (type(e).__name__, desc),
                                  {'case': case_json(c), 'configuration': desc, 'error': repr(e)[:200]}, finding_key=key)
                    continue
                sg = signature(h, rng=ctx.rng.__class__(1), deep=True)
                df = sig_diff(base, sg)
                if df:
                    ctx.violation('configuration %s gives other %s than the baseline' % (desc, df),
                                  {'case': case_json(c), 'configuration': desc, 'differs': df})
                else:
                    ctx.counts['configurations_agree'] += 1
        # one model evaluation per case: the baseline must agree with the model
        for L in core.load_cases(cases):
            diffs = compare_parser(L)
            if diffs and diffs != ['unmodelled']:
                report_parser_layer(ctx, L, diffs, 'props/C13.v: c13_names_irrelevant')
            else:
                ctx.counts['parser_layer_agree'] += 1
    finally:
        import shutil
        shutil.rmtree(work, ignore_errors=True)


# ------------------------------------------------------------------ rewritings (C14)
def relabel(items, f):
    out = []
    for it in items:
        if it[0] == 'og':
            out.append(('og', f(it[1]) if it[1] is not None else None, f(it[2]) if it[2] is not None else None, relabel(it[3], f)))
        elif it[0] == 'pg':
            out.append(('pg', it[1], relabel(it[2], f)))
        else:
            out.append(it)
    return out


def toggle_labels(items, rng, level_name):
    """remove TaxRange labels on internal levels at random"""
    out = []
    for it in items:
        if it[0] == 'og':
            body = toggle_labels(it[3], rng, level_name)
            wrapper = it[1] is None and it[2] is None and any(x[0] == 'prop' and x[1] == 'TaxRange' for x in body) \
                and sum(1 for x in body if x[0] in ('g', 'og', 'pg')) == 1
            if not wrapper and rng.random() < 0.5:
                body = [x for x in body if not (x[0] == 'prop' and x[1] == 'TaxRange')]
            out.append(('og', it[1], it[2], body))
        elif it[0] == 'pg':
            out.append(('pg', it[1], toggle_labels(it[2], rng, level_name)))
        else:
            out.append(it)
    return out


def check_C14(ctx):
    import subprocess
    nplans = ctx.scale(160, 1000)
    plans = []
    for _ in range(nplans):
        pl = gen.gen_plan(ctx.rng, max_leaves=ctx.rng.choice([4, 8, 10]), dup_heavy='narrow' if ctx.rng.random() < 0.3 else False)
        if pl.hists:
            plans.append(pl)
    hs_cases = []
    # corpus first: pairs of spellings of one input on which seeded changes made the loaded analyses differ
    corpus_file = os.path.join(core.VERIF, 'corpus', 'c14_spelling_pairs.json')
    if FORCED is None and os.path.exists(corpus_file):
        for pair in json.load(open(corpus_file)):
            ca, cb = core.case_unjson(pair['case']), core.case_unjson(pair['other'])
            La, Lb = core.load_cases([ca, cb])
            ctx.record_case(ca)
            ctx.counts['corpus_pairs'] += 1
            if La.impl[0] != 'ok' or Lb.impl[0] != 'ok':
                ctx.violation('a spelling of a consistent input is rejected: %s' % (La.impl if La.impl[0] != 'ok' else Lb.impl)[1],
                              {'case': case_json(ca if La.impl[0] != 'ok' else cb)})
                continue
            df = sig_diff(signature(La.ham, with_profile=False, rng=ctx.rng.__class__(1)),
                          signature(Lb.ham, with_profile=False, rng=ctx.rng.__class__(1)))
            if df:
                ctx.violation('two spellings of one history load differently (%s)' % df,
                              {'case': case_json(ca), 'other': case_json(cb), 'differs': df})
            for L_ in (La, Lb):
                diffs = compare_parser(L_)
                if diffs and diffs != ['unmodelled']:
                    report_parser_layer(ctx, L_, diffs, 'props/C14.v: c14_spelling_independent')
    for pl in plans:
        gids = ['fam%d' % k for k in range(len(pl.hists))]
        variants = []
        for v in range(ctx.scale(8, 10)):
            c = gen.spell_plan(ctx.rng, pl, explicit=(v == 0), group_ids=gids, tag='rewrite', p_annot=0.0)
            if v >= 2 and ctx.rng.random() < 0.5:
                if ctx.rng.random() < 0.4:
                    # number-like ids: pairwise different strings, several of them equal as integers
                    pool = ['1', '01', '001', '1_0', '10', '+1', '0', '00', '-0', '2', '02', '1e1', '1.0', ' 1'][:]
                    ctx.rng.shuffle(pool)
                    ids_ = {}
                    def num(s_, ids_=ids_, pool=pool):
                        if s_ not in ids_:
                            ids_[s_] = pool[len(ids_)] if len(ids_) < len(pool) else 'n' + s_
                        return ids_[s_]
                    f_ = num
                else:
                    f_ = lambda s_: 'r' + s_
                c = gen.Case(c.tree, c.species, relabel(c.groups, f_), c.use_internal,
                             [(f_(i), h) for i, h in c.histories], c.singles, 'rewrite:relabel', c.stats)
            if v >= 2 and ctx.rng.random() < 0.5:
                c = gen.Case(c.tree, c.species, toggle_labels(c.groups, ctx.rng, None), c.use_internal,
                             c.histories, c.singles, c.tag + ':labels', c.stats)
            variants.append(c)
        Ls = core.load_cases(variants)
        sigs = []
        for L in Ls:
            ctx.record_case(L.case)
            if L.impl[0] != 'ok':
                ctx.violation('a spelling of a consistent input is rejected: %s' % L.impl[1], {'case': case_json(L.case)})
                sigs.append(None)
                continue
            sg = signature(L.ham, with_profile=False, rng=ctx.rng.__class__(1))
            sigs.append(sg)
            diffs = compare_parser(L)
            if diffs and diffs != ['unmodelled']:
                report_parser_layer(ctx, L, diffs, 'props/C14.v: c14_spelling_independent')
        ref = next((s_ for s_ in sigs if s_ is not None), None)
        for L, sg in zip(Ls, sigs):
            if sg is None or ref is None:
                continue
            ctx.counts['rewritings'] += 1
            df = sig_diff(ref, sg)
            if df:
                ctx.violation('two spellings of one history load differently (%s)' % df,
                              {'case': case_json(L.case), 'other': case_json(Ls[0].case), 'differs': df})
            else:
                ctx.counts['rewritings_agree'] += 1
        if len(hs_cases) < ctx.scale(40, 300):
            hs_cases.append(variants[-1])
    # hash seed / set iteration order: the same inputs under other PYTHONHASHSEED values
    work = os.path.join(core.VERIF, '.work')
    os.makedirs(work, exist_ok=True)
    fn = os.path.join(work, 'hs_%d.json' % os.getpid())
    with open(fn, 'w') as f:
        json.dump([case_json(c) for c in hs_cases], f)
    outs = {}
    for seed in (['1', '2', '3'] if ctx.tier == 'thorough' else ['1', '7']):
        env = dict(os.environ, PYTHONHASHSEED=seed, PYTHONPATH=impl.REPO)
        p = subprocess.run([os.sys.executable, os.path.join(os.path.dirname(os.path.abspath(__file__)), 'hashseed_worker.py'), fn],
                           env=env, stdout=subprocess.PIPE, stderr=subprocess.PIPE)
        outs[seed] = p.stdout.decode().split('\n')
    os.remove(fn)
    mine = []
    for c in hs_cases:
        r = impl.load_impl(c)
        mine.append(repr(sorted(signature(r[1], rng=__import__('random').Random(1)).items())) if r[0] == 'ok' else 'err')
    import hashlib
    for k, c in enumerate(hs_cases):
        dg = hashlib.md5(mine[k].encode()).hexdigest()
        for seed, lines in outs.items():
            ctx.counts['hash_seed_runs'] += 1
            if k >= len(lines) or lines[k].strip() != dg:
                ctx.violation('results depend on the hash seed (PYTHONHASHSEED=%s)' % seed, {'case': case_json(c), 'seed': seed})


# ------------------------------------------------------------------ call histories (C17)
class Session(object):
    """one loaded analysis with id-free naming of its objects"""

    def __init__(self, case, phyloxml=None):
        r = impl.load_impl(case, newick=phyloxml, tree_format='phyloxml') if phyloxml else impl.load_impl(case)
        assert r[0] == 'ok', r
        self.ham = r[1]
        self.refresh()

    def refresh(self):
        self.d = impl.Dump(self.ham)
        self.keys = obj_keys(self.d)
        self.by_key = {}
        for rf, k in self.keys.items():
            self.by_key[k] = self.ham.extant_gene_map[rf[1]] if rf[0] == 'g' else self.d.obj[rf[1]]

    def K(self, x):
        return self.keys.get(self.d.ref(x), ('unknown', repr(x)))

    def genome(self, p):
        return self.d.genome_at[p]

    def core(self):
        d = impl.Dump(self.ham)
        keys = obj_keys(d)
        return {'forest': sorted(impl.canon_hog(h, True) for h in d.top_sx),
                'singles': sorted(str(x[1]) for x in d.single_sx),
                'anomalies': list(d.anomalies),
                'genomes': sorted((p, sorted(keys.get(d.ref(x), ('?', repr(x))) for x in g.genes))
                                  for p, g in d.genome_at.items() if g.genes),
                'genes': sorted(self.ham.extant_gene_map.keys()),
                'tops': sorted(self.ham.top_level_hogs.keys())}

    def empty_genomes(self):
        d = impl.Dump(self.ham)
        return {p: type(g).__name__ for p, g in d.genome_at.items() if not g.genes}


def run_op(S, op):
    """execute one public analysis call; the result in id-free form"""
    ham, K = S.ham, S.K
    k = op[0]
    try:
        if k == 'vertical':
            m = ham.compare_genomes_vertically(S.genome(op[1]), S.genome(op[2]))
            return ('ok', S.d.path[m.ancestor.taxon], sorted(K(x) for x in m.get_gained()),
                    sorted((K(a), K(b)) for a, b in m.get_retained().items()),
                    sorted((K(a), tuple(sorted(K(b) for b in bs))) for a, bs in m.get_duplicated().items()),
                    sorted(K(x) for x in m.get_lost()), m.get_number_duplications())
        if k == 'lateral':
            m = ham.compare_genomes_lateral(S.genome(op[1]), S.genome(op[2]))
            P_ = lambda g: S.d.path[g.taxon] if g.taxon in S.d.path else impl.node_path(g.taxon)
            return ('ok', P_(m.ancestor),
                    sorted((K(a), tuple(sorted(P_(g) for g in gs))) for a, gs in m.get_lost().items()),
                    sorted((P_(g), tuple(sorted(K(x) for x in xs))) for g, xs in m.get_gained().items()),
                    sorted((K(a), tuple(sorted((P_(g), K(x)) for g, x in v.items()))) for a, v in m.get_retained().items()),
                    sorted((K(a), tuple(sorted((P_(g), tuple(sorted(K(x) for x in xs))) for g, xs in v.items())))
                           for a, v in m.get_duplicated().items()))
        if k == 'profile_full':
            tab = treemap_table(ham.create_tree_profile().treemap)
            return ('ok', sorted((p, nbr, tuple(sorted(f.items(), key=str))) for p, (nbr, f, _) in tab.items()))
        if k == 'profile_hog':
            h = S.by_key[op[1]]
            tm = ham.create_tree_profile(hog=h).treemap
            return ('ok', sorted((impl.node_path(n), n.nbr_genes, n.dupl, n.lost, n.retained, n.duplication) for n in tm.traverse()))
        if k == 'iham':
            h = S.by_key[op[1]]
            vis = ham.create_iHam(h)
            sp, gr = corpus.parse_orthoxml(vis.orthoxml.get_orthoxml_str())
            return ('ok', canon_items(relabel(gr, lambda s_: 'id')), sorted((n, tuple(sorted(g['id'] for g in gs))) for n, gs in sp),
                    vis.newick_str, sorted(str(r_['id']) for r_ in json.loads(vis.famdata)))
        if k == 'clustering':
            ac = S.genome(op[1]).get_ancestral_clustering()
            return ('ok', sorted((K(h), tuple(sorted(g.unique_id for g in gs))) for h, gs in ac.items()))
        if k == 'nav':
            h = S.by_key[op[1]]
            return ('ok', sorted(g.unique_id for g in h.get_all_descendant_genes()),
                    sorted(K(x) for x in h.get_all_descendant_hogs()), K(h.get_top_level_hog()),
                    sorted((S.d.path[sp.taxon], tuple(sorted(g.unique_id for g in gs)))
                           for sp, gs in h.get_all_descendant_genes_clustered_by_species().items()))
        if k == 'at_level':
            return ('ok', sorted(K(x) for x in S.by_key[op[1]].get_at_level(S.genome(op[2]))))
        if k == 'listings':
            return ('ok', sorted(K(x) for x in ham.get_list_top_level_hogs()), sorted(g.unique_id for g in ham.get_list_extant_genes()),
                    sorted(impl.node_path(g.taxon) for g in ham.get_list_ancestral_genomes() if g.genes),
                    sorted(impl.node_path(g.taxon) for g in ham.get_list_extant_genomes() if g.genes))
        if k == 'extant_listing':
            return ('ok', sorted(impl.node_path(g.taxon) for g in ham.get_list_extant_genomes()))
        if k == 'lookups':
            g = ham.get_gene_by_id(op[1])
            return ('ok', g.unique_id, K(ham.get_hog_by_gene(g)), sorted(g.get_dict_xref().items()))
        if k == 'number_genes':
            return ('ok', S.genome(op[1]).get_number_genes())
    except Exception as e:  # noqa
        return ('err', type(e).__name__)
    return ('err', 'bad-op')


def gen_ops(ctx, S, n):
    gs = sorted(p for p, g in S.d.genome_at.items() if g.genes)
    ancs = [p for p in gs if p in S.d.internals]
    hogs = sorted((k for k in S.by_key if k[0] == 'h'), key=repr)
    members = sorted(S.by_key.keys(), key=repr)
    genes = sorted(S.ham.extant_gene_map.keys())
    # a focus lineage: most comparisons re-use a few genomes on one root-to-leaf path, so that caches
    # keyed too coarsely (by one genome, by the descendant only, ...) collide
    focus = []
    if gs:
        deepest = ctx.rng.choice([p for p in gs if len(p) == max(len(q) for q in gs)] + gs[-2:])
        focus = [p for p in gs if is_anc(p, deepest) or p == deepest]
        focus += ctx.rng.sample(gs, min(2, len(gs)))

    def pair():
        pool = focus if (len(set(focus)) >= 2 and ctx.rng.random() < 0.7) else gs
        a, b = ctx.rng.sample(sorted(set(pool)), 2)
        return a, b
    ops = []
    for _ in range(n):
        r = ctx.rng.random()
        if r < 0.2 and len(gs) >= 2:
            a, b = pair()
            ops.append(('vertical', a, b))
        elif r < 0.4 and len(gs) >= 2:
            a, b = pair()
            ops.append(('lateral', a, b))
        elif r < 0.45:
            ops.append(('profile_full',))
        elif r < 0.55 and hogs:
            ops.append(('profile_hog', ctx.rng.choice(hogs)))
        elif r < 0.63 and hogs:
            ops.append(('iham', ctx.rng.choice(hogs)))
        elif r < 0.7 and ancs:
            ops.append(('clustering', ctx.rng.choice(ancs)))
        elif r < 0.78 and hogs:
            ops.append(('nav', ctx.rng.choice(hogs)))
        elif r < 0.86 and members and gs:
            ops.append(('at_level', ctx.rng.choice(members), ctx.rng.choice(gs)))
        elif r < 0.9:
            ops.append(('listings',))
        elif r < 0.93:
            ops.append(('extant_listing',))
        elif r < 0.97 and genes:
            ops.append(('lookups', ctx.rng.choice(genes)))
        elif gs:
            ops.append(('number_genes', ctx.rng.choice(gs)))
    return ops


def session_op_sx(X, op):
    """the operations the session model knows (listings and lookups by id are not calls of the session machine)"""
    if op[0] in ('vertical', 'lateral'):
        return [op[0], list(op[1]), list(op[2])]
    if op[0] == 'profile_full':
        return ['profile_full']
    if op[0] == 'clustering':
        return ['clustering', list(op[1])]
    if op[0] in ('iham', 'profile_hog', 'nav'):
        h = X.by_key[op[1]]
        return [op[0], X.d.oid_of(h)]
    if op[0] == 'at_level':
        return ['at_level', X.d.ref_sx(X.by_key[op[1]]), list(op[2])]
    return None


def check_C17(ctx):
    cases = [c for c in gen_main(ctx, ctx.scale(60, 500)) if c.consistent]
    session_jobs = []
    work17 = tempfile.mkdtemp(prefix='c17_', dir=os.path.join(core.VERIF, '.work') if os.path.isdir(os.path.join(core.VERIF, '.work')) else None)
    try:
        return check_C17_body(ctx, cases, session_jobs, work17)
    finally:
        import shutil
        shutil.rmtree(work17, ignore_errors=True)


def check_C17_body(ctx, cases, session_jobs, work17):
    for c in cases:
        ctx.record_case(c)
        if impl.load_impl(c)[0] != 'ok':
            continue
        # a quarter of the histories run on analyses whose species tree was supplied as PhyloXML
        px = None
        if ctx.rng.random() < 0.25 and all(n.name for n in c.tree.nodes()):
            px = os.path.join(work17, 't%d.phyloxml' % len(session_jobs))
            with open(px, 'w') as f_:
                f_.write(phyloxml_text(c.tree))
            try:
                Session(c, px)
                ctx.dist['tree=phyloxml'] += 1
            except AssertionError:
                px = None
        X, Y = Session(c, px), Session(c, px)
        declared = set(n for n, _ in c.species)
        undeclared = set(n.path for n in c.named_tree().leaves() if n.name not in declared)
        if undeclared:
            ctx.dist['with_species_without_genes'] += 1
        before = X.core()
        empty_before = X.empty_genomes()
        # every lookup by name once before the history (whatever they memoise is stale at the end, where the
        # session layer looks every name up again)
        for S_ in (X, Y):
            for nd_ in S_.ham.taxonomy.tree.traverse():
                for fn_ in (S_.ham.get_ancestral_genome_by_name, S_.ham.get_extant_genome_by_name, S_.ham.get_taxon_by_name):
                    try:
                        fn_(nd_.name)
                    except KeyError:
                        pass
        ops = gen_ops(ctx, X, ctx.scale(40, 150))
        x_ops = []
        genomes_at_load = sorted(X.d.genome_at.keys())
        forest_at_load = X.d.forest_sx()
        tree_sx = X.d.named_tree_sx()
        for i, op in enumerate(ops):
            ctx.counts['ops'] += 1
            ctx.dist['op=' + op[0]] += 1
            S = X if ctx.rng.random() < 0.7 else Y
            if S is X:
                x_ops.append(op)
            got = run_op(S, op)
            fresh = run_op(Session(c, px), op)
            if got != fresh:
                key = None
                if op[0] == 'extant_listing' and got[0] == 'ok' and fresh[0] == 'ok' and set(fresh[1]) <= set(got[1]) \
                        and all(p in undeclared for p in set(got[1]) - set(fresh[1])):
                    key = 'F8-extant-genome-for-undeclared-species'
                ctx.violation('%s returns another result after %d earlier calls than on a fresh analysis' % (op[0], i),
                              {'case': dict(case_json(c), tree_format='phyloxml' if px else 'newick'), 'ops': [list(map(str, o)) for o in ops[:i + 1]], 'op': list(map(str, op)),
                               'after_history': repr(got)[:800], 'fresh': repr(fresh)[:800]}, finding_key=key)
                break
        session_jobs.append((c, X, tree_sx, forest_at_load, genomes_at_load, x_ops))
        after = X.core()
        if after != before:
            ctx.violation('analysis calls changed the loaded data (%s)' % sig_diff(before, after),
                          {'case': dict(case_json(c), tree_format='phyloxml' if px else 'newick'), 'ops': [list(map(str, o)) for o in ops], 'differs': sig_diff(before, after)})
        else:
            ctx.counts['core_unchanged'] += 1
        new = {p: k for p, k in X.empty_genomes().items() if p not in empty_before}
        for p, kind in new.items():
            if kind != 'AncestralGenome':
                ctx.violation('an empty %s appeared at %s after analysis calls' % (kind, list(p)),
                              {'case': dict(case_json(c), tree_format='phyloxml' if px else 'newick'), 'ops': [list(map(str, o)) for o in ops], 'node': p},
                              finding_key='F8-extant-genome-for-undeclared-species' if p in undeclared else None)
    # session layer: the genomes that exist after the history, model vs implementation
    reqs = []
    for c, X, tree_sx, fsx, gs, x_ops in session_jobs:
        mops = [m for m in (session_op_sx(X, op) for op in x_ops) if m is not None]
        reqs.append(['session', tree_sx, fsx, ['genomes'] + [list(p) for p in gs], ['ops'] + mops])
    for (c, X, tree_sx, fsx, gs, x_ops), rep in zip(session_jobs, model.run_requests(reqs, chunk=50)):
        X.d._genomes()
        impl_g = sorted(X.d.genome_at.keys())
        model_g = sorted(P(p) for p in rep[0][1:])
        # vertical comparisons that raise (same genome twice, off-lineage) create nothing on either side
        # ... and the two public listings (order is not part of the result: they are built from sets)
        impl_ext = sorted(X.d.path[g.taxon] for g in X.ham.get_list_extant_genomes())
        impl_anc = sorted(X.d.path[g.taxon] for g in X.ham.get_list_ancestral_genomes())
        model_ext = sorted(P(p) for p in rep[2][1:])
        model_anc = sorted(P(p) for p in rep[3][1:])
        # ... and the lookups by name of every node name, on the state the history left behind
        byname_diff = None
        for ent in rep[4][1:]:
            nme = str(ent[0])
            want_a = P(ent[1][1]) if str(ent[1][0]) == 'ok' else 'KeyError'
            want_e = P(ent[2][1]) if str(ent[2][0]) == 'ok' else 'KeyError'
            try:
                got_a = X.d.path[X.ham.get_ancestral_genome_by_name(nme).taxon]
            except KeyError:
                got_a = 'KeyError'
            try:
                got_e = X.d.path[X.ham.get_extant_genome_by_name(nme).taxon]
            except KeyError:
                got_e = 'KeyError'
            if (got_a, got_e) != (want_a, want_e):
                byname_diff = {'name': nme, 'impl': [got_a, got_e], 'model': [want_a, want_e]}
                break
        if impl_g == model_g and impl_ext == model_ext and impl_anc == model_anc and byname_diff:
            ctx.violation('session layer: genome lookup by name after the call history differs between model and implementation; '
                          'props/C15.v: c15_genome_lookups_after_any_history no longer tied to the code',
                          {'case': case_json(c), 'ops': [list(map(str, o)) for o in x_ops], 'lookup': byname_diff, 'layer': 'session'},
                          no_input=True)
            continue
        if impl_g == model_g and (impl_ext != model_ext or impl_anc != model_anc):
            ctx.violation('session layer: get_list_extant_genomes / get_list_ancestral_genomes after the call history differ between '
                          'model and implementation; props/C17.v: c17_extant_listing_unchanged no longer tied to the code',
                          {'case': case_json(c), 'ops': [list(map(str, o)) for o in x_ops], 'impl_extant': impl_ext,
                           'model_extant': model_ext, 'impl_ancestral': impl_anc, 'model_ancestral': model_anc, 'layer': 'session'},
                          no_input=True)
            continue
        if impl_g != model_g:
            ctx.violation('session layer: genomes existing after the call history differ between model and implementation; '
                          'props/C17.v: c17_genomes_only_grow no longer tied to the code',
                          {'case': case_json(c), 'ops': [list(map(str, o)) for o in x_ops], 'impl': impl_g, 'model': model_g,
                           'layer': 'session'}, no_input=True)
        else:
            ctx.counts['session_layer_agree'] += 1
    for L in core.load_cases(cases):
        diffs = compare_parser(L)
        if diffs and diffs != ['unmodelled']:
            report_parser_layer(ctx, L, diffs, 'props/C17.v: c17_history_independent')
        else:
            ctx.counts['parser_layer_agree'] += 1


def replay(ctx, rp):
    """re-run the property's check on exactly the recorded case"""
    global FORCED
    FORCED = [core.case_unjson(rp['case'])]
    ctx.notes.append('replay of %s' % rp.get('what', ''))
    CHECKS[ctx.prop](ctx)


def shrunk(ctx, L, fails):
    """smallest sub-case (families deleted) on which `fails` still holds"""
    try:
        return core.shrink_case(L.case, fails)
    except Exception:  # noqa
        return L.case


def wf_fails(case):
    L = core.load_cases([case])[0]
    if L.impl[0] != 'ok':
        return False
    w = analyze([L], lambda L: [['wf']])[0]
    return bool(L.dump.anomalies) or w is None or str(w[0]) != '1'


CHECKS = {}
for _k, _v in list(globals().items()):
    if _k.startswith('check_C'):
        CHECKS[_k[6:]] = _v
