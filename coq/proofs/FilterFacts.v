(* FilterFacts.v — which families a filter selects (C11): the selection of a family depends on the
   family, the filter and the species section only - not on its position in the file. *)
From Coq Require Import List Arith Bool String Lia Permutation.
From PyHam Require Import Tax Ortho Loader Filter.
From PyHam.proofs Require Import TaxFacts MapperFacts ForestFacts LoaderFacts.
Import ListNotations.

Lemma mem_str_in s l : mem_str s l = true <-> In s l.
Proof.
  unfold mem_str. rewrite existsb_exists. split.
  - intros (y & Hy & E). apply String.eqb_eq in E. now subst.
  - intros H. exists s. split; auto. apply String.eqb_refl.
Qed.

Lemma mem_str_app s a b : mem_str s (a ++ b) = mem_str s a || mem_str s b.
Proof. unfold mem_str. apply existsb_app. Qed.

(* genes selected directly by the filter (internal ids and cross-reference values) *)
Definition direct_genes (f : pfilter) (d : doc) : list string :=
  flat_map (fun sp => map gd_id (filter (gene_selected f) (sp_genes sp))) (d_species d).

(* is this top-level group selected? *)
Definition selected (f : pfilter) (direct : list string) (it : item) : bool :=
  match it with
  | IOG (Some i) _ body => mem_str i (pf_hogs f) || existsb (fun g => mem_str g direct) (flat_map refs_of body)
  | _ => false
  end.

Definition group_id (it : item) : list string := match it with IOG (Some i) _ _ => [i] | _ => [] end.
Definition is_idd_group (it : item) : Prop := exists i og body, it = IOG (Some i) og body.

Lemma existsb_disjoint direct acc refs :
  (forall g, In g refs -> ~ In g acc) ->
  existsb (fun g => mem_str g (direct ++ acc)) refs = existsb (fun g => mem_str g direct) refs.
Proof.
  intros H. induction refs as [|g r IH]; simpl; [reflexivity|]. rewrite mem_str_app.
  assert (E : mem_str g acc = false).
  { destruct (mem_str g acc) eqn:E; auto. apply mem_str_in in E. exfalso. apply (H g); [left; reflexivity|exact E]. }
  rewrite E, orb_false_r. f_equal. apply IH. intros g' Hg'. apply H. right. exact Hg'.
Qed.

Lemma nodup_app_r {X} (a b : list X) : NoDup (a ++ b) -> NoDup b.
Proof. induction a as [|x r IH]; simpl; intros H; [exact H|]. inversion H; auto. Qed.

Theorem pass1_groups_spec f direct gs : forall acc hogs,
  Forall is_idd_group gs -> NoDup (flat_map refs_of gs) ->
  (forall g, In g (flat_map refs_of gs) -> ~ In g acc) ->
  pass1_groups f gs (direct ++ acc) hogs =
    Ok (direct ++ acc ++ flat_map refs_of (filter (selected f direct) gs),
        hogs ++ flat_map group_id (filter (selected f direct) gs)).
Proof.
  induction gs as [|it r IH]; intros acc hogs Hall Hn Hd.
  - simpl. rewrite !app_nil_r. reflexivity.
  - inversion Hall as [|? ? (i & og & body & ->) Hr]; subst. cbn [pass1_groups].
    simpl in Hn, Hd. fold (flat_map refs_of body) in *.
    assert (Hdis : forall g, In g (flat_map refs_of body) -> ~ In g acc).
    { intros g Hg. apply Hd. apply in_or_app. left. exact Hg. }
    cbn [refs_of] in *.
    rewrite (existsb_disjoint direct acc _ Hdis).
    cbn [filter selected].
    destruct (mem_str i (pf_hogs f) || existsb (fun g => mem_str g direct) (flat_map refs_of body)) eqn:E.
    + rewrite <- app_assoc. rewrite (IH (acc ++ flat_map refs_of body) (hogs ++ [i]) Hr).
      * cbn [flat_map refs_of group_id]. rewrite <- !app_assoc. reflexivity.
      * apply nodup_app_r in Hn. exact Hn.
      * intros g Hg Hin. apply in_app_or in Hin as [Hin|Hin].
        -- apply (Hd g); [apply in_or_app; right; exact Hg|exact Hin].
        -- clear - Hn Hg Hin. induction (flat_map refs_of body) as [|x l IHl]; [contradiction|].
           simpl in Hn. inversion Hn as [|? ? Hx Hl]; subst. destruct Hin as [->|Hin].
           ++ apply Hx. apply in_or_app. right. exact Hg.
           ++ apply IHl; auto.
    + apply (IH acc hogs Hr).
      * apply nodup_app_r in Hn. exact Hn.
      * intros g Hg. apply Hd. apply in_or_app. right. exact Hg.
Qed.

Theorem pass1_spec f d :
  Forall is_idd_group (d_groups d) -> NoDup (flat_map refs_of (d_groups d)) ->
  pass1 f d = Ok (direct_genes f d ++ flat_map refs_of (filter (selected f (direct_genes f d)) (d_groups d)),
                  flat_map group_id (filter (selected f (direct_genes f d)) (d_groups d))).
Proof.
  intros Hall Hn. unfold pass1. fold (direct_genes f d).
  pose proof (pass1_groups_spec f (direct_genes f d) (d_groups d) [] [] Hall Hn (fun g _ H => H)) as H.
  rewrite app_nil_r in H. rewrite H. reflexivity.
Qed.

Lemma ExportFacts_filter_perm {X} (f : X -> bool) l l' : Permutation l l' -> Permutation (filter f l) (filter f l').
Proof.
  induction 1 as [| x l l' H IH | x y l | l l' l'' H1 IH1 H2 IH2]; simpl.
  - constructor.
  - destruct (f x); [constructor|]; exact IH.
  - destruct (f x), (f y); try apply Permutation_refl. apply perm_swap.
  - eapply Permutation_trans; eauto.
Qed.

(* position independence: permuting the groups permutes the selection *)
Theorem selection_position_independent f direct gs gs' :
  Permutation gs gs' ->
  Permutation (flat_map group_id (filter (selected f direct) gs)) (flat_map group_id (filter (selected f direct) gs')).
Proof. intros H. apply Permutation_flat_map. apply ExportFacts_filter_perm. exact H. Qed.
