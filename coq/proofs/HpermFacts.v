(* HpermFacts.v — `matches` does not depend on the order in which a history lists its lineages, the copies
   of a duplication or, recursively, the members (C14: re-ordering rewritings). *)
From Coq Require Import List Arith Bool String Lia Permutation.
From PyHam Require Import Tax Ortho Loader Mapper Preds Hist.
From PyHam.proofs Require Import TaxFacts MapperFacts ForestFacts LoaderFacts ExplicitFacts SpellFacts.
Import ListNotations.

Definition relL (l : list hist) (g : option nat * list hog) : Prop :=
  (match l with [_] => fst g = None | _ => fst g <> None end) /\ Forall2 matches l (snd g).

Lemma relm_Forall2 l cs : relm l cs <-> Forall2 matches l cs.
Proof.
  revert cs. induction l as [|m mr IH]; intros [|y yr]; simpl.
  - split; [constructor|trivial].
  - split; [contradiction|intros H; inversion H].
  - split; [contradiction|intros H; inversion H].
  - split.
    + intros [H1 H2]. constructor; [exact H1|apply IH; exact H2].
    + intros H. inversion H; subst. split; [assumption|apply IH; assumption].
Qed.

Lemma rel_Forall2 ls gs : rel ls gs <-> Forall2 relL ls gs.
Proof.
  revert gs. induction ls as [|l lr IH]; intros [|[f cs] gr]; simpl.
  - split; [constructor|trivial].
  - split; [contradiction|intros H; inversion H].
  - split; [contradiction|intros H; inversion H].
  - split.
    + intros (Hf & Hm & Hr). constructor; [split; [exact Hf|apply relm_Forall2; exact Hm]|apply IH; exact Hr].
    + intros H. inversion H as [|? ? ? ? [Hf Hm] Hr]; subst. simpl in *.
      split; [exact Hf|]. split; [apply relm_Forall2; exact Hm|apply IH; exact Hr].
Qed.

Lemma gkids_perm gs gs' : Permutation gs gs' -> Permutation (gkids gs) (gkids gs').
Proof. intros H. unfold gkids. apply Permutation_flat_map. exact H. Qed.
Lemma gflags_perm gs gs' : Permutation gs gs' -> Permutation (gflags gs) (gflags gs').
Proof. intros H. unfold gflags. apply Permutation_flat_map. exact H. Qed.

Lemma matches_XH p lins x :
  matches (XH p lins) x <->
  exists o m ks, x = HHog o p m ks /\ exists groups,
    Permutation ks (gkids groups) /\ List.length groups = List.length lins /\ NoDup (gflags groups) /\ Forall2 relL lins groups.
Proof.
  destruct x as [g q|o q m ks]; cbn [matches].
  - split; [contradiction|]. intros (o & m & ks & E & _). discriminate.
  - split.
    + intros (-> & groups & HP & HL & HN & HR). exists o, m, ks. split; [reflexivity|]. exists groups.
      split; [exact HP|]. split; [exact HL|]. split; [exact HN|]. apply rel_Forall2. exact HR.
    + intros (o' & m' & ks' & E & groups & HP & HL & HN & HR). inversion E; subst. split; [reflexivity|].
      exists groups. split; [exact HP|]. split; [exact HL|]. split; [exact HN|]. apply rel_Forall2. exact HR.
Qed.

Lemma Forall2_app_inv_l' {X Y} (R : X -> Y -> Prop) l1 x l2 l' :
  Forall2 R (l1 ++ x :: l2) l' -> exists l1' y l2', l' = l1' ++ y :: l2' /\ Forall2 R l1 l1' /\ R x y /\ Forall2 R l2 l2'.
Proof.
  intros H. apply Forall2_app_inv_l in H as (l1' & r & H1 & H2 & ->). inversion H2 as [|? y ? l2' Hxy Hr]; subst.
  exists l1', y, l2'. auto.
Qed.

Lemma shape_perm (l l' : list hist) (f : option nat) :
  Permutation l l' -> (match l with [_] => f = None | _ => f <> None end) -> (match l' with [_] => f = None | _ => f <> None end).
Proof.
  intros HP H. pose proof (Permutation_length HP) as HL.
  destruct l as [|a [|b r]], l' as [|a' [|b' r']]; simpl in HL; try lia; auto.
Qed.

Lemma shape_same_length (l l' : list hist) (f : option nat) :
  List.length l = List.length l' -> (match l with [_] => f = None | _ => f <> None end) -> (match l' with [_] => f = None | _ => f <> None end).
Proof. intros HL H. destruct l as [|a [|b r]], l' as [|a' [|b' r']]; simpl in HL; try lia; auto. Qed.

Theorem matches_hperm h h' : hperm h h' -> forall x, matches h x -> matches h' x.
Proof.
  induction 1 as [h|a b c H1 IH1 H2 IH2|p l l' HP|p pre cs cs' post HP|p pre cpre c c' cpost post Hc IH]; intros x Hm.
  - exact Hm.
  - auto.
  - apply matches_XH in Hm as (o & m & ks & -> & groups & HK & HL & HN & HR). apply matches_XH. exists o, m, ks. split; [reflexivity|].
    destruct (Forall2_perm_l _ _ _ _ HR HP) as (groups' & PG & HR'). exists groups'.
    split; [eapply Permutation_trans; [exact HK|apply gkids_perm; exact PG]|].
    split; [rewrite <- (Permutation_length PG), <- (Permutation_length HP); exact HL|].
    split; [eapply Permutation_NoDup; [apply gflags_perm; exact PG|exact HN]|exact HR'].
  - apply matches_XH in Hm as (o & m & ks & -> & groups & HK & HL & HN & HR). apply matches_XH. exists o, m, ks. split; [reflexivity|].
    apply Forall2_app_inv_l' in HR as (gpre & [f ys] & gpost & -> & Hpre & [Hf Hys] & Hpost). cbn [fst snd] in *.
    destruct (Forall2_perm_l _ _ _ _ Hys HP) as (ys' & PY & Hys').
    exists (gpre ++ (f, ys') :: gpost).
    split.
    { eapply Permutation_trans; [exact HK|]. rewrite !gkids_app, !gkids_cons. apply Permutation_app_head. apply Permutation_app_tail.
      apply Permutation_map. exact PY. }
    split; [rewrite !app_length in *; simpl in *; exact HL|].
    split; [unfold gflags in *; rewrite flat_map_app in *; simpl in *; exact HN|].
    apply Forall2_app; [exact Hpre|]. constructor; [|exact Hpost]. split; [eapply shape_perm; eauto|exact Hys'].
  - apply matches_XH in Hm as (o & m & ks & -> & groups & HK & HL & HN & HR). apply matches_XH. exists o, m, ks. split; [reflexivity|].
    apply Forall2_app_inv_l' in HR as (gpre & [f ys] & gpost & -> & Hpre & [Hf Hys] & Hpost). cbn [fst snd] in *.
    apply Forall2_app_inv_l' in Hys as (ypre & y & ypost & -> & Hcpre & Hcy & Hcpost).
    exists (gpre ++ (f, ypre ++ y :: ypost) :: gpost).
    split; [exact HK|]. split; [rewrite !app_length in *; simpl in *; exact HL|]. split; [exact HN|].
    apply Forall2_app; [exact Hpre|]. constructor; [|exact Hpost]. split.
    + eapply shape_same_length; [|exact Hf]. rewrite !app_length. reflexivity.
    + cbn [snd]. apply Forall2_app; [exact Hcpre|]. constructor; [apply IH; exact Hcy|exact Hcpost].
Qed.

Lemma hperm_sym h h' : hperm h h' -> hperm h' h.
Proof.
  induction 1 as [h|a b c H1 IH1 H2 IH2|p l l' HP|p pre cs cs' post HP|p pre cpre c c' cpost post Hc IH].
  - constructor.
  - eapply hp_trans; eauto.
  - apply hp_lins. apply Permutation_sym. exact HP.
  - apply hp_copies. apply Permutation_sym. exact HP.
  - apply hp_member. exact IH.
Qed.

(* two files that list the members of the same history in different orders load to hierarchies that match
   one and the same (ordered) history *)
Theorem reordered_same h h' x x' : hperm h h' -> matches h x -> matches h' x' -> matches h x /\ matches h x'.
Proof. intros Hp Hx Hx'. split; [exact Hx|]. eapply matches_hperm; [apply hperm_sym; exact Hp|exact Hx']. Qed.
