(* PageFacts.v — the iHam page of a loaded HOG: it is always built, embeds the exported orthoXML and the species
   subtree below the HOG's taxon, and has exactly one record per member gene, each under the species the
   exported document declares that gene in. *)
From Coq Require Import List Arith Bool String Permutation.
From PyHam Require Import Tax Ortho Loader Mapper Preds Nav Export Page.
From PyHam.proofs Require Import TaxFacts MapperFacts NavFacts ExportFacts.
Import ListNotations.

Theorem page_built t protid o p m ks :
  wf_node t (HHog o p m ks) = true -> exists pg, iham_page t protid (HHog o p m ks) = Ok pg.
Proof.
  intros Hwf. apply wf_node_inv in Hwf as (Hv & _). unfold valid in Hv. cbn [iham_page].
  destruct (sub t p) as [s|]; [eauto|discriminate].
Qed.

Theorem page_embeds t protid h pg :
  iham_page t protid h = Ok pg ->
  pg_doc pg = export_doc t protid h /\ sub t (htax h) = Some (pg_tree pg) /\ pg_fam pg = fam_data t protid h.
Proof.
  destruct h as [g q|o p m ks]; cbn [iham_page]; [discriminate|].
  destruct (sub t p) as [s|] eqn:Es; [|discriminate]. intros H. inversion H; subst pg. cbn. auto.
Qed.

(* one record per member gene, in the order of get_all_descendant_genes *)
Lemma fam_ids t protid h : map fr_id (fam_data t protid h) = genes_of h.
Proof. unfold fam_data. rewrite map_map. cbn [fr_id]. apply gene_nodes_genes. Qed.

Lemma fam_protids t protid h : map fr_protid (fam_data t protid h) = map protid (genes_of h).
Proof. unfold fam_data. rewrite map_map. cbn [fr_protid]. rewrite <- gene_nodes_genes, map_map. reflexivity. Qed.

Theorem page_records t protid h pg :
  iham_page t protid h = Ok pg ->
  map fr_id (pg_fam pg) = genes_of h /\ map fr_protid (pg_fam pg) = map protid (genes_of h) /\
  List.length (pg_fam pg) = List.length (genes_of h).
Proof.
  intros H. apply page_embeds in H as (_ & _ & ->). rewrite fam_ids, fam_protids. repeat split.
  rewrite <- (fam_ids t protid h). rewrite map_length. reflexivity.
Qed.

(* every record names the species under which the exported document declares its gene, with the same protId *)
Theorem page_record_declared t protid h r :
  In r (fam_data t protid h) ->
  exists sp, In sp (export_species t protid h) /\ sp_name sp = fr_species r /\
             In {| gd_id := fr_id r; gd_xrefs := [("protId"%string, fr_protid r)] |} (sp_genes sp).
Proof.
  unfold fam_data. intros H. apply in_map_iff in H as ([g q] & <- & Hin). cbn [fst snd fr_species fr_id fr_protid].
  pose proof (genes_by_species_spec h) as Hs. apply Permutation_sym in Hs.
  pose proof (Permutation_in _ Hs Hin) as Hf. apply in_flat_map in Hf as ([q' gs] & Hq & Hg).
  cbn [fst snd] in Hg. apply in_map_iff in Hg as (g' & Eg & Hg'). inversion Eg; subst g' q'.
  exists {| sp_name := tax_name t q;
            sp_genes := map (fun g => {| gd_id := g; gd_xrefs := [("protId"%string, protid g)] |}) gs |}.
  split; [|split; [reflexivity|]].
  - unfold export_species. apply in_map_iff. exists (q, gs). split; [reflexivity|]. apply in_rev. rewrite rev_involutive. exact Hq.
  - cbn [sp_genes]. apply in_map_iff. exists g. auto.
Qed.
