(* SpellFacts.v — every permitted spelling of a well-formed history evaluates, element by element, to
   the history's hierarchy (C02/C03 for all consistent inputs, not only explicit ones).
   Part 1: what the elements leave in the open group's frame. *)
From Coq Require Import List Arith Bool String Lia Permutation.
From PyHam Require Import Tax Ortho Loader Mapper Preds Filter Hist Spell.
From PyHam.proofs Require Import TaxFacts MapperFacts ForestFacts ClusterFacts LoaderFacts RegFacts LoftFacts ExplicitFacts ChainFacts CladeFacts.
Import ListNotations.
Local Open Scope string_scope.
Local Open Scope list_scope.

(* ---------- annotations and properties ---------- *)
Lemma annot_eval t genes it pg fr s : is_annot it ->
  exists fr', eval_item t genes it pg fr s = Ok (fr', s) /\ f_kids fr' = f_kids fr.
Proof. destruct it; simpl; try contradiction; intros _; eexists; split; reflexivity. Qed.

Lemma body_go_cons t genes pg x r acc s :
  body_go t genes pg (x :: r) acc s =
  match eval_item t genes x pg acc s with Ok (acc', s') => body_go t genes pg r acc' s' | Err e => Err e end.
Proof. reflexivity. Qed.

Lemma body_go_app t genes pg a : forall b acc s,
  body_go t genes pg (a ++ b) acc s =
  match body_go t genes pg a acc s with Ok (acc', s') => body_go t genes pg b acc' s' | Err e => Err e end.
Proof.
  induction a as [|x r IH]; intros b acc s; [reflexivity|].
  cbn [app]. rewrite !body_go_cons. destruct (eval_item t genes x pg acc s) as [[acc' s']|e]; [apply IH|reflexivity].
Qed.

Lemma eval_props t genes it : forall pg fr s fr' s',
  eval_item t genes it pg fr s = Ok (fr', s') -> f_props fr' = f_props fr ++ item_props it.
Proof.
  induction it as [g l|id og body IH|og body IH|n v|n v] using item_ind'; intros pg fr s fr' s' H.
  - cbn [eval_item] in H. rewrite find_gene_fix in H. destruct (find_gene g genes) as [p|]; [|discriminate].
    inv_bind_as H u t1 E1 K1. apply ret_ok in K1 as [<- _]. simpl. now rewrite app_nil_r.
  - cbn [eval_item] in H. inv_bind_as H inner t1 E1 K1. inv_bind_as K1 c t2 E2 K2.
    destruct c; apply ret_ok in K2 as [<- _]; simpl; now rewrite app_nil_r.
  - cbn [eval_item] in H. inv_bind_as H k t1 E1 K1. inv_bind_as K1 fr1 t2 E2 K2. inv_bind_as K2 uc tc Ec Kc.
    apply chk_ok in Ec as [-> _]. inv_bind_as Kc u t3 E3 K3.
    apply ret_ok in K3 as [<- _]. fold (body_go t genes (Some k)) in E2.
    clear E1 E3. revert fr t1 fr1 t2 E2. cbn [item_props]. induction IH as [|x r Hx Hr IHr]; intros fr t1 fr1 t2 E2.
    + apply ret_ok in E2 as [<- _]. simpl. now rewrite app_nil_r.
    + rewrite body_go_cons in E2. destruct (eval_item t genes x (Some k) fr t1) as [[a1 s1]|e] eqn:Ex; [|discriminate].
      apply IHr in E2. rewrite E2, (Hx _ _ _ _ _ Ex). simpl. now rewrite <- app_assoc.
  - simpl in H. inversion H. reflexivity.
  - simpl in H. inversion H. simpl. now rewrite app_nil_r.
Qed.

Lemma body_props t genes pg body : forall fr s fr' s',
  body_go t genes pg body fr s = Ok (fr', s') -> f_props fr' = f_props fr ++ flat_map item_props body.
Proof.
  induction body as [|x r IH]; intros fr s fr' s' H.
  - apply ret_ok in H as [<- _]. simpl. now rewrite app_nil_r.
  - rewrite body_go_cons in H. destruct (eval_item t genes x pg fr s) as [[a1 s1]|e] eqn:Ex; [|discriminate].
    apply IH in H. rewrite H, (eval_props _ _ _ _ _ _ _ _ Ex). simpl. now rewrite <- app_assoc.
Qed.

(* ---------- what a spelt member must deliver ---------- *)
Definition flags_lt (ks : list kid) (n : nat) : Prop := forall k c, In (Some k, c) ks -> k < n.

Definition MK (t : stree) (genes : list (string * taxon)) (h : hist) (its : list item) (l : taxon) : Prop :=
  forall pg fr s, dups_dom s -> NoDup (flat_map refs_of its) -> lfresh s (flat_map refs_of its) ->
  exists y fr' s', body_go t genes pg its fr s = Ok (fr', s') /\ f_kids fr' = f_kids fr ++ [(pg, y)] /\
    rep t h y /\ htax y = l /\ ext s s' /\ dups_dom s'.

Definition MD (t : stree) (genes : list (string * taxon)) (h : hist) (its : list item) : Prop :=
  forall fr s, dups_dom s -> flags_lt (f_kids fr) (s_dup s) ->
    NoDup (flat_map refs_of its) -> lfresh s (flat_map refs_of its) ->
  exists ys a cs fr' s', body_go t genes None its fr s = Ok (fr', s') /\
    f_kids fr' = f_kids fr ++ map (pair (Some (s_dup s))) ys /\
    below h (XH a [cs]) /\ 2 <= List.length cs /\ Forall2 (rep t) cs ys /\ levels_ok (lin_tax cs) (map htax ys) /\
    mrca_is s' (s_dup s) a /\ s_dup s < s_dup s' /\ ext s s' /\ dups_dom s'.

Definition member_claim t genes (h : hist) (its : list item) (lv : option taxon) : Prop :=
  match lv with Some l => MK t genes h its l | None => MD t genes h its end.

Definition Pmember (t : stree) (genes : list (string * taxon)) (h : hist) : Prop :=
  WFh t genes h -> forall mp its lv, sp_member t mp h its lv -> member_claim t genes h its lv.

(* ---------- LOFT ids: what evaluating elements does to them ---------- *)
Lemma annot_refs it : is_annot it -> refs_of it = [].
Proof. destruct it; simpl; try contradiction; reflexivity. Qed.

Lemma body_go_lgrow t genes pg body fr s fr' s' :
  body_go t genes pg body fr s = Ok (fr', s') -> lgrow s s' (flat_map refs_of body).
Proof.
  intros H. eapply (body_lgrow t genes pg body fr s fr' s'); [|exact H].
  apply Forall_forall. intros x _. apply eval_item_lgrow.
Qed.

Lemma set_loft_spec g l s : assoc g (s_lofts s) = None ->
  exists s', set_loft g l s = Ok (tt, s') /\ s_oid s' = s_oid s /\ s_dup s' = s_dup s /\ s_dups s' = s_dups s.
Proof. intros H. unfold set_loft. rewrite H. eexists. repeat split. Qed.

Lemma loft_step g loft s : lfresh s [g] ->
  exists s', (match loft with Some l => set_loft g l | None => ret tt end) s = Ok (tt, s') /\
    s_oid s' = s_oid s /\ s_dup s' = s_dup s /\ s_dups s' = s_dups s.
Proof.
  intros Hf. destruct loft as [l|]; [apply set_loft_spec; apply Hf; left; reflexivity|exists s; repeat split].
Qed.

(* ---------- set_MRCA on members that lie in one clade ---------- *)
Lemma dedup_nonempty l : l <> [] -> dedup_tax l <> [].
Proof.
  destruct l as [|x r]; [contradiction|]. intros _ E.
  assert (In x (dedup_tax (x :: r))) by (apply dedup_tax_in; left; reflexivity). rewrite E in H. contradiction.
Qed.

Lemma set_mrca_clade k members X s d :
  members <> [] -> Forall (fun x => in_clade X (htax x)) members -> X <> [] ->
  dup_lookup k (s_dups s) = Some d -> dups_dom s ->
  exists s' d', set_mrca k members s = Ok (tt, s') /\ s_oid s' = s_oid s /\ s_dup s' = s_dup s /\ dups_dom s' /\
    dup_lookup k (s_dups s') = Some d' /\ (forall k', k' <> k -> dup_lookup k' (s_dups s') = dup_lookup k' (s_dups s)).
Proof.
  intros Hne Hall HX Hd Hdom. unfold set_mrca.
  assert (Hcl : Forall (in_clade X) (dedup_tax (map htax members))).
  { apply Forall_forall. intros q Hq. apply (proj1 (dedup_tax_in _ _)) in Hq. apply in_map_iff in Hq as (x & <- & Hx).
    rewrite Forall_forall in Hall. auto. }
  assert (Hdn : dedup_tax (map htax members) <> []) by (apply dedup_nonempty; destruct members; [contradiction|discriminate]).
  destruct (dedup_tax (map htax members)) as [|x [|y r]]; [contradiction| |].
  - inversion Hcl as [|? ? [sx Hx] _]; subst. unfold up_or_fail.
    destruct (sx ++ X) as [|a u] eqn:E; [apply app_eq_nil in E as [_ E]; contradiction|]. cbn [up].
    unfold bind at 1. unfold ret at 1.
    destruct (ensure_spec u s) as (s1 & E1 & O1 & D1 & DS1). unfold bind at 1. rewrite E1.
    assert (Hd1 : dup_lookup k (s_dups s1) = Some d) by (rewrite DS1; exact Hd).
    assert (Hdom1 : dups_dom s1) by (unfold dups_dom; rewrite D1, DS1; exact Hdom).
    destruct (dup_update_spec k (fun d0 => {| di_og := di_og d0; di_mrca := Some u; di_parent := di_parent d0 |}) s1 d Hd1 Hdom1)
      as (s2 & E2 & O2 & D2 & Hdom2 & L2 & K2).
    exists s2. eexists. split; [exact E2|]. split; [congruence|]. split; [congruence|]. split; [exact Hdom2|]. split; [exact L2|].
    intros k' Hk'. rewrite K2 by exact Hk'. now rewrite DS1.
  - inversion Hcl as [|? ? Hx Hr]; subst.
    pose proof (fold_lcs_nonroot X (y :: r) x HX Hx Hr) as Hm.
    set (m := fold_left lcs (y :: r) x) in *.
    destruct (ensure_spec m s) as (s0 & E0 & O0 & D0 & DS0). unfold bind at 1. rewrite E0.
    unfold up_or_fail. destruct m as [|a u] eqn:Em; [contradiction|]. cbn [up]. unfold bind at 1. unfold ret at 1.
    destruct (ensure_spec u s0) as (s1 & E1 & O1 & D1 & DS1). unfold bind at 1. rewrite E1.
    assert (Hd1 : dup_lookup k (s_dups s1) = Some d) by (rewrite DS1, DS0; exact Hd).
    assert (Hdom1 : dups_dom s1) by (unfold dups_dom; rewrite D1, D0, DS1, DS0; exact Hdom).
    destruct (dup_update_spec k (fun d0 => {| di_og := di_og d0; di_mrca := Some u; di_parent := di_parent d0 |}) s1 d Hd1 Hdom1)
      as (s2 & E2 & O2 & D2 & Hdom2 & L2 & K2).
    exists s2. eexists. split; [exact E2|]. split; [congruence|]. split; [congruence|]. split; [exact Hdom2|]. split; [exact L2|].
    intros k' Hk'. rewrite K2 by exact Hk'. now rewrite DS1, DS0.
Qed.

(* the outermost close of a nest: the duplication sits one level above the common taxon X of the copies *)
Lemma set_mrca_final k members X p b s d :
  members <> [] -> levels_ok X (map htax members) -> X = b :: p ->
  dup_lookup k (s_dups s) = Some d -> dups_dom s ->
  exists s', set_mrca k members s = Ok (tt, s') /\ s_oid s' = s_oid s /\ s_dup s' = s_dup s /\ dups_dom s' /\
    mrca_is s' k p /\ (forall k', k' <> k -> dup_lookup k' (s_dups s') = dup_lookup k' (s_dups s)).
Proof.
  intros Hne Hlv HX Hd Hdom. destruct Hlv as [Hall|(x & r & Hdd & Hr & Hf)].
  - eapply set_mrca_single; eauto.
    + apply Forall_forall. intros y Hy. rewrite Forall_forall in Hall. apply Hall. apply in_map. exact Hy.
    + rewrite HX. reflexivity.
  - unfold set_mrca. rewrite Hdd. destruct r as [|y r']; [contradiction|]. rewrite Hf.
    destruct (ensure_spec X s) as (s0 & E0 & O0 & D0 & DS0). unfold bind at 1. rewrite E0.
    unfold up_or_fail. rewrite HX. cbn [up]. unfold bind at 1. unfold ret at 1.
    destruct (ensure_spec p s0) as (s1 & E1 & O1 & D1 & DS1). unfold bind at 1. rewrite E1.
    assert (Hd1 : dup_lookup k (s_dups s1) = Some d) by (rewrite DS1, DS0; exact Hd).
    assert (Hdom1 : dups_dom s1) by (unfold dups_dom; rewrite D1, D0, DS1, DS0; exact Hdom).
    destruct (dup_update_spec k (fun d0 => {| di_og := di_og d0; di_mrca := Some p; di_parent := di_parent d0 |}) s1 d Hd1 Hdom1)
      as (s2 & E2 & O2 & D2 & Hdom2 & L2 & K2).
    exists s2. split; [exact E2|]. split; [congruence|]. split; [congruence|]. split; [exact Hdom2|]. split.
    + eexists. split; [exact L2|reflexivity].
    + intros k' Hk'. rewrite K2 by exact Hk'. now rewrite DS1, DS0.
Qed.

Lemma nodup_app_r' {X} (a b : list X) : NoDup (a ++ b) -> NoDup b.
Proof. induction a as [|x r IH]; simpl; intros H; [exact H|]. inversion H; auto. Qed.

(* ---------- the copies of one duplication, in any bracketing ---------- *)
Lemma rep_clade t genes c y X : WFh t genes c -> xtax c = X -> rep t c y -> in_clade X (htax y).
Proof.
  intros Hwf HX (h' & Hb & _ & Ht & _). destruct (below_WF t genes c h' Hb Hwf) as (_ & s & Hs).
  exists s. rewrite Ht, Hs, HX. reflexivity.
Qed.

Lemma Forall2_length' {X Y} (R : X -> Y -> Prop) l l' : Forall2 R l l' -> List.length l = List.length l'.
Proof. induction 1; simpl; auto. Qed.

Definition copy_IH (t : stree) (genes : list (string * taxon)) (c : hist) : Prop :=
  forall its l, sp_member t false c its (Some l) -> MK t genes c its l.

Lemma units_eval t genes X k cs body lvls :
  sp_units t cs body lvls ->
  Forall (copy_IH t genes) cs -> Forall (fun c => WFh t genes c /\ xtax c = X) cs -> X <> [] ->
  forall fr s d, dups_dom s -> dup_lookup k (s_dups s) = Some d ->
    Forall (fun x => in_clade X (htax x)) (members_of k (f_kids fr)) ->
    NoDup (flat_map refs_of body) -> lfresh s (flat_map refs_of body) ->
  exists ys fr' s' d', body_go t genes (Some k) body fr s = Ok (fr', s') /\
    f_kids fr' = f_kids fr ++ map (pair (Some k)) ys /\ Forall2 (rep t) cs ys /\ map htax ys = lvls /\
    dups_dom s' /\ dup_lookup k (s_dups s') = Some d' /\ s_oid s <= s_oid s' /\ s_dup s <= s_dup s' /\
    (forall k', k' < s_dup s -> k' <> k -> dup_lookup k' (s_dups s') = dup_lookup k' (s_dups s)).
Proof.
  intros Hsp. induction Hsp as [|it cs body lvls Ha Hsp IH|c cr its l body lvls Hm Hsp IH|og cs1 cs2 inner body lv1 lv2 Hne Hsp1 IH1 Hsp2 IH2];
    intros HIH Hwf HX fr s d Hdom Hd Hcl Hnd Hfr.
  - exists [], fr, s, d. simpl. rewrite app_nil_r. split; [reflexivity|]. split; [reflexivity|]. split; [constructor|].
    split; [reflexivity|]. split; [exact Hdom|]. split; [exact Hd|]. split; [lia|]. split; [lia|]. auto.
  - cbn [flat_map] in Hnd, Hfr. rewrite (annot_refs it Ha) in Hnd, Hfr. cbn [app] in Hnd, Hfr.
    destruct (annot_eval t genes it (Some k) fr s Ha) as (fr1 & E1 & K1).
    destruct (IH HIH Hwf HX fr1 s d Hdom Hd) as (ys & fr' & s' & d' & E & Hk & R); [rewrite K1; exact Hcl|exact Hnd|exact Hfr|].
    exists ys, fr', s', d'. rewrite body_go_cons, E1. split; [exact E|]. rewrite <- K1. split; [exact Hk|exact R].
  - inversion HIH as [|? ? Hc HIHr]; subst. inversion Hwf as [|? ? [Hwc Hxc] Hwfr]; subst.
    rewrite flat_map_app in Hnd, Hfr. destruct (lfresh_app _ _ _ Hfr) as [Hfr1 Hfr2].
    destruct (Hc its l Hm (Some k) fr s Hdom (nodup_app_l _ _ Hnd) Hfr1) as (y & fr1 & s1 & E1 & K1 & R1 & L1 & X1 & D1).
    assert (Hfr1' : lfresh s1 (flat_map refs_of body)) by (eapply lfresh_step; [exact Hnd|exact Hfr|eapply body_go_lgrow; eauto]).
    assert (Hklt : k < s_dup s) by (apply Hdom; congruence).
    assert (Hd1 : dup_lookup k (s_dups s1) = Some d) by (destruct X1 as (_ & _ & C1); rewrite C1; auto).
    assert (Hcl1 : Forall (fun x => in_clade (xtax c) (htax x)) (members_of k (f_kids fr1))).
    { rewrite K1, members_of_app. apply Forall_app. split; [exact Hcl|].
      change [(Some k, y)] with (map (pair (Some k)) [y]). rewrite members_of_flag. constructor; [|constructor].
      eapply rep_clade; eauto. }
    destruct (IH HIHr Hwfr HX fr1 s1 d D1 Hd1 Hcl1 (nodup_app_r' _ _ Hnd) Hfr1') as (ys & fr' & s' & d' & E & Hk & R & Lv & D' & Hd' & O' & Du' & U').
    exists (y :: ys), fr', s', d'. rewrite body_go_app, E1. split; [exact E|].
    split; [rewrite Hk, K1, <- app_assoc; reflexivity|]. split; [constructor; auto|]. split; [simpl; congruence|].
    split; [exact D'|]. split; [exact Hd'|]. destruct X1 as (A1 & B1 & C1). split; [lia|]. split; [lia|].
    intros k' Hk' Hne'. rewrite U' by (auto; lia). apply C1. exact Hk'.
  - apply Forall_app in HIH as [HIH1 HIH2]. apply Forall_app in Hwf as [Hwf1 Hwf2].
    cbn [flat_map refs_of] in Hnd, Hfr. destruct (lfresh_app _ _ _ Hfr) as [Hfr1 Hfr2].
    destruct (IH1 HIH1 Hwf1 HX fr s d Hdom Hd Hcl (nodup_app_l _ _ Hnd) Hfr1) as (ys1 & fr1 & s1 & d1 & E1 & K1 & R1 & L1 & D1 & Hd1 & O1 & Du1 & U1).
    assert (Hys1 : ys1 <> []).
    { intros ->. apply Forall2_length' in R1. destruct cs1; [contradiction|discriminate]. }
    assert (Hcl1 : Forall (fun x => in_clade X (htax x)) (members_of k (f_kids fr1))).
    { rewrite K1, members_of_app, members_of_flag. apply Forall_app. split; [exact Hcl|].
      clear - R1 Hwf1. induction R1 as [|c y cr yr Hr HF IHF]; constructor.
      - inversion Hwf1 as [|? ? [Hw Hx] _]; subst. eapply rep_clade; eauto.
      - apply IHF. inversion Hwf1; auto. }
    assert (Hmne : members_of k (f_kids fr1) <> []).
    { rewrite K1, members_of_app, members_of_flag. destruct (members_of k (f_kids fr)); destruct ys1; try discriminate. contradiction. }
    destruct (set_mrca_clade k _ X s1 d1 Hmne Hcl1 HX Hd1 D1) as (s2 & d2 & E2 & O2 & Du2 & D2 & Hd2 & U2).
    assert (Hfr2' : lfresh s2 (flat_map refs_of body)).
    { eapply lfresh_same; [eapply set_mrca_lsame; exact E2|]. eapply lfresh_step; [exact Hnd|exact Hfr|eapply body_go_lgrow; eauto]. }
    destruct (IH2 HIH2 Hwf2 HX fr1 s2 d2 D2 Hd2 Hcl1 (nodup_app_r' _ _ Hnd) Hfr2') as (ys2 & fr' & s' & d' & E & Hk & R & Lv & D' & Hd' & O' & Du' & U').
    exists (ys1 ++ ys2), fr', s', d'. split; [|split; [|split; [|split; [|split; [|split; [|split; [|split]]]]]]].
    + rewrite body_go_cons. cbn [eval_item]. unfold bind at 1. unfold ret at 1.
      fold (body_go t genes (Some k)). unfold bind at 1. rewrite E1.
      assert (Hgrow : Nat.eqb (List.length (members_of k (f_kids fr1))) (List.length (members_of k (f_kids fr))) = false).
      { rewrite K1, members_of_app, members_of_flag, app_length. apply Nat.eqb_neq. destruct ys1; [contradiction|simpl; lia]. }
      unfold bind at 1. rewrite Hgrow. unfold ret at 1. unfold bind at 1. rewrite E2. exact E.
    + rewrite Hk, K1, map_app, <- app_assoc. reflexivity.
    + apply Forall2_app; auto.
    + rewrite map_app. congruence.
    + exact D'.
    + exact Hd'.
    + lia.
    + lia.
    + intros k' Hk' Hne'. rewrite U' by (auto; lia). rewrite U2 by exact Hne'. apply U1; auto.
Qed.

(* ---------- a whole paralogGroup nest opened outside any paralogGroup ---------- *)
Lemma members_of_fresh k ks : flags_lt ks k -> members_of k ks = [].
Proof.
  intros H. unfold members_of. induction ks as [|[[k'|] c] r IH]; simpl; [reflexivity| |].
  - assert (k' < k) by (apply (H k' c); left; reflexivity).
    destruct (Nat.eqb k k') eqn:E; [apply Nat.eqb_eq in E; lia|]. apply IH. intros k0 c0 Hin. apply (H k0 c0). right. exact Hin.
  - apply IH. intros k0 c0 Hin. apply (H k0 c0). right. exact Hin.
Qed.

Lemma nest_eval t genes X b p cs body lvls og :
  sp_units t cs body lvls -> levels_ok X lvls -> cs <> [] ->
  Forall (copy_IH t genes) cs -> Forall (fun c => WFh t genes c /\ xtax c = X) cs -> X = b :: p ->
  forall fr s, dups_dom s -> flags_lt (f_kids fr) (s_dup s) ->
    NoDup (flat_map refs_of body) -> lfresh s (flat_map refs_of body) ->
  exists ys fr' s', eval_item t genes (IPG og body) None fr s = Ok (fr', s') /\
    f_kids fr' = f_kids fr ++ map (pair (Some (s_dup s))) ys /\ Forall2 (rep t) cs ys /\ map htax ys = lvls /\
    mrca_is s' (s_dup s) p /\ s_dup s < s_dup s' /\ ext s s' /\ dups_dom s'.
Proof.
  intros Hsp Hlv Hne HIH Hwf HX fr s Hdom Hfl Hnd Hfr.
  destruct (fresh_dup_spec og s Hdom) as (s1 & E1 & D1 & O1 & X1 & Hdom1 & L1).
  assert (Hfr1 : lfresh s1 (flat_map refs_of body)) by (eapply lfresh_same; [eapply fresh_dup_lsame; exact E1|exact Hfr]).
  set (k := s_dup s) in *.
  assert (HXne : X <> []) by (rewrite HX; discriminate).
  assert (Hcl0 : Forall (fun x => in_clade X (htax x)) (members_of k (f_kids fr))).
  { rewrite members_of_fresh by exact Hfl. constructor. }
  destruct (units_eval t genes X k cs body lvls Hsp HIH Hwf HXne fr s1 _ Hdom1 L1 Hcl0 Hnd Hfr1)
    as (ys & fr1 & s2 & d2 & E2 & K2 & R2 & Lv2 & D2 & Hd2 & O2 & Du2 & U2).
  assert (Hys : ys <> []).
  { intros ->. apply Forall2_length' in R2. destruct cs; [contradiction|discriminate]. }
  assert (Hmem : members_of k (f_kids fr1) = ys).
  { rewrite K2, members_of_app, members_of_flag, members_of_fresh by exact Hfl. reflexivity. }
  assert (Hlv' : levels_ok X (map htax ys)) by (rewrite Lv2; exact Hlv).
  destruct (set_mrca_final k ys X p b s2 d2 Hys Hlv' HX Hd2 D2) as (s3 & E3 & O3 & Du3 & D3 & M3 & U3).
  exists ys, fr1, s3. split; [|split; [exact K2|split; [exact R2|split; [exact Lv2|split; [exact M3|split; [|split; [|exact D3]]]]]]].
  - cbn [eval_item]. unfold bind at 1. fold k. rewrite E1. fold (body_go t genes (Some k)).
    unfold bind at 1. rewrite E2. unfold bind at 1. rewrite Hmem, (members_of_fresh k (f_kids fr) Hfl).
    assert (Hnz : Nat.eqb (List.length ys) (List.length (@nil hog)) = false) by (destruct ys; [contradiction|reflexivity]).
    rewrite Hnz. unfold ret at 1. unfold bind at 1. rewrite E3. reflexivity.
  - rewrite Du3. lia.
  - destruct X1 as (A1 & B1 & C1). repeat split; try lia. intros k' Hk'.
    rewrite U3 by (unfold k; lia). rewrite U2 by (unfold k in *; lia). apply C1. exact Hk'.
Qed.

(* ---------- the lineages of one group, as left in its frame ---------- *)
Inductive pend (t : stree) (s : lstate) (p : taxon) : list hist -> option nat * list hog -> Prop :=
| pend_kid c y : rep t c y -> pend t s p [c] (None, [y])
| pend_own cs k ys :
    2 <= List.length cs -> Forall2 (rep t) cs ys -> mrca_is s k p -> levels_ok (lin_tax cs) (map htax ys) ->
    pend t s p cs (Some k, ys)
| pend_sole c a cs k ys :
    below c (XH a [cs]) -> 2 <= List.length cs -> Forall2 (rep t) cs ys -> mrca_is s k a ->
    levels_ok (lin_tax cs) (map htax ys) -> pend t s p [c] (Some k, ys).

Definition gflags_lt (gs : list (option nat * list hog)) (n : nat) : Prop := forall k, In k (gflags gs) -> k < n.

Lemma pend_ext t s s' p l g : ext s s' -> gflags_lt [g] (s_dup s) -> pend t s p l g -> pend t s' p l g.
Proof.
  intros He Hlt H. destruct H as [c y Hr|cs k ys H2 HF Hm Hl|c a cs k ys Hb H2 HF Hm Hl].
  - constructor. exact Hr.
  - constructor; auto. eapply mrca_is_ext; eauto. apply Hlt. unfold gflags. simpl. left. reflexivity.
  - eapply pend_sole; eauto. eapply mrca_is_ext; eauto. apply Hlt. unfold gflags. simpl. left. reflexivity.
Qed.

Lemma flags_lt_gkids gs n : gflags_lt gs n -> flags_lt (gkids gs) n.
Proof. intros H k c Hin. apply H. eapply gkids_flags_in; eauto. Qed.

Lemma gflags_app a b : gflags (a ++ b) = gflags a ++ gflags b.
Proof. unfold gflags. apply flat_map_app. Qed.

Definition lin_ok (t : stree) (genes : list (string * taxon)) (p : taxon) (l : list hist) : Prop :=
  l <> [] /\ Forall (fun c => WFh t genes c /\ exists b, xtax c = b :: p /\ lin_tax l = b :: p) l.

Definition exact_kid (l : list hist) (g : option nat * list hog) : Prop :=
  match l with [c] => exists y, g = (None, [y]) /\ htax y = xtax c | _ => True end.

Lemma body_eval t genes p sgl lins body :
  sp_body t sgl p lins body ->
  Forall (Forall (Pmember t genes)) lins -> Forall (lin_ok t genes p) lins ->
  forall gs0 fr s, f_kids fr = gkids gs0 -> gflags_lt gs0 (s_dup s) -> dups_dom s ->
    NoDup (flat_map refs_of body) -> lfresh s (flat_map refs_of body) ->
  exists gs fr' s', body_go t genes None body fr s = Ok (fr', s') /\ f_kids fr' = gkids (gs0 ++ gs) /\
    Forall2 (pend t s' p) lins gs /\ ext s s' /\ dups_dom s' /\
    flags_from (s_dup s) gs /\ gflags_lt gs (s_dup s') /\ NoDup (gflags gs) /\
    (sgl = true -> Forall2 exact_kid lins gs).
Proof.
  intros Hsp. induction Hsp as [sgl p|sgl p it lins body Ha Hsp IH|sgl p c lr its lv body Hm Hex Hsp IH|sgl p cs lr og pgbody lvls body H2 Hun Hlv Hsp IH];
    intros HIH Hok gs0 fr s Hk Hlt Hdom Hnd Hfr.
  - exists [], fr, s. rewrite app_nil_r. split; [reflexivity|]. split; [exact Hk|]. split; [constructor|]. split; [apply ext_refl|].
    split; [exact Hdom|]. split; [intros k []|]. split; [intros k []|]. split; [constructor|]. intros _. constructor.
  - cbn [flat_map] in Hnd, Hfr. rewrite (annot_refs it Ha) in Hnd, Hfr. cbn [app] in Hnd, Hfr.
    destruct (annot_eval t genes it None fr s Ha) as (fr1 & E1 & K1).
    destruct (IH HIH Hok gs0 fr1 s) as (gs & fr' & s' & E & R); [rewrite K1; exact Hk|exact Hlt|exact Hdom|exact Hnd|exact Hfr|].
    exists gs, fr', s'. rewrite body_go_cons, E1. split; [exact E|exact R].
  - (* a plain-ortholog lineage *)
    inversion HIH as [|? ? HIHc HIHr]; subst. inversion Hok as [|? ? [_ Hokc] Hokr]; subst.
    inversion HIHc as [|? ? Pc _]; subst. inversion Hokc as [|? ? (Hwc & bc & Hxc & Hlc) _]; subst.
    pose proof (Pc Hwc true its lv Hm) as Hclaim.
    rewrite flat_map_app in Hnd, Hfr. destruct (lfresh_app _ _ _ Hfr) as [Hfr1 Hfr2].
    assert (Hstep : exists g fr1 s1, body_go t genes None its fr s = Ok (fr1, s1) /\ f_kids fr1 = gkids (gs0 ++ [g]) /\
              pend t s1 p [c] g /\ ext s s1 /\ dups_dom s1 /\ flags_from (s_dup s) [g] /\ gflags_lt [g] (s_dup s1) /\
              NoDup (gflags [g]) /\ (sgl = true -> exact_kid [c] g)).
    { destruct lv as [l|]; cbn [member_claim] in Hclaim.
      - destruct (Hclaim None fr s Hdom (nodup_app_l _ _ Hnd) Hfr1) as (y & fr1 & s1 & E1 & K1 & R1 & L1 & X1 & D1).
        exists (None, [y]), fr1, s1. split; [exact E1|]. split.
        { rewrite K1, Hk, gkids_app. unfold gkids at 3. simpl. reflexivity. }
        split; [constructor; exact R1|]. split; [exact X1|]. split; [exact D1|].
        split; [intros k []|]. split; [intros k []|]. split; [constructor|].
        intros Hs. exists y. split; [reflexivity|]. specialize (Hex Hs). inversion Hex. congruence.
      - destruct (Hclaim fr s Hdom) as (ys & a & cs & fr1 & s1 & E1 & K1 & B1 & L2 & R1 & Lv1 & M1 & Lt1 & X1 & D1);
          [rewrite Hk; apply flags_lt_gkids; exact Hlt|exact (nodup_app_l _ _ Hnd)|exact Hfr1|].
        exists (Some (s_dup s), ys), fr1, s1. split; [exact E1|]. split.
        { rewrite K1, Hk, gkids_app. unfold gkids at 3. simpl. rewrite app_nil_r. reflexivity. }
        split; [eapply pend_sole; eauto|]. split; [exact X1|]. split; [exact D1|].
        split; [intros k [<-|[]]; lia|]. split; [intros k [<-|[]]; exact Lt1|]. split; [constructor; [intros []|constructor]|].
        intros Hs. specialize (Hex Hs). discriminate. }
    destruct Hstep as (g & fr1 & s1 & E1 & K1 & P1 & X1 & D1 & F1 & G1 & N1 & Ex1).
    assert (Hlt1 : gflags_lt (gs0 ++ [g]) (s_dup s1)).
    { intros k Hin. rewrite gflags_app in Hin. apply in_app_or in Hin as [Hin|Hin]; [|apply G1; exact Hin].
      destruct X1 as (_ & B1 & _). specialize (Hlt k Hin). lia. }
    assert (Hfr1' : lfresh s1 (flat_map refs_of body)) by (eapply lfresh_step; [exact Hnd|exact Hfr|eapply body_go_lgrow; eauto]).
    destruct (IH HIHr Hokr (gs0 ++ [g]) fr1 s1 K1 Hlt1 D1 (nodup_app_r' _ _ Hnd) Hfr1') as (gs & fr' & s' & E & K & P & X' & D' & F' & G' & N' & Ex').
    exists (g :: gs), fr', s'. split; [rewrite body_go_app, E1; exact E|].
    split; [rewrite K, <- app_assoc; reflexivity|].
    split; [constructor; [eapply pend_ext; eauto|exact P]|].
    split; [eapply ext_trans; eauto|]. split; [exact D'|].
    assert (Hb1 : s_dup s <= s_dup s1) by (destruct X1 as (_ & B & _); exact B).
    assert (Hb2 : s_dup s1 <= s_dup s') by (destruct X' as (_ & B & _); exact B).
    split; [|split; [|split]].
    + intros k Hin. change (g :: gs) with ([g] ++ gs) in Hin. rewrite gflags_app in Hin. apply in_app_or in Hin as [Hin|Hin].
      * apply F1. exact Hin.
      * specialize (F' k Hin). lia.
    + intros k Hin. change (g :: gs) with ([g] ++ gs) in Hin. rewrite gflags_app in Hin. apply in_app_or in Hin as [Hin|Hin].
      * specialize (G1 k Hin). lia.
      * apply G'. exact Hin.
    + change (g :: gs) with ([g] ++ gs). rewrite gflags_app. apply nodup_app_intro; auto.
      intros k Hk1 Hk2. specialize (G1 k Hk1). specialize (F' k Hk2). lia.
    + intros Hs. constructor; auto.
  - (* the copies of a duplication *)
    inversion HIH as [|? ? HIHc HIHr]; subst. inversion Hok as [|? ? [Hne Hokc] Hokr]; subst.
    assert (HX : exists b, lin_tax cs = b :: p).
    { destruct cs as [|c0 cr]; [contradiction|]. inversion Hokc as [|? ? (_ & b & _ & Hl) _]; subst. eauto. }
    destruct HX as [b HX].
    assert (Hcopy : Forall (copy_IH t genes) cs).
    { rewrite Forall_forall in *. intros c Hc its l Hm. destruct (Hokc c Hc) as (Hw & _). apply (HIHc c Hc Hw false its (Some l) Hm). }
    assert (Hwfx : Forall (fun c => WFh t genes c /\ xtax c = lin_tax cs) cs).
    { rewrite Forall_forall in *. intros c Hc. destruct (Hokc c Hc) as (Hw & b' & Hx & Hl). split; [exact Hw|congruence]. }
    cbn [flat_map refs_of] in Hnd, Hfr. destruct (lfresh_app _ _ _ Hfr) as [Hfr1 Hfr2].
    destruct (nest_eval t genes (lin_tax cs) b p cs pgbody lvls og Hun Hlv Hne Hcopy Hwfx HX fr s Hdom)
      as (ys & fr1 & s1 & E1 & K1 & R1 & Lv1 & M1 & Lt1 & X1 & D1);
      [rewrite Hk; apply flags_lt_gkids; exact Hlt|exact (nodup_app_l _ _ Hnd)|exact Hfr1|].
    assert (Hfr1' : lfresh s1 (flat_map refs_of body)).
    { eapply lfresh_step; [exact Hnd|exact Hfr|]. exact (eval_item_lgrow t genes (IPG og pgbody) None fr s fr1 s1 E1). }
    set (g := (Some (s_dup s), ys)).
    assert (K1' : f_kids fr1 = gkids (gs0 ++ [g])).
    { rewrite K1, Hk, gkids_app. unfold gkids at 3. simpl. rewrite app_nil_r. reflexivity. }
    assert (Hlt1 : gflags_lt (gs0 ++ [g]) (s_dup s1)).
    { intros k Hin. rewrite gflags_app in Hin. apply in_app_or in Hin as [Hin|Hin].
      - specialize (Hlt k Hin). lia.
      - destruct Hin as [<-|[]]. exact Lt1. }
    destruct (IH HIHr Hokr (gs0 ++ [g]) fr1 s1 K1' Hlt1 D1 (nodup_app_r' _ _ Hnd) Hfr1') as (gs & fr' & s' & E & K & P & X' & D' & F' & G' & N' & Ex').
    exists (g :: gs), fr', s'. split; [rewrite body_go_cons, E1; exact E|].
    split; [rewrite K, <- app_assoc; reflexivity|].
    assert (Hb2 : s_dup s1 <= s_dup s') by (destruct X' as (_ & B & _); exact B).
    split.
    { constructor; [|exact P]. eapply pend_ext; [exact X'| |].
      - intros k [<-|[]]. exact Lt1.
      - apply pend_own; auto. rewrite Lv1. exact Hlv. }
    split; [eapply ext_trans; eauto|]. split; [exact D'|]. split; [|split; [|split]].
    + intros k Hin. change (g :: gs) with ([g] ++ gs) in Hin. rewrite gflags_app in Hin. apply in_app_or in Hin as [Hin|Hin].
      * destruct Hin as [<-|[]]. lia.
      * specialize (F' k Hin). lia.
    + intros k Hin. change (g :: gs) with ([g] ++ gs) in Hin. rewrite gflags_app in Hin. apply in_app_or in Hin as [Hin|Hin].
      * destruct Hin as [<-|[]]. lia.
      * apply G'. exact Hin.
    + change (g :: gs) with ([g] ++ gs). rewrite gflags_app. apply nodup_app_intro; auto.
      * constructor; [intros []|constructor].
      * intros k [<-|[]] Hk2. specialize (F' _ Hk2). lia.
    + intros Hs. constructor; auto. unfold exact_kid. destruct cs as [|c0 [|c1 cr]]; simpl in H2; try lia; exact I.
Qed.

(* ====================================================================================================
   Part 2: closing the group.
   ==================================================================================================== *)

(* ---------- lifting one child (Ham._add_missing_taxon), relationally ---------- *)
Definition liftrel (a : taxon) (y top : hog) : Prop :=
  exists o i, top = chain_pure o i (path_up (htax y) a) None y.

Lemma lift_member_spec hid a k y s :
  exists top s', lift_member hid a k y s = Ok ((Some k, top), s') /\ liftrel a y top /\
    s_oid s <= s_oid s' /\ s_dup s' = s_dup s /\ s_dups s' = s_dups s.
Proof.
  unfold lift_member. destruct (chain_id_same y hid s) as [i Ei]. unfold bind at 1. rewrite Ei.
  destruct (chain_spec i (path_up (htax y) a) None y s) as (s' & E & O & D & DS & _).
  unfold bind at 1. rewrite E. eexists _, s'. split; [reflexivity|]. split; [exists (s_oid s), i; reflexivity|].
  split; [lia|]. split; [exact D|exact DS].
Qed.

Lemma mapM_lift hid a k ys : forall s,
  exists tops s', mapM (lift_member hid a k) ys s = Ok (map (pair (Some k)) tops, s') /\ Forall2 (liftrel a) ys tops /\
    s_oid s <= s_oid s' /\ s_dup s' = s_dup s /\ s_dups s' = s_dups s.
Proof.
  induction ys as [|y r IH]; intros s.
  - exists [], s. simpl. repeat split; auto.
  - destruct (lift_member_spec hid a k y s) as (top & s1 & E1 & L1 & O1 & D1 & DS1).
    destruct (IH s1) as (tops & s2 & E2 & L2 & O2 & D2 & DS2).
    exists (top :: tops), s2. cbn [mapM]. unfold bind at 1. rewrite E1. unfold bind at 1. rewrite E2.
    split; [reflexivity|]. split; [constructor; auto|]. split; [lia|]. split; congruence.
Qed.

(* ---------- permutations and the per-flag views ---------- *)
Lemma members_of_perm k ks ks' : Permutation ks ks' -> Permutation (members_of k ks) (members_of k ks').
Proof. intros H. unfold members_of. apply Permutation_map. apply filter_perm. exact H. Qed.

Lemma not_member_gkids k gs : ~ In k (gflags gs) -> filter (not_member k) (gkids gs) = gkids gs.
Proof.
  intros Hn. apply filter_all. intros kd Hkd. destruct kd as [[k'|] c]; [|reflexivity].
  unfold not_member. simpl. destruct (Nat.eqb k k') eqn:E; [|reflexivity]. apply Nat.eqb_eq in E. subst.
  exfalso. apply Hn. eapply gkids_flags_in; eauto.
Qed.

Lemma not_member_own k ys : filter (not_member k) (map (pair (Some k)) ys) = [].
Proof. apply filter_none. intros kd Hkd. apply in_map_iff in Hkd as (y & <- & _). unfold not_member. simpl. now rewrite Nat.eqb_refl. Qed.

Lemma members_of_gkids_none k gs : ~ In k (gflags gs) -> members_of k (gkids gs) = [].
Proof. intros Hn. apply members_of_gkids_fresh. intros k' Hk' ->. contradiction. Qed.

Lemma Forall2_perm_l {X Y} (R : X -> Y -> Prop) l1 l2 l1' :
  Forall2 R l1 l2 -> Permutation l1 l1' -> exists l2', Permutation l2 l2' /\ Forall2 R l1' l2'.
Proof.
  intros HF Hp. revert l2 HF. induction Hp as [|x l l' Hp IH|x y l|l l' l'' H1 IH1 H2 IH2]; intros l2 HF.
  - inversion HF; subst. exists []. split; constructor.
  - inversion HF as [|? b ? r Hxb Hr]; subst. destruct (IH r Hr) as (r' & P & F). exists (b :: r'). split; constructor; auto.
  - inversion HF as [|? b ? r Hb Hr]; subst. inversion Hr as [|? c ? r' Hc Hr']; subst.
    exists (c :: b :: r'). split; [apply perm_swap|]. constructor; [exact Hc|constructor; [exact Hb|exact Hr']].
  - destruct (IH1 l2 HF) as (m & P1 & F1). destruct (IH2 m F1) as (m' & P2 & F2). exists m'. split; [eapply Permutation_trans; eauto|exact F2].
Qed.

(* ---------- one duplication re-homed ---------- *)
Definition mrca_eq (s s' : lstate) : Prop := forall k a, mrca_is s k a <-> mrca_is s' k a.

Lemma mrca_eq_refl s : mrca_eq s s.
Proof. intros k a. tauto. Qed.
Lemma mrca_eq_trans s1 s2 s3 : mrca_eq s1 s2 -> mrca_eq s2 s3 -> mrca_eq s1 s3.
Proof. intros H1 H2 k a. rewrite (H1 k a). apply H2. Qed.
Lemma mrca_eq_same_dups s s' : s_dups s' = s_dups s -> mrca_eq s s'.
Proof. intros H k a. unfold mrca_is. rewrite H. tauto. Qed.

(* the group a flagged lineage turns into *)
Inductive r_rel (p : taxon) (s : lstate) : option nat * list hog -> option nat * list hog -> Prop :=
| rr_none ys : r_rel p s (None, ys) (None, ys)
| rr_own k ys tops : mrca_is s k p -> Forall2 (liftrel p) ys tops -> r_rel p s (Some k, ys) (Some k, tops)
| rr_sole k ys a mo m lifted tops :
    mrca_is s k a -> a <> p -> Forall2 (liftrel a) ys tops -> Permutation lifted (map (pair (Some k)) tops) ->
    r_rel p s (Some k, ys) (None, [HHog mo a m lifted]).

Lemma r_rel_mrca_eq p s s' g g' : mrca_eq s s' -> r_rel p s' g g' -> r_rel p s g g'.
Proof.
  intros He H. destruct H as [ys|k ys tops Hm HF|k ys a mo m lifted tops Hm Ha HF HP].
  - constructor.
  - constructor; auto. apply He. exact Hm.
  - econstructor; eauto. apply He. exact Hm.
Qed.

Lemma dup_update_parent_mrca k par s d :
  dup_lookup k (s_dups s) = Some d -> dups_dom s ->
  exists s', dup_update k (fun d0 => {| di_og := di_og d0; di_mrca := di_mrca d0; di_parent := par |}) s = Ok (tt, s') /\
    s_oid s' = s_oid s /\ s_dup s' = s_dup s /\ dups_dom s' /\ mrca_eq s s' /\
    (forall k', k' <> k -> dup_lookup k' (s_dups s') = dup_lookup k' (s_dups s)).
Proof.
  intros Hd Hdom.
  destruct (dup_update_spec k (fun d0 => {| di_og := di_og d0; di_mrca := di_mrca d0; di_parent := par |}) s d Hd Hdom)
    as (s1 & E1 & O1 & D1 & Hdom1 & L1 & K1).
  exists s1. split; [exact E1|]. split; [exact O1|]. split; [exact D1|]. split; [exact Hdom1|]. split; [|exact K1].
  intros k' a. unfold mrca_is. destruct (Nat.eq_dec k' k) as [->|Hne].
  - rewrite Hd, L1. split; intros (d' & E & Hm); inversion E; subst; eexists; split; eauto.
  - rewrite K1 by exact Hne. tauto.
Qed.

Lemma rehome_spec hid hoid p pre post k ys ks s a :
  Permutation ks (gkids pre ++ map (pair (Some k)) ys ++ gkids post) ->
  ~ In k (gflags pre) -> ~ In k (gflags post) -> mrca_is s k a -> dups_dom s ->
  exists g' ks' s', rehome hid hoid p ks k s = Ok (ks', s') /\ Permutation ks' (gkids (pre ++ [g']) ++ gkids post) /\
    r_rel p s (Some k, ys) g' /\ (forall k', In k' (gflags [g']) -> k' = k) /\
    s_oid s <= s_oid s' /\ s_dup s' = s_dup s /\ dups_dom s' /\ mrca_eq s s' /\
    (forall k', k' <> k -> dup_lookup k' (s_dups s') = dup_lookup k' (s_dups s)).
Proof.
  intros HP Hpre Hpost (d & Hd & Hm) Hdom.
  assert (Hmem : Permutation (members_of k ks) ys).
  { eapply Permutation_trans; [apply members_of_perm; exact HP|].
    rewrite !members_of_app, members_of_flag, !members_of_gkids_none by assumption. simpl. rewrite app_nil_r. apply Permutation_refl. }
  assert (Hrest : Permutation (filter (not_member k) ks) (gkids pre ++ gkids post)).
  { eapply Permutation_trans; [apply filter_perm; exact HP|].
    rewrite !filter_app, not_member_own, !not_member_gkids by assumption. apply Permutation_refl. }
  unfold rehome. unfold bind at 1. unfold dup_mrca. rewrite Hd, Hm.
  destruct (taxon_eqb a p) eqn:Eap; cbn [negb].
  - (* the duplication of this very group *)
    apply taxon_eqb_eq in Eap. subst a.
    destruct (dup_update_parent_mrca k (Some hoid) s d Hd Hdom) as (s1 & E1 & O1 & D1 & Hdom1 & Q1 & K1).
    unfold bind at 1. rewrite E1.
    destruct (mapM_lift hid p k (members_of k ks) s1) as (tops' & s2 & E2 & L2 & O2 & D2 & DS2).
    unfold bind at 1. rewrite E2.
    destruct (Forall2_perm_l _ _ _ _ L2 Hmem) as (tops & PT & FT).
    exists (Some k, tops). eexists _, s2. split; [reflexivity|]. split; [|split; [|split; [|split; [|split; [|split; [|split]]]]]].
    + rewrite gkids_app. unfold gkids at 3. simpl. rewrite app_nil_r.
      eapply Permutation_trans; [apply Permutation_app; [exact Hrest|apply Permutation_map; exact PT]|].
      rewrite <- !app_assoc. apply Permutation_app_head. apply Permutation_app_comm.
    + constructor; [exists d; auto|exact FT].
    + intros k' [<-|[]]. reflexivity.
    + lia.
    + congruence.
    + unfold dups_dom. rewrite D2, DS2. exact Hdom1.
    + eapply mrca_eq_trans; [exact Q1|]. apply mrca_eq_same_dups. exact DS2.
    + intros k' Hk'. rewrite DS2. apply K1. exact Hk'.
  - (* a HOG that was spelt as its only duplication: an intermediate HOG at the duplication's level *)
    apply taxon_eqb_neq in Eap.
    destruct (ensure_spec a s) as (s1 & E1 & O1 & D1 & DS1). unfold bind at 1. rewrite E1.
    destruct (fresh_oid_spec s1) as (s2 & E2 & O2 & D2 & DS2). unfold bind at 1. rewrite E2.
    destruct (register_spec a (RHog (s_oid s1)) s2) as (s3 & E3 & O3 & D3 & DS3). unfold bind at 1. rewrite E3.
    destruct (mapM_lift hid a k (members_of k ks) s3) as (tops' & s4 & E4 & L4 & O4 & D4 & DS4).
    unfold bind at 1. rewrite E4.
    assert (Hd4 : dup_lookup k (s_dups s4) = Some d) by (rewrite DS4, DS3, DS2, DS1; exact Hd).
    assert (Hdom4 : dups_dom s4) by (unfold dups_dom; rewrite D4, D3, D2, D1, DS4, DS3, DS2, DS1; exact Hdom).
    destruct (dup_update_parent_mrca k (Some (s_oid s1)) s4 d Hd4 Hdom4) as (s5 & E5 & O5 & D5 & Hdom5 & Q5 & K5).
    unfold bind at 1. rewrite E5.
    destruct (Forall2_perm_l _ _ _ _ L4 Hmem) as (tops & PT & FT).
    eexists (None, [HHog (s_oid s1) a (synth_meta hid) (map (pair (Some k)) tops')]). eexists _, s5.
    split; [reflexivity|]. split; [|split; [|split; [|split; [|split; [|split; [|split]]]]]].
    + rewrite gkids_app. unfold gkids at 3. simpl.
      eapply Permutation_trans; [apply Permutation_app_tail; exact Hrest|].
      rewrite <- !app_assoc. apply Permutation_app_head. apply Permutation_app_comm.
    + eapply rr_sole; [exists d; eauto|exact Eap|exact FT|apply Permutation_map; exact PT].
    + intros k' [].
    + lia.
    + congruence.
    + exact Hdom5.
    + eapply mrca_eq_trans; [|exact Q5]. apply mrca_eq_same_dups. rewrite DS4, DS3, DS2, DS1. reflexivity.
    + intros k' Hk'. rewrite K5 by exact Hk'. rewrite DS4, DS3, DS2, DS1. reflexivity.
Qed.

(* ---------- all duplications of the group re-homed ---------- *)
Lemma gkids_cons f ys gs : gkids ((f, ys) :: gs) = map (pair f) ys ++ gkids gs.
Proof. reflexivity. Qed.
Lemma gflags_cons_none ys gs : gflags ((None, ys) :: gs) = gflags gs.
Proof. reflexivity. Qed.
Lemma gflags_cons_some k ys gs : gflags ((Some k, ys) :: gs) = k :: gflags gs.
Proof. reflexivity. Qed.

Lemma rehome_phase hid hoid p gr : forall pre ks s,
  Permutation ks (gkids pre ++ gkids gr) -> NoDup (gflags gr) ->
  (forall k, In k (gflags gr) -> ~ In k (gflags pre)) ->
  (forall k, In k (gflags gr) -> exists a, mrca_is s k a) -> dups_dom s ->
  exists cur ks' s', foldM (rehome hid hoid p) (gflags gr) ks s = Ok (ks', s') /\
    Permutation ks' (gkids (pre ++ cur)) /\ Forall2 (r_rel p s) gr cur /\
    (forall k, In k (gflags cur) -> In k (gflags gr)) /\ NoDup (gflags cur) /\
    s_oid s <= s_oid s' /\ s_dup s' = s_dup s /\ dups_dom s' /\ mrca_eq s s' /\
    (forall k', ~ In k' (gflags gr) -> dup_lookup k' (s_dups s') = dup_lookup k' (s_dups s)).
Proof.
  induction gr as [|[[k|] ys] gr' IH]; intros pre ks s HP Hnd Hdisj Hmr Hdom.
  - exists [], ks, s. simpl in *. rewrite !app_nil_r in *. split; [reflexivity|]. split; [exact HP|]. split; [constructor|].
    split; [intros k []|]. split; [constructor|]. split; [lia|]. split; [reflexivity|]. split; [exact Hdom|]. split; [apply mrca_eq_refl|auto].
  - rewrite gflags_cons_some in *. inversion Hnd as [|? ? Hk Hnd']; subst.
    destruct (Hmr k (or_introl eq_refl)) as [a Ha].
    destruct (rehome_spec hid hoid p pre gr' k ys ks s a) as (g' & ks1 & s1 & E1 & P1 & R1 & F1 & O1 & D1 & Hdom1 & Q1 & U1); auto.
    { apply Hdisj. left. reflexivity. }
    destruct (IH (pre ++ [g']) ks1 s1 P1 Hnd') as (cur & ks2 & s2 & E2 & P2 & R2 & I2 & N2 & O2 & D2 & Hdom2 & Q2 & U2).
    + intros k' Hk' Hin. rewrite gflags_app in Hin. apply in_app_or in Hin as [Hin|Hin].
      * apply (Hdisj k'); [right; exact Hk'|exact Hin].
      * apply F1 in Hin. subst k'. contradiction.
    + intros k' Hk'. destruct (Hmr k' (or_intror Hk')) as [a' Ha']. exists a'. apply Q1. exact Ha'.
    + exact Hdom1.
    + exists (g' :: cur), ks2, s2. split; [cbn [foldM]; unfold bind; rewrite E1; exact E2|].
      split; [rewrite <- app_assoc in P2; exact P2|].
      split; [constructor; [exact R1|]; clear - R2 Q1; induction R2; constructor; auto; eapply r_rel_mrca_eq; eauto|].
      split; [|split; [|split; [lia|split; [congruence|split; [exact Hdom2|split; [eapply mrca_eq_trans; eauto|]]]]]].
      * intros k' Hin. change (g' :: cur) with ([g'] ++ cur) in Hin. rewrite gflags_app in Hin. apply in_app_or in Hin as [Hin|Hin].
        -- apply F1 in Hin. subst. left. reflexivity.
        -- right. apply I2. exact Hin.
      * change (g' :: cur) with ([g'] ++ cur). rewrite gflags_app. apply nodup_app_intro; auto.
        -- destruct R1; unfold gflags; simpl; constructor; auto; constructor.
        -- intros k' Hin Hin2. apply F1 in Hin. subst k'. apply Hk. apply I2. exact Hin2.
      * intros k' Hk'. rewrite U2 by (intros Hin; apply Hk'; right; exact Hin). apply U1. intros ->. apply Hk'. left. reflexivity.
  - rewrite gflags_cons_none in *.
    destruct (IH (pre ++ [(None, ys)]) ks s) as (cur & ks2 & s2 & E2 & P2 & R2 & I2 & N2 & R); auto.
    + rewrite gkids_app. unfold gkids at 2. simpl. rewrite app_nil_r, <- app_assoc. exact HP.
    + intros k' Hk' Hin. rewrite gflags_app in Hin. apply in_app_or in Hin as [Hin|[]]. apply (Hdisj k'); assumption.
    + exists ((None, ys) :: cur), ks2, s2. split; [exact E2|]. split; [rewrite <- app_assoc in P2; exact P2|].
      split; [constructor; [constructor|exact R2]|]. split; [exact I2|]. split; [exact N2|exact R].
Qed.

Lemma dup_keys_gkids gs : forall seen,
  Forall (fun g : option nat * list hog => snd g <> []) gs -> NoDup (gflags gs) -> (forall k, In k (gflags gs) -> ~ In k seen) ->
  dup_keys (gkids gs) seen = gflags gs.
Proof.
  induction gs as [|[[k|] ys] gr IH]; intros seen Hne Hnd Hs; [reflexivity| |].
  - inversion Hne as [|? ? Hy Hner]; subst. simpl in Hy. rewrite gflags_cons_some in *. inversion Hnd as [|? ? Hk Hnd']; subst.
    rewrite gkids_cons. destruct ys as [|y yr]; [contradiction|]. cbn [map app dup_keys].
    assert (E : existsb (Nat.eqb k) seen = false).
    { destruct (existsb (Nat.eqb k) seen) eqn:E; auto. apply existsb_exists in E as (x & Hx & Ex). apply Nat.eqb_eq in Ex. subst x.
      exfalso. apply (Hs k); [left; reflexivity|exact Hx]. }
    rewrite E. f_equal.
    (* the remaining copies carry a flag already seen *)
    assert (Hskip : forall zs, dup_keys (map (pair (Some k)) zs ++ gkids gr) (k :: seen) = dup_keys (gkids gr) (k :: seen)).
    { induction zs as [|z zr IHz]; [reflexivity|]. cbn [map app dup_keys existsb]. rewrite Nat.eqb_refl. exact IHz. }
    rewrite Hskip. apply IH; auto. intros k' Hk' [<-|Hin]; [contradiction|]. apply (Hs k'); [right; exact Hk'|exact Hin].
  - inversion Hne as [|? ? Hy Hner]; subst. rewrite gflags_cons_none in *. rewrite gkids_cons.
    assert (Hskip : forall zs, dup_keys (map (pair None) zs ++ gkids gr) seen = dup_keys (gkids gr) seen).
    { induction zs as [|z zr IHz]; [reflexivity|]. cbn [map app dup_keys]. exact IHz. }
    rewrite Hskip. apply IH; auto.
Qed.

(* ---------- the generic missing-level pass ---------- *)
Definition gen_out (p : taxon) (o : nat) (i : option string) (kd : kid) : kid :=
  match path_up (htax (snd kd)) p with
  | [] => kd
  | path => (None, chain_pure o i path (fst kd) (snd kd))
  end.
Definition genrel (p : taxon) (kd kd' : kid) : Prop := exists o i, kd' = gen_out p o i kd.

Lemma lift_generic_spec hid p kd s :
  exists kd' s', lift_generic hid p kd s = Ok (kd', s') /\ genrel p kd kd' /\
    s_oid s <= s_oid s' /\ s_dup s' = s_dup s /\ s_dups s' = s_dups s.
Proof.
  unfold lift_generic, genrel, gen_out. destruct (chain_id_same (snd kd) hid s) as [i Ei]. unfold bind at 1. rewrite Ei.
  destruct (path_up (htax (snd kd)) p) as [|tx r] eqn:Ep.
  - exists kd, s. split; [reflexivity|]. split; [exists 0, None; reflexivity|]. auto.
  - destruct (chain_spec i (tx :: r) (fst kd) (snd kd) s) as (s' & E & O & D & DS & _).
    unfold bind at 1. rewrite E. eexists _, s'. split; [reflexivity|]. split; [exists (s_oid s), i; reflexivity|].
    split; [lia|]. split; [exact D|exact DS].
Qed.

Lemma generic_pass_spec hid p ks s :
  exists lifted s', generic_pass hid p ks s = Ok (filter (adjacent p) ks ++ lifted, s') /\
    Forall2 (genrel p) (filter (fun kd => negb (adjacent p kd)) ks) lifted /\
    s_oid s <= s_oid s' /\ s_dup s' = s_dup s /\ s_dups s' = s_dups s.
Proof.
  unfold generic_pass. generalize (filter (fun kd => negb (adjacent p kd)) ks) as na. intros na.
  assert (H : exists lifted s', mapM (lift_generic hid p) na s = Ok (lifted, s') /\ Forall2 (genrel p) na lifted /\
                s_oid s <= s_oid s' /\ s_dup s' = s_dup s /\ s_dups s' = s_dups s).
  { clear ks. revert s. induction na as [|kd r IH]; intros s.
    - exists [], s. simpl. repeat split; auto.
    - destruct (lift_generic_spec hid p kd s) as (kd' & s1 & E1 & G1 & O1 & D1 & DS1).
      destruct (IH s1) as (lifted & s2 & E2 & G2 & O2 & D2 & DS2).
      exists (kd' :: lifted), s2. cbn [mapM]. unfold bind at 1. rewrite E1. unfold bind at 1. rewrite E2.
      split; [reflexivity|]. split; [constructor; auto|]. split; [lia|]. split; congruence. }
  destruct H as (lifted & s' & E & G & R). exists lifted, s'. unfold bind. rewrite E. split; [reflexivity|]. split; [exact G|exact R].
Qed.

(* a group after the pass: untouched when all its members are adjacent; a lone unflagged member that is
   not adjacent is replaced by the top of its chain *)
Definition g_rel (p : taxon) (g g' : option nat * list hog) : Prop :=
  (forall y, In y (snd g) -> adjacent p (fst g, y) = true) /\ g' = g \/
  exists y kd', g = (None, [y]) /\ adjacent p (None, y) = false /\ genrel p (None, y) kd' /\ g' = (fst kd', [snd kd']).

Lemma adjacent_flag p f f' y : adjacent p (f, y) = adjacent p (f', y).
Proof. reflexivity. Qed.

Lemma generic_assemble p cur : forall lifted,
  Forall (fun g => (forall y, In y (snd g) -> adjacent p (fst g, y) = true) \/
                   exists y, g = (None, [y]) /\ adjacent p (None, y) = false) cur ->
  Forall2 (genrel p) (filter (fun kd => negb (adjacent p kd)) (gkids cur)) lifted ->
  exists fg, Forall2 (g_rel p) cur fg /\ Permutation (filter (adjacent p) (gkids cur) ++ lifted) (gkids fg).
Proof.
  induction cur as [|g cur IH]; intros lifted Hshape HF.
  - simpl in HF. inversion HF; subst. exists []. split; constructor.
  - inversion Hshape as [|? ? Hg Hcur]; subst. destruct g as [f ys]. rewrite gkids_cons in *. rewrite !filter_app in *.
    unfold kid in *.
    destruct Hg as [Hadj|(y & Eg & Hna)].
    + simpl in Hadj.
      match type of HF with Forall2 _ (?a ++ _) _ => assert (E1 : a = []) end.
      { apply filter_none. intros kd Hkd. apply in_map_iff in Hkd as (y & <- & Hy). rewrite (Hadj y Hy). reflexivity. }
      match goal with |- context [Permutation ((?a ++ _) ++ _) _] => assert (E2 : a = map (pair f) ys) end.
      { apply filter_all. intros kd Hkd. apply in_map_iff in Hkd as (y & <- & Hy). exact (Hadj y Hy). }
      rewrite E1 in HF. simpl in HF. destruct (IH lifted Hcur HF) as (fg & F & P).
      exists ((f, ys) :: fg). split; [constructor; [left; split; [exact Hadj|reflexivity]|exact F]|].
      rewrite E2, gkids_cons, <- app_assoc. apply Permutation_app_head. exact P.
    + inversion Eg; subst f ys. cbn [map filter] in *. rewrite Hna in *. cbn [negb app] in *.
      inversion HF as [|? kd' ? lifted' Hkd' HF']; subst.
      destruct (IH lifted' Hcur HF') as (fg & F & P).
      exists ((fst kd', [snd kd']) :: fg). split.
      * constructor; [|exact F]. right. exists y, kd'. auto.
      * rewrite gkids_cons. cbn [map app]. destruct kd' as [f' top]. cbn [fst snd].
        apply Permutation_sym. apply Permutation_cons_app. apply Permutation_sym. exact P.
Qed.

Lemma generic_phase hid p cur ks1 s :
  Permutation ks1 (gkids cur) ->
  Forall (fun g => (forall y, In y (snd g) -> adjacent p (fst g, y) = true) \/
                   exists y, g = (None, [y]) /\ adjacent p (None, y) = false) cur ->
  exists fg ks2 s', generic_pass hid p ks1 s = Ok (ks2, s') /\ Forall2 (g_rel p) cur fg /\ Permutation ks2 (gkids fg) /\
    s_oid s <= s_oid s' /\ s_dup s' = s_dup s /\ s_dups s' = s_dups s.
Proof.
  intros HP Hshape.
  destruct (generic_pass_spec hid p ks1 s) as (lifted & s' & E & G & R).
  pose proof (filter_perm (fun kd => negb (adjacent p kd)) _ _ HP) as Pna.
  destruct (Forall2_perm_l _ _ _ _ G Pna) as (lifted' & PL & G').
  destruct (generic_assemble p cur lifted' Hshape G') as (fg & F & P).
  exists fg. eexists _, s'. split; [exact E|]. split; [exact F|]. split; [|exact R].
  eapply Permutation_trans; [|exact P]. apply Permutation_app; [apply filter_perm; exact HP|exact PL].
Qed.

(* ---------- where the members of the pending groups live ---------- *)
Lemma Forall2_rep_clade t genes X cs ys :
  Forall (fun c => WFh t genes c /\ xtax c = X) cs -> Forall2 (rep t) cs ys -> Forall (fun y => in_clade X (htax y)) ys.
Proof.
  intros Hwf HF. induction HF as [|c y cr yr Hr HF IH]; constructor.
  - inversion Hwf as [|? ? [Hw Hx] _]; subst. eapply rep_clade; eauto.
  - apply IH. inversion Hwf; auto.
Qed.

Lemma sole_facts t genes c a cs :
  WFh t genes c -> below c (XH a [cs]) ->
  in_clade (xtax c) a /\ valid t a = true /\ is_leaf t a = false /\
  Forall (fun ci => WFh t genes ci /\ xtax ci = lin_tax cs) cs /\ exists b', lin_tax cs = b' :: a.
Proof.
  intros Hwf Hb. destruct (below_WF t genes c _ Hb Hwf) as (Hw' & s & Hs). cbn [xtax] in Hs.
  split; [exists s; exact Hs|]. pose proof Hw' as Hw0. apply WFh_inv in Hw0 as (Hv & Hl & _ & _ & Hmem).
  split; [exact Hv|]. split; [exact Hl|]. inversion Hmem as [|? ? [Hne Hm] _]; subst.
  split.
  - rewrite Forall_forall in *. intros ci Hci. destruct (Hm ci Hci) as (Hwi & _ & _ & Hli). auto.
  - destruct cs as [|c0 cr]; [contradiction|]. inversion Hm as [|? ? (_ & Hn & Ht & _) _]; subst. simpl.
    destruct (xtax c0) as [|b' q]; [contradiction|]. simpl in Ht. subst q. eauto.
Qed.

Lemma pend_clade t genes s p l g :
  lin_ok t genes p l -> pend t s p l g ->
  snd g <> [] /\ Forall (fun y => in_clade (lin_tax l) (htax y)) (snd g).
Proof.
  intros [Hne Hok] Hp. destruct Hp as [c y Hr|cs k ys H2 HF Hm Hl|c a cs k ys Hb H2 HF Hm Hl]; cbn [snd].
  - split; [discriminate|]. inversion Hok as [|? ? (Hw & b & Hx & _) _]; subst. constructor; [|constructor].
    simpl. eapply rep_clade; eauto.
  - split; [intros ->; apply Forall2_length' in HF; destruct cs as [|? [|? ?]]; simpl in *; try lia; discriminate|].
    eapply Forall2_rep_clade; [|exact HF]. rewrite Forall_forall in *. intros ci Hci. destruct (Hok ci Hci) as (Hw & b & Hx & Hlt). split; [exact Hw|congruence].
  - split; [intros ->; apply Forall2_length' in HF; destruct cs as [|? [|? ?]]; simpl in *; try lia; discriminate|].
    inversion Hok as [|? ? (Hw & b & Hx & _) _]; subst.
    destruct (sole_facts t genes c a cs Hw Hb) as (Hca & _ & _ & Hcs & b' & Hb').
    pose proof (Forall2_rep_clade t genes (lin_tax cs) cs ys Hcs HF) as Hcl.
    eapply Forall_impl; [|exact Hcl]. intros y Hy. simpl.
    eapply in_clade_trans; [exact Hca|]. eapply in_clade_trans; [|exact Hy]. exists [b']. rewrite Hb'. reflexivity.
Qed.

(* ---------- the level the group is placed at ---------- *)
Lemma lift_level_ge p ks : forall s,
  (forall k c, In (Some k, c) ks -> exists a, mrca_is s k a /\ depth p <= depth a) -> lift_level ks p s = Ok (p, s).
Proof.
  induction ks as [|[[k|] c] r IH]; intros s H; simpl; [reflexivity| |].
  - unfold bind, dup_mrca. destruct (H k c (or_introl eq_refl)) as (a & (d & Hd & Hm) & Hle). rewrite Hd, Hm.
    assert (E : Nat.ltb (depth a) (depth p) = false) by (apply Nat.ltb_ge; exact Hle). rewrite E.
    apply IH. intros k' c' Hin. apply (H k' c'). right. exact Hin.
  - apply IH. intros k' c' Hin. apply (H k' c'). right. exact Hin.
Qed.

Lemma in_clade_neq b p q : in_clade (b :: p) q -> q <> p.
Proof. intros [s ->] E. apply (f_equal (@List.length nat)) in E. rewrite app_length in E. simpl in E. lia. Qed.

Lemma taxa_gkids_cons f ys gs :
  map (fun kd : kid => htax (snd kd)) (gkids ((f, ys) :: gs)) = map htax ys ++ map (fun kd : kid => htax (snd kd)) (gkids gs).
Proof. rewrite gkids_cons, map_app, map_map. reflexivity. Qed.

Lemma close_level t genes p lins gs s :
  lins <> [] -> NoDup (map lin_tax lins) -> Forall (lin_ok t genes p) lins ->
  Forall2 (pend t s p) lins gs -> (single lins = true -> Forall2 exact_kid lins gs) ->
  exists x more lvl0, dedup_tax (map (fun kd : kid => htax (snd kd)) (gkids gs)) = x :: more /\
    (more = [] -> exists l, lins = [l] /\ x = lin_tax l) /\
    (match more with [] => up_or_fail x | _ => ret (fold_left lcs more x) end) s = Ok (lvl0, s) /\
    lift_level (gkids gs) lvl0 s = Ok (p, s).
Proof.
  intros Hne Hnd Hok HF Hex.
  destruct lins as [|l1 [|l2 lr]]; [contradiction| |].
  - (* one lineage *)
    inversion HF as [|? g ? gr Hp HF']; subst. inversion HF'; subst. inversion Hok as [|? ? Hok1 _]; subst.
    specialize (Hex eq_refl). inversion Hex as [|? ? ? ? Hex1 _]; subst.
    destruct Hp as [c y Hr|cs k ys H2 HFr Hm Hl|c a cs k ys Hb H2 HFr Hm Hl].
    + destruct Hex1 as (y' & Ey & Hy). inversion Ey; subst y'.
      destruct Hok1 as [_ Hc]. inversion Hc as [|? ? (_ & b & Hx & _) _]; subst.
      exists (xtax c), [], p. unfold gkids. simpl. rewrite Hy. split; [reflexivity|]. split; [intros _; exists [c]; auto|].
      split; [unfold up_or_fail; rewrite Hx; reflexivity|reflexivity].
    + destruct Hok1 as [Hcne Hc].
      assert (HX : exists b, lin_tax cs = b :: p).
      { destruct cs as [|c0 cr]; [contradiction|]. inversion Hc as [|? ? (_ & b & _ & Hlt) _]; subst. eauto. }
      destruct HX as [b HX].
      assert (Hys : ys <> []) by (intros ->; apply Forall2_length' in HFr; destruct cs as [|? [|? ?]]; simpl in *; try lia; discriminate).
      assert (Htaxa : map (fun kd : kid => htax (snd kd)) (gkids [(Some k, ys)]) = map htax ys).
      { rewrite taxa_gkids_cons. unfold gkids. simpl. apply app_nil_r. }
      rewrite Htaxa.
      assert (Hall_k : forall k' c', In (Some k', c') (gkids [(Some k, ys)]) -> mrca_is s k' p).
      { intros k' c' Hin. apply gkids_flags_in in Hin. destruct Hin as [<-|[]]. exact Hm. }
      destruct Hl as [Hall|(x & r & Hdd & Hr & Hf)].
      * exists (lin_tax cs), [], p. split; [apply dedup_tax_single; [destruct ys; [contradiction|discriminate]|exact Hall]|].
        split; [intros _; exists cs; auto|]. split; [unfold up_or_fail; rewrite HX; reflexivity|].
        apply lift_level_id. exact Hall_k.
      * exists x, r, (lin_tax cs). split; [exact Hdd|]. split; [intros ->; contradiction|].
        split; [destruct r; [contradiction|]; unfold ret; rewrite Hf; reflexivity|].
        destruct ys as [|y0 yr]; [contradiction|]. unfold gkids. cbn [flat_map map app fst snd lift_level].
        destruct Hm as (d & Hd & Hmd). unfold bind at 1. unfold dup_mrca. rewrite Hd, Hmd.
        assert (E : Nat.ltb (depth p) (depth (lin_tax cs)) = true) by (rewrite HX; apply Nat.ltb_lt; simpl; lia). rewrite E.
        apply lift_level_id. intros k' c' Hin. apply (Hall_k k' c'). unfold gkids. cbn [flat_map map app fst snd]. right. exact Hin.
    + destruct Hex1 as (y' & Ey & _). discriminate.
  - (* at least two lineages: two members in different child clades of p *)
    assert (Hcl : Forall2 (fun l g => snd g <> [] /\ Forall (fun y => in_clade (lin_tax l) (htax y)) (snd g)) (l1 :: l2 :: lr) gs).
    { clear - Hok HF. revert Hok. induction HF as [|l g ls gs' Hp HF IH]; intros Hok; constructor.
      - inversion Hok; subst. eapply pend_clade; eauto.
      - apply IH. inversion Hok; auto. }
    assert (Hb : Forall (fun l => exists b, lin_tax l = b :: p) (l1 :: l2 :: lr)).
    { eapply Forall_impl; [|exact Hok]. intros l [Hlne Hc]. destruct l as [|c0 cr]; [contradiction|].
      inversion Hc as [|? ? (_ & b & _ & Hlt) _]; subst. eauto. }
    inversion Hcl as [|? g1 ? gs1 [Hn1 Hc1] Hcl1]; subst. inversion Hcl1 as [|? g2 ? gs2 [Hn2 Hc2] Hcl2]; subst.
    inversion Hb as [|? ? [b1 Hb1] Hb']; subst. inversion Hb' as [|? ? [b2 Hb2] Hb'']; subst.
    assert (Hb12 : b1 <> b2).
    { intros ->. simpl in Hnd. inversion Hnd as [|? ? Hin _]; subst. apply Hin. left. congruence. }
    destruct g1 as [f1 ys1], g2 as [f2 ys2]. simpl in Hn1, Hn2, Hc1, Hc2.
    destruct ys1 as [|y1 yr1]; [contradiction|]. destruct ys2 as [|y2 yr2]; [contradiction|].
    inversion Hc1 as [|? ? [s1 Hy1] _]; subst. inversion Hc2 as [|? ? [s2 Hy2] _]; subst. rewrite Hb1 in Hy1. rewrite Hb2 in Hy2.
    set (taxa := map (fun kd : kid => htax (snd kd)) (gkids ((f1, y1 :: yr1) :: (f2, y2 :: yr2) :: gs2))).
    assert (Hin1 : In (s1 ++ b1 :: p) taxa).
    { unfold taxa. rewrite taxa_gkids_cons. simpl. left. exact Hy1. }
    assert (Hin2 : In (s2 ++ b2 :: p) taxa).
    { unfold taxa. rewrite !taxa_gkids_cons. apply in_or_app. right. simpl. left. exact Hy2. }
    assert (Hallp : Forall (in_clade p) taxa).
    { unfold taxa. apply Forall_forall. intros q Hq. apply in_map_iff in Hq as (kd & <- & Hkd).
      apply gkids_in_group in Hkd as (g & Hg & _ & Hy).
      destruct (Forall2_in_r _ _ _ _ Hcl Hg) as (l & Hl & (_ & Hc)). rewrite Forall_forall in Hc. specialize (Hc _ Hy).
      rewrite Forall_forall in Hb. destruct (Hb l Hl) as [b Hbl]. rewrite Hbl in Hc.
      eapply in_clade_trans; [|exact Hc]. exists [b]. reflexivity. }
    assert (Hd : Forall (in_clade p) (dedup_tax taxa)).
    { apply Forall_forall. intros q Hq. apply (proj1 (dedup_tax_in _ _)) in Hq. rewrite Forall_forall in Hallp. auto. }
    destruct (dedup_tax taxa) as [|x more] eqn:Ed.
    { exfalso. assert (In (s1 ++ b1 :: p) (dedup_tax taxa)) by (apply dedup_tax_in; exact Hin1). rewrite Ed in H. contradiction. }
    assert (Hf : fold_left lcs more x = p).
    { eapply (fold_lcs_two_clades p more x s1 b1 s2 b2); auto.
      - rewrite <- Ed. apply dedup_tax_in. exact Hin1.
      - rewrite <- Ed. apply dedup_tax_in. exact Hin2. }
    assert (Hmore : more <> []).
    { intros ->. simpl in Hf. subst x.
      assert (Hx : In p taxa) by (apply dedup_tax_in; rewrite Ed; left; reflexivity).
      unfold taxa in Hx. apply in_map_iff in Hx as (kd & Ekd & Hkd). apply gkids_in_group in Hkd as (g & Hg & _ & Hy).
      destruct (Forall2_in_r _ _ _ _ Hcl Hg) as (l & Hl & (_ & Hc)). rewrite Forall_forall in Hc. specialize (Hc _ Hy).
      rewrite Forall_forall in Hb. destruct (Hb l Hl) as [b Hbl]. rewrite Hbl in Hc. apply in_clade_neq in Hc. congruence. }
    exists x, more, p. split; [reflexivity|]. split; [intros ->; contradiction|].
    split; [destruct more; [contradiction|]; unfold ret; rewrite Hf; reflexivity|].
    apply lift_level_ge. intros k c Hin. apply gkids_in_group in Hin as (g & Hg & Ef & Hy). simpl in Ef, Hy.
    destruct (Forall2_in_r _ _ _ _ HF Hg) as (l & Hl & Hp).
    rewrite Forall_forall in Hok. pose proof (Hok l Hl) as [Hlne Hlc].
    destruct Hp as [c0 y Hr|cs k0 ys H2 HFr Hm Hlv|c0 a cs k0 ys Hbl H2 HFr Hm Hlv]; simpl in Ef; try discriminate; inversion Ef; subst k0.
    + exists p. split; [exact Hm|lia].
    + exists a. split; [exact Hm|]. inversion Hlc as [|? ? (Hw & b & Hx & _) _]; subst.
      destruct (sole_facts t genes c0 a cs Hw Hbl) as ([sa Hsa] & _). rewrite Hsa, Hx. unfold depth. rewrite app_length. simpl. lia.
Qed.

(* ---------- what the groups have become, lineage by lineage ---------- *)
Definition fin (t : stree) (c : hist) (top : hog) : Prop :=
  matches c top /\ htax top = xtax c /\ wf_node t top = true.

Lemma liftrel_fin t genes c y q b top :
  WFh t genes c -> rep t c y -> xtax c = b :: q -> liftrel q y top -> fin t c top.
Proof.
  intros Hwf Hr Hx (o & i & ->). exact (chain_completes t genes i c y q b o Hwf Hr Hx).
Qed.

Lemma Forall2_compose {A B C} (R1 : A -> B -> Prop) (R2 : B -> C -> Prop) (R3 : A -> C -> Prop) l1 l2 l3 :
  Forall2 R1 l1 l2 -> Forall2 R2 l2 l3 -> (forall a b c, In a l1 -> R1 a b -> R2 b c -> R3 a c) -> Forall2 R3 l1 l3.
Proof.
  intros H1. revert l3. induction H1 as [|a b r1 r2 Hab H1 IH]; intros l3 H2 H; inversion H2; subst; constructor.
  - eapply H; eauto. left. reflexivity.
  - apply IH; auto. intros a' b' c' Hin. apply H. right. exact Hin.
Qed.

Lemma mrca_is_fun s k a a' : mrca_is s k a -> mrca_is s k a' -> a = a'.
Proof. intros (d & Hd & Hm) (d' & Hd' & Hm'). congruence. Qed.

Lemma relm_of_fin t l tops : Forall2 (fin t) l tops -> relm l tops.
Proof. induction 1 as [|c top r r' (Hm & _) HF IH]; simpl; auto. Qed.

Lemma gl_ok_of_fin t l f tops :
  l <> [] -> Forall (fun c => xtax c = lin_tax l) l -> Forall2 (fin t) l tops ->
  (match l with [_] => f = None | _ => f <> None end) -> gl_ok t l (f, tops).
Proof.
  intros Hne Hx HF Hf. pose proof (Forall2_length' _ _ _ HF) as Hlen. unfold gl_ok. cbn [fst snd]. split; [|split].
  - intros ->. destruct l; [contradiction|discriminate].
  - clear Hf Hlen Hne. revert Hx. generalize (lin_tax l) as X. intros X Hx.
    induction HF as [|c top r r' (_ & Ht & Hw) HF IH]; constructor.
    + inversion Hx; subst. split; [congruence|exact Hw].
    + apply IH. inversion Hx; auto.
  - destruct l as [|c1 [|c2 r]]; [contradiction| |]; simpl in Hlen; split; auto; lia.
Qed.

(* the intermediate HOG built for a level that was spelt as its only duplication *)
Lemma sole_node t a cs k tops lifted mo m b' :
  valid t a = true -> is_leaf t a = false -> 2 <= List.length cs -> lin_tax cs = b' :: a ->
  Forall (fun c => xtax c = lin_tax cs) cs -> Forall2 (fin t) cs tops ->
  Permutation lifted (map (pair (Some k)) tops) ->
  matches (XH a [cs]) (HHog mo a m lifted) /\ wf_node t (HHog mo a m lifted) = true.
Proof.
  intros Hv Hl H2 Hb Hx HF HP.
  assert (Hcne : cs <> []) by (intros ->; simpl in H2; lia).
  assert (Hshape : match cs with [_] => Some k = None | _ => Some k <> None end).
  { destruct cs as [|c1 [|c2 r]]; simpl in H2; try lia. discriminate. }
  pose proof (gl_ok_of_fin t cs (Some k) tops Hcne Hx HF Hshape) as Hgl.
  assert (Hk : gkids [(Some k, tops)] = map (pair (Some k)) tops) by (unfold gkids; simpl; apply app_nil_r).
  split.
  - cbn [matches]. split; [reflexivity|]. exists [(Some k, tops)].
    split; [simpl; rewrite app_nil_r; exact HP|]. split; [reflexivity|]. split; [simpl; constructor; [intros []|constructor]|].
    split; [exact Hshape|]. split; [apply (relm_of_fin t); exact HF|exact I].
  - eapply (wf_closed t mo a m [cs] [(Some k, tops)] lifted); auto.
    + simpl. constructor; [intros []|constructor].
    + unfold gflags. simpl. constructor; [intros []|constructor].
    + rewrite Hk. apply Forall_forall. intros kd Hkd. apply in_map_iff in Hkd as (top & <- & Htop).
      destruct Hgl as (_ & Hn & _). rewrite Forall_forall in Hn. destruct (Hn top Htop) as [Ht _].
      unfold kid_child_of. simpl. rewrite Ht, Hb. exists b'. reflexivity.
    + rewrite Hk. destruct tops; [apply Forall2_length' in HF; destruct cs; simpl in *; try lia; discriminate|discriminate].
    + rewrite Hk. exact HP.
Qed.

Lemma after_rehome t genes s p l g g' :
  lin_ok t genes p l -> pend t s p l g -> r_rel p s g g' ->
  (exists c y', l = [c] /\ g' = (None, [y']) /\ rep t c y') \/
  (2 <= List.length l /\ exists k tops, g' = (Some k, tops) /\ Forall2 (fin t) l tops).
Proof.
  intros [Hne Hok] Hp Hr.
  destruct Hp as [c y Hry|cs k ys H2 HF Hm Hl|c a cs k ys Hb H2 HF Hm Hl].
  - inversion Hr; subst. left. exists c, y. auto.
  - right. split; [exact H2|]. inversion Hr as [|? ? tops Hm' HL|? ? a' mo m lifted tops Hm' Ha HL HP]; subst.
    + exists k, tops. split; [reflexivity|]. eapply Forall2_compose; [exact HF|exact HL|].
      intros c y top Hc Hry Hlr. rewrite Forall_forall in Hok. destruct (Hok c Hc) as (Hw & b & Hx & _).
      eapply liftrel_fin; eauto.
    + exfalso. apply Ha. eapply mrca_is_fun; eauto.
  - left. inversion Hok as [|? ? (Hw & b & Hx & _) _]; subst.
    destruct (sole_facts t genes c a cs Hw Hb) as (Hca & Hv & Hlf & Hcs & b' & Hb').
    inversion Hr as [|? ? tops Hm' HL|? ? a' mo m lifted tops Hm' Ha HL HP]; subst.
    + exfalso. assert (a = p) by (eapply mrca_is_fun; eauto). subst a. rewrite Hx in Hca. apply in_clade_neq in Hca. congruence.
    + assert (a' = a) by (eapply mrca_is_fun; eauto). subst a'.
      assert (HFin : Forall2 (fin t) cs tops).
      { eapply Forall2_compose; [exact HF|exact HL|]. intros ci y top Hci Hry Hlr. rewrite Forall_forall in Hcs.
        destruct (Hcs ci Hci) as [Hwi Hxi]. eapply liftrel_fin; eauto. rewrite Hxi. exact Hb'. }
      destruct (sole_node t a cs k tops lifted mo m b' Hv Hlf H2 Hb') as [Hmt Hwf]; auto.
      { eapply Forall_impl; [|exact Hcs]. intros ci [_ Hxi]. exact Hxi. }
      exists c, (HHog mo a m lifted). split; [reflexivity|]. split; [reflexivity|].
      exists (XH a [cs]). split; [exact Hb|]. split; [exact Hmt|]. split; [reflexivity|exact Hwf].
Qed.

Definition final_ok (t : stree) (l : list hist) (g : option nat * list hog) : Prop :=
  (match l with [_] => fst g = None | _ => fst g <> None end) /\ Forall2 (fin t) l (snd g).

Lemma adjacent_child p f y b : htax y = b :: p -> adjacent p (f, y) = true.
Proof. intros H. unfold adjacent, depth. cbn [snd]. rewrite H. cbn [List.length]. apply Nat.eqb_refl. Qed.

Lemma adjacent_clade p f y b : in_clade (b :: p) (htax y) -> adjacent p (f, y) = true -> htax y = b :: p.
Proof.
  intros [s Hs] Ha. unfold adjacent, depth in Ha. cbn [snd] in Ha. rewrite Hs in Ha. apply Nat.eqb_eq in Ha.
  rewrite app_length in Ha. cbn [List.length] in Ha. destruct s; [exact Hs|cbn [List.length] in Ha; lia].
Qed.

Lemma after_generic t genes p l g' g'' :
  lin_ok t genes p l ->
  ((exists c y', l = [c] /\ g' = (None, [y']) /\ rep t c y') \/
   (2 <= List.length l /\ exists k tops, g' = (Some k, tops) /\ Forall2 (fin t) l tops)) ->
  g_rel p g' g'' -> final_ok t l g''.
Proof.
  intros [Hne Hok] Hg' Hrel. destruct Hg' as [(c & y' & -> & -> & Hry)|(H2 & k & tops & -> & HF)].
  - inversion Hok as [|? ? (Hw & b & Hx & _) _]; subst.
    destruct Hrel as [[Hadj ->]|(y & kd' & Ey & Hna & (o & i & Ekd) & ->)].
    + split; [reflexivity|]. cbn [snd]. constructor; [|constructor].
      specialize (Hadj y' (or_introl eq_refl)). cbn [fst] in Hadj.
      assert (Hy : htax y' = b :: p).
      { eapply adjacent_clade; [|exact Hadj]. rewrite <- Hx. eapply rep_clade; eauto. }
      pose proof (chain_completes t genes None c y' p b 0 Hw Hry Hx) as Hc. cbv zeta in Hc.
      rewrite Hy, path_up_child in Hc. exact Hc.
    + inversion Ey; subst y. subst kd'. unfold gen_out. cbn [fst snd].
      pose proof (chain_completes t genes i c y' p b o Hw Hry Hx) as Hc. cbv zeta in Hc.
      destruct (path_up (htax y') p) as [|tx r] eqn:Ep; cbn [fst snd]; (split; [reflexivity|constructor; [exact Hc|constructor]]).
  - destruct Hrel as [[_ ->]|(y & kd' & Ey & _)]; [|discriminate].
    split; [|exact HF]. cbn [fst]. destruct l as [|c1 [|c2 r]]; simpl in H2; try lia. discriminate.
Qed.

(* ---------- closing a spelt group ---------- *)
Lemma pend_same_dups t s s' p l g : s_dups s' = s_dups s -> pend t s p l g -> pend t s' p l g.
Proof.
  intros E H. pose proof (mrca_eq_same_dups s s' E) as Q.
  destruct H as [c y Hr|cs k ys H2 HF Hm Hl|c a cs k ys Hb H2 HF Hm Hl].
  - constructor; auto.
  - constructor; auto. apply Q. exact Hm.
  - eapply pend_sole; eauto. apply Q. exact Hm.
Qed.

Lemma g_rel_flag p g g' : g_rel p g g' -> fst g' = fst g.
Proof.
  intros [[_ ->]|(y & kd' & -> & _ & (o & i & ->) & ->)]; [reflexivity|].
  unfold gen_out. cbn [fst snd]. destruct (path_up (htax y) p); reflexivity.
Qed.

Lemma gflags_g_rel p cur fg : Forall2 (g_rel p) cur fg -> gflags fg = gflags cur.
Proof.
  induction 1 as [|g g' r r' Hg HF IH]; [reflexivity|]. unfold gflags in *. simpl. rewrite IH, (g_rel_flag p g g' Hg). reflexivity.
Qed.

Lemma lin_ok_of_WF t genes p lins : WFh t genes (XH p lins) -> Forall (lin_ok t genes p) lins.
Proof.
  intros Hwf. apply WFh_inv in Hwf as (_ & _ & _ & _ & Hmem). eapply Forall_impl; [|exact Hmem].
  intros l [Hne Hm]. split; [exact Hne|]. eapply Forall_impl; [|exact Hm]. intros c (Hw & Hn & Ht & Hl).
  split; [exact Hw|]. destruct (xtax c) as [|b q] eqn:E; [contradiction|]. simpl in Ht. subst q. exists b. split; [reflexivity|]. now rewrite <- Hl.
Qed.

Lemma rel_of_final t lins fg : Forall2 (final_ok t) lins fg -> rel lins fg.
Proof.
  induction 1 as [|l [f tops] lr gr [Hf HF] _ IH]; simpl; [exact I|]. simpl in Hf, HF.
  split; [exact Hf|]. split; [apply (relm_of_fin t); exact HF|exact IH].
Qed.

Lemma close_spelt t genes top id og p lins inner gs s :
  WFh t genes (XH p lins) ->
  f_kids inner = gkids gs -> Forall2 (pend t s p) lins gs -> (single lins = true -> Forall2 exact_kid lins gs) ->
  (match assoc_last "TaxRange" (f_props inner) with
   | None => True
   | Some v => forall l, lins = [l] -> name_of t (lin_tax l) <> Some v
   end) ->
  NoDup (gflags gs) -> dups_dom s ->
  exists x s', close_og t top id og inner s = Ok (Node x, s') /\ matches (XH p lins) x /\ htax x = p /\ wf_node t x = true /\
    s_oid s <= s_oid s' /\ s_dup s' = s_dup s /\ dups_dom s' /\
    (forall k, ~ In k (gflags gs) -> dup_lookup k (s_dups s') = dup_lookup k (s_dups s)).
Proof.
  intros Hwf Hk HF Hex Hlab Hnd Hdom.
  pose proof (lin_ok_of_WF t genes p lins Hwf) as Hok.
  pose proof Hwf as Hwf0. apply WFh_inv in Hwf0 as (Hv & Hl & Hne & Hndl & _).
  destruct (close_level t genes p lins gs s Hne Hndl Hok HF Hex) as (x & more & lvl0 & Hd & Hmore & Hlvl0 & Hlift).
  unfold close_og. cbv zeta. unfold kid in *. rewrite Hk, Hd.
  assert (Hcol : (match more, assoc_last "TaxRange" (f_props inner), name_of t x with
                  | [], Some v, Some n => String.eqb v n
                  | _, _, _ => false
                  end) = false).
  { destruct more as [|m0 mr]; [|reflexivity]. destruct (Hmore eq_refl) as (l & -> & ->).
    destruct (assoc_last "TaxRange" (f_props inner)) as [v|]; [|reflexivity].
    destruct (name_of t (lin_tax l)) as [n|] eqn:En; [|reflexivity].
    destruct (String.eqb v n) eqn:E; [|reflexivity]. apply String.eqb_eq in E. subst n. exfalso. exact (Hlab l eq_refl En). }
  rewrite Hcol. unfold bind at 1. rewrite Hlvl0. unfold bind at 1. rewrite Hlift.
  destruct (ensure_spec p s) as (s1 & E1 & O1 & D1 & DS1). unfold bind at 1. rewrite E1.
  destruct (fresh_oid_spec s1) as (s2 & E2 & O2 & D2 & DS2). unfold bind at 1. rewrite E2.
  destruct (register_spec p (RHog (s_oid s1)) s2) as (s3 & E3 & O3 & D3 & DS3). unfold bind at 1. rewrite E3.
  assert (Hdups3 : s_dups s3 = s_dups s) by (rewrite DS3, DS2, DS1; reflexivity).
  assert (Hdom3 : dups_dom s3) by (unfold dups_dom; rewrite D3, D2, D1, Hdups3; exact Hdom).
  assert (HF3 : Forall2 (pend t s3 p) lins gs).
  { clear - HF Hdups3. induction HF; constructor; auto. eapply pend_same_dups; eauto. }
  (* the pending groups are not empty; the duplication keys are their flags *)
  assert (Hcl : Forall2 (fun l g => snd g <> [] /\ Forall (fun y => in_clade (lin_tax l) (htax y)) (snd g)) lins gs).
  { clear - Hok HF. revert Hok. induction HF as [|l g ls gs' Hp HF IH]; intros Hok; constructor.
    - inversion Hok; subst. eapply pend_clade; eauto.
    - apply IH. inversion Hok; auto. }
  assert (Hgne : Forall (fun g : option nat * list hog => snd g <> []) gs).
  { clear - Hcl. induction Hcl as [|l g ls gs' [Hn _] _ IH]; constructor; auto. }
  rewrite (dup_keys_gkids gs [] Hgne Hnd) by (intros k _ []).
  set (meta := {| m_id := match id with Some i => Some i | None => og end; m_og := og;
                  m_props := f_props inner; m_scores := f_scores inner; m_synth := false |}).
  assert (Hmr : forall k, In k (gflags gs) -> exists a, mrca_is s3 k a).
  { intros k Hin. clear - HF3 Hin. induction HF3 as [|l g ls gs' Hp HF IH]; [contradiction|].
    change (g :: gs') with ([g] ++ gs') in Hin. rewrite gflags_app in Hin. apply in_app_or in Hin as [Hin|Hin]; [|auto].
    destruct Hp as [c y Hr|cs k0 ys H2 HFr Hm Hlv|c a cs k0 ys Hb H2 HFr Hm Hlv]; unfold gflags in Hin; simpl in Hin;
      try contradiction; destruct Hin as [<-|[]]; eauto. }
  destruct (rehome_phase (hog_id_of meta) (s_oid s1) p gs [] (gkids gs) s3 (Permutation_refl _) Hnd)
    as (cur & ks1 & s4 & E4 & P4 & R4 & I4 & N4 & O4 & D4 & Hdom4 & Q4 & U4); auto.
  unfold kid in *. unfold bind at 1. rewrite E4. simpl in P4.
  (* after re-homing: lone unflagged members, or the lifted copies of the group's own duplications *)
  assert (HA : Forall2 (fun l g' =>
                 (exists c y', l = [c] /\ g' = (None, [y']) /\ rep t c y') \/
                 (2 <= List.length l /\ exists k tops, g' = (Some k, tops) /\ Forall2 (fin t) l tops)) lins cur).
  { eapply Forall2_compose; [exact HF3|exact R4|]. intros l g g' Hl' Hp Hr. rewrite Forall_forall in Hok.
    eapply after_rehome; eauto. }
  assert (Hshape : Forall (fun g => (forall y, In y (snd g) -> adjacent p (fst g, y) = true) \/
                                    exists y, g = (None, [y]) /\ adjacent p (None, y) = false) cur).
  { clear - HA Hok. revert Hok. induction HA as [|l g' ls gs' Hg HA IH]; intros Hok; constructor.
    - inversion Hok as [|? ? [Hlne Hlc] _]; subst. destruct Hg as [(c & y' & -> & -> & Hr)|(H2 & k & tops & -> & HFin)].
      + destruct (adjacent p (None, y')) eqn:E.
        * left. intros y [<-|[]]. exact E.
        * right. exists y'. auto.
      + left. cbn [fst snd]. intros y Hy.
        assert (Hty : exists c, In c l /\ htax y = xtax c).
        { clear - HFin Hy. induction HFin as [|c top r r' (_ & Ht & _) HFin IH]; [contradiction|].
          destruct Hy as [<-|Hy]; [exists c; split; [left; reflexivity|exact Ht]|].
          destruct (IH Hy) as (c' & Hc' & E). exists c'. split; [right; exact Hc'|exact E]. }
        destruct Hty as (c & Hc & Ety). rewrite Forall_forall in Hlc. destruct (Hlc c Hc) as (_ & b & Hx & _).
        eapply adjacent_child. rewrite Ety. exact Hx.
    - apply IH. inversion Hok; auto. }
  destruct (generic_phase (hog_id_of meta) p cur ks1 s4 P4 Hshape) as (fg & ks2 & s5 & E5 & G5 & P5 & O5 & D5 & DS5).
  unfold kid in *. unfold bind at 1. rewrite E5.
  assert (HFinal : Forall2 (final_ok t) lins fg).
  { eapply Forall2_compose; [exact HA|exact G5|]. intros l g' g'' Hl' Hg' Hg''. rewrite Forall_forall in Hok.
    eapply (after_generic t genes p l g' g''); [apply Hok; exact Hl'|exact Hg'|exact Hg'']. }
  assert (HGL : Forall2 (gl_ok t) lins fg).
  { clear - HFinal Hok. revert Hok. induction HFinal as [|l [f tops] ls gs' [Hf HFin] _ IH]; intros Hok; constructor.
    - inversion Hok as [|? ? [Hlne Hlc] _]; subst. simpl in Hf, HFin. apply gl_ok_of_fin; auto.
      eapply Forall_impl; [|exact Hlc]. intros c (_ & b & Hx & Hlt). congruence.
    - apply IH. inversion Hok; auto. }
  assert (Hfgflags : NoDup (gflags fg)) by (rewrite (gflags_g_rel p cur fg G5); exact N4).
  assert (Htax : Forall (fun l => exists a, lin_tax l = a :: p) lins).
  { eapply Forall_impl; [|exact Hok]. intros l [Hlne Hlc]. destruct l as [|c0 cr]; [contradiction|].
    inversion Hlc as [|? ? (_ & b & _ & Hlt) _]; subst. eauto. }
  assert (Hall : Forall (kid_child_of p) (gkids fg)) by (eapply gkids_taxa; eauto).
  assert (Hfgne : gkids fg <> []).
  { destruct lins as [|l lr]; [contradiction|]. inversion HGL as [|? g ? gr Hg _]; subst.
    destruct Hg as (Hcs & _). rewrite (surjective_pairing g), gkids_cons. destruct (snd g); [contradiction|discriminate]. }
  eexists _, s5. split; [reflexivity|]. split; [|split; [reflexivity|split; [|split; [|split; [|split]]]]].
  - cbn [matches]. split; [reflexivity|]. exists fg. split; [exact P5|]. split; [symmetry; eapply Forall2_length; eauto|].
    split; [exact Hfgflags|]. apply (rel_of_final t). exact HFinal.
  - eapply wf_closed; eauto.
  - lia.
  - congruence.
  - unfold dups_dom. rewrite D5, DS5. exact Hdom4.
  - intros k Hk'. rewrite DS5, U4 by exact Hk'. exact (f_equal (dup_lookup k) Hdups3).
Qed.

(* ====================================================================================================
   Part 3: every spelt member, every spelt family, every spelt document.
   ==================================================================================================== *)
Lemma rep_step t p c y : rep t c y -> rep t (XH p [[c]]) y.
Proof. intros (h' & Hb & R). exists h'. split; [apply below_step; exact Hb|exact R]. Qed.

Lemma explicit_member t genes p lins id og body :
  WFh t genes (XH p lins) -> Forall (Forall (Pmember t genes)) lins ->
  sp_body t (single lins) p lins body -> label_ok t lins body ->
  forall pg fr s, dups_dom s -> NoDup (flat_map refs_of body) -> lfresh s (flat_map refs_of body) ->
  exists x s', eval_item t genes (IOG id og body) pg fr s = Ok (add_kids fr [(pg, x)], s') /\
    matches (XH p lins) x /\ htax x = p /\ wf_node t x = true /\ ext s s' /\ dups_dom s'.
Proof.
  intros Hwf HIH Hsp Hlab pg fr s Hdom Hnd Hfr.
  pose proof (lin_ok_of_WF t genes p lins Hwf) as Hok.
  destruct (body_eval t genes p (single lins) lins body Hsp HIH Hok [] empty_frame s eq_refl) as
    (gs & inner & s1 & E1 & K1 & P1 & X1 & D1 & F1 & G1 & N1 & Ex1); [intros k []|exact Hdom|exact Hnd|exact Hfr|].
  simpl in K1.
  assert (Hlab' : match assoc_last "TaxRange" (f_props inner) with
                  | None => True
                  | Some v => forall l, lins = [l] -> name_of t (lin_tax l) <> Some v
                  end).
  { rewrite (body_props _ _ _ _ _ _ _ _ E1). exact Hlab. }
  destruct (close_spelt t genes false id og p lins inner gs s1 Hwf K1 P1 Ex1 Hlab' N1 D1)
    as (x & s2 & E2 & M2 & T2 & W2 & O2 & Du2 & D2 & U2).
  exists x, s2. split; [|split; [exact M2|split; [exact T2|split; [exact W2|split; [|exact D2]]]]].
  - cbn [eval_item]. fold (body_go t genes None). unfold bind at 1. rewrite E1. unfold bind at 1. rewrite E2. reflexivity.
  - destruct X1 as (A1 & B1 & C1). repeat split; try lia. intros k Hk. rewrite U2; [apply C1; exact Hk|].
    intros Hin. specialize (F1 k Hin). lia.
Qed.

Lemma eval_IOG t genes id og body pg fr s :
  eval_item t genes (IOG id og body) pg fr s =
  match body_go t genes None body empty_frame s with
  | Ok (inner, s1) =>
      match close_og t false id og inner s1 with
      | Ok (c, s2) =>
          Ok (match c with
              | Node h => add_kids fr [(pg, h)]
              | Collapsed ks => add_kids fr (match pg with Some _ => map (fun kd => (pg, snd kd)) ks | None => ks end)
              end, s2)
      | Err e => Err e
      end
  | Err e => Err e
  end.
Proof.
  cbn [eval_item]. fold (body_go t genes None). unfold bind.
  destruct (body_go t genes None body empty_frame s) as [[inner s1]|e]; [|reflexivity].
  destruct (close_og t false id og inner s1) as [[[ks|h] s2]|e]; reflexivity.
Qed.

Lemma gene_eval t genes g p loft pg fr s : find_gene g genes = Some p -> lfresh s [g] ->
  exists s', eval_item t genes (IGene g loft) pg fr s = Ok (add_kids fr [(pg, HGene g p)], s') /\
    s_oid s' = s_oid s /\ s_dup s' = s_dup s /\ s_dups s' = s_dups s.
Proof.
  intros Hf Hfr. destruct (loft_step g loft s Hfr) as (s' & E & R). exists s'. split; [|exact R].
  cbn [eval_item]. rewrite find_gene_fix, Hf. unfold bind at 1. rewrite E. reflexivity.
Qed.

Lemma wrap_inner t genes g p n loft s : find_gene g genes = Some p -> lfresh s [g] ->
  exists s', body_go t genes None [IProp "TaxRange" n; IGene g loft] empty_frame s =
    Ok ({| f_kids := [(None, HGene g p)]; f_props := [("TaxRange", n)]; f_scores := [] |}, s') /\
    s_oid s' = s_oid s /\ s_dup s' = s_dup s /\ s_dups s' = s_dups s.
Proof.
  intros H Hfr. rewrite body_go_cons. cbn [eval_item]. unfold ret at 1. cbv beta iota.
  destruct (gene_eval t genes g p loft None {| f_kids := f_kids empty_frame; f_props := f_props empty_frame ++ [("TaxRange", n)]; f_scores := f_scores empty_frame |} s H Hfr)
    as (s' & E & R). exists s'. split; [|exact R]. rewrite body_go_cons, E. reflexivity.
Qed.

Lemma wrap_close t id og g p n s : name_of t p = Some n ->
  close_og t false id og {| f_kids := [(None, HGene g p)]; f_props := [("TaxRange", n)]; f_scores := [] |} s =
  Ok (Collapsed [(None, HGene g p)], s).
Proof.
  intros Hn. unfold close_og. cbn [f_kids f_props map snd htax dedup_tax mem_tax existsb].
  assert (Ea : assoc_last "TaxRange" [("TaxRange", n)] = Some n) by reflexivity.
  rewrite Ea, Hn, String.eqb_refl. reflexivity.
Qed.

Lemma ext_same_counters s s' : s_oid s' = s_oid s -> s_dup s' = s_dup s -> s_dups s' = s_dups s -> ext s s' /\ (dups_dom s -> dups_dom s').
Proof. intros Ho Hd Hds. apply same_dups_ext; [lia|exact Hd|exact Hds]. Qed.

Theorem spelt_evaluates t genes h : Pmember t genes h.
Proof.
  induction h as [g p|p lins IH] using hist_ind'; intros Hwf mp its lv Hsp.
  - destruct Hwf as [Hf Hl].
    inversion Hsp as [mp' g' p' loft|mp' g' p' n id og loft Hn| | |]; subst; cbn [member_claim]; intros pg fr s Hdom Hnd Hfr.
    + cbn [flat_map refs_of app] in Hfr.
      destruct (gene_eval t genes g p loft pg fr s Hf Hfr) as (s' & E & O & D & DS).
      destruct (ext_same_counters s s' O D DS) as [Hext Hdd].
      exists (HGene g p), (add_kids fr [(pg, HGene g p)]), s'. split; [rewrite body_go_cons, E; reflexivity|].
      split; [reflexivity|]. split; [exists (XG g p); split; [constructor|]; split; [simpl; auto|]; split; [reflexivity|exact Hl]|].
      split; [reflexivity|]. split; [exact Hext|apply Hdd; exact Hdom].
    + cbn [flat_map refs_of app] in Hfr.
      destruct (wrap_inner t genes g p n loft s Hf Hfr) as (s' & E & O & D & DS).
      destruct (ext_same_counters s s' O D DS) as [Hext Hdd].
      exists (HGene g p), (add_kids fr [(pg, HGene g p)]), s'. split; [|split; [reflexivity|split; [|split; [reflexivity|split; [exact Hext|apply Hdd; exact Hdom]]]]].
      * rewrite body_go_cons, eval_IOG, E, (wrap_close t id og g p n s' Hn). destruct pg; reflexivity.
      * exists (XG g p). split; [constructor|]. split; [simpl; auto|]. split; [reflexivity|exact Hl].
  - inversion Hsp as [| |mp' p' lins' id og body Hbody Hlab|mp' p' c its' lv' Hc|p' cs og body lvls H2 Hun Hlv]; subst.
    + (* spelt out *)
      cbn [member_claim]. intros pg fr s Hdom Hnd Hfr. cbn [flat_map refs_of] in Hnd, Hfr. rewrite app_nil_r in Hnd, Hfr.
      destruct (explicit_member t genes p lins id og body Hwf IH Hbody Hlab pg fr s Hdom Hnd Hfr) as (x & s' & E & M & T & W & X' & D').
      exists x, (add_kids fr [(pg, x)]), s'. split; [rewrite body_go_cons, E; reflexivity|]. split; [reflexivity|].
      split; [exists (XH p lins); split; [constructor|]; split; [exact M|]; split; [exact T|exact W]|].
      split; [exact T|]. split; [exact X'|exact D'].
    + (* a single-lineage level left out *)
      inversion IH as [|? ? IHl _]; subst. inversion IHl as [|? ? IHc _]; subst.
      destruct (WFh_member_tax t genes p [[c]] [c] c Hwf (or_introl eq_refl) (or_introl eq_refl)) as (Hwc & _).
      pose proof (IHc Hwc mp its lv Hc) as Hclaim. destruct lv as [l|]; cbn [member_claim] in *.
      * intros pg fr s Hdom Hnd Hfr. destruct (Hclaim pg fr s Hdom Hnd Hfr) as (y & fr' & s' & E & K & R & L & X' & D').
        exists y, fr', s'. split; [exact E|]. split; [exact K|]. split; [apply rep_step; exact R|]. auto.
      * intros fr s Hdom Hfl Hnd Hfr. destruct (Hclaim fr s Hdom Hfl Hnd Hfr) as (ys & a & cs & fr' & s' & E & K & B & R).
        exists ys, a, cs, fr', s'. split; [exact E|]. split; [exact K|]. split; [apply below_step; exact B|exact R].
    + (* a level that consists of one duplication, spelt as that duplication *)
      cbn [member_claim]. intros fr s Hdom Hfl Hnd Hfr. cbn [flat_map refs_of] in Hnd, Hfr. rewrite app_nil_r in Hnd, Hfr.
      pose proof (lin_ok_of_WF t genes p [cs] Hwf) as Hok. inversion Hok as [|? ? [Hne Hokc] _]; subst.
      inversion IH as [|? ? IHl _]; subst.
      assert (HX : exists b, lin_tax cs = b :: p).
      { destruct cs as [|c0 cr]; [contradiction|]. inversion Hokc as [|? ? (_ & b & _ & Hl) _]; subst. eauto. }
      destruct HX as [b HX].
      assert (Hcopy : Forall (copy_IH t genes) cs).
      { rewrite Forall_forall in *. intros c Hc its l Hm. destruct (Hokc c Hc) as (Hw & _). apply (IHl c Hc Hw false its (Some l) Hm). }
      assert (Hwfx : Forall (fun c => WFh t genes c /\ xtax c = lin_tax cs) cs).
      { rewrite Forall_forall in *. intros c Hc. destruct (Hokc c Hc) as (Hw & b' & Hx & Hl). split; [exact Hw|congruence]. }
      destruct (nest_eval t genes (lin_tax cs) b p cs body lvls og Hun Hlv Hne Hcopy Hwfx HX fr s Hdom Hfl Hnd Hfr)
        as (ys & fr1 & s1 & E1 & K1 & R1 & Lv1 & M1 & Lt1 & X1 & D1).
      exists ys, p, cs, fr1, s1. split; [rewrite body_go_cons, E1; reflexivity|]. split; [exact K1|].
      split; [constructor|]. split; [exact H2|]. split; [exact R1|]. split; [rewrite Lv1; exact Hlv|]. auto.
Qed.

(* a top-level orthologGroup *)
Theorem spelt_top_evaluates t genes h it s :
  WFh t genes h -> spells_top t h it -> dups_dom s -> NoDup (refs_of it) -> lfresh s (refs_of it) ->
  exists i x s', eval_top t genes it s = Ok ((i, x), s') /\
    matches h x /\ htax x = xtax h /\ wf_node t x = true /\ ext s s' /\ dups_dom s'.
Proof.
  intros Hwf (p & lins & id & og & body & -> & -> & Hbody & Hlab) Hdom Hnd Hfr. cbn [refs_of] in Hnd, Hfr.
  assert (HIH : Forall (Forall (Pmember t genes)) lins).
  { apply Forall_forall. intros l _. apply Forall_forall. intros c _. apply spelt_evaluates. }
  pose proof (lin_ok_of_WF t genes p lins Hwf) as Hok.
  destruct (body_eval t genes p (single lins) lins body Hbody HIH Hok [] empty_frame s eq_refl) as
    (gs & inner & s1 & E1 & K1 & P1 & X1 & D1 & F1 & G1 & N1 & Ex1); [intros k []|exact Hdom|exact Hnd|exact Hfr|].
  simpl in K1.
  assert (Hlab' : match assoc_last "TaxRange" (f_props inner) with
                  | None => True
                  | Some v => forall l, lins = [l] -> name_of t (lin_tax l) <> Some v
                  end).
  { rewrite (body_props _ _ _ _ _ _ _ _ E1). exact Hlab. }
  destruct (close_spelt t genes true id og p lins inner gs s1 Hwf K1 P1 Ex1 Hlab' N1 D1)
    as (x & s2 & E2 & M2 & T2 & W2 & O2 & Du2 & D2 & U2).
  eexists _, x, s2. split; [|split; [exact M2|split; [exact T2|split; [exact W2|split; [|exact D2]]]]].
  - cbn [eval_top]. unfold eval_body. fold (body_go t genes None). unfold bind at 1. rewrite E1. unfold bind at 1. rewrite E2. reflexivity.
  - destruct X1 as (A1 & B1 & C1). repeat split; try lia. intros k Hk. rewrite U2; [apply C1; exact Hk|].
    intros Hin. specialize (F1 k Hin). lia.
Qed.

(* ---------- whole documents ---------- *)
Lemma spelt_tops_evaluate t genes hs : forall items s,
  Forall (WFh t genes) hs -> Forall2 (spells_top t) hs items -> dups_dom s ->
  NoDup (flat_map refs_of items) -> lfresh s (flat_map refs_of items) ->
  exists tops s', mapM (eval_top t genes) items s = Ok (tops, s') /\
    Forall2 (fun h top => matches h (snd top) /\ htax (snd top) = xtax h /\ wf_node t (snd top) = true) hs tops /\ dups_dom s'.
Proof.
  induction hs as [|h r IH]; intros items s Hwf Hsp Hdom Hnd Hfr; inversion Hsp as [|? it ? itr Hh Hr]; subst.
  - exists [], s. simpl. split; [reflexivity|]. split; [constructor|exact Hdom].
  - inversion Hwf as [|? ? Hw Hwr]; subst. cbn [flat_map] in Hnd, Hfr. destruct (lfresh_app _ _ _ Hfr) as [Hfr1 Hfr2].
    destruct (spelt_top_evaluates t genes h it s Hw Hh Hdom (nodup_app_l _ _ Hnd) Hfr1) as (i & x & s1 & E1 & M1 & T1 & W1 & X1 & D1).
    assert (Hfr1' : lfresh s1 (flat_map refs_of itr)) by (eapply lfresh_step; [exact Hnd|exact Hfr|eapply eval_top_lgrow; eauto]).
    destruct (IH itr s1 Hwr Hr D1 (nodup_app_r' _ _ Hnd) Hfr1') as (tops & s2 & E2 & F2 & D2).
    exists ((i, x) :: tops), s2. split; [|split; [constructor; auto|exact D2]].
    cbn [mapM]. unfold bind at 1. rewrite E1. unfold bind at 1. rewrite E2. reflexivity.
Qed.

Theorem spelt_load t d hs :
  Forall (species_sane t) (d_species d) -> NoDup (declared d) -> NoDup (flat_map refs_of (d_groups d)) ->
  Forall2 (spells_top t) hs (d_groups d) ->
  (forall genes, map fst genes = declared d ->
     (forall g p, In (g, p) genes -> exists sp, In sp (d_species d) /\ In g (map gd_id (sp_genes sp)) /\ species_resolves t sp p) ->
     Forall (WFh t genes) hs) ->
  exists l, load t d = Ok l /\
    Forall2 (fun h top => matches h (snd top) /\ htax (snd top) = xtax h /\ wf_node t (snd top) = true) hs (l_tops l).
Proof.
  intros Hsp Hnd Hrefs Hg Hwf.
  destruct (species_fold_ok t (d_species d) [] init_state Hsp Hnd) as (genes & s0 & E0 & D0 & DS0).
  pose proof (species_fold_spec t _ _ _ _ _ E0) as (I1 & _ & _ & I4). simpl in I1.
  assert (Hdom0 : dups_dom s0).
  { intros k. rewrite DS0, D0. simpl. split; [intros H; contradiction|intros H; inversion H]. }
  assert (HF : Forall (WFh t genes) hs).
  { apply Hwf; [exact I1|]. intros g p Hin. apply I4 in Hin as [[]|Hin]. exact Hin. }
  assert (Hfr0 : lfresh s0 (flat_map refs_of (d_groups d))).
  { intros g _. rewrite (species_lsame t _ _ _ _ _ E0). reflexivity. }
  destruct (spelt_tops_evaluate t genes hs (d_groups d) s0 HF Hg Hdom0 Hrefs Hfr0) as (tops & s1 & E1 & F1 & _).
  exists {| l_genes := genes; l_tops := tops; l_state := s1 |}. split; [|exact F1].
  unfold load. unfold bind at 1. rewrite E0. unfold bind at 1. rewrite E1. reflexivity.
Qed.

(* ---------- the fully explicit encoding is one of the spellings ---------- *)
Lemma enc_group t genes p lins :
  WFh t genes (XH p lins) ->
  Forall (Forall (fun h => WFh t genes h -> forall mp, sp_member t mp h [enc h] (Some (xtax h)))) lins ->
  sp_body t (single lins) p lins (map enc_lin lins) /\ label_ok t lins (map enc_lin lins).
Proof.
  intros Hwf IH. split.
  - pose proof (lin_ok_of_WF t genes p lins Hwf) as Hok. generalize (single lins) as sgl. intros sgl.
    clear Hwf. induction lins as [|l lr IHl]; [constructor|].
    inversion IH as [|? ? IHc IHr]; subst. inversion Hok as [|? ? [Hne Hokl] Hokr]; subst.
    specialize (IHl IHr Hokr). cbn [map].
    destruct l as [|c1 [|c2 cr]]; [contradiction| |].
    + inversion IHc as [|? ? Pc _]; subst. inversion Hokl as [|? ? (Hw & _) _]; subst.
      change (enc_lin [c1] :: map enc_lin lr) with ([enc c1] ++ map enc_lin lr).
      eapply sb_orth; [apply Pc; exact Hw|intros _; reflexivity|exact IHl].
    + set (cs := c1 :: c2 :: cr) in *. change (enc_lin cs) with (IPG None (map enc cs)).
      apply (sb_dup t sgl p cs lr None (map enc cs) (map xtax cs)); [simpl; lia| | |exact IHl].
      * assert (Hwcs : Forall (WFh t genes) cs) by (eapply Forall_impl; [|exact Hokl]; intros c (Hw & _); exact Hw).
        clear - IHc Hwcs. induction cs as [|c r IHr]; [constructor|].
        inversion IHc as [|? ? Pc Pr]; subst. inversion Hwcs as [|? ? Hw Hr]; subst.
        cbn [map]. change (enc c :: map enc r) with ([enc c] ++ map enc r). constructor; [apply Pc; exact Hw|apply IHr; auto].
      * left. apply Forall_forall. intros q Hq. apply in_map_iff in Hq as (c & <- & Hc).
        rewrite Forall_forall in Hokl. destruct (Hokl c Hc) as (_ & b & Hx & Hl). congruence.
  - unfold label_ok.
    assert (E : flat_map item_props (map enc_lin lins) = []).
    { clear. induction lins as [|l lr IHl]; [reflexivity|]. cbn [map flat_map]. rewrite IHl, app_nil_r.
      destruct l as [|c1 [|c2 cr]].
      - reflexivity.
      - destruct c1; reflexivity.
      - cbn [enc_lin item_props]. clear. induction (c1 :: c2 :: cr) as [|c r IHr]; [reflexivity|]. cbn [map flat_map]. rewrite IHr, app_nil_r. destruct c; reflexivity. }
    rewrite E. exact I.
Qed.

Lemma enc_spells t genes h : WFh t genes h -> forall mp, sp_member t mp h [enc h] (Some (xtax h)).
Proof.
  induction h as [g p|p lins IH] using hist_ind'; intros Hwf mp.
  - constructor.
  - rewrite enc_XH. cbn [xtax]. destruct (enc_group t genes p lins Hwf IH) as [Hb Hl]. apply sm_explicit; assumption.
Qed.

Lemma enc_spells_top t genes p lins : WFh t genes (XH p lins) -> spells_top t (XH p lins) (enc (XH p lins)).
Proof.
  intros Hwf. rewrite enc_XH. destruct (enc_group t genes p lins Hwf) as [Hb Hl].
  - apply Forall_forall. intros l _. apply Forall_forall. intros c _. apply enc_spells.
  - exists p, lins, None, None, (map enc_lin lins). auto.
Qed.
