(* C11 — a filtered load is the projection of the full load onto the selected families. *)
From Coq Require Import List Arith Bool String Permutation.
From PyHam Require Import Tax Ortho Loader Mapper Preds Filter Hist Spell Whole.
From PyHam.proofs Require Import LoaderFacts FilterFacts WholeFacts FilterSpellFacts.
Import ListNotations.

(* Proved, for all documents whose top-level groups carry ids and
   reference every gene at most once, and all filters:
   (1) the collecting pass selects exactly the families that are named or contain a gene selected
       by internal id or by any attribute value (selected), and the genes it keeps are the directly
       selected genes plus the members of the selected families;
   (2) position independence: the selection of a family does not depend on where it stands;
   (3) the filtered load is the load of the projected document, hence (C01 on that document) its
       families are exactly the selected ones, each with exactly the member genes referenced in its
       group - the same members as in the unfiltered load.
   (4) for consistent inputs (WholeFacts.consistent) whose top-level groups carry pairwise different ids: the
       document the building pass sees is again a consistent input, spelling the histories of exactly the
       selected families (c11_projection_consistent); hence the filtered load succeeds, each selected family
       matches the same history as in the unfiltered load - same members, same taxon for every HOG, same
       duplication grouping -, and the filtered forest satisfies wfbc, so every theorem about comparisons,
       profiles and navigation holds for the filtered analysis too (c11_same_hierarchy).
   Unselected families and their genes are absent by (3): the filtered load is the load of the projected
   document, which does not contain them.  Tied to the code by the filter-layer correspondence and by
   comparing canonical forms of the filtered and the unfiltered load of the real implementation. *)
Theorem c11_selection : forall f d,
  Forall is_idd_group (d_groups d) -> NoDup (flat_map refs_of (d_groups d)) ->
  pass1 f d = Ok (direct_genes f d ++ flat_map refs_of (filter (selected f (direct_genes f d)) (d_groups d)),
                  flat_map group_id (filter (selected f (direct_genes f d)) (d_groups d))).
Proof. exact pass1_spec. Qed.
Print Assumptions c11_selection.

Theorem c11_position_independent : forall f direct gs gs',
  Permutation gs gs' ->
  Permutation (flat_map group_id (filter (selected f direct) gs)) (flat_map group_id (filter (selected f direct) gs')).
Proof. exact selection_position_independent. Qed.
Print Assumptions c11_position_independent.

Theorem c11_filtered_is_projected : forall t f d genes hogs l,
  pass1 f d = Ok (genes, hogs) -> load_filtered t f d = Ok l ->
  load t (project_doc genes hogs d) = Ok l /\
  map fst (l_genes l) = declared (project_doc genes hogs d) /\
  Forall2 (top_ok (l_genes l)) (d_groups (project_doc genes hogs d)) (l_tops l).
Proof.
  intros t f d genes hogs l Hp Hl. unfold load_filtered in Hl. rewrite Hp in Hl. split; [exact Hl|].
  apply load_spec in Hl as (H1 & _ & _ & _ & H5). auto.
Qed.
Print Assumptions c11_filtered_is_projected.

Theorem c11_projection_consistent : forall t f d hs gsel hsel,
  consistent t d hs -> Forall is_idd_group (d_groups d) -> NoDup (flat_map group_id (d_groups d)) ->
  pass1 f d = Ok (gsel, hsel) ->
  consistent t (project_doc gsel hsel d) (sel_hs (keep hsel) hs (d_groups d)).
Proof. exact projected_consistent. Qed.
Print Assumptions c11_projection_consistent.

Theorem c11_same_hierarchy : forall t f d hs gsel hsel,
  consistent t d hs -> Forall is_idd_group (d_groups d) -> NoDup (flat_map group_id (d_groups d)) ->
  pass1 f d = Ok (gsel, hsel) ->
  exists l lf, load t d = Ok l /\ load_filtered t f d = Ok lf /\
    Forall2 (fun h top => matches h (snd top) /\ htax (snd top) = xtax h /\ wf_node t (snd top) = true) hs (l_tops l) /\
    Forall2 (fun h top => matches h (snd top) /\ htax (snd top) = xtax h /\ wf_node t (snd top) = true)
            (sel_hs (keep hsel) hs (d_groups d)) (l_tops lf) /\
    wfbc t (forest_of lf) = true.
Proof.
  intros t f d hs gsel hsel Hc Hidd Hids Hp.
  destruct (consistent_forest t d hs Hc) as (l & El & _ & Fl).
  destruct (consistent_forest t _ _ (projected_consistent t f d hs gsel hsel Hc Hidd Hids Hp)) as (lf & Elf & Wf & Ff).
  exists l, lf. split; [exact El|]. split; [unfold load_filtered; rewrite Hp; exact Elf|]. auto.
Qed.
Print Assumptions c11_same_hierarchy.

Local Open Scope string_scope.
Definition d0 : doc :=
  {| d_species := [ {| sp_name := "A"; sp_genes := [ {| gd_id := "1"; gd_xrefs := [("geneId", "SH")] |};
                                                     {| gd_id := "2"; gd_xrefs := [("geneId", "SH")] |};
                                                     {| gd_id := "3"; gd_xrefs := [] |} ] |} ];
     d_groups := [ IOG (Some "f1") None [IGene "1" None]; IOG (Some "f2") None [IGene "2" None]; IOG (Some "f3") None [IGene "3" None] ] |}.
Example c11_nonvacuous :
  pass1 {| pf_hogs := []; pf_ext := ["SH"]; pf_int := [] |} d0 = Ok (["1"; "2"; "1"; "2"], ["f1"; "f2"]).
Proof. vm_compute. reflexivity. Qed.
