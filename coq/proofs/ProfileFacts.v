(* ProfileFacts.v — the whole-dataset tree profile balances on every branch (C09). *)
From Coq Require Import List Arith Bool String Lia Permutation.
From PyHam Require Import Tax Ortho Mapper Preds Profile.
From PyHam.proofs Require Import TaxFacts MapperFacts ForestFacts ClusterFacts PartitionFacts.
Import ListNotations.

Lemma hogmap_dup_nonempty fo A D : Forall (fun e : ref * list ref => snd e <> []) (hm_dup (hogmap fo A D)).
Proof.
  unfold hogmap. rewrite clusters_unfold.
  pose proof (fold_cstep_nonempty (upmap fo A D) [] [] [] [] (Forall_nil _)) as H.
  destruct (fold_left cstep (upmap fo A D) ([], [], [], [])) as [[[g rt] du] comp]. exact H.
Qed.

Lemma sum_lengths_spec {A B} (d : list (A * list B)) :
  sum_lengths d = list_sum (map (fun e => List.length (snd e)) d).
Proof.
  unfold sum_lengths.
  assert (H : forall n, fold_left (fun n e => n + List.length (snd e)) d n = n + list_sum (map (fun e : A * list B => List.length (snd e)) d)).
  { induction d as [|e r IH]; intros n; simpl; [lia|]. rewrite IH. lia. }
  rewrite H. reflexivity.
Qed.

Lemma genome_nodes_length fo p : List.length (genome_nodes fo p) = List.length (genome_refs fo p).
Proof. unfold genome_refs. now rewrite map_length. Qed.

Lemma tl_neq (p : taxon) a : a :: p <> p.
Proof. intros H. apply (f_equal (@List.length nat)) in H. simpl in H. lia. Qed.

(* the features of a non-root node and their balance *)
Theorem balance t fo a u :
  wfbc t fo = true ->
  exists ft, full_node fo (a :: u) = (a :: u, List.length (genome_refs fo (a :: u)), Some ft) /\
    List.length (genome_refs fo (a :: u)) + ft_lost ft =
      List.length (genome_refs fo u) + ft_gain ft + ft_duplication ft /\
    List.length (genome_refs fo (a :: u)) = ft_retained ft + ft_dupl ft + ft_gain ft /\
    ft_events ft = ft_duplication ft + ft_lost ft + ft_gain ft /\
    ft_retained ft = List.length (hm_retained (hogmap fo u (a :: u))) /\
    ft_gain ft = List.length (hm_gain (hogmap fo u (a :: u))) /\
    ft_lost ft = List.length (hm_loss (hogmap fo u (a :: u))) /\
    ft_duplication ft = hm_ndup (hogmap fo u (a :: u)).
Proof.
  intros Hwf. unfold full_node. cbn [up]. rewrite genome_nodes_length. eexists. split; [reflexivity|].
  cbn [ft_lost ft_gain ft_duplication ft_retained ft_dupl ft_events].
  assert (HAD : u <> a :: u) by (intros E; symmetry in E; revert E; apply tl_neq).
  destruct (sizes t fo u (a :: u) Hwf HAD) as [S1 S2].
  destruct (meaning t fo u (a :: u) Hwf HAD) as (_ & _ & _ & _ & Hn).
  pose proof (sum_minus_one _ (hogmap_dup_nonempty fo u (a :: u))) as Hs.
  rewrite sum_lengths_spec. repeat split; lia.
Qed.

Theorem root_node fo : full_node fo [] = ([], List.length (genome_refs fo []), None).
Proof. unfold full_node. simpl. now rewrite genome_nodes_length. Qed.

Theorem profile_total t fo :
  names_unique t = true ->
  profile_full t fo = Ok (map (fun pn => full_node fo (fst pn)) (all_nodes t)).
Proof. intros H. unfold profile_full. now rewrite H. Qed.

Theorem profile_ambiguous t fo : names_unique t = false -> profile_full t fo = Err KeyError.
Proof. intros H. unfold profile_full. now rewrite H. Qed.
