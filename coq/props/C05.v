(* C05 — a vertical comparison partitions both genomes (nothing missing, nothing twice). *)
From Coq Require Import List Arith Bool String Permutation.
From PyHam Require Import Tax Ortho Loader Mapper Preds Whole.
From PyHam.proofs Require Import PartitionFacts WholeFacts.
Import ListNotations.

(* For every forest aligned with the species tree (wfb: the invariant C02 establishes for loaded
   inputs) and any two distinct taxa A, D: the genes of genome D are, each exactly once, the gained
   ones, the values of RETAINED and the members of the DUPLICATE lists; the genes of genome A are,
   each exactly once, the lost ones, the keys of RETAINED and the keys of DUPLICATE. *)
Theorem c05_partition : forall t fo A D,
  wfbc t fo = true -> A <> D ->
  let m := hogmap fo A D in
  Permutation (genome_refs fo D)
              (hm_gain m ++ map snd (hm_retained m) ++ List.concat (map snd (hm_dup m))) /\
  Permutation (genome_refs fo A)
              (hm_loss m ++ map fst (hm_retained m) ++ map fst (hm_dup m)) /\
  NoDup (genome_refs fo D) /\ NoDup (genome_refs fo A).
Proof. exact partition. Qed.
Print Assumptions c05_partition.

Theorem c05_sizes : forall t fo A D,
  wfbc t fo = true -> A <> D ->
  let m := hogmap fo A D in
  List.length (genome_refs fo D) =
    List.length (hm_gain m) + List.length (hm_retained m) + list_sum (map (fun e => List.length (snd e)) (hm_dup m)) /\
  List.length (genome_refs fo A) =
    List.length (hm_loss m) + List.length (hm_retained m) + List.length (hm_dup m).
Proof. exact sizes. Qed.
Print Assumptions c05_sizes.

(* end to end: for every consistent input (C02: c02_consistent_forest) the document loads and every vertical
   comparison on the loaded forest is such a partition *)
Theorem c05_every_consistent_input : forall t d hs,
  consistent t d hs ->
  exists l, load t d = Ok l /\ forall A D, A <> D ->
    let fo := forest_of l in let m := hogmap fo A D in
    Permutation (genome_refs fo D) (hm_gain m ++ map snd (hm_retained m) ++ List.concat (map snd (hm_dup m))) /\
    Permutation (genome_refs fo A) (hm_loss m ++ map fst (hm_retained m) ++ map fst (hm_dup m)) /\
    NoDup (genome_refs fo D) /\ NoDup (genome_refs fo A).
Proof.
  intros t d hs Hc. destruct (consistent_forest t d hs Hc) as (l & El & Hw & _). exists l. split; [exact El|].
  intros A D HAD. exact (partition t (forest_of l) A D Hw HAD).
Qed.
Print Assumptions c05_every_consistent_input.

(* non-vacuity: a family with a duplication; Mammalia-level genome against a leaf genome *)
Definition m0 : hmeta := {| m_id := None; m_og := None; m_props := []; m_scores := []; m_synth := false |}.
Definition tr : stree :=
  SNode "R" [SNode "X" []; SNode "M" [SNode "E" [SNode "H" []; SNode "P" []]; SNode "C" []]].
Definition fam : hog :=
  HHog 0 [] m0 [(None, HGene "x1" [0]);
                (None, HHog 1 [1] m0 [(Some 0, HHog 2 [0; 1] m0 [(None, HGene "h1" [0; 0; 1])]);
                                      (Some 0, HHog 3 [0; 1] m0 [(None, HGene "h2" [0; 0; 1]); (None, HGene "p2" [1; 0; 1])]);
                                      (None, HGene "c1" [1; 1])])].
Definition fo0 : forest := {| fo_tops := [fam]; fo_singles := [HGene "h9" [0; 0; 1]] |}.
Example c05_nonvacuous :
  wfbc tr fo0 = true /\
  hm_gain (hogmap fo0 [1] [0; 0; 1]) = [RGene "h9"] /\
  hm_dup (hogmap fo0 [1] [0; 0; 1]) = [(RHog 1, [RGene "h1"; RGene "h2"])] /\
  hm_loss (hogmap fo0 [0; 1] [1; 0; 1]) = [RHog 2] /\
  hm_retained (hogmap fo0 [0; 1] [1; 0; 1]) = [(RHog 3, RGene "p2")].
Proof. vm_compute. repeat split; reflexivity. Qed.
