(* Ortho.v — orthoXML documents as the well-nested element tree expat delivers to
   OrthoXMLParser.start/end, and the loaded HOG forest.  Model only: no proofs in this file. *)
From Coq Require Import List Arith Bool String.
From PyHam Require Import Tax.
Import ListNotations.

(* ---------- input document ---------- *)
Record gene_decl := { gd_id : string; gd_xrefs : list (string * string) }.  (* attributes other than id *)
Record species := { sp_name : string; sp_genes : list gene_decl }.

Inductive item :=
| IGene  (id : string) (loft : option string)                 (* <geneRef id= LOFT=> *)
| IOG    (id og : option string) (body : list item)           (* <orthologGroup id= og=> *)
| IPG    (og : option string) (body : list item)              (* <paralogGroup og=> *)
| IProp  (name value : string)                                (* <property name= value=> *)
| IScore (id value : string).                                 (* <score id= value=> *)

Record doc := { d_species : list species; d_groups : list item }.

(* ---------- loaded hierarchy ---------- *)
Record hmeta := {
  m_id : option string;                 (* HOG.hog_id *)
  m_og : option string;                 (* HOG.og *)
  m_props : list (string * string);     (* add_property calls, in order (dict: last wins) *)
  m_scores : list (string * string);    (* score() calls, in order (dict: last wins) *)
  m_synth : bool                        (* created for a level the file skips *)
}.

(* The duplication flag (child.arose_by_duplication) lives on the parent -> child edge:
   Some k = belongs to DuplicationNode number k. *)
Inductive hog :=
| HGene (id : string) (tax : taxon)
| HHog  (oid : nat) (tax : taxon) (meta : hmeta) (kids : list (option nat * hog)).

Definition kid := (option nat * hog)%type.

Definition htax (h : hog) : taxon :=
  match h with HGene _ p => p | HHog _ p _ _ => p end.
Definition hkids (h : hog) : list kid :=
  match h with HGene _ _ => [] | HHog _ _ _ k => k end.

Inductive ref := RGene (id : string) | RHog (oid : nat).
Definition href (h : hog) : ref :=
  match h with HGene g _ => RGene g | HHog o _ _ _ => RHog o end.
Definition ref_eqb (a b : ref) : bool :=
  match a, b with
  | RGene x, RGene y => String.eqb x y
  | RHog x, RHog y => Nat.eqb x y
  | _, _ => false
  end.

Definition flagged (f : option nat) : bool := match f with Some _ => true | None => false end.

(* genes below a node, in visit order (HOG.get_all_descendant_genes) *)
Fixpoint genes_of (h : hog) : list string :=
  match h with
  | HGene g _ => [g]
  | HHog _ _ _ ks => flat_map (fun k => genes_of (snd k)) ks
  end.

(* all HOG nodes below and including (HOG.get_all_descendant_hogs), prefix order *)
Fixpoint hogs_of (h : hog) : list hog :=
  match h with
  | HGene _ _ => []
  | HHog _ _ _ ks => h :: flat_map (fun k => hogs_of (snd k)) ks
  end.

(* every node (genes and HOGs), prefix order *)
Fixpoint all_of (h : hog) : list hog :=
  match h with
  | HGene _ _ => [h]
  | HHog _ _ _ ks => h :: flat_map (fun k => all_of (snd k)) ks
  end.
