(* Nav.v — the traversal helpers of abstractgene.py / genome.py (visit and the four
   get_all_descendant_*, get_top_level_hog, get_at_level, get_ancestral_clustering).
   Model only: no proofs in this file. *)
From Coq Require Import List Arith Bool String.
From PyHam Require Import Tax Ortho Mapper.
Import ListNotations.

Definition desc_genes (h : hog) : list ref := map RGene (genes_of h).
Definition desc_hogs (h : hog) : list ref := map href (hogs_of h).
Definition desc_levels (h : hog) : list taxon := map htax (hogs_of h).

(* genes with their species, visit order *)
Fixpoint gene_nodes (h : hog) : list (string * taxon) :=
  match h with
  | HGene g p => [(g, p)]
  | HHog _ _ _ ks => flat_map (fun k => gene_nodes (snd k)) ks
  end.

(* dict.setdefault(species, []).append(gene) *)
Fixpoint cluster_add (p : taxon) (g : string) (d : list (taxon * list string)) : list (taxon * list string) :=
  match d with
  | [] => [(p, [g])]
  | (p', gs) :: r => if taxon_eqb p p' then (p', gs ++ [g]) :: r else (p', gs) :: cluster_add p g r
  end.
Definition genes_by_species (h : hog) : list (taxon * list string) :=
  fold_left (fun d gp => cluster_add (snd gp) (fst gp) d) (gene_nodes h) [].

Definition contains (r : ref) (h : hog) : bool := existsb (fun x => ref_eqb r (href x)) (all_of h).

(* get_top_level_hog: the root above a node *)
Definition top_level_of (fo : forest) (r : ref) : option hog :=
  find (contains r) (fo_roots fo).

(* get_at_level(self, genome) *)
Definition get_at_level (fo : forest) (self : ref) (g : taxon) : result (list ref) :=
  match top_level_of fo self with
  | None => Err Unmodelled
  | Some (HGene _ _) => Err AttributeError          (* a singleton gene has no visit() *)
  | Some tl =>
      let rl := map href (filter (fun x => taxon_eqb (htax x) g) (all_of tl)) in
      match rl with
      | [] => Err KeyError
      | _ => if mem_ref self rl then Err KeyError else Ok rl
      end
  end.

(* AncestralGenome.get_ancestral_clustering *)
Definition ancestral_clustering (fo : forest) (A : taxon) : list (ref * list string) :=
  map (fun x => (href (fst (fst x)), genes_of (fst (fst x)))) (genome_nodes fo A).
