(* MapperFacts.v — the up-walk, its top-down characterisation, and composition along a lineage. *)
From Coq Require Import List Arith Bool String Lia Permutation.
From PyHam Require Import Tax Ortho Mapper Preds.
From PyHam.proofs Require Import TaxFacts.
Import ListNotations.

(* ---------- induction principle for the nested hog type ---------- *)
Fixpoint hog_ind' (P : hog -> Prop)
  (Hg : forall g p, P (HGene g p))
  (Hh : forall o p m ks, Forall (fun k => P (snd k)) ks -> P (HHog o p m ks))
  (h : hog) : P h :=
  match h with
  | HGene g p => Hg g p
  | HHog o p m ks =>
      Hh o p m ks ((fix go (l : list kid) : Forall (fun k => P (snd k)) l :=
                      match l with
                      | [] => Forall_nil _
                      | k :: r => Forall_cons k (hog_ind' P Hg Hh (snd k)) (go r)
                      end) ks)
  end.

Lemma map_flat_map_Forall {X Y Z} (g : Y -> Z) (f1 : X -> list Y) (f2 : X -> list Z) (l : list X) :
  Forall (fun k => map g (f1 k) = f2 k) l -> map g (flat_map f1 l) = flat_map f2 l.
Proof. induction 1 as [|k r Hk Hr IH]; simpl; [reflexivity|]. now rewrite map_app, Hk, IH. Qed.

Lemma flat_map_Forall_ext {X Y} (f1 f2 : X -> list Y) (l : list X) :
  Forall (fun k => f1 k = f2 k) l -> flat_map f1 l = flat_map f2 l.
Proof. induction 1 as [|k r Hk Hr IH]; simpl; [reflexivity|]. now rewrite Hk, IH. Qed.

(* ---------- walk ---------- *)
Lemma walk_or A a b ch : walk A (a || b) ch = (fst (walk A b ch), a || snd (walk A b ch)).
Proof.
  revert b; induction ch as [|[h f] r IH]; intros b; simpl; [reflexivity|].
  destruct (taxon_eqb (htax h) A); [reflexivity|].
  rewrite <- orb_assoc. apply IH.
Qed.

(* the walk result of a child from the walk result of its parent *)
Definition step_w (A : taxon) (h : hog) (w : option hog * bool) (fc : bool) : option hog * bool :=
  if taxon_eqb (htax h) A then (Some h, fc) else (fst w, fc || snd w).

Lemma walk_cons A h fh ch fc : walk A fc ((h, fh) :: ch) = step_w A h (walk A fh ch) fc.
Proof. unfold step_w. simpl. destruct (taxon_eqb (htax h) A); [reflexivity|]. apply walk_or. Qed.

(* top-down computation of the up-map: w is the walk result of h itself *)
Fixpoint td (A D : taxon) (w : option hog * bool) (h : hog) : list (hog * (option hog * bool)) :=
  (if taxon_eqb (htax h) D then [(h, w)] else []) ++
  match h with
  | HGene _ _ => []
  | HHog _ _ _ ks => flat_map (fun k => td A D (step_w A h w (flagged (fst k))) (snd k)) ks
  end.

Definition entry_walk (A : taxon) (x : hog * bool * list anc) : hog * (option hog * bool) :=
  match x with (hy, fl, ch) => (hy, walk A fl ch) end.

Lemma at_level_td A D h : forall ch f,
  map (entry_walk A) (at_level D ch f h) = td A D (walk A f ch) h.
Proof.
  induction h as [g p|o p m ks IH] using hog_ind'; intros ch f.
  - simpl. destruct (taxon_eqb p D); reflexivity.
  - cbn [at_level td]. rewrite map_app. f_equal.
    + destruct (taxon_eqb _ D); reflexivity.
    + apply map_flat_map_Forall. eapply Forall_impl; [|exact IH]. intros k Hk. cbv beta in Hk.
      rewrite Hk. f_equal. apply walk_cons.
Qed.

Lemma upmap_td fo A D : upmap fo A D = flat_map (td A D (None, false)) (fo_roots fo).
Proof.
  unfold upmap, genome_nodes. fold (entry_walk A).
  induction (fo_roots fo) as [|h r IH]; [reflexivity|]. simpl. rewrite map_app, IH. f_equal.
  apply (at_level_td A D h [] false).
Qed.

(* ---------- chains under the alignment invariant ---------- *)
Fixpoint chain_ok (c : taxon) (ch : list anc) : Prop :=
  match ch with
  | [] => True
  | (h, _) :: r => c <> [] /\ htax h = tl c /\ chain_ok (tl c) r
  end.

(* the first ancestor at level B: its flag and the chain above it *)
Fixpoint after (B : taxon) (ch : list anc) : option (hog * bool * list anc) :=
  match ch with
  | [] => None
  | (h, f) :: r => if taxon_eqb (htax h) B then Some (h, f, r) else after B r
  end.

Lemma walk_after_some B f ch y f1 :
  walk B f ch = (Some y, f1) -> exists fy rest, after B ch = Some (y, fy, rest).
Proof.
  revert f; induction ch as [|[h fh] r IH]; intros f; simpl; [discriminate|].
  destruct (taxon_eqb (htax h) B).
  - intros H. inversion H; subst. eauto.
  - apply IH.
Qed.

Lemma walk_none_flag A B f ch f1 :
  walk B f ch = (None, f1) -> (forall h fh, In (h, fh) ch -> htax h <> A) -> walk A f ch = (None, f1).
Proof.
  revert f; induction ch as [|[h fh] r IH]; intros f Hw Hno; simpl in *; [exact Hw|].
  destruct (taxon_eqb (htax h) B); [discriminate|].
  assert (Hn : taxon_eqb (htax h) A = false) by (apply taxon_eqb_neq; eapply Hno; left; reflexivity).
  rewrite Hn. apply IH; auto. intros h' fh' Hin. eapply Hno. right. exact Hin.
Qed.

(* Composition: A above B above C on one lineage (C = sB ++ B, B = sA ++ A).
   The walk to A factors through the ancestor at B; when the family does not reach B, it does not
   reach A either and both walks return the same flag. *)
Lemma walk_compose A B sA : B = sA ++ A -> sA <> [] ->
  forall ch sB f, sB <> [] -> chain_ok (sB ++ B) ch ->
  match walk B f ch with
  | (Some y, f1) =>
      exists fy rest, after B ch = Some (y, fy, rest) /\
                      walk A f ch = (fst (walk A fy rest), f1 || snd (walk A fy rest))
  | (None, f1) => walk A f ch = (None, f1)
  end.
Proof.
  intros HB HsA. induction ch as [|[h fh] r IH]; intros sB f HsB Hok; [reflexivity|].
  destruct Hok as (_ & Ht & Hr). destruct sB as [|a sB']; [contradiction|]. simpl in Ht, Hr.
  simpl. destruct sB' as [|b s'].
  - simpl in Ht. rewrite Ht, taxon_eqb_refl.
    assert (HBA : taxon_eqb B A = false) by (apply taxon_eqb_neq; subst B; apply app_neq_self; auto).
    rewrite HBA. exists fh, r. split; [reflexivity|]. apply walk_or.
  - assert (H1 : taxon_eqb (htax h) B = false).
    { apply taxon_eqb_neq. rewrite Ht. apply app_neq_self. discriminate. }
    assert (H2 : taxon_eqb (htax h) A = false).
    { apply taxon_eqb_neq. rewrite Ht, HB, app_assoc. apply app_neq_self. discriminate. }
    rewrite H1, H2. apply (IH (b :: s') (f || fh)); [discriminate|exact Hr].
Qed.

(* ---------- consequences of the alignment predicate ---------- *)
Lemma child_of_spec c p : child_of c p = true <-> c <> [] /\ tl c = p.
Proof.
  destruct c as [|a q]; simpl.
  - split; [discriminate|]. intros [H _]. contradiction.
  - rewrite taxon_eqb_eq. split; [intros ->; split; [discriminate|reflexivity]|intros [_ H]; exact H].
Qed.

Lemma wf_node_inv t o p m ks :
  wf_node t (HHog o p m ks) = true ->
  valid t p = true /\ is_leaf t p = false /\ ks <> [] /\
  Forall (fun k => child_of (htax (snd k)) p = true) ks /\
  siblings_ok ks = true /\ Forall (fun k => dup_ok ks k = true) ks /\
  Forall (fun k => wf_node t (snd k) = true) ks.
Proof.
  cbn [wf_node]. rewrite !andb_true_iff, !negb_true_iff, !forallb_forall.
  intros ((((((Hv & Hl) & Hne) & Hc) & Hs) & Hd) & Hw).
  repeat split; auto; try (apply Forall_forall; auto).
  destruct ks; [discriminate|discriminate].
Qed.

(* chains of enumerated nodes are aligned *)
Lemma at_level_chain_ok t D h : wf_node t h = true -> forall ch0 f0 x fx ch,
  chain_ok (htax h) ch0 -> In (x, fx, ch) (at_level D ch0 f0 h) -> chain_ok (htax x) ch.
Proof.
  induction h as [g p|o p m ks IH] using hog_ind'; intros Hwf ch0 f0 x fx ch Hok Hin.
  - simpl in Hin. rewrite app_nil_r in Hin. destruct (taxon_eqb p D); [|contradiction].
    destruct Hin as [Hin|[]]. inversion Hin; subst. exact Hok.
  - apply wf_node_inv in Hwf as (_ & _ & _ & Hc & _ & _ & Hw).
    cbn [at_level] in Hin. apply in_app_or in Hin as [Hin|Hin].
    + destruct (taxon_eqb _ D); [|contradiction]. destruct Hin as [Hin|[]]. inversion Hin; subst. exact Hok.
    + apply in_flat_map in Hin as (k & Hk & Hin).
      rewrite Forall_forall in IH, Hc, Hw. eapply (IH k Hk (Hw k Hk)); [|exact Hin].
      specialize (Hc k Hk). apply child_of_spec in Hc as [Hne Htl]. simpl. repeat split; auto.
      simpl in Hok. rewrite Htl. exact Hok.
Qed.

(* the ancestor found on a chain is itself enumerated, with the rest of the chain *)
Lemma at_level_after D B h : forall ch0 f0 x fx ch,
  In (x, fx, ch) (at_level D ch0 f0 h) -> forall y fy rest, after B ch = Some (y, fy, rest) ->
  after B ch0 = Some (y, fy, rest) \/ In (y, fy, rest) (at_level B ch0 f0 h).
Proof.
  induction h as [g p|o p m ks IH] using hog_ind'; intros ch0 f0 x fx ch Hin y fy rest Haf.
  - simpl in Hin. rewrite app_nil_r in Hin. destruct (taxon_eqb p D); [|contradiction].
    destruct Hin as [Hin|[]]. inversion Hin; subst. left. exact Haf.
  - cbn [at_level] in Hin. apply in_app_or in Hin as [Hin|Hin].
    + destruct (taxon_eqb _ D); [|contradiction]. destruct Hin as [Hin|[]]. inversion Hin; subst. left. exact Haf.
    + apply in_flat_map in Hin as (k & Hk & Hin). rewrite Forall_forall in IH.
      destruct (IH k Hk _ _ _ _ _ Hin _ _ _ Haf) as [H|H].
      * simpl in H. destruct (taxon_eqb p B) eqn:E.
        -- inversion H; subst. right. cbn [at_level]. apply in_or_app. left.
           cbn [htax]. rewrite E. left. reflexivity.
        -- left. exact H.
      * right. cbn [at_level]. apply in_or_app. right. apply in_flat_map. exists k. split; auto.
Qed.

Lemma wfb_core t fo : wfb t fo = true -> wfbc t fo = true.
Proof. unfold wfb. intros H. apply andb_true_iff in H as [H _]. exact H. Qed.

Lemma wfb_roots t fo : wfbc t fo = true -> Forall (fun h => wf_node t h = true) (fo_roots fo).
Proof.
  unfold wfbc. rewrite !andb_true_iff. intros ((((H & _) & _) & _) & _).
  apply Forall_forall. apply forallb_forall. exact H.
Qed.

Theorem compose_forest t fo A B C sA sB c fc ch :
  wfbc t fo = true -> B = sA ++ A -> sA <> [] -> C = sB ++ B -> sB <> [] ->
  In (c, fc, ch) (genome_nodes fo C) ->
  match walk B fc ch with
  | (Some y, f1) =>
      exists fy chy, In (y, fy, chy) (genome_nodes fo B) /\
                     walk A fc ch = (fst (walk A fy chy), f1 || snd (walk A fy chy))
  | (None, f1) => walk A fc ch = (None, f1)
  end.
Proof.
  intros Hwf HB HsA HC HsB Hin. unfold genome_nodes in Hin. apply in_flat_map in Hin as (r & Hr & Hin).
  pose proof (wfb_roots _ _ Hwf) as Hroots. rewrite Forall_forall in Hroots.
  assert (Hok : chain_ok (htax c) ch).
  { eapply at_level_chain_ok; [apply Hroots; exact Hr| |exact Hin]. exact I. }
  assert (Hc : htax c = C).
  { clear - Hin. revert Hin. generalize (@nil anc) false. induction r as [g p|o p m ks IH] using hog_ind'; intros ch0 f0 Hin.
    - simpl in Hin. rewrite app_nil_r in Hin. destruct (taxon_eqb p C) eqn:E; [|contradiction].
      destruct Hin as [Hin|[]]. inversion Hin; subst. now apply taxon_eqb_eq.
    - cbn [at_level] in Hin. apply in_app_or in Hin as [Hin|Hin].
      + cbn [htax] in Hin. destruct (taxon_eqb p C) eqn:E; [|contradiction].
        destruct Hin as [Hin|[]]. inversion Hin; subst. now apply taxon_eqb_eq.
      + apply in_flat_map in Hin as (k & Hk & Hin). rewrite Forall_forall in IH. eapply IH; eauto. }
  rewrite Hc, HC in Hok.
  pose proof (walk_compose A B sA HB HsA ch sB fc HsB Hok) as Hw.
  destruct (walk B fc ch) as [[y|] f1] eqn:Ew; [|exact Hw].
  destruct Hw as (fy & rest & Haf & Hw). exists fy, rest. split; [|exact Hw].
  destruct (at_level_after C B r [] false c fc ch Hin y fy rest Haf) as [H|H]; [discriminate|].
  unfold genome_nodes. apply in_flat_map. exists r. split; auto.
Qed.
