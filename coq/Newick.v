(* Newick.v — a reader for the Newick text Taxonomy stores (ete3 format 8: every node named, no
   lengths), over the grammar  node ::= name | "(" node ("," node)* ")" name.
   Recursion is on explicit fuel; running out of fuel is an error value (None).
   Model only: no proofs in this file. *)
From Coq Require Import List Arith Bool String Ascii.
From PyHam Require Import Tax.
Import ListNotations.

Definition is_delim (c : ascii) : bool :=
  Ascii.eqb c "("%char || Ascii.eqb c ")"%char || Ascii.eqb c ","%char || Ascii.eqb c ";"%char.

(* the longest prefix without delimiter, and the rest *)
Fixpoint take_name (s : list ascii) : list ascii * list ascii :=
  match s with
  | [] => ([], [])
  | c :: r => if is_delim c then ([], s) else let (n, r') := take_name r in (c :: n, r')
  end.

Fixpoint parse_node (fuel : nat) (s : list ascii) {struct fuel} : option (stree * list ascii) :=
  match fuel with
  | O => None
  | S f =>
      match s with
      | c :: r =>
          if Ascii.eqb c "("%char then
            match parse_kids f r with
            | Some (ks, r') => let (n, r'') := take_name r' in Some (SNode (string_of_list_ascii n) ks, r'')
            | None => None
            end
          else let (n, r0) := take_name s in Some (SNode (string_of_list_ascii n) [], r0)
      | [] => Some (SNode EmptyString [], [])
      end
  end
with parse_kids (fuel : nat) (s : list ascii) {struct fuel} : option (list stree * list ascii) :=
  match fuel with
  | O => None
  | S f =>
      match parse_node f s with
      | Some (k, c :: r) =>
          if Ascii.eqb c ","%char then
            match parse_kids f r with
            | Some (ks, r') => Some (k :: ks, r')
            | None => None
            end
          else if Ascii.eqb c ")"%char then Some ([k], r)
          else None
      | _ => None
      end
  end.

(* fuel derived from the length of the text: every call consumes a character or is followed by one *)
Definition parse (s : string) : option stree :=
  let l := list_ascii_of_string s in
  match parse_node (S (2 * List.length l)) l with
  | Some (t, [";"%char]) => Some t
  | _ => None
  end.
