(* Profile.v — TreeProfile.compute_tree_profile_full and computeTP_hog (TreeProfile.py) as
   functions of the species tree and the loaded forest.  Behaviour modelled is that of /repo with
   finding F4 repaired (the root genome is created on demand like every other one).
   Model only: no proofs in this file. *)
From Coq Require Import List Arith Bool String.
From PyHam Require Import Tax Ortho Mapper.
Import ListNotations.

Record feat := {
  ft_retained : nat; ft_dupl : nat; ft_gain : nat; ft_lost : nat;
  ft_duplication : nat; ft_events : nat
}.

(* one annotated node: path, nbr_genes, the branch features (None at the root) *)
Definition pnode := (taxon * nat * option feat)%type.

Definition sum_lengths {A B} (d : list (A * list B)) : nat :=
  fold_left (fun n e => n + List.length (snd e)) d 0.

Definition full_node (fo : forest) (p : taxon) : pnode :=
  let nbr := List.length (genome_nodes fo p) in
  match up p with
  | None => (p, nbr, None)
  | Some u =>
      let m := hogmap fo u p in
      (p, nbr, Some {| ft_retained := List.length (hm_retained m);
                       ft_dupl := sum_lengths (hm_dup m);
                       ft_gain := List.length (hm_gain m);
                       ft_lost := List.length (hm_loss m);
                       ft_duplication := hm_ndup m;
                       ft_events := hm_ndup m + List.length (hm_loss m) + List.length (hm_gain m) |})
  end.

(* every node is looked up by name (search_nodes): an ambiguous name is a KeyError *)
Definition names_unique (t : stree) : bool :=
  forallb (fun pn => match search t (sname (snd pn)) with [_] => true | _ => false end) (all_nodes t).

Definition profile_full (t : stree) (fo : forest) : result (list pnode) :=
  if names_unique t then Ok (map (fun pn => full_node fo (fst pn)) (all_nodes t))
  else Err KeyError.

(* ---------- per-family profile ---------- *)
Fixpoint dedup_ref (l : list ref) : list ref :=
  match l with
  | [] => []
  | r :: rest => if mem_ref r rest then dedup_ref rest else r :: dedup_ref rest
  end.

Record hfeat := {
  hf_retained : nat; hf_dupl : nat; hf_lost : nat; hf_duplication : nat; hf_events : nat
}.
Definition hnode := (taxon * nat * option hfeat)%type.

Definition has_child_at (lvl : taxon) (h : hog) : bool :=
  existsb (fun k => taxon_eqb (htax (snd k)) lvl) (hkids h).

Definition hog_node (h : hog) (lvl : taxon) : hnode :=
  let here := at_level lvl [] false h in
  if taxon_eqb lvl (htax h) then (lvl, List.length here, None)
  else
    let fl := filter (fun x => snd (fst x)) here in
    let cpt_dupl := List.length fl in
    let cpt_ident := List.length here - cpt_dupl in
    let parents := dedup_ref (flat_map (fun x => match snd x with
                                                 | (pa, _) :: _ => [href pa]
                                                 | [] => []
                                                 end) fl) in
    let ups := match up lvl with Some u => at_level u [] false h | None => [] end in
    let cpt_lost := List.length (filter (fun x => negb (has_child_at lvl (fst (fst x)))) ups) in
    let cpt_duplication := cpt_dupl - List.length parents in
    (lvl, List.length here,
     Some {| hf_retained := cpt_ident; hf_dupl := cpt_dupl; hf_lost := cpt_lost;
             hf_duplication := cpt_duplication; hf_events := cpt_lost + cpt_duplication |}).

Definition profile_hog (t : stree) (h : hog) : option (list hnode) :=
  match sub t (htax h) with
  | Some s => Some (map (fun pn => hog_node h (fst pn)) (nodes (htax h) s))
  | None => None
  end.
