(* C03 — levels and duplication events are reconstructed by the MRCA rule. *)
From Coq Require Import List Arith Bool String Permutation.
From PyHam Require Import Tax Ortho Loader Mapper Preds Hist.
From PyHam.proofs Require Import LoaderFacts ExplicitFacts.
Import ListNotations.

(* PARTIAL (see DESIGN.md, C03): "for fully explicit encodings the loaded hierarchy equals the simulated
   true history" is proved, for all trees and all well-formed histories, without bound.  `matches h x`
   says: x sits at the taxon of h and its children are, up to order, one unflagged child per plain
   lineage and one duplication node (flag shared by >= 2 children) per duplication of h, each child
   matching the corresponding member recursively.  The element-level form (c03_member) holds for a
   group at any depth, inside or outside a paralogGroup.
   The clauses about encodings with omitted levels (materialised single-child HOGs), copies several
   levels below their group and maximal nests of paralogGroups are checked on the implementation
   against the generating history (oracle) and tied to the model by correspondence, not proved. *)
Theorem c03_explicit : forall t d hs,
  Forall (species_sane t) (d_species d) -> NoDup (declared d) -> d_groups d = map enc hs ->
  (forall genes, map fst genes = declared d ->
     (forall g p, In (g, p) genes -> exists sp, In sp (d_species d) /\ In g (map gd_id (sp_genes sp)) /\ species_resolves t sp p) ->
     Forall (fun h => WFh t genes h /\ is_group h) hs) ->
  exists l, load t d = Ok l /\
    Forall2 (fun h top => matches h (snd top) /\ htax (snd top) = xtax h /\ wf_node t (snd top) = true) hs (l_tops l).
Proof. exact explicit_load. Qed.
Print Assumptions c03_explicit.

Theorem c03_member : forall t genes h,
  WFh t genes h ->
  forall pg fr s, dups_dom s ->
    exists x s', eval_item t genes (enc h) pg fr s = Ok (add_kids fr [(pg, x)], s') /\
                 matches h x /\ (htax x = xtax h /\ wf_node t x = true) /\ ext s s' /\ dups_dom s'.
Proof. exact enc_evaluates. Qed.
Print Assumptions c03_member.

(* the level rule itself, for the children of one group: all children at child taxa of p (as in every
   consistent input once the children are closed) gives level p - the MRCA when they sit in several
   child clades, one level above when they share a taxon *)
Theorem c03_level_rule : forall p l,
  l <> [] -> Forall (is_child_of p) l ->
  match dedup_tax l with
  | [] => False
  | x :: more => match more with [] => up x = Some p | _ => fold_left lcs more x = p end
  end.
Proof. exact level_of_children. Qed.
Print Assumptions c03_level_rule.

Local Open Scope string_scope.
Definition tr : stree :=
  SNode "R" [SNode "X" []; SNode "M" [SNode "E" [SNode "H" []; SNode "P" []]; SNode "C" []]].
Definition h0 : hist :=
  XH [] [[XG "x1" [0]];
         [XH [1] [[XH [0; 1] [[XG "h1" [0; 0; 1]]; [XG "p1" [1; 0; 1]]]; XH [0; 1] [[XG "h2" [0; 0; 1]]]];
                  [XG "c1" [1; 1]]]]].
Definition doc0 : doc :=
  {| d_species := [ {| sp_name := "H"; sp_genes := [ {| gd_id := "h1"; gd_xrefs := [] |}; {| gd_id := "h2"; gd_xrefs := [] |} ] |};
                    {| sp_name := "P"; sp_genes := [ {| gd_id := "p1"; gd_xrefs := [] |} ] |};
                    {| sp_name := "C"; sp_genes := [ {| gd_id := "c1"; gd_xrefs := [] |} ] |};
                    {| sp_name := "X"; sp_genes := [ {| gd_id := "x1"; gd_xrefs := [] |} ] |} ];
     d_groups := [enc h0] |}.
Example c03_nonvacuous :
  match load tr doc0 with
  | Ok l => map (fun top => (htax (snd top), wf_node tr (snd top), List.length (hogs_of (snd top)))) (l_tops l) = [([], true, 4)]
  | Err _ => False
  end.
Proof. vm_compute. reflexivity. Qed.
