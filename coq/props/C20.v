(* C20 — dangling references are rejected, never silently dropped. *)
From Coq Require Import List Arith Bool String Permutation.
From PyHam Require Import Tax Ortho Loader Filter.
From PyHam.proofs Require Import LoaderFacts.
Import ListNotations.
Local Open Scope string_scope.
Local Open Scope list_scope.

(* A successful load implies: every species block names exactly one node of the tree and it is a leaf;
   every geneRef, at any depth, names a declared gene; no orthologGroup and no paralogGroup, at any
   depth, is without a member (item_ok; paralogGroups since the repair of finding F9). *)
Theorem c20_success_means_sound : forall t d l,
  load t d = Ok l ->
  (forall sp, In sp (d_species d) -> exists p, species_resolves t sp p) /\
  (forall g, In g (flat_map refs_of (d_groups d)) -> In g (declared d)) /\
  Forall item_ok (d_groups d).
Proof.
  intros t d l H. split; [|split].
  - apply load_spec in H as (_ & _ & H3 & _). exact H3.
  - eapply refs_declared; eauto.
  - eapply groups_ok; eauto.
Qed.
Print Assumptions c20_success_means_sound.

(* Equivalently: an unknown species, an internal node named as species (or an ambiguous name), a
   geneRef to an undeclared gene, or an empty orthologGroup or paralogGroup - wherever it occurs - makes the load
   return an error; no partially built analysis is returned (the result is Err, not a state). *)
Theorem c20_rejects : forall t d,
  (exists sp, In sp (d_species d) /\ forall p, ~ species_resolves t sp p) \/
  (exists g, In g (flat_map refs_of (d_groups d)) /\ ~ In g (declared d)) \/
  ~ Forall item_ok (d_groups d) ->
  exists e, load t d = Err e.
Proof. exact fault_rejected. Qed.
Print Assumptions c20_rejects.

(* on a successful load nothing declared or referenced has been dropped *)
Theorem c20_no_drop : forall t d l,
  load t d = Ok l ->
  map fst (l_genes l) = declared d /\ Forall2 (top_ok (l_genes l)) (d_groups d) (l_tops l).
Proof. intros t d l H. apply load_spec in H as (H1 & _ & _ & _ & H5). auto. Qed.
Print Assumptions c20_no_drop.

Definition tr : stree :=
  SNode "R" [SNode "X" []; SNode "M" [SNode "E" [SNode "H" []; SNode "P" []]; SNode "C" []]].
Definition mk (sp : string) (groups : list item) : doc :=
  {| d_species := [ {| sp_name := sp; sp_genes := [ {| gd_id := "h1"; gd_xrefs := [] |}; {| gd_id := "h2"; gd_xrefs := [] |} ] |} ];
     d_groups := groups |}.
Example c20_nonvacuous :
  (exists l, load tr (mk "H" [IOG (Some "f") None [IGene "h1" None; IGene "h2" None]]) = Ok l) /\
  load tr (mk "Nope" [IOG (Some "f") None [IGene "h1" None; IGene "h2" None]]) = Err KeyError /\
  load tr (mk "E" [IOG (Some "f") None [IGene "h1" None; IGene "h2" None]]) = Err TypeError /\
  load tr (mk "H" [IOG (Some "f") None [IGene "h1" None; IGene "zz" None]]) = Err KeyError /\
  load tr (mk "H" [IOG (Some "f") None [IGene "h1" None; IOG (Some "g") None [IProp "a" "b"]]]) = Err ValueError /\
  load tr (mk "H" [IOG (Some "f") None [IGene "h1" None; IPG None []]]) = Err ValueError /\
  load tr (mk "H" [IOG (Some "f") None [IPG None [IGene "h1" None; IGene "h2" None; IPG None []]]]) = Err ValueError.
Proof. vm_compute. repeat split; try reflexivity. eexists. reflexivity. Qed.

(* ---------- species_resolve_mode="OMA" (Oma.v) ---------- *)
From PyHam Require Import Oma.
From PyHam.proofs Require Import OmaFacts.

(* a successful OMA-mode load: every species block is attached to a leaf - the named node itself, or,
   when the name is an internal node, its only code-named child *)
Theorem c20_oma_success_means_sound : forall t d l,
  load_oma t d = Ok l -> forall sp, In sp (d_species d) -> exists q, oma_resolves t sp q.
Proof. exact oma_success_means_sound. Qed.
Print Assumptions c20_oma_success_means_sound.

(* an internal node named as a species is rejected unless it has exactly one code-named child and
   that child is a leaf *)
Theorem c20_oma_internal_rejected : forall t d sp p,
  In sp (d_species d) -> search t (sp_name sp) = [p] -> is_leaf t p = false ->
  (forall s k, sub t p = Some s -> code_kids 0 (skids s) = [k] -> is_leaf t (k :: p) = false) ->
  exists e, load_oma t d = Err e.
Proof. exact oma_internal_rejected. Qed.
Print Assumptions c20_oma_internal_rejected.

(* otherwise OMA mode is the plain load of the document with the species blocks renamed to the
   leaves they are attached to - so every other theorem about `load` applies to it *)
Theorem c20_oma_is_plain_load : forall t d,
  Forall (oma_names_ok t) (d_species d) -> load_oma t d = load t (oma_doc t d).
Proof. exact load_oma_plain. Qed.
Print Assumptions c20_oma_is_plain_load.

Theorem c20_oma_leaves_unchanged : forall t d,
  (forall sp, In sp (d_species d) -> forall p, search t (sp_name sp) = [p] -> is_leaf t p = true) ->
  load_oma t d = load t d.
Proof. exact load_oma_leaves. Qed.
Print Assumptions c20_oma_leaves_unchanged.

Definition tro : stree :=
  SNode "R" [SNode "X" []; SNode "Homo" [SNode "HUMAN" []]; SNode "Pan" [SNode "PANTR" []; SNode "PANPA" []]].
Example c20_oma_nonvacuous :
  (exists l, load_oma tro (mk "Homo" [IOG (Some "f") None [IGene "h1" None; IGene "h2" None]]) = Ok l) /\
  load tro (mk "Homo" [IOG (Some "f") None [IGene "h1" None; IGene "h2" None]]) = Err TypeError /\
  load_oma tro (mk "Pan" [IOG (Some "f") None [IGene "h1" None; IGene "h2" None]]) = Err TypeError /\
  load_oma tro (mk "R" [IOG (Some "f") None [IGene "h1" None; IGene "h2" None]]) = Err TypeError.
Proof. vm_compute. repeat split; try reflexivity. eexists. reflexivity. Qed.
