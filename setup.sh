#!/bin/sh
# builds the Coq development (full .vo build), extracts the model and compiles the driver
set -e
HERE="$(cd "$(dirname "$0")" && pwd)"
cd "$HERE/coq"
coq_makefile -f _CoqProject -o Makefile >/dev/null
timeout 3000 make -j16
cd "$HERE/driver"
ocamlfind ocamlopt -O2 -w -a model.mli model.ml driver.ml -o driver
echo setup ok
