(* CrossFacts.v — in an aligned hierarchy no parent -> child link skips a level, so the family lineages crossing a
   taxon are exactly the HOGs placed there (C04: ancestral gene count = lineages crossing the taxon). *)
From Coq Require Import List Arith Bool String Lia.
From PyHam Require Import Tax Ortho Loader Mapper Preds.
From PyHam.proofs Require Import TaxFacts MapperFacts AdditiveFacts.
Import ListNotations.

Lemma no_node_between p b T : strictly_between p T (b :: p) = false.
Proof.
  unfold strictly_between.
  destruct (anc_or_self p T) eqn:E1; [|reflexivity]. destruct (taxon_eqb p T) eqn:E2; [reflexivity|].
  destruct (anc_or_self T (b :: p)) eqn:E3; [|reflexivity]. destruct (taxon_eqb T (b :: p)) eqn:E4; [reflexivity|]. exfalso.
  apply anc_or_self_iff in E1 as (s1 & ->). apply anc_or_self_iff in E3 as (s2 & E3).
  apply taxon_eqb_neq in E2, E4.
  assert (L : List.length (b :: p) = List.length (s2 ++ s1 ++ p)) by (rewrite E3; reflexivity).
  cbn [List.length] in L. rewrite !app_length in L.
  destruct s1 as [|x s1]; [apply E2; reflexivity|]. destruct s2 as [|y s2]; [apply E4; rewrite E3; reflexivity|].
  cbn [List.length] in L. lia.
Qed.

Lemma list_sum_zero l : Forall (fun n => n = 0) l -> list_sum l = 0.
Proof. induction 1 as [|n l Hn _ IH]; simpl; [reflexivity|]. lia. Qed.

Theorem aligned_no_skip t T h : wf_node t h = true -> skips T h = 0.
Proof.
  induction h as [g p|o p m ks IH] using hog_ind'; intros Hwf; [reflexivity|].
  cbn [skips]. apply list_sum_zero. apply Forall_forall. intros n Hn. apply in_map_iff in Hn as (k & <- & Hk).
  destruct (child_tax t (HHog o p m ks) k Hwf Hk) as (b & Eb). cbn [htax] in Eb. rewrite Eb, no_node_between.
  apply wf_node_inv in Hwf as (_ & _ & _ & _ & _ & _ & Hw). rewrite Forall_forall in IH, Hw. rewrite (IH k Hk (Hw k Hk)). reflexivity.
Qed.

Theorem aligned_crossing t T h :
  wf_node t h = true -> crossing T h = List.length (filter (fun x => taxon_eqb (htax x) T) (hogs_of h)).
Proof. intros Hwf. unfold crossing. rewrite (aligned_no_skip t T h Hwf). apply Nat.add_0_r. Qed.

(* a link that does skip a level is counted *)
Lemma skip_counted o p m f c T : strictly_between p T (htax c) = true -> 1 <= skips T (HHog o p m [(f, c)]).
Proof. intros H. cbn [skips map list_sum fold_right snd]. rewrite H. lia. Qed.
